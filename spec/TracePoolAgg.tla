---------------------------- MODULE TracePoolAgg ----------------------------
(***************************************************************************)
(* Trace specification of PoolAgg.tla (M1): REAL engine.Engine runs with   *)
(* the real phout / jsonlines aggregators behind mock guns, recorded by    *)
(* `vdrive agg` (modes engine / cancel / provfail).  The trace merges      *)
(*   - the report events of the guns:  Report (before the call),           *)
(*     ReportRet (after Aggregator.Report returned),                       *)
(*   - the line events of the recording sink (TraceAggregator.tla),        *)
(*   - the engine's own life-cycle hooks (core/engine/verif_on.go, written *)
(*     by the await goroutine itself): AwaitStart, AwaitInstance,          *)
(*     AllInstancesFinished (written BEFORE runCancel()), AwaitProvider,   *)
(*     AwaitAggregator, ErrForwarded/ErrSuppressed, PoolReturn (written    *)
(*     BEFORE the deferred cancel of the pool context), WaitDone.          *)
(* All events go through one mutex-serialised writer, so the order of the  *)
(* trace is consistent with happens-before.                                *)
(*                                                                         *)
(* Everything TraceAggregator.tla checks is checked (its actions are       *)
(* re-used unchanged); in addition, PoolAgg's properties on what is        *)
(* observable:                                                             *)
(*   AggCancelAfterAllAwaited   at AllInstancesFinished every started      *)
(*       instance was awaited, no Report call is in flight, and no Report  *)
(*       is ever made after it;                                            *)
(*   the aggregator returns only after AllInstancesFinished or after a     *)
(*       stop from outside; WaitDone only after the aggregator was         *)
(*       awaited and its sink closed; nothing reaches the sink later;      *)
(*   which reports may be lost when the run is stopped from outside        *)
(*       (Cancel, PoolReturn with an error): none whose Report call had    *)
(*       returned before the stop - for phout each of them must be a line, *)
(*       for jsonlines the unwritten ones must be covered by counted drops *)
(*       - and (LateBounded) once cancel() has returned an instance reports *)
(*       at most the one shot it has in flight.                            *)
(***************************************************************************)
EXTENDS TraceAggregator

VARIABLES stop,      \* "" | "self" (AllInstancesFinished) | "ext" (Cancel / PoolReturn with an error): what came first
          nret,      \* Report calls that have returned
          must, nmust, \* bag / number of reports returned before a stop from outside and not yet seen in the sink
          ctxDone, lateG, \* mode "cancel": cancel() has returned; instances that reported after that
          started, awaitedI, allFin, aggAwaited, waitDone,
          bad2

pvars == <<stop, nret, must, nmust, ctxDone, lateG, started, awaitedI, allFin, aggAwaited, waitDone, bad2>>
avars == <<kind, ids, mode, before, pending, nrep, nmatched, nwritten, cancelled, closed, ended, bad, fault, faulted>>

PInit == /\ Init
         /\ stop = "" /\ nret = 0 /\ must = <<>> /\ nmust = 0 /\ ctxDone = FALSE /\ lateG = {} /\ started = -1 /\ awaitedI = 0
         /\ allFin = FALSE /\ aggAwaited = FALSE /\ waitDone = FALSE /\ bad2 = {}

\* ---- bookkeeping that accompanies the actions of TraceAggregator -------------------------------------
BkRun == /\ stop' = "" /\ nret' = 0 /\ must' = <<>> /\ nmust' = 0 /\ ctxDone' = FALSE /\ lateG' = {} /\ started' = -1 /\ awaitedI' = 0
         /\ allFin' = FALSE /\ aggAwaited' = FALSE /\ waitDone' = FALSE /\ UNCHANGED bad2
BkReport == /\ lateG' = IF ctxDone THEN lateG \cup {Ev.g} ELSE lateG
            /\ bad2' = bad2 \cup Flag(~allFin, "ReportAfterAllInstancesFinished")
                            \* PoolAgg!LateBounded: once the context is done an instance reports at most the shot in flight
                            \cup Flag(~(ctxDone /\ Ev.g \in lateG), "SecondReportAfterContextDone")
            /\ UNCHANGED <<stop, nret, must, nmust, ctxDone, started, awaitedI, allFin, aggAwaited, waitDone>>
BkLine(x) == /\ IF Has(must, x) THEN must' = [must EXCEPT ![x] = @ - 1] /\ nmust' = nmust - 1
                                ELSE UNCHANGED <<must, nmust>>
             /\ bad2' = bad2 \cup Flag(~waitDone, "LineAfterWaitDone")
             /\ UNCHANGED <<stop, nret, ctxDone, lateG, started, awaitedI, allFin, aggAwaited, waitDone>>
BkCancel == /\ stop' = IF stop = "" THEN "ext" ELSE stop
            /\ UNCHANGED <<nret, must, nmust, ctxDone, lateG, started, awaitedI, allFin, aggAwaited, waitDone, bad2>>
BkRunEnd == /\ bad2' = bad2 \cup Flag(nmust <= Ev.dropped /\ (kind = "phout" => nmust = 0), "ReportReturnedBeforeStopLost")
                          \cup Flag(waitDone /\ aggAwaited /\ allFin, "EngineWaitReturnedEarly")
            /\ UNCHANGED <<stop, nret, must, nmust, ctxDone, lateG, started, awaitedI, allFin, aggAwaited, waitDone>>
BkNone == UNCHANGED pvars
Cancelled == /\ Ev.ev = "Cancelled" /\ ctxDone' = TRUE
             /\ UNCHANGED <<stop, nret, must, nmust, lateG, started, awaitedI, allFin, aggAwaited, waitDone, bad2, avars>>

\* ---- the new events -------------------------------------------------------------------------------------
ReportRet == /\ Ev.ev = "ReportRet"
             /\ nret' = nret + 1
             /\ IF stop = "ext" THEN UNCHANGED <<must, nmust>>
                ELSE IF Has(pending, Expect(Ev.s))      \* not yet written: it is in the queue or counted as dropped
                THEN must' = AddN(must, Expect(Ev.s), 1) /\ nmust' = nmust + 1
                ELSE UNCHANGED <<must, nmust>>
             /\ UNCHANGED <<stop, ctxDone, lateG, started, awaitedI, allFin, aggAwaited, waitDone, bad2, avars>>

Hook(h) == Ev.ev = "Hook" /\ Ev.hook = h
HAwaitStart == /\ Hook("AwaitStart") /\ started' = Ev.n
               /\ UNCHANGED <<stop, nret, must, nmust, ctxDone, lateG, awaitedI, allFin, aggAwaited, waitDone, bad2, avars>>
HAwaitInstance == /\ Hook("AwaitInstance") /\ awaitedI' = awaitedI + 1
                  /\ bad2' = bad2 \cup Flag(~allFin, "InstanceAwaitedAfterAllFinished")
                  /\ UNCHANGED <<stop, nret, must, nmust, ctxDone, lateG, started, allFin, aggAwaited, waitDone, avars>>
\* checkAllInstancesAreFinished: the hook is written before runCancel()
HAllFinished == /\ Hook("AllInstancesFinished")
                /\ allFin' = TRUE
                /\ stop' = IF stop = "" THEN "self" ELSE stop
                /\ bad2' = bad2 \cup Flag(started >= 0 /\ awaitedI = started /\ Ev.n = awaitedI, "AggCancelBeforeAllInstancesAwaited")
                                \cup Flag(nret = nrep, "ReportInFlightAtAggCancel")
                                \cup Flag(~allFin, "AllFinishedTwice")
                \* a run that ended by itself before the stop from outside arrived lost nothing
                /\ before' = IF before = -1 /\ stop = "" THEN nret ELSE before
                /\ UNCHANGED <<nret, must, nmust, ctxDone, lateG, started, awaitedI, aggAwaited, waitDone>>
                /\ UNCHANGED <<kind, ids, mode, pending, nrep, nmatched, nwritten, cancelled, closed, ended, bad, fault, faulted>>
\* instancePool.Run returns; with an error its deferred cancel() stops instances AND aggregator (hook first)
HPoolReturn == /\ Hook("PoolReturn")
               /\ stop' = IF stop = "" /\ Ev.err # "<nil>" THEN "ext" ELSE stop
               /\ before' = IF stop = "" /\ Ev.err # "<nil>" /\ before = -1 THEN nret ELSE before
               /\ UNCHANGED <<nret, must, nmust, ctxDone, lateG, started, awaitedI, allFin, aggAwaited, waitDone, bad2>>
               /\ UNCHANGED <<kind, ids, mode, pending, nrep, nmatched, nwritten, cancelled, closed, ended, bad, fault, faulted>>
HAwaitAggregator == /\ Hook("AwaitAggregator") /\ aggAwaited' = TRUE
                    /\ bad2' = bad2 \cup Flag(stop # "", "AggregatorReturnedBeforeAnyCancel")
                                    \cup Flag(closed, "AggregatorAwaitedBeforeSinkClosed")
                    /\ UNCHANGED <<stop, nret, must, nmust, ctxDone, lateG, started, awaitedI, allFin, waitDone, avars>>
HWaitDone == /\ Hook("WaitDone") /\ waitDone' = TRUE
             /\ bad2' = bad2 \cup Flag(aggAwaited /\ allFin /\ closed, "WaitDoneBeforeAggregatorAwaited")
                             \cup Flag(nret = nrep, "WaitDoneWithReportInFlight")
             /\ UNCHANGED <<stop, nret, must, nmust, ctxDone, lateG, started, awaitedI, allFin, aggAwaited, avars>>
HOther == /\ Ev.ev = "Hook" /\ Ev.hook \in {"AwaitProvider", "ErrForwarded", "ErrSuppressed", "EngineReturn"}
          /\ UNCHANGED <<pvars, avars>>

PNext == /\ l <= Len(Trace)
         /\ l' = l + 1
         /\ \/ Run /\ BkRun
            \/ Report /\ BkReport
            \/ Line /\ BkLine(Ev.c)
            \/ JLine /\ BkLine(Ev.s)
            \/ Cancel /\ BkCancel
            \/ RunEnd /\ BkRunEnd
            \/ (BadLine \/ SinkClosed \/ Open \/ EngineEnd \/ Content) /\ BkNone
            \/ Cancelled \/ ReportRet \/ HAwaitStart \/ HAwaitInstance \/ HAllFinished \/ HPoolReturn \/ HAwaitAggregator
            \/ HWaitDone \/ HOther

PAccepted == l <= Len(Trace) => ENABLED PNext
NoViolation2 == bad2 = {}
=============================================================================
