---------------------------- MODULE TracePoolAgg ----------------------------
(***************************************************************************)
(* Trace specification of PoolAgg.tla (M1): REAL engine.Engine runs with   *)
(* the real phout / jsonlines aggregators behind mock guns, recorded by    *)
(* `vdrive agg` (modes engine / cancel / provfail).  The trace merges      *)
(*   - the report events of the guns:  Report (before the call),           *)
(*     ReportRet (after Aggregator.Report returned),                       *)
(*   - the line events of the recording sink (TraceAggregator.tla),        *)
(*   - the engine's own life-cycle hooks (core/engine/verif_on.go, written *)
(*     by the await goroutine itself): AwaitStart, AwaitInstance,          *)
(*     AllInstancesFinished (written BEFORE runCancel()), AwaitProvider,   *)
(*     AwaitAggregator, ErrForwarded/ErrSuppressed, PoolReturn (written    *)
(*     BEFORE the deferred cancel of the pool context), WaitDone.          *)
(* All events go through one mutex-serialised writer, so the order of the  *)
(* trace is consistent with happens-before.                                *)
(*                                                                         *)
(* Everything TraceAggregator.tla checks is checked (its actions are       *)
(* re-used unchanged); in addition, PoolAgg's properties on what is        *)
(* observable:                                                             *)
(*   AggCancelAfterAllAwaited   at AllInstancesFinished every started      *)
(*       instance was awaited, no Report call is in flight, and no Report  *)
(*       is ever made after it;                                            *)
(*   the aggregator returns only after AllInstancesFinished or after a     *)
(*       stop from outside; WaitDone only after the aggregator was         *)
(*       awaited and its sink closed; nothing reaches the sink later;      *)
(*   which reports may be lost when the run is stopped from outside        *)
(*       (Cancel, PoolReturn with an error): none whose Report call had    *)
(*       returned before the stop - for phout each of them must be a line, *)
(*       for jsonlines the unwritten ones must be covered by counted drops *)
(*       - and (LateBounded) once cancel() has returned an instance reports *)
(*       at most the one shot it has in flight;                            *)
(*   Shutdown!TimeoutExitFlushed, in process (mode "hang"): the run is     *)
(*       cancelled from outside while every instance is inside a shot that *)
(*       does not come back (the gun watches no context).  The aggregator  *)
(*       runs on the run context: its Run returns (AggReturned; sink       *)
(*       closed, every report that had returned is written or counted)     *)
(*       while the shots still hang - not only when the driver lets them   *)
(*       come back (Release): cli.go would have given up waiting and       *)
(*       exited by then.                                                   *)
(***************************************************************************)
EXTENDS TraceAggregator

VARIABLES stop,      \* "" | "self" (AllInstancesFinished) | "ext" (Cancel / PoolReturn with an error): what came first
          nret,      \* Report calls that have returned
          must, nmust, \* bag / number of reports returned before a stop from outside and not yet seen in the sink
          ctxDone, lateG, \* mode "cancel": cancel() has returned; instances that reported after that
          started, awaitedI, allFin, aggAwaited, waitDone,
          aggRet,    \* mode "hang": the driver has seen the aggregator's Run return
          bad2

pvars == <<stop, nret, must, nmust, ctxDone, lateG, started, awaitedI, allFin, aggAwaited, waitDone, aggRet, bad2>>
avars == <<kind, ids, mode, before, pending, nrep, nmatched, nwritten, cancelled, closed, ended, bad, fault, faulted>>

PInit == /\ Init
         /\ stop = "" /\ nret = 0 /\ must = <<>> /\ nmust = 0 /\ ctxDone = FALSE /\ lateG = {} /\ started = -1 /\ awaitedI = 0
         /\ allFin = FALSE /\ aggAwaited = FALSE /\ waitDone = FALSE /\ aggRet = FALSE /\ bad2 = {}

\* ---- bookkeeping that accompanies the actions of TraceAggregator -------------------------------------
BkRun == /\ stop' = "" /\ nret' = 0 /\ must' = <<>> /\ nmust' = 0 /\ ctxDone' = FALSE /\ lateG' = {} /\ started' = -1 /\ awaitedI' = 0
         /\ allFin' = FALSE /\ aggAwaited' = FALSE /\ waitDone' = FALSE /\ aggRet' = FALSE /\ UNCHANGED bad2
BkReport == /\ lateG' = IF ctxDone THEN lateG \cup {Ev.g} ELSE lateG
            /\ bad2' = bad2 \cup Flag(~allFin, "ReportAfterAllInstancesFinished")
                            \* PoolAgg!LateBounded: once the context is done an instance reports at most the shot in flight
                            \cup Flag(~(ctxDone /\ Ev.g \in lateG), "SecondReportAfterContextDone")
            /\ UNCHANGED <<stop, nret, must, nmust, ctxDone, started, awaitedI, allFin, aggAwaited, waitDone, aggRet>>
BkLine(x) == /\ IF Has(must, x) THEN must' = [must EXCEPT ![x] = @ - 1] /\ nmust' = nmust - 1
                                ELSE UNCHANGED <<must, nmust>>
             /\ bad2' = bad2 \cup Flag(~waitDone, "LineAfterWaitDone")
             /\ UNCHANGED <<stop, nret, ctxDone, lateG, started, awaitedI, allFin, aggAwaited, waitDone, aggRet>>
BkCancel == /\ stop' = IF stop = "" THEN "ext" ELSE stop
            /\ UNCHANGED <<nret, must, nmust, ctxDone, lateG, started, awaitedI, allFin, aggAwaited, waitDone, aggRet, bad2>>
BkRunEnd == /\ bad2' = bad2 \cup Flag(nmust <= Ev.dropped /\ (kind = "phout" => nmust = 0), "ReportReturnedBeforeStopLost")
                          \cup Flag(waitDone /\ aggAwaited /\ allFin, "EngineWaitReturnedEarly")
            /\ UNCHANGED <<stop, nret, must, nmust, ctxDone, lateG, started, awaitedI, allFin, aggAwaited, waitDone, aggRet>>
BkNone == UNCHANGED pvars
Cancelled == /\ Ev.ev = "Cancelled" /\ ctxDone' = TRUE
             /\ UNCHANGED <<stop, nret, must, nmust, lateG, started, awaitedI, allFin, aggAwaited, waitDone, aggRet, bad2, avars>>

\* ---- the new events -------------------------------------------------------------------------------------
ReportRet == /\ Ev.ev = "ReportRet"
             /\ nret' = nret + 1
             /\ IF stop = "ext" THEN UNCHANGED <<must, nmust>>
                ELSE IF Has(pending, Expect(Ev.s))      \* not yet written: it is in the queue or counted as dropped
                THEN must' = AddN(must, Expect(Ev.s), 1) /\ nmust' = nmust + 1
                ELSE UNCHANGED <<must, nmust>>
             /\ UNCHANGED <<stop, ctxDone, lateG, started, awaitedI, allFin, aggAwaited, waitDone, aggRet, bad2, avars>>

\* mode "hang": the aggregator's Run has returned (seen by the driver while it still holds every shot) ...
AggReturned == /\ Ev.ev = "AggReturned" /\ aggRet' = TRUE
               /\ bad2' = bad2 \cup Flag(closed \/ kind \in NoFile, "AggregatorReturnedBeforeSinkClosed")
                               \* everything whose Report had returned before the stop is in the sink (or a counted drop
                               \* of the dropping kind - decided at RunEnd, where the count is known)
                               \cup Flag(kind = "phout" => nmust = 0, "ReportReturnedBeforeStopLost")
               /\ UNCHANGED <<stop, nret, must, nmust, ctxDone, lateG, started, awaitedI, allFin, aggAwaited, waitDone, avars>>
\* ... the driver lets the hung shots come back: by now (cli.go: 3 s / 30 s, the driver: 30 s) the aggregator has
\* returned - it is stopped by the cancel of the run, it does not wait for the instances (Shutdown!AggStop = "run")
Release == /\ Ev.ev = "Release"
           /\ bad2' = bad2 \cup Flag(aggRet, "StoppedAggregatorWaitsForHungShots")
                           \cup Flag(ctxDone /\ stop = "ext", "DriverReleaseWithoutCancel")
           /\ UNCHANGED <<stop, nret, must, nmust, ctxDone, lateG, started, awaitedI, allFin, aggAwaited, waitDone, aggRet, avars>>

Hook(h) == Ev.ev = "Hook" /\ Ev.hook = h
HAwaitStart == /\ Hook("AwaitStart") /\ started' = Ev.n
               /\ UNCHANGED <<stop, nret, must, nmust, ctxDone, lateG, awaitedI, allFin, aggAwaited, waitDone, aggRet, bad2, avars>>
HAwaitInstance == /\ Hook("AwaitInstance") /\ awaitedI' = awaitedI + 1
                  /\ bad2' = bad2 \cup Flag(~allFin, "InstanceAwaitedAfterAllFinished")
                  /\ UNCHANGED <<stop, nret, must, nmust, ctxDone, lateG, started, allFin, aggAwaited, waitDone, aggRet, avars>>
\* checkAllInstancesAreFinished: the hook is written before runCancel()
HAllFinished == /\ Hook("AllInstancesFinished")
                /\ allFin' = TRUE
                /\ stop' = IF stop = "" THEN "self" ELSE stop
                /\ bad2' = bad2 \cup Flag(started >= 0 /\ awaitedI = started /\ Ev.n = awaitedI, "AggCancelBeforeAllInstancesAwaited")
                                \cup Flag(nret = nrep, "ReportInFlightAtAggCancel")
                                \cup Flag(~allFin, "AllFinishedTwice")
                \* a run that ended by itself before the stop from outside arrived lost nothing
                /\ before' = IF before = -1 /\ stop = "" THEN nret ELSE before
                /\ UNCHANGED <<nret, must, nmust, ctxDone, lateG, started, awaitedI, aggAwaited, waitDone, aggRet>>
                /\ UNCHANGED <<kind, ids, mode, pending, nrep, nmatched, nwritten, cancelled, closed, ended, bad, fault, faulted>>
\* instancePool.Run returns; with an error its deferred cancel() stops instances AND aggregator (hook first)
HPoolReturn == /\ Hook("PoolReturn")
               /\ stop' = IF stop = "" /\ Ev.err # "<nil>" THEN "ext" ELSE stop
               /\ before' = IF stop = "" /\ Ev.err # "<nil>" /\ before = -1 THEN nret ELSE before
               /\ UNCHANGED <<nret, must, nmust, ctxDone, lateG, started, awaitedI, allFin, aggAwaited, waitDone, aggRet, bad2>>
               /\ UNCHANGED <<kind, ids, mode, pending, nrep, nmatched, nwritten, cancelled, closed, ended, bad, fault, faulted>>
HAwaitAggregator == /\ Hook("AwaitAggregator") /\ aggAwaited' = TRUE
                    /\ bad2' = bad2 \cup Flag(stop # "", "AggregatorReturnedBeforeAnyCancel")
                                    \cup Flag(closed, "AggregatorAwaitedBeforeSinkClosed")
                    /\ UNCHANGED <<stop, nret, must, nmust, ctxDone, lateG, started, awaitedI, allFin, waitDone, aggRet, avars>>
HWaitDone == /\ Hook("WaitDone") /\ waitDone' = TRUE
             /\ bad2' = bad2 \cup Flag(aggAwaited /\ allFin /\ closed, "WaitDoneBeforeAggregatorAwaited")
                             \cup Flag(nret = nrep, "WaitDoneWithReportInFlight")
             /\ UNCHANGED <<stop, nret, must, nmust, ctxDone, lateG, started, awaitedI, allFin, aggAwaited, aggRet, avars>>
HOther == /\ Ev.ev = "Hook" /\ Ev.hook \in {"AwaitProvider", "ErrForwarded", "ErrSuppressed", "EngineReturn"}
          /\ UNCHANGED <<pvars, avars>>

PNext == /\ l <= Len(Trace)
         /\ l' = l + 1
         /\ \/ Run /\ BkRun
            \/ Report /\ BkReport
            \/ Line /\ BkLine(Ev.c)
            \/ JLine /\ BkLine(Ev.s)
            \/ Cancel /\ BkCancel
            \/ RunEnd /\ BkRunEnd
            \/ (BadLine \/ SinkClosed \/ Open \/ EngineEnd \/ Content) /\ BkNone
            \/ AggReturned \/ Release
            \/ Cancelled \/ ReportRet \/ HAwaitStart \/ HAwaitInstance \/ HAllFinished \/ HPoolReturn \/ HAwaitAggregator
            \/ HWaitDone \/ HOther

PAccepted == l <= Len(Trace) => ENABLED PNext
NoViolation2 == bad2 = {}
=============================================================================
