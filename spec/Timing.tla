------------------------------- MODULE Timing -------------------------------
(***************************************************************************)
(* C04: no early shots; discard_overflow bounds lateness to the 2 s window. *)
(*                                                                         *)
(* Implementation-shaped model of core/coreutil/waiter.go (Wait,           *)
(* IsSlowDown, IsFinished) inside the loop of core/engine/instance.go:     *)
(* one action per clock reading / blocking point / decision of the Go code. *)
(*                                                                         *)
(*   idle    : instancePool.startInstances: the instance is started when   *)
(*             its startup token is due, unless the shared schedule has    *)
(*             finished before (callbackOnFinish cancels the start)        *)
(*   loop    : waiter.IsFinished  (sched.Left() == 0 -> the instance ends) *)
(*   next    : Waiter.Wait: sched.Next()   (shared schedule: the token may *)
(*             have been taken by the other instance -> overdue := 0, back)*)
(*   cmp     : waitFor := next - lastNow (the CACHED reading).             *)
(*             waitFor <= 0  -> lastNow := time.Now(); overdue := lastNow - next; return *)
(*             otherwise     -> lastNow := time.Now(); waitFor := next - lastNow;        *)
(*                              waitFor <= 0 -> overdue := -waitFor; return              *)
(*                              else overdue := 0; arm the timer                         *)
(*             (the clock is read exactly once per Wait; that step is the  *)
(*             atomic point of this action)                                *)
(*   arm     : timer.Reset(waitFor): the runtime reads its own clock NOW   *)
(*             and fires at that reading + waitFor  (>= token instant)     *)
(*   sleep   : <-timer.C                                                   *)
(*   decide  : !discardOverflow || !IsSlowDown (overdue >= 2 s) -> Shoot,  *)
(*             else aggregator.Report(DiscardedShootSample())              *)
(*   shooting: gun.Shoot blocks for the response time r \in Resp           *)
(*                                                                         *)
(* Time is discrete (1 tick = 100 ms, MAX = 20 ticks = MaxOverdueDuration). *)
(* Instance steps take no model time, but a goroutine can be descheduled   *)
(* anywhere: Tick may fire while an instance stands at a non-blocking pc   *)
(* ("lazy tick"), at most Budget times per run.  Budget = 0 is the prompt  *)
(* machine (timed-automaton urgency); Budget > 0 explores descheduling.    *)
(*                                                                         *)
(* Code variants (CONSTANTS) select the code as it is (the specification)  *)
(* or a deliberately wrong variant used as a negative control.             *)
(***************************************************************************)
EXTENDS Integers, Sequences, FiniteSets, TLC

CONSTANTS MaxInst,      \* instances are 1..MaxInst; how many run is chosen in Init from InstCounts
          InstCounts,   \* subset of 1..MaxInst
          NTok,         \* tokens in the (shared) schedule
          Gaps,         \* set of inter-token gaps in ticks (the profile is chosen gap by gap)
          Resp,         \* set of response times in ticks
          MAX,          \* 20 ticks = MaxOverdueDuration
          DiscModes,    \* subset of BOOLEAN: values of discard_overflow explored
          Budget,       \* number of lazy ticks (descheduling anywhere) per run
          Horizon,      \* clock bound (walks that are not finished by then are cut)
          Fixed,        \* TRUE: overdue measured against a fresh reading when the cached one says "due" (as coded now)
                        \* FALSE: against the cached reading itself (as shipped: defect 3)
          Thresh,       \* threshold used by IsSlowDown (MAX as coded)
          SkipBelow,    \* 0 as coded; n > 0: Wait returns without sleeping when waitFor <= n (negative control)
          ResetOnSleep, \* TRUE as coded: overdue := 0 before the timer is armed; FALSE keeps the previous token's value (negative control)
          LazyAt,       \* pcs at which a lazy tick may be taken (all of them in the exhaustive configurations; {"cmp"} for
                        \* the descheduling scripts, whose delay the harness can inject between Next() and the clock reading)
          RereadAll,    \* TRUE as coded: the clock is read for EVERY token the cached reading proves due; FALSE (negative control,
                        \* "one reading per burst"): only when the token's instant is later than the previous such token's, so the
                        \* tokens of an equal-time burst (once) are judged against the reading taken for the first of them
          DrawAdvances, \* TRUE: Next() of the shared schedule hands every token to one caller (C02); FALSE (negative control):
                        \* two instances calling Next() at the same time get the same token
          MinWait,      \* scenario pacing (min_waiting_time, ticks; 0 = ordinary gun): a shot that is served faster blocks
                        \* the instance until MinWait has elapsed since the shot started
          Pace,         \* "start" as coded (sleep MinWait - spent); negative controls: "none" (no wait), "end" (wait after the end)
          StartDelays,  \* instants at which instances 2.. are started by the startup schedule (instance 1 starts at 0)
          LazyLens,     \* {0} everywhere except script generation: there the length of the descheduling after Next() is
                        \* drawn per token from this set (a restriction of Next that makes long delays frequent in walks)
          Guard,        \* 0: no filter.  g > 0 (script generation): a decision whose lateness lies within
                        \* (MAX - g, MAX + g) is not taken, so exported scripts are robust in real time
          Record        \* TRUE: keep the history of decisions (script export)

VARIABLES now, slack, disc, ninst,
          k,        \* tokens handed out by the schedule
          nextTok,  \* instant of the next token (if k < NTok)
          lastTok,  \* instant of the last token handed out
          pc, tok, tokk, lastNow, overdue, waitFor, deadline,
          tnext,    \* ghost: [instance -> clock when Next() returned its token]
          last,     \* ghost: [instance -> its last decision record, or Null]
          nfired, ndisc,
          hist,     \* ghost (only when Record): sequence of decision records
          lz,       \* ghost (only when Record): [instance -> lazy ticks spent at "cmp" for its current token]
          want,     \* script generation only: [instance -> lazy ticks to spend at "cmp" for its current token]
          startAt,  \* [instance -> instant at which the pool starts it]
          lastNext, \* negative control only (RereadAll = FALSE): [instance -> instant of the last token for which the clock was re-read]
          finishSeen \* the shared schedule's callbackOnFinish has fired (Left() = 0 or Next() !ok seen): no further starts

vars == <<now, slack, disc, ninst, k, nextTok, lastTok, pc, tok, tokk, lastNow, overdue, waitFor, deadline,
          tnext, last, nfired, ndisc, hist, lz, want, startAt, finishSeen, lastNext>>

Insts == 1..MaxInst
Null  == [d |-> "none"]
MaxOf(S) == CHOOSE x \in S : \A y \in S : y <= x
MaxResp == MaxOf(Resp)

-----------------------------------------------------------------------------
(* Predicates over one decision record; shared by the invariants below and  *)
(* by TraceTiming (there the record comes from the real run, with times in  *)
(* microseconds and mx = 2 000 000).                                        *)
(*   r.tok  token instant                                                   *)
(*   r.a    clock when sched.Next() returned the token (before Wait reads)  *)
(*   r.b    clock at Gun.Shoot entry / at Report of the discarded sample    *)
(*   r.d    "fire" | "discard"                                              *)

\* no request is fired before its scheduled time (exact)
RecNoEarly(r) == r.d = "fire" => r.b >= r.tok

\* The decision is taken against the reading R of the clock made inside Wait, a <= R <= b:
\*   two seconds or more in the past when picked up  => discarded
\*   still less than two seconds late when shot/reported => fired
\* mg >= 0 is a margin (0 in the model; rounding of the logged microseconds in traces).
RecMustDiscard(r, mx, mg) == r.a - r.tok >= mx + mg => r.d = "discard"
RecMustFire(r, mx, mg)    == r.b - r.tok <  mx - mg => r.d = "fire"
RecSandwich(r, mx, mg)    == RecMustDiscard(r, mx, mg) /\ RecMustFire(r, mx, mg)

\* the strong reading (valid only when the goroutine is not descheduled between pickup and decision)
RecIff(r, mx) == (r.b - r.tok >= mx) <=> (r.d = "discard")

\* scenario pacing: the next shot of an instance starts no sooner than mw after the previous one started
\* (r.pf: start of the previous shot of the same instance, -1 if none)
RecPaced(r, mw) == r.d = "fire" /\ r.pf >= 0 => r.b - r.pf >= mw

\* configuration default (cli.readConfig): key absent => on
\* (a key written without a value - YAML null - counts as not set), whatever channel the configuration came through
DiscardDefault(key) == IF key \in {"absent", "null"} THEN TRUE ELSE key = "true"

-----------------------------------------------------------------------------
Init ==
    /\ now = 0 /\ slack = 0
    /\ disc \in DiscModes
    /\ ninst \in InstCounts
    /\ k = 0 /\ nextTok = 0 /\ lastTok = 0
    /\ pc = [i \in Insts |-> IF i <= ninst THEN "idle" ELSE "done"]
    /\ startAt \in {f \in [Insts -> StartDelays \cup {0}] : f[1] = 0 /\ \A i \in Insts : i > ninst => f[i] = 0}
    /\ finishSeen = FALSE
    /\ lastNext = [i \in Insts |-> -1]
    /\ tok = [i \in Insts |-> 0] /\ tokk = [i \in Insts |-> 0]
    /\ lastNow = [i \in Insts |-> -1]        \* the zero time.Time: before every token
    /\ overdue = [i \in Insts |-> 0]
    /\ waitFor = [i \in Insts |-> 0]
    /\ deadline = [i \in Insts |-> 0]
    /\ tnext = [i \in Insts |-> 0]
    /\ last = [i \in Insts |-> Null]
    /\ nfired = 0 /\ ndisc = 0
    /\ hist = <<>>
    /\ lz = [i \in Insts |-> 0]
    /\ want = [i \in Insts |-> 0]

Blocked(i) == \/ pc[i] = "done"
              \/ pc[i] = "idle" /\ now < startAt[i] /\ ~finishSeen
              \/ pc[i] \in {"sleep", "shooting"} /\ now < deadline[i]
AllBlocked == \A i \in Insts : Blocked(i)
AllDone    == \A i \in Insts : pc[i] = "done"
LazyOK     == \A i \in Insts : Blocked(i) \/ pc[i] \in LazyAt
LazyWanted == LazyLens = {0} \/ \E i \in Insts : pc[i] = "cmp" /\ lz[i] < want[i]

Tick ==
    /\ ~AllDone
    /\ now < Horizon
    /\ AllBlocked \/ (slack < Budget /\ LazyOK /\ LazyWanted)
    /\ now' = now + 1
    /\ slack' = IF AllBlocked THEN slack ELSE slack + 1
    /\ lz' = IF Record /\ ~AllBlocked THEN [i \in Insts |-> IF pc[i] = "cmp" THEN lz[i] + 1 ELSE lz[i]] ELSE lz
    /\ UNCHANGED <<disc, ninst, k, nextTok, lastTok, pc, tok, tokk, lastNow, overdue, waitFor, deadline,
                   tnext, last, nfired, ndisc, hist, want, startAt, finishSeen, lastNext>>

\* instancePool.startInstances: the startup schedule's token for instance i is due and the start context is alive
Begin(i) ==
    /\ pc[i] = "idle" /\ now >= startAt[i] /\ ~finishSeen
    /\ pc' = [pc EXCEPT ![i] = "loop"]
    /\ UNCHANGED <<now, slack, disc, ninst, k, nextTok, lastTok, tok, tokk, lastNow, overdue, waitFor, deadline,
                   tnext, last, nfired, ndisc, hist, lz, want, startAt, finishSeen, lastNext>>
\* the shared schedule finished first: cancelStart(), the instance is never created
CancelStart(i) ==
    /\ pc[i] = "idle" /\ finishSeen
    /\ pc' = [pc EXCEPT ![i] = "done"]
    /\ UNCHANGED <<now, slack, disc, ninst, k, nextTok, lastTok, tok, tokk, lastNow, overdue, waitFor, deadline,
                   tnext, last, nfired, ndisc, hist, lz, want, startAt, finishSeen, lastNext>>

\* instance.Run: for !waiter.IsFinished(ctx) { provider.Acquire ...
Loop(i) ==
    /\ pc[i] = "loop"
    /\ pc' = [pc EXCEPT ![i] = IF k >= NTok THEN "done" ELSE "next"]
    /\ finishSeen' = (finishSeen \/ k >= NTok)          \* Left() == 0: callbackOnFinish fires (instance start is cancelled)
    /\ UNCHANGED <<now, slack, disc, ninst, k, nextTok, lastTok, tok, tokk, lastNow, overdue, waitFor, deadline,
                   tnext, last, nfired, ndisc, hist, lz, want, startAt, lastNext>>

\* Waiter.Wait: next, ok := w.sched.Next()
NextTok(i) ==
    /\ pc[i] = "next"
    /\ IF k < NTok
       THEN /\ tok' = [tok EXCEPT ![i] = nextTok]
            /\ tokk' = [tokk EXCEPT ![i] = k + 1]
            /\ k' = IF DrawAdvances \/ ~\E j \in Insts : j # i /\ pc[j] = "next" THEN k + 1 ELSE k
            /\ lastTok' = nextTok
            /\ IF k + 1 < NTok THEN \E g \in Gaps : nextTok' = nextTok + g ELSE nextTok' = nextTok
            /\ tnext' = [tnext EXCEPT ![i] = now]
            /\ pc' = [pc EXCEPT ![i] = "cmp"]
            /\ UNCHANGED overdue
       ELSE /\ overdue' = [overdue EXCEPT ![i] = 0]
            /\ pc' = [pc EXCEPT ![i] = "loop"]
            /\ UNCHANGED <<tok, tokk, k, lastTok, nextTok, tnext>>
    /\ lz' = [lz EXCEPT ![i] = 0]
    /\ IF k < NTok THEN \E w \in LazyLens : want' = [want EXCEPT ![i] = w] ELSE want' = want
    /\ finishSeen' = (finishSeen \/ k >= NTok)          \* Next() returned !ok: callbackOnFinish fires
    /\ UNCHANGED <<now, slack, disc, ninst, lastNow, waitFor, deadline, last, nfired, ndisc, hist, startAt, lastNext>>

\* the comparison against the cached reading and the single time.Now() of this Wait
Cmp(i) ==
    /\ pc[i] = "cmp"
    /\ lz[i] >= want[i]
    /\ IF tok[i] <= lastNow[i]
       THEN \* cached reading says "due"
            /\ IF Fixed /\ (RereadAll \/ tok[i] > lastNext[i])
               THEN /\ lastNow' = [lastNow EXCEPT ![i] = now] /\ overdue' = [overdue EXCEPT ![i] = now - tok[i]]
                    /\ lastNext' = IF RereadAll THEN lastNext ELSE [lastNext EXCEPT ![i] = tok[i]]
               ELSE lastNow' = lastNow /\ overdue' = [overdue EXCEPT ![i] = lastNow[i] - tok[i]] /\ lastNext' = lastNext
            /\ pc' = [pc EXCEPT ![i] = "decide"]
            /\ UNCHANGED waitFor
       ELSE /\ lastNow' = [lastNow EXCEPT ![i] = now]
            /\ lastNext' = lastNext
            /\ IF tok[i] <= now
               THEN /\ overdue' = [overdue EXCEPT ![i] = now - tok[i]]
                    /\ pc' = [pc EXCEPT ![i] = "decide"]
                    /\ UNCHANGED waitFor
               ELSE /\ overdue' = IF ResetOnSleep THEN [overdue EXCEPT ![i] = 0] ELSE overdue
                    /\ waitFor' = [waitFor EXCEPT ![i] = tok[i] - now]
                    /\ pc' = [pc EXCEPT ![i] = IF tok[i] - now <= SkipBelow THEN "decide" ELSE "arm"]
    /\ UNCHANGED <<now, slack, disc, ninst, k, nextTok, lastTok, tok, tokk, deadline, tnext, last, nfired, ndisc, hist, lz, want, startAt, finishSeen>>

\* timer.Reset(waitFor): fires waitFor after the runtime's own reading, taken now
Arm(i) ==
    /\ pc[i] = "arm"
    /\ deadline' = [deadline EXCEPT ![i] = now + waitFor[i]]
    /\ pc' = [pc EXCEPT ![i] = "sleep"]
    /\ UNCHANGED <<now, slack, disc, ninst, k, nextTok, lastTok, tok, tokk, lastNow, overdue, waitFor,
                   tnext, last, nfired, ndisc, hist, lz, want, startAt, finishSeen, lastNext>>

Wake(i) ==
    /\ pc[i] = "sleep"
    /\ now >= deadline[i]
    /\ pc' = [pc EXCEPT ![i] = "decide"]
    /\ UNCHANGED <<now, slack, disc, ninst, k, nextTok, lastTok, tok, tokk, lastNow, overdue, waitFor, deadline,
                   tnext, last, nfired, ndisc, hist, lz, want, startAt, finishSeen, lastNext>>

IsSlowDown(i) == overdue[i] >= Thresh
RobustHere(i) == Guard = 0 \/ now - tok[i] <= MAX - Guard \/ now - tok[i] >= MAX + Guard

\* start of the previous shot of instance i (-1: none yet), carried through discards
PrevFire(i) == IF last[i].d = "none" THEN -1 ELSE IF last[i].d = "fire" THEN last[i].b ELSE last[i].pf
Rec(i, d, r) == [k |-> tokk[i], tok |-> tok[i], a |-> tnext[i], b |-> now, d |-> d, r |-> r, i |-> i, lz |-> lz[i],
                 pf |-> PrevFire(i)]
\* how long Gun.Shoot blocks the instance: the scenario gun sleeps until MinWait has elapsed since the shot started
ShotTime(r) == IF Pace = "start" THEN (IF r >= MinWait THEN r ELSE MinWait)
               ELSE IF Pace = "end" THEN r + MinWait ELSE r

\* if !i.discardOverflow || !waiter.IsSlowDown(ctx) { gun.Shoot } else { aggregator.Report(Discarded) }
Decide(i) ==
    /\ pc[i] = "decide"
    /\ RobustHere(i)
    /\ IF ~disc \/ ~IsSlowDown(i)
       THEN \E r \in Resp :
              /\ deadline' = [deadline EXCEPT ![i] = now + ShotTime(r)]
              /\ pc' = [pc EXCEPT ![i] = "shooting"]
              /\ last' = [last EXCEPT ![i] = Rec(i, "fire", r)]
              /\ hist' = IF Record THEN Append(hist, Rec(i, "fire", r)) ELSE hist
              /\ nfired' = nfired + 1 /\ ndisc' = ndisc
       ELSE /\ pc' = [pc EXCEPT ![i] = "loop"]
            /\ last' = [last EXCEPT ![i] = Rec(i, "discard", 0)]
            /\ hist' = IF Record THEN Append(hist, Rec(i, "discard", 0)) ELSE hist
            /\ ndisc' = ndisc + 1 /\ nfired' = nfired
            /\ UNCHANGED deadline
    /\ UNCHANGED <<now, slack, disc, ninst, k, nextTok, lastTok, tok, tokk, lastNow, overdue, waitFor, tnext, lz, want, startAt, finishSeen, lastNext>>

ShootEnd(i) ==
    /\ pc[i] = "shooting"
    /\ now >= deadline[i]
    /\ pc' = [pc EXCEPT ![i] = "loop"]
    /\ UNCHANGED <<now, slack, disc, ninst, k, nextTok, lastTok, tok, tokk, lastNow, overdue, waitFor, deadline,
                   tnext, last, nfired, ndisc, hist, lz, want, startAt, finishSeen, lastNext>>

Step(i) == Begin(i) \/ CancelStart(i) \/ Loop(i) \/ NextTok(i) \/ Cmp(i) \/ Arm(i) \/ Wake(i) \/ Decide(i) \/ ShootEnd(i)
Next == Tick \/ \E i \in Insts : Step(i)

Spec == Init /\ [][Next]_vars
FairSpec == Spec /\ WF_vars(Tick) /\ \A i \in Insts : WF_vars(Step(i))

-----------------------------------------------------------------------------
(* Properties *)

Decided == {i \in Insts : last[i].d # "none"}

TypeOK ==
    /\ now \in 0..Horizon /\ slack \in 0..Budget /\ k \in 0..NTok
    /\ \A i \in Insts : pc[i] \in {"idle", "loop", "next", "cmp", "arm", "sleep", "decide", "shooting", "done"}
    /\ \A i \in Insts : overdue[i] >= 0 /\ lastNow[i] <= now
    /\ nfired + ndisc <= k

\* no request is fired before its scheduled time
NoEarly == \A i \in Decided : RecNoEarly(last[i])

\* what the code guarantees whatever the scheduler does (Tick anywhere)
Sandwich == disc => \A i \in Decided : RecSandwich(last[i], MAX, 0)

\* the strong statement, valid for the prompt machine (Budget = 0); negative control with Budget > 0
DiscardIffPickup == disc => \A i \in Decided : RecIff(last[i], MAX)

\* a discarded request really was two seconds late when it was reported
DiscardOnlyLate == \A i \in Decided : last[i].d = "discard" => last[i].b - last[i].tok >= MAX

NeverDiscardOff == ~disc => ndisc = 0
Conservation == AllDone => nfired + ndisc = NTok /\ k = NTok
AllFiredOff  == AllDone /\ ~disc => nfired = NTok

\* several instances on one schedule: every token handed out is held by exactly one instance until that instance
\* decides it - once, fire or discard - so nothing is lost or decided twice while one instance works off a backlog
\* of discards and another one fires on time
Holding(i) == pc[i] \in {"cmp", "arm", "sleep", "decide"}
HeldDistinct == \A i, j \in Insts : i # j /\ Holding(i) /\ Holding(j) => tokk[i] # tokk[j]
TokenAccounting == nfired + ndisc + Cardinality({i \in Insts : Holding(i)}) = k
\* reachability witness (must be VIOLATED): one instance has just discarded an overdue token while another one
\* fired its token exactly on time and is still shooting
NoBacklogNextToOnTime == ~ \E i, j \in Insts : /\ i # j /\ last[i].d = "discard" /\ pc[j] = "shooting"
                                                /\ last[j].d = "fire" /\ last[j].b = last[j].tok /\ last[i].b > last[j].b

\* a fired request is fired less than MAX (+ what the scheduler stole) after its instant
FireBound == disc => \A i \in Decided : last[i].d = "fire" => last[i].b - last[i].tok < MAX + slack
\* so the run is bounded by the profile, the window and the response time
MaxShot == IF MaxResp >= MinWait THEN MaxResp ELSE MinWait
RunBound == disc /\ AllDone => now <= lastTok + MAX + MaxShot + slack
RunBoundTight == disc /\ AllDone /\ NTok > 0 => now < lastTok + MAX + MaxShot + slack

\* pacing: consecutive shots of an instance start at least MinWait apart, and a shot blocks the instance for
\* exactly max(response, MinWait) - no longer (the wait is measured from the START of the shot)
Paced == \A i \in Decided : RecPaced(last[i], MinWait)
ShotLength == \A i \in Insts : pc[i] = "shooting" =>
                  deadline[i] - last[i].b = (IF last[i].r >= MinWait THEN last[i].r ELSE MinWait)

\* the clock bound of the model never cuts an unfinished run in the exhaustive configurations
HorizonEnough == now = Horizon => AllDone

\* liveness (FairSpec): every run ends; with discard off every token has then been fired (AllFiredOff)
Terminates == <>AllDone
=============================================================================
