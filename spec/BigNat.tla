------------------------------- MODULE BigNat -------------------------------
(***************************************************************************)
(* Natural numbers as little-endian sequences of base-10^4 limbs.          *)
(*                                                                         *)
(* TLC integers are Java ints and ndJsonDeserialize silently wraps values  *)
(* >= 2^31, so nanosecond instants and their products (up to ~10^31 in the *)
(* line-profile inequality) never travel or are computed as TLC integers.  *)
(* Every intermediate value here stays below 2^31: a column sum of a       *)
(* product of numbers with <= 8 limbs is < 8 * 10^8.                       *)
(*                                                                         *)
(* Canonical form: no most-significant zero limb; zero is << >>.           *)
(***************************************************************************)
EXTENDS Integers, Sequences

Base == 10000

IsBig(a) == /\ a \in Seq(0..(Base-1))
            /\ (a # <<>> => a[Len(a)] # 0)
            /\ Len(a) <= 9

LOCAL MaxI(x, y) == IF x >= y THEN x ELSE y
LOCAL MinI(x, y) == IF x <= y THEN x ELSE y

RECURSIVE Strip(_)
Strip(s) == IF s # <<>> /\ s[Len(s)] = 0 THEN Strip(SubSeq(s, 1, Len(s)-1)) ELSE s

RECURSIVE CarryGo(_, _, _, _)
CarryGo(cols, i, c, acc) ==
    IF i > Len(cols) /\ c = 0 THEN acc
    ELSE LET v == (IF i <= Len(cols) THEN cols[i] ELSE 0) + c
         IN  CarryGo(cols, i+1, v \div Base, Append(acc, v % Base))

\* cols: a sequence of naturals (column sums, each < 2^31 - 10^6)
FromCols(cols) == Strip(CarryGo(cols, 1, 0, <<>>))

FromInt(n) == FromCols(<<n>>)

Limb(a, i) == IF i <= Len(a) THEN a[i] ELSE 0

Add(a, b) == FromCols([i \in 1..MaxI(Len(a), Len(b)) |-> Limb(a, i) + Limb(b, i)])

RECURSIVE ColSum(_, _, _, _, _)
ColSum(a, b, c, i, hi) == IF i > hi THEN 0 ELSE a[i] * b[c+1-i] + ColSum(a, b, c, i+1, hi)

Mul(a, b) ==
    IF a = <<>> \/ b = <<>> THEN <<>>
    ELSE FromCols([c \in 1..(Len(a)+Len(b)-1) |->
                     ColSum(a, b, c, MaxI(1, c+1-Len(b)), MinI(c, Len(a)))])

RECURSIVE CmpAt(_, _, _)
CmpAt(a, b, i) == IF i = 0 THEN 0
                  ELSE IF a[i] > b[i] THEN 1
                  ELSE IF a[i] < b[i] THEN -1
                  ELSE CmpAt(a, b, i-1)

Cmp(a, b) == IF Len(a) > Len(b) THEN 1
             ELSE IF Len(a) < Len(b) THEN -1
             ELSE CmpAt(a, b, Len(a))

Geq(a, b) == Cmp(a, b) >= 0
Leq(a, b) == Cmp(a, b) <= 0
Lt(a, b)  == Cmp(a, b) < 0
Gt(a, b)  == Cmp(a, b) > 0

MinB(a, b) == IF Leq(a, b) THEN a ELSE b

\* a - b for a >= b (result undefined otherwise: callers guard with Geq)
RECURSIVE SubGo(_, _, _, _, _)
SubGo(a, b, i, borrow, acc) ==
    IF i > Len(a) THEN acc
    ELSE LET v == a[i] - Limb(b, i) - borrow
         IN  IF v < 0 THEN SubGo(a, b, i+1, 1, Append(acc, v + Base))
                      ELSE SubGo(a, b, i+1, 0, Append(acc, v))
Sub(a, b) == Strip(SubGo(a, b, 1, 0, <<>>))

\* small values back to TLC integers (callers guarantee < 2^31: at most 3 limbs below 21)
ToInt(a) == Limb(a, 1) + Base * Limb(a, 2) + Base * Base * Limb(a, 3)
FitsInt(a) == Len(a) <= 2 \/ (Len(a) = 3 /\ a[3] < 21)

=============================================================================
