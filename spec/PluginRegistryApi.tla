-------------------------- MODULE PluginRegistryApi --------------------------
(***************************************************************************)
(* C18, the registry as an object: Register / Lookup / LookupFactory /     *)
(* New / NewFactory of core/plugin/{registry,plugin,constructor}.go under  *)
(* SEQUENCES of registrations - re-registration, duplicate names, the same *)
(* name under another plugin type, malformed constructors of every kind    *)
(* the package documentation excludes (doc.go "Type expectations"), and    *)
(* the type predicates Lookup / LookupFactory.                             *)
(*                                                                         *)
(* A CASE is a sequence of Register operations op = [t, n, c, d]:          *)
(*   t  plugin type (T1, T2: interfaces; S: a struct type),                *)
(*   n  name ("" is not a name),                                           *)
(*   c  DESCRIPTOR of the constructor's Go type (parameter types, variadic *)
(*      or not, result types; for a factory constructor the type of the    *)
(*      returned factory) - the driver renders exactly this descriptor     *)
(*      with reflect.FuncOf, so there is no second table on the Go side,   *)
(*   d  descriptor of the default-config argument(s).                      *)
(* After EVERY operation the driver asks the registry everything that can  *)
(* be asked (the probes): Lookup of every type, LookupFactory of every     *)
(* factory-type candidate, New / NewFactory of every (type, name); a       *)
(* product reports WHICH registration built it (the index of the op).      *)
(*                                                                         *)
(* RegisterStep is shaped like the code (the sequence of expect() calls);  *)
(* the property is stated separately over the history of outcomes and the  *)
(* probes.                                                                 *)
(***************************************************************************)
EXTENDS Integers, Sequences, FiniteSets, TLC

CONSTANTS
    DupRule,    \* "panic" is right (Register's doc); "overwrite": a second registration silently replaces the first;
                \* "keep": it is silently ignored
    Atomic,     \* TRUE is right: a Register that panics leaves the registry as it was; FALSE: the per-type name table is
                \* created before the expectations are checked, so Lookup(type) turns true without any constructor
    VariadicOK, \* FALSE is right (a variadic parameter is a slice, not a config struct); TRUE: `func(...Conf) P` registers
    WithTriples,\* sequences of three operations over the small alphabet (thorough tier; the quick tier stops at two)
    PtrRecv     \* "strict" is right: a VALUE of a type whose methods have pointer receivers does not implement the plugin
                \* interface; "lax": it is accepted

---------------------------------------------------------------------------
(* Go types by name.  V: struct, method M1 with VALUE receiver (V and *V implement T1); P: struct, M1 with POINTER receiver  *)
(* (only *P implements T1); B: struct with M1 and M2, pointer receivers (ptr B implements T1, T2, T12); T12: interface with M1  *)
(* and M2 ("<pluginImpl> ... or interface, that contains <plugin> methods as subset"); S: struct without methods;            *)
(* struct / ptr / struct2: config struct, pointer to it, another struct.                                                     *)
IsIfaceTN(tn) == tn \in {"T1", "T2", "T12", "error"}
ImplementsX(tn, t, lax) ==
    CASE t = "T1" -> tn \in {"T1", "T12", "V", "pV", "pP", "pB"} \/ (lax /\ tn = "P")
      [] t = "T2" -> tn \in {"T2", "T12", "pB"}
      [] OTHER    -> FALSE

\* constructor descriptors
Comp(ins, variadic, prod, rest) ==
    [isfunc |-> TRUE, noout |-> FALSE, ins |-> ins, variadic |-> variadic, fact |-> FALSE, prod |-> prod, rest |-> rest,
     fins |-> <<>>, fvariadic |-> FALSE, fouts |-> <<>>]
Fact(ins, variadic, fins, fvariadic, fouts, rest) ==
    [isfunc |-> TRUE, noout |-> FALSE, ins |-> ins, variadic |-> variadic, fact |-> TRUE, prod |-> "", rest |-> rest,
     fins |-> fins, fvariadic |-> fvariadic, fouts |-> fouts]
NotFunc == [Comp(<<>>, FALSE, "", <<>>) EXCEPT !.isfunc = FALSE]
NoOut(ins) == [Comp(ins, FALSE, "", <<>>) EXCEPT !.noout = TRUE]

GoodCtors == {
    Comp(<<>>, FALSE, "T1", <<>>),                      \* func() T1
    Comp(<<>>, FALSE, "T1", <<"error">>),               \* func() (T1, error)
    Comp(<<"struct">>, FALSE, "T1", <<>>),              \* func(Conf) T1
    Comp(<<"ptr">>, FALSE, "T1", <<"error">>),          \* func(ptr Conf) (T1, error)
    Comp(<<>>, FALSE, "V", <<>>),                       \* func() V        value of a value-receiver type
    Comp(<<>>, FALSE, "pV", <<>>),                      \* func() *V
    Comp(<<>>, FALSE, "pP", <<"error">>),               \* func() (ptr P, error)
    Comp(<<"struct">>, FALSE, "T12", <<>>),             \* func(Conf) T12  a wider interface
    Comp(<<>>, FALSE, "pB", <<>>),                      \* func() *B       implements T1 and T2
    Fact(<<>>, FALSE, <<>>, FALSE, <<"T1">>, <<>>),                       \* func() func() T1
    Fact(<<"struct">>, FALSE, <<>>, FALSE, <<"T1", "error">>, <<"error">>),   \* func(Conf) (func() (T1, error), error)
    Fact(<<"ptr">>, FALSE, <<>>, FALSE, <<"pV">>, <<"error">>),           \* func(ptr Conf) (func() *V, error)
    Fact(<<>>, FALSE, <<>>, FALSE, <<"pB", "error">>, <<>>) }             \* func() func() (ptr B, error)
BadCtors == {
    Comp(<<>>, FALSE, "P", <<>>),                       \* func() P        value of a POINTER-receiver type: not a T1
    Comp(<<>>, FALSE, "S", <<>>),                       \* func() S        no methods
    Comp(<<>>, FALSE, "T2", <<>>),                      \* func() T2       another plugin interface (fine for T2, not for T1)
    NotFunc,                                            \* a struct value
    NoOut(<<>>),                                        \* func()
    NoOut(<<"struct">>),                                \* func(Conf)
    Comp(<<"struct", "int">>, FALSE, "T1", <<>>),       \* func(Conf, int) T1
    Comp(<<"struct">>, TRUE, "T1", <<>>),               \* func(...Conf) T1       variadic: the parameter is []Conf
    Comp(<<"ptr">>, TRUE, "T1", <<"error">>),           \* func(...*Conf) (T1, error)
    Comp(<<"int">>, TRUE, "T1", <<>>),                  \* func(...int) T1
    Comp(<<"struct", "int">>, TRUE, "T1", <<>>),        \* func(Conf, ...int) T1
    Comp(<<"int">>, FALSE, "T1", <<>>),                 \* func(int) T1
    Comp(<<"pint">>, FALSE, "T1", <<>>),                \* func(ptr int) T1
    Comp(<<"T1">>, FALSE, "T1", <<>>),                  \* func(T1) T1            an interface as config
    Comp(<<>>, FALSE, "T1", <<"string">>),              \* func() (T1, string)
    Comp(<<>>, FALSE, "T1", <<"error", "error">>),      \* func() (T1, error, error)
    Comp(<<>>, FALSE, "error", <<"T1">>),               \* func() (error, T1)
    Fact(<<>>, FALSE, <<"struct">>, FALSE, <<"T1">>, <<>>),               \* func() func(Conf) T1
    Fact(<<>>, FALSE, <<"int">>, TRUE, <<"T1">>, <<>>),                   \* func() func(...int) T1
    Fact(<<>>, FALSE, <<>>, FALSE, <<"T1">>, <<"string">>),               \* func() (func() T1, string)
    Fact(<<>>, FALSE, <<>>, FALSE, <<"T1", "string">>, <<>>),             \* func() func() (T1, string)
    Fact(<<>>, FALSE, <<>>, FALSE, <<"P">>, <<>>),                        \* func() func() P
    Fact(<<"struct">>, TRUE, <<>>, FALSE, <<"T1">>, <<>>),                \* func(...Conf) func() T1
    Fact(<<>>, FALSE, <<>>, FALSE, <<>>, <<>>) }                          \* func() func()
Ctors == GoodCtors \cup BadCtors

\* default-config arguments
D(k, ins, variadic, out) == [k |-> k, ins |-> ins, variadic |-> variadic, out |-> out]
DNone == D("none", <<>>, FALSE, "")
Dflts == { DNone,
           D("nil", <<>>, FALSE, ""),                   \* an explicit untyped nil
           D("func", <<>>, FALSE, "struct"),            \* func() Conf
           D("func", <<>>, FALSE, "ptr"),               \* func() *Conf
           D("func", <<>>, FALSE, "struct2"),           \* func() OtherConf
           D("func", <<"int">>, FALSE, "struct"),       \* func(int) Conf
           D("func", <<"int">>, TRUE, "struct"),        \* func(...int) Conf
           D("value", <<>>, FALSE, "struct"),           \* a Conf value instead of a func
           D("two", <<>>, FALSE, "struct") }            \* two default-config arguments

---------------------------------------------------------------------------
(* doc.go "Type expectations": <newPlugin> func([config <configType>]) (<pluginImpl>[, error]); <newFactory>            *)
(* func([config <configType>]) (func() (<pluginImpl>[, error])[, error]); <pluginImpl> assignable to <plugin>;              *)
(* <configType> struct or struct pointer; default config factory func() <configType>, only if there is a config.            *)
(* vok / lax are the two deliberately wrong readings the model can be switched to; the PROPERTY uses (FALSE, FALSE).       *)
CfgTypeOKX(c, vok) == Len(c.ins) = 0 \/ (Len(c.ins) = 1 /\ (vok \/ ~c.variadic) /\ c.ins[1] \in {"struct", "ptr"})
ResultOKX(t, outs, lax) == Len(outs) \in {1, 2} /\ ImplementsX(outs[1], t, lax) /\ (Len(outs) = 2 => outs[2] = "error")
CtorOKX(t, c, vok, lax) ==
    /\ c.isfunc /\ ~c.noout /\ CfgTypeOKX(c, vok)
    /\ IF c.fact THEN /\ Len(c.fins) = 0 /\ ~c.fvariadic /\ ResultOKX(t, c.fouts, lax)
                      /\ Len(c.rest) <= 1 /\ (Len(c.rest) = 1 => c.rest[1] = "error")
                 ELSE ResultOKX(t, <<c.prod>> \o c.rest, lax)
DfltOK(c, d) == \/ d.k \in {"none", "nil"}
                \/ d.k = "func" /\ Len(c.ins) = 1 /\ d.ins = <<>> /\ ~d.variadic /\ d.out = c.ins[1]
\* the model (switchable) ...
CtorOK(t, c) == CtorOKX(t, c, VariadicOK, PtrRecv = "lax")
\* ... and what the documentation says (the property)
Expect(op) == op.t \in {"T1", "T2"} /\ op.n # "" /\ CtorOKX(op.t, op.c, FALSE, FALSE) /\ DfltOK(op.c, op.d)

---------------------------------------------------------------------------
(* the case space *)
Op(t, n, c, d) == [t |-> t, n |-> n, c |-> c, d |-> d]
G1 == Comp(<<>>, FALSE, "pB", <<>>)                     \* well-formed for T1 and for T2
G2 == Comp(<<"struct">>, FALSE, "T12", <<"error">>)     \* too
BAD == NoOut(<<>>)
Small == {Op(t, n, c, DNone) : t \in {"T1", "T2"}, n \in {"a", "b"}, c \in {G1, G2, BAD}}
Singles == {<<Op(t, n, c, d)>> : t \in {"T1", "T2", "S"}, n \in {"a", ""}, c \in Ctors, d \in Dflts}
Pairs   == {<<o1, o2>> : o1, o2 \in Small}
Triples == {<<o1, o2, o3>> : o1, o2, o3 \in Small}
\* a well-formed entry, then every constructor / default variant under the SAME and under ANOTHER name and type
AfterGood == {<<Op("T1", "a", G1, DNone), Op(t, n, c, d)>> : t \in {"T1", "T2"}, n \in {"a", "b"}, c \in Ctors,
                                                           d \in {DNone, D("func", <<>>, FALSE, "struct")}}
Cases == Singles \cup Pairs \cup AfterGood \cup (IF WithTriples THEN Triples ELSE {})

\* what is asked after every operation
ProbeTypes == <<"T1", "T2", "T12", "S">>
ProbeNames == <<"a", "b", "">>
FT(isfunc, ins, variadic, outs) == [isfunc |-> isfunc, ins |-> ins, variadic |-> variadic, outs |-> outs]
ProbeFTs == << FT(TRUE, <<>>, FALSE, <<"T1">>),                 \* func() T1
               FT(TRUE, <<>>, FALSE, <<"T1", "error">>),        \* func() (T1, error)
               FT(TRUE, <<>>, FALSE, <<"T2", "error">>),
               FT(TRUE, <<>>, FALSE, <<"T12">>),                \* an interface nothing is registered for
               FT(TRUE, <<>>, FALSE, <<"error">>),              \* func() error: factory-shaped, `error` is an interface
               FT(TRUE, <<>>, FALSE, <<"T1", "string">>),
               FT(TRUE, <<>>, FALSE, <<"T1", "error", "error">>),
               FT(TRUE, <<>>, FALSE, <<"error", "T1">>),
               FT(TRUE, <<"int">>, FALSE, <<"T1">>),            \* func(int) T1
               FT(TRUE, <<"int">>, TRUE, <<"T1">>),             \* func(...int) T1
               FT(TRUE, <<>>, FALSE, <<"pV">>),                 \* func() *V: an implementation, not an interface
               FT(TRUE, <<>>, FALSE, <<"S">>),
               FT(TRUE, <<>>, FALSE, <<>>),                     \* func()
               FT(FALSE, <<>>, FALSE, <<"T1">>) >>              \* T1 itself (not a func)
IsFactoryType(ft) == ft.isfunc /\ Len(ft.ins) = 0 /\ Len(ft.outs) \in {1, 2} /\ IsIfaceTN(ft.outs[1])
                     /\ (Len(ft.outs) = 2 => ft.outs[2] = "error")

---------------------------------------------------------------------------
(* the registry, implementation shaped *)
S0 == [entries |-> {},      \* {[t, n, id]}: id = index of the registering operation
       tables  |-> {}]      \* plugin types that have a name table (what Lookup looks at)

Res(out, id) == [out |-> out, id |-> id]
\* Register: expect(interface); expect(name); name table; expect(!dup); default arg count; constructor; default config
RegisterStep(s, op, id) ==
    IF ~(op.t \in {"T1", "T2"}) \/ op.n = "" THEN <<s, "panic">>
    ELSE LET s1  == IF Atomic THEN s ELSE [s EXCEPT !.tables = @ \cup {op.t}]
             dup == \E e \in s.entries : e.t = op.t /\ e.n = op.n
             wf  == CtorOK(op.t, op.c) /\ DfltOK(op.c, op.d)
             put == [entries |-> {e \in s.entries : ~(e.t = op.t /\ e.n = op.n)} \cup {[t |-> op.t, n |-> op.n, id |-> id]},
                     tables |-> s.tables \cup {op.t}]
         IN IF dup /\ DupRule = "panic" THEN <<s1, "panic">>
            ELSE IF dup /\ DupRule = "keep" THEN <<s1, "ok">>
            ELSE IF ~wf THEN <<s1, "panic">>
            ELSE <<put, "ok">>

NewRes(s, t, n) ==
    IF ~IsIfaceTN(t) \/ n = "" THEN Res("panic", 0)
    ELSE IF \E e \in s.entries : e.t = t /\ e.n = n
         THEN Res("ok", (CHOOSE e \in s.entries : e.t = t /\ e.n = n).id)
         ELSE Res("error", 0)
NewFRes(s, ft, n) ==
    IF ~IsFactoryType(ft) \/ n = "" THEN Res("panic", 0) ELSE NewRes(s, ft.outs[1], n)

NT == Len(ProbeTypes)
NN == Len(ProbeNames)
NF == Len(ProbeFTs)
Probes(s) == [lookup  |-> [i \in 1..NT |-> ProbeTypes[i] \in s.tables],
              lookupf |-> [i \in 1..NF |-> IsFactoryType(ProbeFTs[i]) /\ ProbeFTs[i].outs[1] \in s.tables],
              new     |-> [i \in 1..NT |-> [j \in 1..NN |-> NewRes(s, ProbeTypes[i], ProbeNames[j])]],
              newf    |-> [i \in 1..NF |-> [j \in 1..NN |-> NewFRes(s, ProbeFTs[i], ProbeNames[j])]]]

---------------------------------------------------------------------------
VARIABLES cs,     \* the case: a sequence of operations
          j,      \* operations done
          outs,   \* their outcomes: "ok" | "panic"
          pr      \* the probes after the last operation
          , ms    \* the model's registry (not used by the property)
vars == <<cs, j, outs, pr, ms>>

Init == cs \in Cases /\ j = 0 /\ outs = <<>> /\ ms = S0 /\ pr = Probes(S0)
Step == /\ j < Len(cs)
        /\ LET r == RegisterStep(ms, cs[j + 1], j + 1)
           IN ms' = r[1] /\ outs' = Append(outs, r[2]) /\ pr' = Probes(r[1])
        /\ j' = j + 1 /\ UNCHANGED cs
Spec == Init /\ [][Step]_vars

---------------------------------------------------------------------------
(* THE PROPERTY: over the operations, their outcomes and the answers to the probes only *)
\* the registrations that count: accepted, and the first accepted one for their (type, name)
Counts(i) == outs[i] = "ok" /\ ~\E h \in 1..(i - 1) : outs[h] = "ok" /\ cs[h].t = cs[i].t /\ cs[h].n = cs[i].n
Registered == {[t |-> cs[i].t, n |-> cs[i].n, id |-> i] : i \in {i \in 1..j : Counts(i)}}
HasType(t) == \E e \in Registered : e.t = t

\* Register panics exactly when a type expectation is violated or the (type, name) pair is taken - never otherwise, and
\* a malformed constructor is never accepted
PanicRule == \A i \in 1..j : outs[i] = "ok" <=>
                 Expect(cs[i]) /\ ~\E h \in 1..(i - 1) : outs[h] = "ok" /\ cs[h].t = cs[i].t /\ cs[h].n = cs[i].n
\* New / NewFactory reach exactly the FIRST accepted registration of (type, name): a failed or duplicate Register changes
\* nothing, a name registered for one plugin type says nothing about another type; nothing registered = error, not panic;
\* a non-interface type / non-factory type / empty name is a programming error (panic)
NewRule == \A a \in 1..NT, b \in 1..NN :
              pr.new[a][b] = (IF ~IsIfaceTN(ProbeTypes[a]) \/ ProbeNames[b] = "" THEN Res("panic", 0)
                              ELSE IF \E e \in Registered : e.t = ProbeTypes[a] /\ e.n = ProbeNames[b]
                                   THEN Res("ok", (CHOOSE e \in Registered : e.t = ProbeTypes[a] /\ e.n = ProbeNames[b]).id)
                                   ELSE Res("error", 0))
NewFactoryRule == \A a \in 1..NF, b \in 1..NN :
              pr.newf[a][b] = (IF ~IsFactoryType(ProbeFTs[a]) \/ ProbeNames[b] = "" THEN Res("panic", 0)
                               ELSE IF \E e \in Registered : e.t = ProbeFTs[a].outs[1] /\ e.n = ProbeNames[b]
                                    THEN Res("ok", (CHOOSE e \in Registered : e.t = ProbeFTs[a].outs[1] /\ e.n = ProbeNames[b]).id)
                                    ELSE Res("error", 0))
\* "Lookup returns true if any plugin constructor has been registered for given type"
LookupRule == \A a \in 1..NT : pr.lookup[a] <=> HasType(ProbeTypes[a])
\* "LookupFactory returns true if factoryType looks like func() (SomeInterface[, error]) and any plugin constructor has been
\* registered for SomeInterface"
LookupFactoryRule == \A a \in 1..NF : pr.lookupf[a] <=> IsFactoryType(ProbeFTs[a]) /\ HasType(ProbeFTs[a].outs[1])

TypeOK == j \in 0..Len(cs) /\ Len(outs) = j
=============================================================================
