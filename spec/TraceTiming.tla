----------------------------- MODULE TraceTiming -----------------------------
(***************************************************************************)
(* C04 trace specification: real runs of the engine (real instance loop,   *)
(* real Waiter, real or scripted schedule, configuration decoded by         *)
(* cli.readConfig) recorded by `vdrive timing`.                             *)
(*                                                                          *)
(* Lines:  run{run,kind,key,got,ninst}  tok{k,tok,a,b,d,net,tag,dur,exp,pa,pb}*  end{end,last,drawn,left,timeout,err} *)
(*         conf{run,pool,key,got}   (pools of multi-pool configurations, decoded only)                                *)
(* Times are microseconds from one origin stamp per run (MAX = 2 000 000).  *)
(* The design variables disc, k, nfired, ndisc, lastTok and last[1] are      *)
(* bound to what was logged; the record predicates and DiscardDefault are    *)
(* the operators of Timing.tla.  Every rule that fails on a line is          *)
(* collected in `viol` (the walk continues, so one TLC run judges the whole  *)
(* batch) and printed at the end together with the M2 statistics.            *)
(*                                                                          *)
(* Soundness under load (a wake-up can be late by any amount):               *)
(*   a is stamped before Waiter.Wait reads the clock (R), b after the        *)
(*   decision, a <= R <= b on one monotonic clock, and the code decides      *)
(*   discard <=> R - tok >= 2 s.  Hence "a - tok >= 2 s + margin => discard" *)
(*   and "b - tok < 2 s - margin => fire" can only be relaxed, never         *)
(*   violated, by a scheduling delay; margin covers the truncation to us.    *)
(***************************************************************************)
EXTENDS Timing, Json, IOUtils

CONSTANTS MarginUs,   \* rounding margin of the two one-sided rules
          TickUs,     \* 100 000: one model tick
          TolUs,      \* a script token counts as "on script" when both stamps are within TolUs of the prediction
          SlackUs,    \* scheduling slack granted to the run-length bound
          PaceSlackUs \* client-side overhead granted to a paced shot on top of max(served time, min_waiting_time)

VARIABLES l, viol, run, maxdur, confirmed, offscript, ntoks, nruns

Trace == ndJsonDeserialize(IOEnv.VERIF_TRACE)
Ev == Trace[l]

frozen == <<now, slack, ninst, nextTok, pc, tok, tokk, lastNow, overdue, waitFor, deadline, tnext, hist, lz, want, startAt, finishSeen, lastNext>>
tvars == <<vars, l, viol, run, maxdur, confirmed, offscript, ntoks, nruns>>

TraceInit ==
    /\ Init
    /\ l = 1 /\ viol = <<>> /\ run = 0 /\ maxdur = 0 /\ confirmed = 0 /\ offscript = 0 /\ ntoks = 0 /\ nruns = 0

V(rule) == [l |-> l, rule |-> rule]      \* every line carries its run id
\* append V(name) for every name whose condition is TRUE
RECURSIVE Collect(_, _)
Collect(acc, checks) == IF checks = <<>> THEN acc
                        ELSE Collect(IF checks[1][2] THEN Append(acc, V(checks[1][1])) ELSE acc, Tail(checks))

TraceRun ==
    /\ Ev.ev = "run"
    /\ run' = Ev.run
    /\ disc' = Ev.got
    /\ k' = 0 /\ nfired' = 0 /\ ndisc' = 0 /\ lastTok' = 0 /\ maxdur' = 0
    /\ last' = [i \in Insts |-> Null]
    /\ viol' = Collect(viol, << <<"default-not-applied", Ev.got # DiscardDefault(Ev.key)>> >>)
    /\ nruns' = nruns + 1
    /\ UNCHANGED <<confirmed, offscript, ntoks>>

\* a pool of a multi-pool configuration that was only decoded (cli.readConfig walks every pool)
TraceConf ==
    /\ Ev.ev = "conf"
    /\ viol' = Collect(viol, << <<"default-not-applied", Ev.got # DiscardDefault(Ev.key)>> >>)
    /\ UNCHANGED <<run, disc, k, nfired, ndisc, lastTok, last, maxdur, confirmed, offscript, ntoks, nruns>>

Abs(x) == IF x < 0 THEN -x ELSE x
OnScript(e) == /\ Abs((e.a - e.tok) - e.pa * TickUs) <= TolUs
               /\ Abs((e.b - e.tok) - e.pb * TickUs) <= TolUs

TraceTok ==
    /\ Ev.ev = "tok"
    /\ LET r == [k |-> Ev.k, tok |-> Ev.tok, a |-> Ev.a, b |-> Ev.b, d |-> Ev.d, r |-> Ev.dur, i |-> 1, lz |-> 0, pf |-> Ev.pf]
           decided == r.d \in {"fire", "discard"}
           scripted == Ev.exp # ""
       IN  /\ last' = [last EXCEPT ![1] = r]
           /\ k' = k + 1
           /\ nfired' = IF r.d = "fire" THEN nfired + 1 ELSE nfired
           /\ ndisc' = IF r.d = "discard" THEN ndisc + 1 ELSE ndisc
           /\ lastTok' = IF r.tok > lastTok THEN r.tok ELSE lastTok
           /\ maxdur' = IF r.r > maxdur THEN r.r ELSE maxdur
           /\ viol' = Collect(viol, <<
                 <<"shot-and-discarded", r.d = "both">>,     \* "none" (no outcome) is judged at the end line
                 <<"fired-early", decided /\ ~RecNoEarly(r)>>,
                 <<"fired-two-seconds-late", disc /\ decided /\ ~RecMustDiscard(r, MAX, MarginUs)>>,
                 <<"discarded-inside-window", disc /\ decided /\ ~RecMustFire(r, MAX, MarginUs)>>,
                 <<"discarded-while-off", ~disc /\ r.d = "discard">>,
                 <<"discard-not-marked", r.d = "discard" /\ ~(Ev.net = 777 /\ Ev.tag = "discarded")>>,
                 \* scenario pacing (mw = min_waiting_time of the run, 0 for ordinary guns; dur = -1: shot cut by the run limit)
                 <<"next-shot-before-min-wait", decided /\ ~RecPaced(r, Ev.mw)>>,
                 <<"shot-shorter-than-min-wait", r.d = "fire" /\ Ev.dur >= 0 /\ Ev.dur < Ev.mw>>,
                 <<"paced-longer-than-needed", r.d = "fire" /\ Ev.mw > 0 /\
                                               Ev.dur > (IF Ev.srv > Ev.mw THEN Ev.srv ELSE Ev.mw) + PaceSlackUs>>,
                 \* the gun was SEEN in its pacing sleep (stack sample of the shooting goroutine) although the target alone had
                 \* already taken min_waiting_time to serve the shot: the wait is not measured from the start of the shot
                 <<"paced-although-served-longer", r.d = "fire" /\ Ev.mw > 0 /\ Ev.psleep /\ Ev.srv >= Ev.mw>>,
                 <<"script-decision-diverged", scripted /\ decided /\ OnScript(Ev) /\ r.d # Ev.exp>> >>)
           /\ confirmed' = IF scripted /\ decided /\ OnScript(Ev) /\ r.d = Ev.exp THEN confirmed + 1 ELSE confirmed
           /\ offscript' = IF scripted /\ ~(decided /\ OnScript(Ev)) THEN offscript + 1 ELSE offscript
           /\ ntoks' = ntoks + 1
    /\ UNCHANGED <<run, disc, nruns>>

TraceEnd ==
    /\ Ev.ev = "end"
    /\ viol' = Collect(viol, <<
          \* machinery, not verdicts (the check exits 2): engine error; a run with discard off that hit the 60 s limit
          <<"run-error", Ev.err # "" /\ ~Ev.timeout>>,
          <<"run-timeout-off", ~disc /\ Ev.timeout>>,
          <<"token-lost", Ev.err = "" /\ ~Ev.timeout /\ ~(nfired + ndisc = Ev.drawn /\ k = Ev.drawn /\ Ev.left = 0 /\ Ev.orphans = 0)>>,
          <<"not-all-fired-while-off", ~disc /\ Ev.err = "" /\ ~Ev.timeout /\ nfired # Ev.drawn>>,
          <<"run-not-bounded", disc /\ (Ev.timeout \/ Ev.end > Ev.last + MAX + maxdur + SlackUs)>> >>)
    /\ UNCHANGED <<run, disc, k, nfired, ndisc, lastTok, last, maxdur, confirmed, offscript, ntoks, nruns>>

TraceNext ==
    /\ l <= Len(Trace)
    /\ l' = l + 1
    /\ TraceRun \/ TraceTok \/ TraceEnd \/ TraceConf
    /\ UNCHANGED frozen

TraceSpec == TraceInit /\ [][TraceNext]_tvars

\* the verdict leaves TLC as one line when the whole batch has been consumed
Report == l > Len(Trace) =>
            PrintT(<<"VERIF", ToJson([viol |-> viol, confirmed |-> confirmed, offscript |-> offscript,
                                      toks |-> ntoks, runs |-> nruns, lines |-> Len(Trace)])>>)
=============================================================================
