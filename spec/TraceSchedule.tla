---------------------------- MODULE TraceSchedule ----------------------------
(***************************************************************************)
(* C02 trace specification (M2 direction: TLC behaviours replayed through  *)
(* the real compositeSchedule under the yield hooks).                      *)
(*                                                                         *)
(* The trace is what the replayer OBSERVED: for every released step, the   *)
(* site and composite node at which that goroutine was really parked, and  *)
(* the value a root-level Next()/Left() really returned when the step      *)
(* completed the call.  A "reset" line starts a new behaviour on a fresh   *)
(* tree.  Each step line must be a step of Schedule.tla taken by that      *)
(* caller from exactly that pc on exactly that node, and produce exactly   *)
(* that result; every invariant of Schedule is evaluated at every step.    *)
(***************************************************************************)
EXTENDS Schedule, Json, IOUtils

VARIABLE l

Trace == ndJsonDeserialize(IOEnv.VERIF_TRACE)
Ev == Trace[l]

tvars == <<vars, l>>

FreshState(t) ==
    /\ tree' = t
    /\ L' = [n \in {m \in 1..Len(t.kind) : t.kind[m] # "comp"} |-> InitLeaf(t, n, t.mode)]
    /\ head' = [n \in {m \in 1..Len(t.kind) : t.kind[m] = "comp"} |-> 1]
    /\ readers' = [n \in {m \in 1..Len(t.kind) : t.kind[m] = "comp"} |-> {}]
    /\ writer' = [n \in {m \in 1..Len(t.kind) : t.kind[m] = "comp"} |-> "none"]
    /\ now' = 0
    /\ stack' = [c \in Callers |-> <<>>]
    /\ ncalls' = [c \in Callers |-> 0]
    /\ lastT' = [c \in Callers |-> 0]
    /\ finT' = [c \in Callers |-> -1]
    /\ snap' = [c \in Callers |-> 0]
    /\ fired' = FALSE
    /\ observedEnd' = FALSE
    /\ viol' = {}
    /\ lastRet' = [c \in Callers |-> <<>>]
    /\ hist' = <<>>
    \* state after construction and the explicit Start: with the repaired Left() the constructor's probes change nothing
    /\ cst' = [n \in {m \in 1..Len(t.kind) : t.kind[m] = "comp"} |-> t.mode = "explicit" /\ n \in InitStartChain(t)]
    /\ probes' = <<>> /\ probing' = FALSE

TraceInit ==
    /\ l = 1
    /\ tree = [kind |-> <<"doat">>, kids |-> <<<<>>>>, toks |-> <<<<>>>>, dur |-> <<0>>, mode |-> "lazy"]
    /\ L = [n \in {1} |-> [cnt |-> 0, startd |-> FALSE, st |-> 0, fin |-> 0]]
    /\ head = <<>> /\ readers = <<>> /\ writer = <<>>
    /\ now = 0
    /\ stack = [c \in Callers |-> <<>>]
    /\ ncalls = [c \in Callers |-> 0]
    /\ lastT = [c \in Callers |-> 0]
    /\ finT = [c \in Callers |-> -1]
    /\ snap = [c \in Callers |-> 0]
    /\ fired = FALSE /\ observedEnd = FALSE /\ viol = {} /\ lastRet = [c \in Callers |-> <<>>]
    /\ hist = <<>>
    /\ cst = <<>> /\ probes = <<>> /\ probing = FALSE

TraceReset ==
    /\ l <= Len(Trace) /\ Ev.ev = "reset"
    /\ FreshState(Ev.tree)
    /\ l' = l + 1

\* the action the spec takes for caller c is determined by where c is
SpecStep(c, op) ==
    IF Idle(c) THEN (IF op = "N" THEN CallNext(c) ELSE CallLeft(c))
    ELSE \E i \in 3..Len(Acts) : Act(c, Acts[i])

ObservedMatches(c, e) ==
    /\ IF Idle(c) THEN e.site = "idle" /\ e.op \in {"N", "L"}
       ELSE e.site = Top(c).pc /\ e.node = Top(c).node
    /\ ~e.offgrid

TraceStep ==
    /\ l <= Len(Trace) /\ Ev.ev = "step"
    /\ ObservedMatches(Ev.c, Ev)
    /\ SpecStep(Ev.c, Ev.op)
    /\ hist' = hist
    /\ IF stack'[Ev.c] = <<>> THEN lastRet'[Ev.c] = Ev.ret ELSE Ev.ret = <<>>
    /\ l' = l + 1

TraceNext == TraceReset \/ TraceStep
TraceSpec == TraceInit /\ [][TraceNext]_tvars

\* acceptance: the specification can follow the trace to its end
Accepted == l <= Len(Trace) => ENABLED TraceNext

=============================================================================
