-------------------------- MODULE ConfigDecodeConc --------------------------
(***************************************************************************)
(* C17, overlapping decodes.  After the config file is read, pandora keeps *)
(* decoding: a factory made from a plain plugin constructor (every rps /   *)
(* startup schedule, custom guns) decodes and validates its section again  *)
(* for every product, and every pool runs in its own goroutine - so        *)
(* config.Decode runs concurrently on DIFFERENT sections.                  *)
(*                                                                         *)
(* config.Decode(section, result) = three steps (core/config/config.go):   *)
(*   NewCfg(g)  cfg := newDecoderConfig(result): a decoder configuration   *)
(*              whose Result points at the caller's struct,                *)
(*   NewDec(g)  mapstructure.NewDecoder(cfg) keeps the pointer to cfg,     *)
(*   Run(g)     decoder.Decode(section): reads cfg.Result and writes the   *)
(*              section's values into the struct it points at.             *)
(* Callers interleave freely.  The decoder configuration belongs to the    *)
(* CALL (Local); in the wrong variant it is one package-level value.       *)
(***************************************************************************)
EXTENDS Integers, Sequences, FiniteSets, TLC

CONSTANTS Callers, MaxCalls,
          Local      \* TRUE: newDecoderConfig allocates per call; FALSE: one shared DecoderConfig (wrong)

NoOne == "nobody"
VARIABLES pc,       \* caller -> "idle" | "cfg" | "dec"
          ncalls,
          result,   \* caller -> whose struct THIS call's decoder configuration points at
          struct,   \* caller -> whose section has been decoded into this caller's (fresh, default-filled) struct
          done      \* finished calls [g, n, holds]
vars == <<pc, ncalls, result, struct, done>>

Init == /\ pc = [g \in Callers |-> "idle"] /\ ncalls = [g \in Callers |-> 0]
        /\ result = [g \in Callers |-> NoOne] /\ struct = [g \in Callers |-> NoOne] /\ done = {}

NewCfg(g) == /\ pc[g] = "idle" /\ ncalls[g] < MaxCalls
             /\ ncalls' = [ncalls EXCEPT ![g] = @ + 1]
             /\ struct' = [struct EXCEPT ![g] = NoOne]                      \* a fresh struct holding the defaults
             /\ result' = IF Local THEN [result EXCEPT ![g] = g] ELSE [h \in Callers |-> g]
             /\ pc' = [pc EXCEPT ![g] = "cfg"] /\ UNCHANGED done
NewDec(g) == /\ pc[g] = "cfg" /\ pc' = [pc EXCEPT ![g] = "dec"] /\ UNCHANGED <<ncalls, result, struct, done>>
Run(g) == /\ pc[g] = "dec"
          /\ LET target == result[g] IN
             /\ struct' = [struct EXCEPT ![target] = g]                     \* g's section lands where cfg.Result points
             /\ done' = done \cup {[g |-> g, n |-> ncalls[g], holds |-> struct'[g]]}
          /\ pc' = [pc EXCEPT ![g] = "idle"] /\ UNCHANGED <<ncalls, result>>
Next == \E g \in Callers : NewCfg(g) \/ NewDec(g) \/ Run(g)
Spec == Init /\ [][Next]_vars

\* THE PROPERTY: when Decode returns, the caller's struct holds exactly the caller's own section
\* (not the defaults only, not another caller's values)
OwnResult == \A c \in done : c.holds = c.g
=============================================================================
