----------------------------- MODULE WaiterInd -----------------------------
(***************************************************************************)
(* C04, unbounded evidence (optional extra on top of TLC): the Waiter of   *)
(* Timing.tla for ONE instance over unbounded integer time, with an        *)
(* inductive invariant that implies NoEarly and Sandwich for ALL clock     *)
(* values, token instants, window sizes MAX > 0 and ANY descheduling (Tick *)
(* jumps by any positive amount at any pc).  Checked with Apalache:        *)
(*                                                                         *)
(*   apalache-mc check --cinit=CInit --init=Init    --inv=IndInv --length=0 *)
(*   apalache-mc check --cinit=CInit --init=IndInit --inv=IndInv --length=1 *)
(*   apalache-mc check --cinit=CInitStale --init=IndInit --inv=IndInv --length=1  (must FAIL) *)
(*   apalache-mc check --cinit=CInitStale --init=Init --inv=Sandwich --length=10  (must FAIL:  *)
(*                                        the shipped defect is reachable from Init)          *)
(*                                                                         *)
(* Same grain as Timing.tla (next / cmp / arm / sleep / decide / shooting); *)
(* the schedule hands out arbitrary integers as token instants.            *)
(***************************************************************************)
EXTENDS Integers

CONSTANTS
    \* @type: Int;
    MAX,
    \* @type: Bool;
    Fixed

VARIABLES
    \* @type: Int;
    now,
    \* @type: Bool;
    disc,
    \* @type: Str;
    pc,
    \* @type: Int;
    tok,
    \* @type: Int;
    a,
    \* @type: Int;
    lastNow,
    \* @type: Int;
    overdue,
    \* @type: Int;
    waitFor,
    \* @type: Int;
    deadline,
    \* @type: Bool;
    has,
    \* @type: Int;
    dtok,
    \* @type: Int;
    da,
    \* @type: Int;
    db,
    \* @type: Str;
    dd

CInit      == MAX \in Int /\ MAX > 0 /\ Fixed = TRUE
CInitStale == MAX \in Int /\ MAX > 0 /\ Fixed = FALSE

Init ==
    /\ now = 0 /\ disc \in BOOLEAN /\ pc = "next"
    /\ tok = 0 /\ a = 0 /\ lastNow = -1 /\ overdue = 0 /\ waitFor = 0 /\ deadline = 0
    /\ has = FALSE /\ dtok = 0 /\ da = 0 /\ db = 0 /\ dd = "fire"

\* the goroutine can lose the CPU for any time at any point
Tick ==
    /\ \E dt \in Int : dt > 0 /\ now' = now + dt
    /\ UNCHANGED <<disc, pc, tok, a, lastNow, overdue, waitFor, deadline, has, dtok, da, db, dd>>

NextTok ==
    /\ pc = "next"
    /\ \E t \in Int : t >= 0 /\ tok' = t      \* any instant after the zero time (lastNow = -1 is the zero time.Time)
    /\ a' = now
    /\ pc' = "cmp"
    /\ UNCHANGED <<now, disc, lastNow, overdue, waitFor, deadline, has, dtok, da, db, dd>>

Cmp ==
    /\ pc = "cmp"
    /\ IF tok <= lastNow
       THEN /\ IF Fixed
               THEN lastNow' = now /\ overdue' = now - tok
               ELSE lastNow' = lastNow /\ overdue' = lastNow - tok
            /\ pc' = "decide" /\ UNCHANGED waitFor
       ELSE /\ lastNow' = now
            /\ IF tok <= now
               THEN overdue' = now - tok /\ pc' = "decide" /\ UNCHANGED waitFor
               ELSE overdue' = 0 /\ waitFor' = tok - now /\ pc' = "arm"
    /\ UNCHANGED <<now, disc, tok, a, deadline, has, dtok, da, db, dd>>

Arm ==
    /\ pc = "arm"
    /\ deadline' = now + waitFor
    /\ pc' = "sleep"
    /\ UNCHANGED <<now, disc, tok, a, lastNow, overdue, waitFor, has, dtok, da, db, dd>>

Wake ==
    /\ pc = "sleep" /\ now >= deadline
    /\ pc' = "decide"
    /\ UNCHANGED <<now, disc, tok, a, lastNow, overdue, waitFor, deadline, has, dtok, da, db, dd>>

Decide ==
    /\ pc = "decide"
    /\ has' = TRUE /\ dtok' = tok /\ da' = a /\ db' = now
    /\ IF ~disc \/ overdue < MAX
       THEN dd' = "fire" /\ pc' = "shooting"
       ELSE dd' = "discard" /\ pc' = "next"
    /\ UNCHANGED <<now, disc, tok, a, lastNow, overdue, waitFor, deadline>>

ShootEnd ==
    /\ pc = "shooting"
    /\ pc' = "next"
    /\ UNCHANGED <<now, disc, tok, a, lastNow, overdue, waitFor, deadline, has, dtok, da, db, dd>>

Next == Tick \/ NextTok \/ Cmp \/ Arm \/ Wake \/ Decide \/ ShootEnd

-----------------------------------------------------------------------------
(* the property: the record predicates of Timing.tla on the last decision *)
NoEarly  == has /\ dd = "fire" => db >= dtok
Sandwich == has /\ disc => /\ (da - dtok >= MAX => dd = "discard")
                           /\ (db - dtok <  MAX => dd = "fire")
NeverDiscardOff == has /\ ~disc => dd = "fire"

TypeOK ==
    /\ now \in Int /\ disc \in BOOLEAN
    /\ pc \in {"next", "cmp", "arm", "sleep", "decide", "shooting"}
    /\ tok \in Int /\ a \in Int /\ lastNow \in Int /\ overdue \in Int /\ waitFor \in Int /\ deadline \in Int
    /\ has \in BOOLEAN /\ dtok \in Int /\ da \in Int /\ db \in Int /\ dd \in {"fire", "discard"}

\* the inductive strengthening: what is known about the reading R = lastNow at every pc
IndInv ==
    /\ TypeOK
    /\ lastNow <= now
    /\ pc = "cmp" => a <= now
    /\ pc \in {"arm", "sleep", "decide"} => a <= lastNow
    /\ pc = "arm" => overdue = 0 /\ lastNow < tok /\ waitFor = tok - lastNow
    /\ pc = "sleep" => overdue = 0 /\ lastNow < tok /\ deadline >= tok
    /\ pc = "decide" => \/ overdue = lastNow - tok /\ tok <= lastNow          \* due at the reading
                        \/ overdue = 0 /\ lastNow < tok /\ tok <= now         \* slept until the timer fired
    /\ NoEarly /\ Sandwich /\ NeverDiscardOff

IndInit == IndInv
=============================================================================
