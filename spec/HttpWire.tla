------------------------------ MODULE HttpWire ------------------------------
(***************************************************************************)
(* C09 - HTTP wire fidelity, the data part.                                *)
(*                                                                         *)
(* Wire(c) is the request that must ARRIVE at the gun's target for one     *)
(* abstract ammo entry c in one of the four HTTP ammo formats, given the   *)
(* provider's `headers` option and the gun configuration:                  *)
(*                                                                         *)
(*   c = [fmt, ssl, compress, method, uri, host, ehdr, opts, body]         *)
(*     fmt      "uri" | "uripost" | "raw" | "json"                         *)
(*     ssl      gun option ssl                                             *)
(*     compress gun option disable-compression = FALSE                     *)
(*     host     TRUE iff the entry itself names a Host (json `host`, raw   *)
(*              `Host:` line, uri/uripost `[Host: ...]`)                   *)
(*     ehdr     the entry's own header fields, <<[n, v], ...>> in file     *)
(*              order (names as spelled in the file)                       *)
(*     opts     the provider's `headers` option, <<[n, v], ...>>           *)
(*                                                                         *)
(* The shape follows the code path: decoder merge of file headers and      *)
(* configured headers (decoders/uri.go readLine, uripost.go readBlock,     *)
(* jsonline.go Scan, ammo/raw_ammo.go BuildRequest), add-if-absent with    *)
(* the Host special case (util.EnrichRequestWithHeaders), scheme/Host/     *)
(* URL.Host rewrite (guns/http/base.go Shoot), net/http transport.         *)
(*                                                                         *)
(* Host tokens are abstract: "AMMOHOST" (what the entry says), the value   *)
(* of the option's Host, "TARGETHOST" (host part of gun.target).  The      *)
(* driver renders them to concrete strings and projects them back.         *)
(*                                                                         *)
(* Variant selects the rule set: "spec" is the property; the others are    *)
(* deliberately wrong (negative controls / the defects the check is meant  *)
(* to find): "config_wins" = uri and uripost let the option override the   *)
(* file's header (pandora before the fix), "host_target" = Host always     *)
(* from the target, "opt_always" = option headers appended even when the   *)
(* entry defines the header, "empty_undefined" = an entry header with an   *)
(* empty value counts as not defined, "live_map" = in a uri/uripost file   *)
(* without `headers` option an entry sees header lines that FOLLOW it.     *)
(*                                                                         *)
(* connect gun (components/guns/http/connect.go): a case may carry          *)
(* gun = "connect", cssl (option connect-ssl) and cstatus (what the proxy   *)
(* answers to CONNECT).  The gun dials its target, optionally speaks TLS   *)
(* to it (connect-ssl), sends `CONNECT <target> HTTP/1.1` with Host =      *)
(* target, and after a 200 uses the connection as a tunnel: the ammo       *)
(* request travels through it exactly as the http gun would send it (TLS   *)
(* inside the tunnel iff ssl), so Wire(c) is unchanged.  Any other answer  *)
(* to CONNECT fails the exchange: nothing reaches the origin, the shot     *)
(* yields one failed sample.  "connect_plain" is the negative control (the *)
(* gun ignores connect-ssl).                                               *)
(*                                                                         *)
(* Re-used entries: a file case may say n (instances) and rounds: the      *)
(* entries of a SMALL file are handed out again and again (passes          *)
(* unlimited; preload keeps the decoded entries, an http/json ARRAY file   *)
(* does so too), in every round all n instances first acquire and only     *)
(* then shoot, concurrently - so a request is on its way while the same    *)
(* entry has already been handed out again.  A delivered request stays     *)
(* what it was: every one of the n * rounds requests must arrive as        *)
(* Wire(EntryCase(f, k)) for its entry k.  Negative control "shared_cursor"*)
(* (requests built from one decoded entry share the body read position).   *)
(*                                                                         *)
(* header/date middleware (provider option `middlewares`): a case may      *)
(* carry mw = [name, loc].  Acquire runs the middlewares on the built      *)
(* request - after the ammo's and the option's headers are in place - and  *)
(* header/date ADDS one field value, the current time in loc rendered with *)
(* http.TimeFormat (token "DATE"; the instant travels separately as unix   *)
(* seconds).  Side channels: side = [answlog, status, trace] switches the  *)
(* gun's answlog (filter) and httptrace (dump + trace) on; they only       *)
(* observe: the wire record and the sample are those of the plain gun, and *)
(* the answer log gets one record per response its filter selects.         *)
(* Negative controls: "mw_twice", "side_changes" (Content-Length dropped). *)
(*                                                                         *)
(* tname: the gun's target is given by name; TARGETHOST is then that name  *)
(* (negative control "target_resolved": the resolved address instead).     *)
(*                                                                         *)
(* Request-targets (rt): a case may carry rt = [segs, query], a request-   *)
(* target in origin-form that is VALID by RFC 3986 but not spelled the way *)
(* Go's url package would spell it by itself: percent-encoded reserved     *)
(* characters (%2F %3F %25), lower-case hex, encoded unreserved, the       *)
(* sub-delims ( ) ' * ! , ; =, ":" "@", an empty segment, a bare "?".      *)
(* Each piece says its spelling in the ammo (raw), what a decode + default *)
(* re-escape would make of it (norm; used by the negative control          *)
(* "uri_rebuilt" only: the gun rebuilds the URL from the decoded path and  *)
(* the non-empty query) and its RFC 3986 character class.  c.uri is        *)
(* Spell(rt), built by TLC; what must arrive is that very spelling.        *)
(* preload (when present) says how the provider reads the file.            *)
(*                                                                         *)
(* http2 gun (components/guns/http/http.go NewHTTP2Gun): gun = "http2",    *)
(* always over TLS.  h2 (when present) says whether the TLS target offers  *)
(* HTTP/2 next to HTTP/1.1.  Against such a target the http2 gun's request *)
(* arrives as HTTP/2.0 and is otherwise Wire(c) of the http gun (:path =   *)
(* uri, :authority = Host, the same header rule and framing); the http and *)
(* connect guns stay on HTTP/1.1 whatever the target offers (they offer    *)
(* http/1.1 only).  Against a target that does not speak h2 the http2 gun  *)
(* delivers NOTHING - it never falls back to HTTP/1.1 silently: the shot   *)
(* panics ("Will panic and cancel shooting", http.go) and reports at most  *)
(* one sample.  Negative control "h2_fallback".                            *)
(*                                                                         *)
(* Multi-entry files: a file case f = [kind "file", fmt, ssl, preload,     *)
(* opts, entries <<[hl, uri, body]>>]; hl are the header lines written     *)
(* before the entry.  In uri/uripost files `[Name: value]` / `[Host: h]`   *)
(* lines set the running header state that every LATER entry inherits (a   *)
(* later line for the same name replaces the value); raw/json entries      *)
(* carry their own headers only.  EntryCase(f, k) is the single-entry case *)
(* the k-th entry amounts to, and Wire(EntryCase(f, k)) what must arrive.  *)
(***************************************************************************)
EXTENDS Naturals, Sequences, FiniteSets, SequencesExt, TLC

CONSTANTS Formats,      \* subset of {"uri", "uripost", "raw", "json"}
          Methods,      \* method tokens for the formats that carry one (raw, json)
          URIs,         \* request-URI tokens
          ExtraURIs,    \* request-URI tokens explored in the side space only
          Targets,      \* structured RFC 3986 request-targets [segs, query] ({} = none)
          Bodies,       \* non-empty body tokens (the empty body is always included)
          EntryHdrs,    \* sequence of [n, v]: alphabet of entry header fields
          OptHdrs,      \* sequence of [n, v]: alphabet of option header fields (may contain Host)
          EmptyHdrs,    \* sequence of [n, v]: entry header fields with an empty / blank value (used one at a time)
          Files,        \* multi-entry file cases
          ReuseFiles,   \* small files handed out again and again to several instances
          MWNames,      \* header/date middleware: header names explored ("" = the default, Date); {} = none
          SideFilters,  \* answlog filters explored with httptrace on/off ({} = no side-channel cases)
          ConnectModes, \* connect gun: values of connect-ssl explored ({} = no connect cases)
          H2Modes,      \* http2 gun / h2-capable target: subset of BOOLEAN = what the target offers ({} = no such cases)
          SSLModes,     \* subset of BOOLEAN
          CompressModes,\* subset of BOOLEAN (TRUE is explored in the side space only)
          Variant

Rng(s) == {s[i] : i \in DOMAIN s}

\* header field names are case-insensitive; the wire (and Go's server) shows the canonical spelling
Canon(n) == CASE n = "x-c"        -> "X-C"
              [] n = "user-agent" -> "User-Agent"
              [] OTHER            -> n

Names(hs) == {Canon(h.n) : h \in Rng(hs)}

\* sub-sequences of an alphabet sequence, in alphabet order
SubSeqsOf(alpha) == { SelectSeq(alpha, LAMBDA x : x \in S) : S \in SUBSET Rng(alpha) }

MethodsOf(f) == CASE f = "uri" -> {"GET"} [] f = "uripost" -> {"POST"} [] OTHER -> Methods
BodiesOf(f)  == IF f = "uri" THEN {""} ELSE {""} \cup Bodies

\* the header the header/date middleware writes
MWHeader(n) == IF n = "" THEN "Date" ELSE n

\* ---- request-targets ----
\* a piece of a path segment / a query: [raw, norm, class]
RECURSIVE PathRaw(_), PathNorm(_)
PathRaw(segs)  == IF segs = <<>> THEN "" ELSE "/" \o Head(segs).raw \o PathRaw(Tail(segs))
PathNorm(segs) == IF segs = <<>> THEN "" ELSE "/" \o Head(segs).norm \o PathNorm(Tail(segs))
\* the request-target as the ammo spells it ...
Spell(t)   == PathRaw(t.segs) \o t.query.raw
\* ... and as a client would spell it that keeps only the decoded path and the non-empty query
Rebuilt(t) == PathNorm(t.segs) \o t.query.norm
\* RFC 3986: segment = *pchar, pchar = unreserved / pct-encoded / sub-delims / ":" / "@"; query = *( pchar / "/" / "?" )
PCharClasses == {"unreserved", "pct-encoded", "sub-delims", "colon-at"}
ValidTarget(t) == /\ t.segs # <<>>
                  /\ \A k \in DOMAIN t.segs : t.segs[k].class \in PCharClasses
                  /\ t.query.class \in PCharClasses \cup {"none", "slash-qmark"}
\* (method, body) pairs of the request-target family
TargetMB(f) == CASE f = "uri" -> {<<"GET", "">>}
                 [] f = "uripost" -> {<<"POST", "">>} \cup {<<"POST", b>> : b \in Bodies}
                 [] OTHER -> {<<"GET", "">>} \cup {<<"POST", b>> : b \in Bodies}

Case(f, s, z, m, u, h, eh, oh, b) ==
    [fmt |-> f, ssl |-> s, compress |-> z, method |-> m, uri |-> u, host |-> h, ehdr |-> eh, opts |-> oh, body |-> b]

\* main space: the full header/Host product over URIs with the default gun (compression disabled);
\* side space: the other (compression, uri) combinations with entries that have headers of their own only
Cases == UNION { { Case(f, s, FALSE, m, u, h, eh, oh, b) :
                     m \in MethodsOf(f), b \in BodiesOf(f), s \in SSLModes,
                     u \in URIs, h \in BOOLEAN, eh \in SubSeqsOf(EntryHdrs), oh \in SubSeqsOf(OptHdrs) }
                 \cup
                 { Case(f, s, zu[1], m, zu[2], FALSE, eh, <<>>, b) :
                     m \in MethodsOf(f), b \in BodiesOf(f), s \in SSLModes, eh \in SubSeqsOf(EntryHdrs),
                     zu \in (CompressModes \X (URIs \cup ExtraURIs)) \ ({FALSE} \X URIs) }
                 \cup
                 \* an entry header that is present with an empty (or blank) value, against every option list
                 { Case(f, s, FALSE, m, "/", FALSE, <<e>>, oh, b) :
                     m \in MethodsOf(f), b \in BodiesOf(f), s \in SSLModes, e \in Rng(EmptyHdrs), oh \in SubSeqsOf(OptHdrs) }
                 \cup
                 \* the gun's target given by NAME (localhost:port): Host without an ammo / option Host is that name, and so is
                 \* the TLS server name; http gun and connect gun
                 { Case(f, s, FALSE, m, "/", h, ho[1], ho[2], b) @@ [tname |-> TRUE] :
                     m \in MethodsOf(f), b \in BodiesOf(f), s \in SSLModes, h \in BOOLEAN, ho \in {<< <<>>, <<>> >>, <<EntryHdrs, OptHdrs>>} }
                 \cup
                 \* header/date middleware: default and custom header name, UTC and a named location, with and without
                 \* an entry that defines the very header, no / all options
                 UNION { { Case(f, FALSE, FALSE, m, "/", FALSE, eh, oh, b) @@ [mw |-> [name |-> hnm, loc |-> z]] :
                             m \in MethodsOf(f), b \in BodiesOf(f), z \in {"", "EST"}, oh \in {<<>>, OptHdrs},
                             eh \in {<<>>, << [n |-> MWHeader(hnm), v |-> "entry-value"] >>} }
                         : hnm \in MWNames }
                 \cup
                 \* answlog / httptrace on: the target answers 200 / 404 / 503
                 { Case(f, s, FALSE, m, "/", FALSE, ho[1], ho[2], b) @@ [side |-> [answlog |-> a, status |-> st, trace |-> t]] :
                     m \in MethodsOf(f), b \in BodiesOf(f), s \in SSLModes \cap {FALSE}, a \in SideFilters, st \in {200, 404, 503},
                     t \in BOOLEAN, ho \in {<< <<>>, <<>> >>, <<EntryHdrs, OptHdrs>>} }
                 \cup
                 \* valid RFC 3986 request-targets in a spelling of their own: every format, with and without an ammo Host,
                 \* streamed and preloaded, http and https - through the http gun ...
                 { Case(f, s, FALSE, mb[1], Spell(t), h, <<>>, <<>>, mb[2]) @@ [rt |-> t, preload |-> p] :
                     t \in Targets, mb \in TargetMB(f), s \in SSLModes, h \in BOOLEAN, p \in BOOLEAN }
                 \cup
                 \* ... and through the tunnel of the connect gun
                 { Case(f, s, FALSE, mb[1], Spell(t), FALSE, <<>>, <<>>, mb[2]) @@ [rt |-> t, preload |-> p]
                     @@ [gun |-> "connect", cssl |-> z, cstatus |-> 200] :
                     t \in Targets, mb \in TargetMB(f), s \in SSLModes, p \in BOOLEAN, z \in ConnectModes \cap {FALSE} }
                 \cup
                 \* the http2 gun against a TLS target that offers h2 (h2 = TRUE: the request arrives as HTTP/2.0) or only
                 \* HTTP/1.1 (h2 = FALSE: nothing arrives, the shot panics), without any / with all entry and option headers
                 { Case(f, TRUE, FALSE, m, u, h, ho[1], ho[2], b) @@ [gun |-> "http2", h2 |-> x] :
                     m \in MethodsOf(f), b \in BodiesOf(f), u \in URIs, h \in BOOLEAN, x \in H2Modes,
                     ho \in {<< <<>>, <<>> >>, <<EntryHdrs, OptHdrs>>} }
                 \cup
                 \* ... request-targets in a spelling of their own through the http2 gun (:path)
                 { Case(f, TRUE, FALSE, mb[1], Spell(t), FALSE, <<>>, <<>>, mb[2]) @@ [rt |-> t, preload |-> FALSE]
                     @@ [gun |-> "http2", h2 |-> TRUE] : t \in Targets, mb \in TargetMB(f), x \in H2Modes \cap {TRUE} }
                 \cup
                 \* ... and the http gun against the target that offers h2 as well: it stays on HTTP/1.1
                 { Case(f, TRUE, FALSE, m, "/", h, ho[1], ho[2], b) @@ [h2 |-> TRUE] :
                     m \in MethodsOf(f), b \in BodiesOf(f), h \in BOOLEAN, x \in H2Modes \cap {TRUE},
                     ho \in {<< <<>>, <<>> >>, <<EntryHdrs, OptHdrs>>} }
                 \cup
                 \* the connect gun: same entry through a CONNECT tunnel, without any / with all entry and option headers
                 { Case(f, s, FALSE, m, "/", h, ho[1], ho[2], b) @@ [gun |-> "connect", cssl |-> z, cstatus |-> 200] :
                     m \in MethodsOf(f), b \in BodiesOf(f), s \in SSLModes, z \in ConnectModes, h \in BOOLEAN,
                     ho \in {<< <<>>, <<>> >>, <<EntryHdrs, OptHdrs>>} }
                 \cup
                 \* ... and a proxy that refuses the tunnel
                 { Case(f, FALSE, FALSE, m, "/", FALSE, <<>>, <<>>, "") @@ [gun |-> "connect", cssl |-> z, cstatus |-> st] :
                     m \in MethodsOf(f), z \in ConnectModes \cap {FALSE}, st \in {403, 502} }
                 : f \in Formats }

-----------------------------------------------------------------------------
OptHost(c) == LET hs == {o \in Rng(c.opts) : o.n = "Host"}
              IN  IF hs = {} THEN "" ELSE (CHOOSE o \in hs : TRUE).v

\* the Host the entry names: a token; cases derived from files say which one (hostv)
AmmoHost(c) == IF "hostv" \in DOMAIN c THEN c.hostv ELSE "AMMOHOST"

WireHost(c) ==
    IF Variant = "host_target" THEN "TARGETHOST"
    ELSE IF c.host THEN AmmoHost(c)
    ELSE IF OptHost(c) # "" THEN OptHost(c)
    ELSE IF Variant = "target_resolved" /\ "tname" \in DOMAIN c /\ c.tname THEN "RESOLVEDADDR"   \* negative control
    ELSE "TARGETHOST"

ConfigWins(c) == Variant = "config_wins" /\ c.fmt \in {"uri", "uripost"}

\* a field value travels without surrounding blanks: a blank value is the empty value
WireVal(v) == IF v = " " THEN "" ELSE v
\* the values a header list gives to a (canonical) name, in list order
Vals(hs, n) == LET sel == SelectSeq(hs, LAMBDA h : Canon(h.n) = n)
               IN  [k \in 1..Len(sel) |-> WireVal(sel[k].v)]
\* "defined" means present, whatever the value
EmptyOnly(hs, n) == \A k \in DOMAIN Vals(hs, n) : Vals(hs, n)[k] = ""

\* header fields other than Host, as [n |-> canonical name, v |-> <<values in order>>]: a name the entry
\* defines carries the entry's values, any other name of the option list carries the option's values
\* (all of them, in option order, if the option repeats the name)
WireHeaders(c) ==
    LET optNames == {o.n : o \in Rng(c.opts)} \ {"Host"}
        entNames == Names(c.ehdr)
        Field(n) ==
            IF ConfigWins(c) /\ n \in optNames
            THEN [n |-> n, v |-> <<Vals(c.opts, n)[Len(Vals(c.opts, n))]>>]       \* header.Set: the last one wins
            ELSE IF n \in entNames /\ ~(Variant = "empty_undefined" /\ n \in optNames /\ EmptyOnly(c.ehdr, n))
            THEN [n |-> n, v |-> IF Variant = "opt_always" THEN Vals(c.ehdr, n) \o Vals(c.opts, n) ELSE Vals(c.ehdr, n)]
            ELSE [n |-> n, v |-> Vals(c.opts, n)]
        base == {Field(n) : n \in entNames \cup optNames}
        \* header/date: one more value for its header, after whatever the entry / option put there
        stamp == IF Variant = "mw_twice" THEN <<"DATE", "DATE">> ELSE <<"DATE">>
        hn    == MWHeader(c.mw.name)
    IN  IF "mw" \in DOMAIN c
        THEN {w \in base : w.n # hn}
             \cup {[n |-> hn, v |-> (IF \E w \in base : w.n = hn THEN (CHOOSE w \in base : w.n = hn).v ELSE <<>>) \o stamp]}
        ELSE IF "side" \in DOMAIN c /\ Variant = "side_changes" THEN base \cup {[n |-> "X-Trace", v |-> <<"1">>]}
        ELSE base

Wire(c) == [scheme  |-> IF c.ssl THEN "https" ELSE "http",
            server  |-> "target",
            method  |-> c.method,
            uri     |-> IF Variant = "uri_rebuilt" /\ "rt" \in DOMAIN c THEN Rebuilt(c.rt) ELSE c.uri,
            host    |-> WireHost(c),
            headers |-> WireHeaders(c),
            body    |-> c.body]

\* what the transport may add by itself (Go net/http defaults); names only
AllowedExtra(c) == {"User-Agent", "Content-Length", "Transfer-Encoding"}
                   \cup (IF c.compress THEN {"Accept-Encoding"} ELSE {})

\* Message framing.  Content-Length / Transfer-Encoding are the transport's business, but not at its discretion: a
\* request whose body is known (every ammo body is) is sent with `Content-Length: <bytes of the body>`; an empty body
\* goes out as `Content-Length: 0` for POST / PUT / PATCH and without the field for any other method; never chunked -
\* with or without the answer log / httptrace looking on.  "framing_chunked" is the negative control (a body-less
\* POST sent chunked).
FramingHeaders(c) ==
    IF Variant = "framing_chunked" /\ c.body = "" /\ c.method = "POST" THEN {[n |-> "Transfer-Encoding", v |-> <<"chunked">>]}
    ELSE IF c.body # "" THEN {[n |-> "Content-Length", v |-> <<ToString(Len(c.body))>>]}
    ELSE IF c.method \in {"POST", "PUT", "PATCH"} THEN {[n |-> "Content-Length", v |-> <<"0">>]}
    ELSE {}
FramingOK(c, o) == {h \in Rng(o.hdr) : h.n \in {"Content-Length", "Transfer-Encoding"}} = FramingHeaders(c)

\* TLS server name: sent when the gun's target is given by NAME (tname) - the name as configured, not what it resolves
\* to; an address literal carries none
WireSNI(c) == IF c.ssl /\ "tname" \in DOMAIN c /\ c.tname
              THEN (IF Variant = "target_resolved" THEN "" ELSE "TARGETHOST") ELSE ""
SNIOK(c, o) == o.sni = WireSNI(c)

\* ---- middleware / side channels ----
IsMW(c)   == "mw" \in DOMAIN c
IsSide(c) == "side" \in DOMAIN c
\* o.dates: the instants (unix seconds, read in the configured location) of the DATE values; t0 / t1: the clock read by
\* the driver before Acquire and after the shot (the middleware runs in between: a fact of program order)
DatesOK(c, o, t0, t1) == IF IsMW(c) THEN Len(o.dates) = 1 /\ \A k \in DOMAIN o.dates : t0 <= o.dates[k] /\ o.dates[k] <= t1
                         ELSE o.dates = <<>>
\* answlog: filter all - every response; warning - status >= 400; error - status >= 500; off - nothing
AnswRecords(c) == LET a == c.side.answlog st == c.side.status
                  IN  IF a = "all" \/ (a = "warning" /\ st >= 400) \/ (a = "error" /\ st >= 500) THEN 1 ELSE 0
\* the side channels only observe: one sample with the status received and net 0, the log gets what its filter selects
SideOK(c, samples, answ) == IsSide(c) =>
                               /\ Len(samples) = 1 /\ samples[1].proto = c.side.status /\ samples[1].net = 0
                               /\ answ = AnswRecords(c)

\* ---- connect gun ----
IsConnect(c)    == "gun" \in DOMAIN c /\ c.gun = "connect"
TunnelRefused(c) == IsConnect(c) /\ c.cstatus # 200
\* the CONNECT the proxy must see: request-target and Host are the gun's target (token), TLS to the proxy iff connect-ssl
ConnectLine(c) == [method |-> "CONNECT", uri |-> "GUNTARGET", host |-> "GUNTARGET",
                   tls |-> IF Variant = "connect_plain" THEN FALSE ELSE c.cssl]
\* o.connects: the CONNECTs the proxies saw while the case ran (a tunnel outlives a request: at most one new one)
ConnectOK(c, o) == IF IsConnect(c)
                   THEN /\ \A k \in DOMAIN o.connects : o.connects[k] = ConnectLine(c)
                        /\ ~TunnelRefused(c) => Len(o.connects) <= 1
                   ELSE o.connects = <<>>
\* a refused tunnel: nothing reaches the origin, the shot reports exactly one failed sample (no status, net # 0)
TunnelRefusedOK(c, o, samples) ==
    /\ o.n = 0 /\ Len(o.connects) >= 1
    /\ Len(samples) = 1 /\ samples[1].proto = 0 /\ samples[1].net # 0

\* ---- http2 gun ----
IsHTTP2(c) == "gun" \in DOMAIN c /\ c.gun = "http2"
OffersH2(c) == "h2" \in DOMAIN c /\ c.h2
\* the http2 gun never speaks HTTP/1.1: a target without h2 gets nothing (negative control: it falls back)
H2Mismatch(c) == IsHTTP2(c) /\ ~OffersH2(c) /\ Variant # "h2_fallback"
\* the protocol version a delivered request arrives in
WireProto(c) == IF IsHTTP2(c) /\ OffersH2(c) THEN "HTTP/2.0" ELSE "HTTP/1.1"
ProtoOK(c, o) == o.proto = WireProto(c)
\* nothing reaches any server, Shoot panics (the engine cancels the pool), at most one sample
H2MismatchOK(c, o, samples, panic) == o.n = 0 /\ panic # "" /\ Len(samples) <= 1

-----------------------------------------------------------------------------
(* Acceptance of an observation o (what the recording target saw for case c):                       *)
(*   o = [n (requests seen for this case), server, tls, method, uri, host, hdr <<[n, v]>>, body]   *)
Arrived(c, o)      == o.n = 1
SchemeTarget(c, o) == o.server = Wire(c).server /\ o.tls = c.ssl
MethodKept(c, o)   == o.method = Wire(c).method
URIKept(c, o)      == o.uri = Wire(c).uri
HostRule(c, o)     == o.host = Wire(c).host
BodyKept(c, o)     == o.body = Wire(c).body
\* every header the wire record demands is there with exactly its values ...
HeadersKept(c, o)  == Wire(c).headers \subseteq Rng(o.hdr)
\* ... and anything else is a transport default for a name the entry/option did not define
NoForeign(c, o)    == \A h \in Rng(o.hdr) \ Wire(c).headers :
                          /\ h.n \in AllowedExtra(c)
                          /\ h.n \notin {w.n : w \in Wire(c).headers}

-----------------------------------------------------------------------------
(* Multi-entry files. *)
RECURSIVE Concat(_)
Concat(ss) == IF ss = <<>> THEN <<>> ELSE Head(ss) \o Concat(Tail(ss))

\* the header lines in effect for the k-th entry of file f
LinesFor(f, k) ==
    IF f.fmt \in {"uri", "uripost"}
    THEN LET upto == IF Variant = "live_map" /\ f.opts = <<>> THEN Len(f.entries) ELSE k
         IN  Concat([j \in 1..upto |-> f.entries[j].hl])          \* running state: everything written before the entry
    ELSE f.entries[k].hl                                          \* raw / json: the entry's own fields
\* a later line for a name replaces the earlier value
LastVal(ls, n) == LET sel == SelectSeq(ls, LAMBDA h : Canon(h.n) = n) IN sel[Len(sel)].v

EntryCase(f, k) ==
    LET ls    == LinesFor(f, k)
        names == Names(ls) \ {"Host"}
        eh    == SetToSeq({[n |-> n, v |-> LastVal(ls, n)] : n \in names})
        hasH  == "Host" \in Names(ls)
        \* negative control: the entry is in flight more than once and a later reader finds the body already read
        body  == IF Variant = "shared_cursor" /\ "n" \in DOMAIN f /\ f.n > 1 THEN "" ELSE f.entries[k].body
    IN  Case(f.fmt, f.ssl, FALSE, IF f.fmt = "uripost" THEN "POST" ELSE "GET", f.entries[k].uri, hasH, eh, f.opts, body)
        @@ [hostv |-> IF hasH THEN LastVal(ls, "Host") ELSE ""]

-----------------------------------------------------------------------------
(* Design-level sanity of the rule set itself, over the whole case space (one TLC state per case). *)
VARIABLE C          \* the case under inspection

Init == C \in Cases
Next == UNCHANGED C

\* "headers in the ammo file have priority": each name the entry defines arrives with the entry's values
\* (the header the header/date middleware stamps is covered by MiddlewareOnce)
Stamped(n) == "mw" \in DOMAIN C /\ n = MWHeader(C.mw.name)
EntryWins == \A n \in Names(C.ehdr) : Stamped(n) \/ [n |-> n, v |-> Vals(C.ehdr, n)] \in Wire(C).headers
\* an option name is added (with all its values) exactly where the entry does not define that name
OptionIffAbsent == \A n \in {o.n : o \in Rng(C.opts)} \ {"Host"} :
                      ([n |-> n, v |-> Vals(C.opts, n)] \in Wire(C).headers) <=> (n \notin Names(C.ehdr))
\* nothing is invented and no name is carried twice
NoInvention == /\ \A w \in Wire(C).headers : Stamped(w.n) \/ w.v = Vals(C.ehdr, w.n) \/ w.v = Vals(C.opts, w.n)
               /\ \A w1, w2 \in Wire(C).headers : w1.n = w2.n => w1 = w2
               /\ \A w \in Wire(C).headers : w.n # "Host" /\ w.v # <<>>
\* Host: the ammo's, else the option's, else the target's
HostPrecedence == /\ C.host => Wire(C).host = AmmoHost(C)
                  /\ (~C.host /\ OptHost(C) # "") => Wire(C).host = OptHost(C)
                  /\ (~C.host /\ OptHost(C) = "") => Wire(C).host = "TARGETHOST"
\* the rule is the same for every format: the record depends on the format only through method/body domain
FormatsAlike == \A f \in Formats :
                   LET d == [C EXCEPT !.fmt = f]
                   IN  /\ Wire(d).headers = Wire(C).headers
                       /\ Wire(d).host = Wire(C).host
\* the middleware stamps its header exactly once, after the entry's / option's values, and touches nothing else;
\* the side channels change nothing
Plain(c) == [k \in DOMAIN c \ {"mw", "side"} |-> c[k]]
MiddlewareOnce == IsMW(C) =>
                     LET hn == MWHeader(C.mw.name)
                         f  == CHOOSE w \in Wire(C).headers : w.n = hn
                         before == IF \E w \in Wire(Plain(C)).headers : w.n = hn
                                   THEN (CHOOSE w \in Wire(Plain(C)).headers : w.n = hn).v ELSE <<>>
                     IN  /\ f.v = before \o <<"DATE">>
                         /\ {w \in Wire(C).headers : w.n # hn} = {w \in Wire(Plain(C)).headers : w.n # hn}
                         /\ Wire(C).host = Wire(Plain(C)).host
SideTransparent == IsSide(C) => Wire(C) = Wire(Plain(C))
\* the tunnel is transparent: the connect gun's wire record is the http gun's; CONNECT names the gun's target and is
\* sent over TLS exactly when connect-ssl is set
TunnelTransparent == IsConnect(C) =>
                        /\ Wire(C) = Wire([k \in DOMAIN C \ {"gun", "cssl", "cstatus"} |-> C[k]])
                        /\ ConnectLine(C).uri = "GUNTARGET" /\ ConnectLine(C).host = ConnectLine(C).uri
                        /\ ConnectLine(C).tls = C.cssl
\* the http2 gun changes the protocol version and nothing else; every other gun speaks HTTP/1.1 whatever the target offers
H2Transparent == /\ IsHTTP2(C) => /\ C.ssl
                                  /\ Wire(C) = Wire([k \in DOMAIN C \ {"gun", "h2"} |-> C[k]])
                                  /\ (WireProto(C) = "HTTP/2.0") = OffersH2(C)
                                  /\ H2Mismatch(C) = ~OffersH2(C)
                 /\ ~IsHTTP2(C) => WireProto(C) = "HTTP/1.1" /\ ~H2Mismatch(C)
\* a target given by name is named in Host (absent an ammo / option Host) and in the TLS handshake
NamedTarget == ("tname" \in DOMAIN C /\ C.tname) =>
                  /\ (~C.host /\ OptHost(C) = "") => Wire(C).host = "TARGETHOST"
                  /\ C.ssl => WireSNI(C) = "TARGETHOST"
\* the body's length is announced, never chunked
FramingSane == /\ \A h \in FramingHeaders(C) : h.n = "Content-Length"
               /\ (C.body # "") => FramingHeaders(C) # {}
\* a valid RFC 3986 request-target arrives in the spelling of the ammo, byte for byte: no decoding, no re-escaping,
\* no normalisation of hex case / dot segments / empty segments, a bare "?" stays - whichever gun carries it
TargetVerbatim == "rt" \in DOMAIN C =>
                     /\ ValidTarget(C.rt)
                     /\ C.uri = Spell(C.rt)
                     /\ Wire(C).uri = Spell(C.rt)
\* the rest is carried unchanged, the connection goes to the target with the configured scheme
Unchanged == /\ Wire(C).method = C.method /\ Wire(C).uri = C.uri /\ Wire(C).body = C.body
             /\ Wire(C).server = "target" /\ (Wire(C).scheme = "https") = C.ssl

\* design-level sanity for files (state variable C holds a file case, config HttpWire_files.cfg)
FInit == C \in Files \cup ReuseFiles
\* every request of an entry - the first one and every later one built from the same decoded entry - carries its body
BodyOfEntry == \A k \in DOMAIN C.entries : Wire(EntryCase(C, k)).body = C.entries[k].body
Prefix(f, k) == [f EXCEPT !.entries = SubSeq(f.entries, 1, k)]
\* what an entry sends does not depend on anything written after it
LaterLinesDontMatter == \A k \in DOMAIN C.entries : Wire(EntryCase(C, k)) = Wire(EntryCase(Prefix(C, k), k))
\* uri/uripost: a header line stays in effect for later entries until it is redefined; raw/json: no carry-over
CarryOver == \A k \in DOMAIN C.entries : \A j \in 1..k : \A h \in Rng(C.entries[j].hl) :
                (C.fmt \in {"uri", "uripost"} /\ h.n # "Host" /\ ~\E i \in (j+1)..k : \E g \in Rng(C.entries[i].hl) : Canon(g.n) = Canon(h.n))
                  => \E w \in Wire(EntryCase(C, k)).headers : w.n = Canon(h.n)
OwnOnly == C.fmt \in {"raw", "json"} =>
              \A k \in DOMAIN C.entries : {w.n : w \in Wire(EntryCase(C, k)).headers} =
                                            (Names(C.entries[k].hl) \cup {o.n : o \in Rng(C.opts)}) \ {"Host"}
=============================================================================
