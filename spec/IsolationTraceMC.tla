--------------------------- MODULE IsolationTraceMC ---------------------------
EXTENDS TraceIsolation
TI == 0..15
TG == 1..17
NoToks == {}
NoSamples == {}
NoScheds == {}
NoAmmos == {}
=============================================================================
