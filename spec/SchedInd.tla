------------------------------ MODULE SchedInd ------------------------------
(***************************************************************************)
(* C02, unbounded evidence (optional extra on top of TLC, never a verdict  *)
(* about the code): the token contract of a FLAT composite of K = 4 parts  *)
(* with                                                                    *)
(*    - ANY token counts n[p] >= 0 (unbounded integers),                   *)
(*    - ANY mix of timed (doAtSchedule) and unlimited parts,               *)
(*    - ANY number of Next()/Left() calls by three callers in any          *)
(*      interleaving of the steps that matter for the counts.              *)
(*                                                                         *)
(* Grain (the part of Schedule.tla that decides the COUNTS; instants and   *)
(* the RW-lock bookkeeping stay with TLC):                                 *)
(*   Draw(c)   Next() under the read lock: doAtSchedule's fetch-and-       *)
(*             increment `i := s.i.Inc() - 1` on the head part (the        *)
(*             counter overshoots n), ok iff i < n; an unlimited head      *)
(*             hands out tokens until it is finished.  A caller that saw   *)
(*             the head exhausted remembers WHICH head it saw (the code:   *)
(*             schedsLeft) and goes for the write lock.                    *)
(*   NLock(c)  under the write lock: "somebody started next before us"     *)
(*             re-check, otherwise startNext (head := head + 1), then the  *)
(*             nested Next() (wchild1 / wchild2) and the retry.            *)
(*   LLoad(c)  Left(): `left := scheds[0].Left(); leftAfter[0]` under the  *)
(*             read lock = the linearisation point; result                 *)
(*             -1 if left < 0 or leftAfter < 0, else left + leftAfter;     *)
(*             left = 0 with an unknown tail: shift under the write lock   *)
(*             (LLock) and retry.                                          *)
(*   Finish    the clock passes the finish instant of a started unlimited  *)
(*             part.                                                       *)
(* leftAfter is the array NewComposite computes (sticky -1 "unknown").     *)
(*                                                                         *)
(* Exactly-once is stated with an arbitrary WITNESS token (wp, wi): a      *)
(* ghost counts how often it was handed out; the invariant pins the count  *)
(* to "1 iff part wp's counter has passed wi (and wi < n[wp])".  As the    *)
(* witness is an unconstrained constant this is "for every token".         *)
(*                                                                         *)
(* Checked with Apalache (SMT, unbounded Int):                             *)
(*   --cinit=CInit        --init=Init    --inv=IndInv --length=0           *)
(*   --cinit=CInit        --init=IndInit --inv=IndInv --length=1           *)
(*   --cinit=CInit        --init=IndInit --inv=Contract --length=0         *)
(*   --cinit=CInitLeftBug --init=Init    --inv=LeftExact --length=2   (must FAIL: the shipped Left())      *)
(*   --cinit=CInitNoRecheck --init=Init  --inv=Contract --length=6    (must FAIL: no re-check after Lock)  *)
(*   --cinit=CInit        --init=IndInitWeak --inv=IndInv --length=1  (must FAIL: the strengthening about  *)
(*                                                     parts behind/ahead of the head is needed)           *)
(* and with TLC on small constants (SchedIndMC / cfg/SchedInd_tlc.cfg).    *)
(***************************************************************************)
EXTENDS Integers

K == 4
Parts == 1..K
Callers == {"a", "b", "c"}

CONSTANTS
    \* @type: Int -> Int;
    n,          \* tokens of part p (0 for an unlimited part)
    \* @type: Int -> Bool;
    unl,        \* part p is an unlimited schedule
    \* @type: Int -> Int;
    leftAfter,  \* as computed by NewComposite: tokens behind part p, -1 = unknown (sticky)
    \* @type: Int -> Int;
    sufTok,     \* ground truth: tokens of the timed parts behind part p
    \* @type: Int -> Bool;
    sufUnl,     \* ground truth: some unlimited part behind part p
    \* @type: Bool;
    FixLeft,    \* TRUE: Left() = -1 whenever the tail is unknown (the repaired code)
    \* @type: Bool;
    Recheck,    \* TRUE: re-check after the lock upgrade (as coded)
    \* @type: Int;
    wp,         \* witness token: part
    \* @type: Int;
    wi          \* witness token: index

VARIABLES
    \* @type: Int;
    head,       \* index of scheds[0]
    \* @type: Int -> Int;
    cnt,        \* doAtSchedule.i of every part
    \* @type: Int -> Bool;
    fin,        \* unlimited part: started and the clock is past its finish
    \* @type: Str -> Str;
    pc,         \* "idle" | "upN" (Next: going for the write lock) | "upL" (Left: going for the write lock)
    \* @type: Str -> Int;
    saw,        \* the head the caller saw exhausted
    \* @type: Int;
    rem,        \* ghost: tokens of timed parts not yet handed out (decremented by every successful timed draw)
    \* @type: Int;
    wcnt,       \* ghost: how often the witness token was handed out
    \* @type: Bool;
    ended,      \* ghost: some caller got the final !ok
    \* @type: Bool;
    panic,      \* ghost: "current schedule is not finished" / startNext past the end
    \* @type: Bool;
    lhas,       \* ghost: last Left() result and the ground truth at its linearisation point
    \* @type: Int;
    lres,
    \* @type: Int;
    lrem,
    \* @type: Bool;
    lunk

vars == <<head, cnt, fin, pc, saw, rem, wcnt, ended, panic, lhas, lres, lrem, lunk>>

Timed(p) == ~unl[p]

\* the constants are those of a flat composite: NewComposite's loop, and the ground truth it stands for
Shape ==
    /\ n \in [Parts -> Int] /\ unl \in [Parts -> BOOLEAN]
    /\ leftAfter \in [Parts -> Int] /\ sufTok \in [Parts -> Int] /\ sufUnl \in [Parts -> BOOLEAN]
    /\ \A p \in Parts : n[p] >= 0 /\ (unl[p] => n[p] = 0)
    /\ leftAfter[K] = 0 /\ sufTok[K] = 0 /\ sufUnl[K] = FALSE
    /\ \A p \in 1..(K-1) :
          /\ leftAfter[p] = (IF unl[p+1] \/ leftAfter[p+1] < 0 THEN -1 ELSE leftAfter[p+1] + n[p+1])
          /\ sufTok[p] = sufTok[p+1] + n[p+1]
          /\ sufUnl[p] = (unl[p+1] \/ sufUnl[p+1])
    /\ wp \in Parts /\ wi \in Int /\ wi >= 0

CInit          == Shape /\ FixLeft = TRUE  /\ Recheck = TRUE
CInitLeftBug   == Shape /\ FixLeft = FALSE /\ Recheck = TRUE
CInitNoRecheck == Shape /\ FixLeft = TRUE  /\ Recheck = FALSE

Total == (IF unl[1] THEN 0 ELSE n[1]) + sufTok[1]

Init ==
    /\ head = 1
    /\ cnt = [p \in Parts |-> 0] /\ fin = [p \in Parts |-> FALSE]
    /\ pc = [c \in Callers |-> "idle"] /\ saw = [c \in Callers |-> 1]
    /\ rem = Total /\ wcnt = 0 /\ ended = FALSE /\ panic = FALSE
    /\ lhas = FALSE /\ lres = 0 /\ lrem = 0 /\ lunk = FALSE

Exhausted(p) == IF unl[p] THEN fin[p] ELSE cnt[p] >= n[p]
HeadLeft == IF unl[head] THEN 0 ELSE (IF n[head] - cnt[head] > 0 THEN n[head] - cnt[head] ELSE 0)
\* an unlimited part at or behind the head that is not finished (parts behind the head are never started)
Unknown == (unl[head] /\ ~fin[head]) \/ sufUnl[head]

\* the nested Next() on part p: fetch-and-increment / "now < finish"; TRUE iff a token was handed out
\* (a timed draw takes one token of the ground truth; the witness is counted when it is the one handed out)
DrawOK(p) == IF unl[p] THEN ~fin[p] ELSE cnt[p] < n[p]
DrawEffect(p) ==
    /\ cnt' = IF unl[p] THEN cnt ELSE [cnt EXCEPT ![p] = @ + 1]
    /\ rem' = IF Timed(p) /\ cnt[p] < n[p] THEN rem - 1 ELSE rem
    /\ wcnt' = IF Timed(p) /\ cnt[p] < n[p] /\ p = wp /\ cnt[p] = wi THEN wcnt + 1 ELSE wcnt

\* Next(), read-locked part
Draw(c) ==
    /\ pc[c] = "idle"
    /\ DrawEffect(head)
    /\ IF DrawOK(head) THEN UNCHANGED <<pc, saw, ended>>
       ELSE IF head = K THEN ended' = TRUE /\ UNCHANGED <<pc, saw>>
       ELSE /\ pc' = [pc EXCEPT ![c] = "upN"] /\ saw' = [saw EXCEPT ![c] = head] /\ UNCHANGED ended
    /\ UNCHANGED <<head, fin, panic, lhas, lres, lrem, lunk>>

\* Next(), write-locked part (one step: nobody else reaches the parts of a write-locked composite)
NLock(c) ==
    /\ pc[c] = "upN"
    /\ pc' = [pc EXCEPT ![c] = "idle"]          \* a retry is a new call
    /\ IF Recheck /\ head > saw[c]
       THEN \* somebody started next before us: just take a token (wchild1)
            /\ DrawEffect(head)
            /\ ended' = (ended \/ (~DrawOK(head) /\ head = K))
            /\ UNCHANGED <<head, panic>>
       ELSE IF head = K
            THEN panic' = TRUE /\ UNCHANGED <<head, cnt, rem, wcnt, ended>>     \* startNext past the end (index out of range)
            ELSE /\ head' = head + 1                                            \* startNext, then wchild2
                 /\ DrawEffect(head + 1)
                 /\ ended' = (ended \/ (~DrawOK(head + 1) /\ head + 1 = K))
                 /\ UNCHANGED panic
    /\ UNCHANGED <<fin, saw, lhas, lres, lrem, lunk>>

\* Left(): the loads under the read lock (linearisation point), result or the decision to shift
LLoad(c) ==
    /\ pc[c] = "idle"
    /\ LET left == IF unl[head] THEN (IF fin[head] THEN 0 ELSE -1) ELSE HeadLeft
           la   == leftAfter[head]
       IN  IF head < K /\ left = 0 /\ la < 0
           THEN \* unknown tail and the head is exhausted: shift under the write lock, then retry
                /\ pc' = [pc EXCEPT ![c] = "upL"] /\ saw' = [saw EXCEPT ![c] = head]
                /\ UNCHANGED <<lhas, lres, lrem, lunk>>
           ELSE /\ lhas' = TRUE
                /\ lres' = IF head = K THEN left
                           ELSE IF left = 0 THEN la
                           ELSE IF left < 0 THEN -1
                           ELSE IF la < 0 THEN (IF FixLeft THEN -1 ELSE left + la)
                           ELSE left + la
                /\ lrem' = rem /\ lunk' = Unknown
                /\ UNCHANGED <<pc, saw>>
    /\ UNCHANGED <<head, cnt, fin, rem, wcnt, ended, panic>>

LLock(c) ==
    /\ pc[c] = "upL"
    /\ pc' = [pc EXCEPT ![c] = "idle"]          \* `return s.Left()`: a new call
    /\ IF head = saw[c]
       THEN IF DrawOK(head) \/ head = K
            THEN panic' = TRUE /\ UNCHANGED <<head, cnt, rem, wcnt>>      \* "current schedule is not finished"
            ELSE /\ DrawEffect(head)                                      \* the probing Next() (overshoots the counter)
                 /\ head' = head + 1 /\ UNCHANGED panic
       ELSE UNCHANGED <<head, cnt, rem, wcnt, panic>>
    /\ UNCHANGED <<fin, saw, ended, lhas, lres, lrem, lunk>>

Finish ==
    /\ unl[head] /\ ~fin[head]
    /\ fin' = [fin EXCEPT ![head] = TRUE]
    /\ UNCHANGED <<head, cnt, pc, saw, rem, wcnt, ended, panic, lhas, lres, lrem, lunk>>

Next == Finish \/ \E c \in Callers : Draw(c) \/ NLock(c) \/ LLoad(c) \/ LLock(c)

-----------------------------------------------------------------------------
(* the contract *)

\* every token exactly once: the witness was handed out once iff its part's counter has passed it, never twice
ExactlyOnce == wcnt = (IF Timed(wp) /\ wi < n[wp] /\ wi < cnt[wp] THEN 1 ELSE 0)
\* the final !ok is only reported when every token has been handed out
AllDrawnWhenFinished == ended => rem = 0
\* Left() at its linearisation point: the number of tokens not yet handed out, or -1 iff an unlimited part at or
\* behind the head is unfinished
LeftExact == lhas => /\ (lres >= 0 => lres = lrem /\ ~lunk)
                     /\ (lres < 0 => lres = -1 /\ lunk)
NoPanic == ~panic
\* the doAt contract itself: Left() of the head part is max(0, n - i)
DoAtLeft == Timed(head) => HeadLeft = (IF n[head] - cnt[head] >= 0 THEN n[head] - cnt[head] ELSE 0)

Contract == ExactlyOnce /\ AllDrawnWhenFinished /\ LeftExact /\ NoPanic /\ DoAtLeft

TypeOK ==
    /\ head \in Parts
    /\ cnt \in [Parts -> Int] /\ fin \in [Parts -> BOOLEAN]
    /\ pc \in [Callers -> {"idle", "upN", "upL"}] /\ saw \in [Callers -> Parts]
    /\ rem \in Int /\ wcnt \in Int /\ ended \in BOOLEAN /\ panic \in BOOLEAN
    /\ lhas \in BOOLEAN /\ lres \in Int /\ lrem \in Int /\ lunk \in BOOLEAN

\* what NewComposite's array means
LeftAfterMeans == \A p \in Parts : leftAfter[p] = (IF sufUnl[p] THEN -1 ELSE sufTok[p])

Weak ==
    /\ TypeOK
    /\ \A p \in Parts : cnt[p] >= 0 /\ (unl[p] => cnt[p] = 0) /\ (fin[p] => unl[p])
    /\ rem = HeadLeft + sufTok[head]
    /\ Contract

IndInv ==
    /\ Weak
    /\ LeftAfterMeans
    /\ \A p \in Parts : p < head => Exhausted(p)                        \* parts behind us are drained
    /\ \A p \in Parts : p > head => cnt[p] = 0 /\ ~fin[p]               \* parts ahead are untouched (not started)
    /\ \A c \in Callers : pc[c] # "idle" => saw[c] < K /\ saw[c] <= head /\ Exhausted(saw[c])
    /\ ended => head = K /\ Exhausted(K)

IndInit == IndInv
IndInitWeak == Weak
=============================================================================
