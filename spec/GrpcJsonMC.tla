----------------------------- MODULE GrpcJsonMC -----------------------------
(* Model-checking instance of GrpcJson: (1) the abstract CASE SPACE -- for every message type in play, every field x
   every written form of its mapping class (one-member payloads), plus multi-member payloads -- exported for
   `vdrive grpcjson`, which renders every case as a grpc/json line and as a gRPC scenario call, shoots it through the
   real engine / provider / gun and records what the server decoded; (2) sanity properties of the interpretation
   itself over that case space, with negative controls. *)
EXTENDS GrpcJson, Json, IOUtils

VARIABLE x
vars == <<x>>

MethodOf(M) == CASE M = "Rich" -> "verif.MapService.PutRich"
                 [] M = "StatsResponse" -> "verif.MapService.PutStats"
                 [] M = "ListResponse" -> "verif.MapService.PutList"
                 [] M = "StatisticBodyResponse" -> "verif.MapService.PutBody"
                 [] M = "HelloRequest" -> "target.TargetService.Hello"
                 [] M = "AuthRequest" -> "target.TargetService.Auth"
                 [] M = "ListRequest" -> "target.TargetService.List"
                 [] M = "OrderRequest" -> "target.TargetService.Order"

(* written forms per mapping class; the expected outcome is NOT written here -- GrpcJson!Expect computes it *)
StrForms  == <<Str("s1"), Str("sU"), Str("s0"), Null, Num("i1"), Bool("true"), Obj(<<>>)>>
I64Forms  == <<Num("i1"), Str("i1"), Num("ineg"), Str("ineg"), Num("i53"), Str("i53"), Num("in53"), Num("i57"), Num("i63"), Str("i63"),
               Num("i64"), Str("i64"), Num("i0"), Str("i0"), Null, Bool("true"), Str("sabc"), Num("f15"), Obj(<<>>)>>
U64Forms  == <<Num("i1"), Str("u64"), Num("u64"), Num("i64"), Num("ineg"), Str("ineg"), Str("i65"), Num("i0"), Null>>
I32Forms  == <<Num("i31"), Str("i31"), Num("i32"), Str("i32"), Num("ineg"), Num("i0"), Null, Bool("false")>>
U32Forms  == <<Num("i32"), Str("i32"), Num("i33"), Num("ineg"), Null>>
BoolForms == <<Bool("true"), Bool("false"), Null, Num("i1"), Str("s1")>>
DblForms  == <<Num("f15"), Str("f15"), Num("i1"), Num("ineg"), Num("i31"), Str("fNaN"), Str("fInf"), Num("i0"), Null, Bool("true"), Str("sabc")>>
EnumForms == <<Str("eRED"), Num("eRED"), Num("eGREEN"), Str("eZERO"), Num("eZERO"), Num("e7"), Str("ePURPLE"), Str("ered"), Null, Bool("true")>>
BytesForms == <<Str("b1"), Str("s0"), Str("bbad"), Null, Num("i1")>>
Item(w) == Obj(<<Mem("item_id", w)>>)
ItemForms == <<Item(Num("i1")), Obj(<<Mem("itemId", Str("i53"))>>), Obj(<<>>), Item(Num("i0")), Null, Str("s1"), Obj(<<Mem("nosuch", Num("i1"))>>),
               Item(Bool("true")), Item(Null)>>
NumsForms == <<Arr(<<Num("i1"), Str("ineg"), Num("i0"), Str("i63")>>), Arr(<<Num("i1")>>), Arr(<<>>), Null, Arr(<<Num("i1"), Bool("true")>>), Arr(<<Str("i64")>>),
               Obj(<<>>)>>
ItemsForms == <<Arr(<<Item(Num("i1")), Obj(<<>>), Obj(<<Mem("itemId", Str("i53"))>>)>>), Arr(<<>>), Null, Arr(<<Item(Num("i1")), Str("s1")>>),
                Arr(<<Obj(<<Mem("nosuch", Num("i1"))>>)>>)>>
EsForms == <<Arr(<<Str("eRED"), Num("eGREEN"), Str("eZERO"), Num("e7")>>), Arr(<<Str("ePURPLE")>>), Arr(<<>>)>>
LabelsForms == <<Obj(<<Mem("a", Item(Num("i1"))), Mem("b", Obj(<<>>))>>), Obj(<<>>), Null, Obj(<<Mem("a", Str("s1"))>>), Arr(<<Num("i1")>>)>>
Code200Forms == <<Obj(<<Mem("5", Num("i1")), Mem("6", Str("u64"))>>), Obj(<<Mem("5", Num("i0"))>>), Obj(<<Mem("-7", Num("i1"))>>), Obj(<<>>), Null,
                  Obj(<<Mem("abc", Num("i1"))>>), Obj(<<Mem("5", Num("ineg"))>>), Obj(<<Mem("5", Str("sabc"))>>), Obj(<<Mem("9223372036854775808", Num("i1"))>>)>>
OSForms == <<Str("s1"), Str("s0"), Num("i1")>>
OIForms == <<Num("i1"), Num("i0"), Str("i53"), Str("i64")>>
OMForms == <<Item(Num("i1")), Obj(<<>>), Str("s1")>>
TsForms == <<Str("tsZ"), Str("tsOff"), Str("tsBad"), Null, Num("i1"), Obj(<<>>)>>
DurForms == <<Str("d15"), Str("dneg"), Str("dBad"), Null, Num("i1")>>
W64Forms == <<Num("i1"), Str("i1"), Num("i0"), Str("i63"), Num("i53"), Null, Bool("true"), Str("i64")>>
WsForms == <<Str("s1"), Str("s0"), Null, Num("i1")>>
StForms == <<Obj(<<Mem("a", Num("i1")), Mem("b", Str("s1")), Mem("c", Arr(<<Bool("true"), Null, Str("s0")>>)), Mem("d", Obj(<<Mem("e", Num("f15"))>>)),
                   Mem("f", Obj(<<>>)), Mem("g", Arr(<<>>))>>), Obj(<<>>), Null, Num("i1"), Arr(<<Num("i1")>>)>>
ValForms == <<Null, Num("i1"), Str("s1"), Bool("true"), Arr(<<Num("i1"), Null>>), Obj(<<Mem("a", Null)>>), Obj(<<>>)>>
Body(w200, w400) == Obj(<<Mem("Code200", w200), Mem("Code400", w400)>>)
StatsForms == <<Body(Obj(<<Mem("5", Num("i1"))>>), Num("i1")), Body(Obj(<<>>), Num("i0")), Body(Null, Str("u64")), Body(Obj(<<Mem("5", Bool("true"))>>), Num("i1"))>>

FormsOf(M, f) ==
    CASE f.card = "one" /\ f.t = "string" -> StrForms
      [] f.card = "one" /\ f.t = "int64"  -> I64Forms
      [] f.card = "one" /\ f.t = "uint64" -> U64Forms
      [] f.card = "one" /\ f.t = "int32"  -> I32Forms
      [] f.card = "one" /\ f.t = "uint32" -> U32Forms
      [] f.card = "one" /\ f.t = "bool"   -> BoolForms
      [] f.card = "one" /\ f.t = "double" -> DblForms
      [] f.card = "one" /\ f.t = "enum"   -> EnumForms
      [] f.card = "one" /\ f.t = "bytes"  -> BytesForms
      [] f.card = "one" /\ f.t = "msg" /\ f.mt = "ListItem" -> ItemForms
      [] f.card = "one" /\ f.t = "msg" /\ f.mt = "StatisticBodyResponse" -> StatsForms
      [] f.card = "rep" /\ f.t = "int64"  -> NumsForms
      [] f.card = "rep" /\ f.t = "msg"    -> ItemsForms
      [] f.card = "rep" /\ f.t = "enum"   -> EsForms
      [] f.card = "map" /\ f.t = "msg"    -> LabelsForms
      [] f.card = "map" /\ f.t = "uint64" -> Code200Forms
      [] f.n = "o_s" -> OSForms
      [] f.n = "o_i" -> OIForms
      [] f.n = "o_m" -> OMForms
      [] f.t = "timestamp" -> TsForms
      [] f.t = "duration" -> DurForms
      [] f.t = "wrap64" -> W64Forms
      [] f.t = "wrapstr" -> WsForms
      [] f.t = "json" /\ f.mt = "struct" -> StForms
      [] f.t = "json" /\ f.mt = "value" -> ValForms

Case(M, w) == [msg |-> M, method |-> MethodOf(M), w |-> w]
\* one-member payloads: the member is named by the .proto name for odd form numbers, by the JSON name for even ones
FieldCases(M, f) == LET fs == FormsOf(M, f) IN
                    [j \in 1..Len(fs) |-> Case(M, Obj(<<Mem(IF j % 2 = 1 THEN f.n ELSE f.jn, fs[j])>>))]
RECURSIVE Cat(_, _, _)
Cat(M, fields, i) == IF i > Len(fields) THEN <<>> ELSE FieldCases(M, fields[i]) \o Cat(M, fields, i + 1)
MsgCases(M) == Cat(M, Msgs[M], 1)
\* whole payloads: nothing, an unknown member, every field at once (first form), every field null, a good and a bad member
FirstAll(M) == Obj([i \in DOMAIN Msgs[M] |-> Mem(Msgs[M][i].n, FormsOf(M, Msgs[M][i])[1])])
NullAll(M)  == Obj([i \in DOMAIN Msgs[M] |-> Mem(Msgs[M][i].jn, Null)])
OneofNames == {"o_s", "o_i", "o_m", "oS", "oI", "oM"}
NoOneof(M, w) == [w EXCEPT !.m = SelectSeq(@, LAMBDA mm : mm.n \notin {"o_i", "o_m", "oI", "oM"})]     \* a oneof has ONE member set
NoOneofAtAll(M, w) == [w EXCEPT !.m = SelectSeq(@, LAMBDA mm : mm.n \notin OneofNames)]               \* (null for a oneof member: not in the case space)
Whole(M) == <<Case(M, Obj(<<>>)), Case(M, Obj(<<Mem("nosuch", Num("i1"))>>)), Case(M, NoOneof(M, FirstAll(M))), Case(M, NoOneofAtAll(M, NullAll(M))),
              Case(M, Obj(<<Mem(Msgs[M][1].n, FormsOf(M, Msgs[M][1])[1]), Mem("nosuch", Str("s1"))>>))>>
TheMsgs == <<"Rich", "StatsResponse", "ListResponse", "StatisticBodyResponse", "OrderRequest", "ListRequest", "AuthRequest", "HelloRequest">>
RECURSIVE CatM(_)
CatM(i) == IF i > Len(TheMsgs) THEN <<>> ELSE MsgCases(TheMsgs[i]) \o Whole(TheMsgs[i]) \o CatM(i + 1)
\* two members, one of which does not fit: the payload is rejected whatever else it contains
Poison == <<Case("Rich", Obj(<<Mem("s", Str("s1")), Mem("i32", Num("i32"))>>)), Case("Rich", Obj(<<Mem("e", Str("ePURPLE")), Mem("b", Bool("true"))>>)),
            Case("OrderRequest", Obj(<<Mem("token", Str("s1")), Mem("user_id", Str("sabc")), Mem("item_id", Num("i1"))>>)),
            Case("StatsResponse", Obj(<<Mem("Auth", Body(Obj(<<Mem("5", Num("i1"))>>), Num("i1"))), Mem("Hello", Num("i65"))>>))>>
Cases0 == CatM(1) \o Poison
Cases == [i \in DOMAIN Cases0 |-> [id |-> i] @@ Cases0[i]]

(******************** properties of the interpretation *********************)
OneMem(c) == Len(c.w.m) = 1
\* an integer means the same written as a number or as a string
FormAgnostic == \A i \in DOMAIN Cases : LET c == Cases[i] IN
                  (OneMem(c) /\ c.w.m[1].w.k = "num" /\ c.w.m[1].w.v \in IntIds /\ HasField(c.msg, c.w.m[1].n)
                   /\ FieldOf(c.msg, c.w.m[1].n).t \in IntTypes \cup {"wrap64"} /\ FieldOf(c.msg, c.w.m[1].n).card \in {"one", "oneof"})
                  => Expect(c.msg, c.w) = Expect(c.msg, Obj(<<Mem(c.w.m[1].n, Str(c.w.m[1].w.v))>>))
\* the .proto name and the JSON name are the same member
NameAgnostic == \A i \in DOMAIN Cases : LET c == Cases[i] IN
                  (OneMem(c) /\ HasField(c.msg, c.w.m[1].n)) =>
                      LET f == FieldOf(c.msg, c.w.m[1].n) IN
                      Expect(c.msg, Obj(<<Mem(f.n, c.w.m[1].w)>>)) = Expect(c.msg, Obj(<<Mem(f.jn, c.w.m[1].w)>>))
\* null: absent (Value: the null value); a plain scalar written with its default value: absent
NullAbsent == \A i \in DOMAIN Cases : LET c == Cases[i] IN
                  (OneMem(c) /\ c.w.m[1].w.k = "null" /\ HasField(c.msg, c.w.m[1].n) /\ FieldOf(c.msg, c.w.m[1].n).mt # "value")
                  => Expect(c.msg, c.w) = OkL({})
Zero == {"i0", "s0", "false", "eZERO"}
DefaultAbsent == \A i \in DOMAIN Cases : LET c == Cases[i] IN
                  (OneMem(c) /\ c.w.m[1].w.v \in Zero /\ HasField(c.msg, c.w.m[1].n) /\ FieldOf(c.msg, c.w.m[1].n).card = "one"
                   /\ FieldOf(c.msg, c.w.m[1].n).t \in IntTypes \cup {"string", "bool", "double", "enum", "bytes"} /\ Expect(c.msg, c.w).ok)
                  => Expect(c.msg, c.w).leaves = {}
\* a path carries one value
OnePathOneValue == \A i \in DOMAIN Cases : LET L == Expect(Cases[i].msg, Cases[i].w).leaves IN \A a, b \in L : a.p = b.p => a = b
\* the case space exercises both outcomes of every message type
BothOutcomes == \A k \in DOMAIN TheMsgs : /\ \E i \in DOMAIN Cases : Cases[i].msg = TheMsgs[k] /\ Expect(Cases[i].msg, Cases[i].w).ok
                                           /\ \E j \in DOMAIN Cases : Cases[j].msg = TheMsgs[k] /\ ~Expect(Cases[j].msg, Cases[j].w).ok

Init == x = 0
Next == UNCHANGED x
Spec == Init /\ [][Next]_vars
\* generator: the case space (the expected outcome stays here: TraceGrpcJson evaluates Expect on every recorded case)
GenInit == x = 0 /\ PrintT(<<"VERIF", ToJson([cases |-> Cases, n |-> Len(Cases),
                                              sent |-> Cardinality({i \in DOMAIN Cases : Expect(Cases[i].msg, Cases[i].w).ok})])>>)
=============================================================================
