-------------------------- MODULE ProfileMathCheck --------------------------
(***************************************************************************)
(* Sanity / non-vacuity of the C01 oracle itself, exhaustively on a grid.  *)
(* For every const/line profile of the grid and every k below its count:   *)
(* the earliest integer nanosecond T with Integral_0^T rps >= k (found by  *)
(* bisection in BigNat) satisfies IsOpTime, instants more than Tau away    *)
(* from T do not, T is monotone in k and lies in [0, D]; exactly one count *)
(* (or two adjacent ones, when the integral at D is within Tau of an       *)
(* integer) satisfies CountOK.  One TLC state per grid profile.            *)
(***************************************************************************)
EXTENDS ProfileMath, TLC, FiniteSets, SequencesExt

CONSTANTS Rates,      \* set of milli-rps values
          DursMs,     \* set of durations in ms
          MaxC        \* upper bound of the counts searched (above max rate * max duration of the grid)

VARIABLE gi

Ms(n) == Mul(FromInt(n), <<0, 100>>)     \* n ms in ns  (10^6 = 100 * 10^4)

Grid == { [kind |-> kd, from_m |-> f, to_m |-> t, step |-> 0, times |-> 0, dur |-> Ms(d)] :
             kd \in {"const", "line"}, f \in Rates, t \in Rates, d \in DursMs }

GridSeq == SetToSeq({ q \in Grid : q.kind = "line" \/ q.from_m = q.to_m })
p == GridSeq[gi]

\* chunked walk so that TLC's workers evaluate the invariants in parallel
Chunk == 8
Init == gi \in {j \in 1..Len(GridSeq) : j % Chunk = 1}
Next == gi % Chunk # 0 /\ gi < Len(GridSeq) /\ gi' = gi + 1

RECURSIVE HalfGo(_, _, _, _)
HalfGo(a, i, r, acc) == IF i = 0 THEN acc
                        ELSE LET v == r * Base + a[i]
                             IN  HalfGo(a, i-1, v % 2, <<v \div 2>> \o acc)
Half(a) == Strip(HalfGo(a, Len(a), 0, <<>>))

RECURSIVE Bisect(_, _, _, _)
Bisect(q, k, lo, hi) ==
    IF Geq(lo, hi) THEN hi
    ELSE LET mid == Half(Add(lo, hi))
         IN  IF CumGE(q, k, mid) THEN Bisect(q, k, lo, mid) ELSE Bisect(q, k, Add(mid, <<1>>), hi)
Earliest(q, k) == Bisect(q, k, <<>>, q.dur)

Counts(q) == {c \in 0..MaxC : CountOK(q, c)}

CountInv == LET cs == Counts(p)
            IN  /\ cs # {}
                /\ \A a, b \in cs : a - b \in {-1, 0, 1}
                /\ Cardinality(cs) <= 2

TwoTau == <<2002>>
WindowInv ==
    \A c \in Counts(p) : \A k \in 0..(c-1) :
        LET T == Earliest(p, k)
        IN  /\ CumGE(p, k, T)
            /\ Leq(T, p.dur)
            /\ IsOpTime(p, k, T)
            /\ (Leq(Add(T, TwoTau), p.dur) => ~IsOpTime(p, k, Add(T, TwoTau)))
            /\ (Gt(T, TwoTau) => ~IsOpTime(p, k, Sub(T, TwoTau)))
            /\ (k > 0 => Leq(Earliest(p, k-1), T))

\* negative controls (cfg/ProfileMath_neg_*.cfg): deliberately wrong claims that TLC must refute, so that the
\* oracle is known to discriminate: an instant 2 us late is still "the k-th instant"; a count two larger is admissible
NegLateAccepted ==
    \A c \in Counts(p) : \A k \in 0..(c-1) :
        LET T == Earliest(p, k) IN Leq(Add(T, TwoTau), p.dur) => IsOpTime(p, k, Add(T, TwoTau))
NegCountPlusTwo == \A c \in Counts(p) : c + 2 <= MaxC => CountOK(p, c + 2)

\* golden points computed by hand (line 0 -> 4 rps over 2 s: k = t^2)
Golden ==
    LET q == [kind |-> "line", from_m |-> 0, to_m |-> 4000, step |-> 0, times |-> 0, dur |-> Ms(2000)]
    IN  /\ Earliest(q, 0) = <<>>
        /\ Earliest(q, 1) = Ms(1000)
        /\ Earliest(q, 2) = <<3563, 1421, 14>>       \* ceil(sqrt(2) s) = 1 414 213 563 ns
        /\ Counts(q) = {3, 4}                         \* integral at D is exactly 4: within Tau of an integer
        /\ Counts([q EXCEPT !.to_m = 5000, !.dur = Ms(3000)]) = {7}      \* integral 7.5
        /\ Counts(ConstP(100000, Ms(290))) = {28, 29}                    \* 100 rps * 0.29 s = 29.000
        /\ Counts(ConstP(2500, Ms(1500))) = {3}                          \* 2.5 rps * 1.5 s = 3.75
        /\ Earliest(ConstP(2500, Ms(1500)), 3) = Ms(1200)
        /\ Counts([q EXCEPT !.from_m = 1000, !.to_m = 0]) = {0, 1}        \* 1 -> 0 rps over 2 s: integral exactly 1
ASSUME Golden
=============================================================================
