------------------------- MODULE ScenarioConfigMC -------------------------
(* Model-checking instance of ScenarioConfig: the token alphabet and the case export (M2). *)
EXTENDS ScenarioConfig, Json, IOUtils, SequencesExt

\* the harness (harness/cmd/vdrive/scenconfig_tokens.go) maps every token to its literal
MCTokens == {
  "T_dq", "T_sq", "T_bs", "T_tmpl", "T_tmplq", "T_yes", "T_no", "T_true", "T_123", "T_1e3", "T_null", "T_tilde",
  "T_float", "T_oct", "T_hex", "T_sexa", "T_date", "T_ml", "T_ml2", "T_mlind", "T_crlf", "T_uni", "T_dollar", "T_dollar2",
  "T_pct", "T_hash", "T_colon", "T_colon2", "T_dash", "T_lead", "T_trail", "T_empty", "T_space", "T_brace", "T_brack",
  "T_amp", "T_pipe", "T_gt2", "T_bt", "T_q", "T_comma", "T_heredoc", "T_tab", "T_eq", "T_merge", "T_ctrl", "T_ls",
  "T_long", "T_mldollar", "T_json", "T_tmplbody", "T_hdrmod", "T_xpath", "T_nl", "T_bang", "T_at" }
MCCore   == {"T_dq", "T_bs", "T_tmplq", "T_yes", "T_123", "T_null", "T_ml2", "T_uni", "T_dollar2", "T_colon", "T_trail", "T_empty", "T_merge", "T_ls"}
MCDelims == {"T_comma1", "T_semi", "T_tab1", "T_pipe1"}
MCOps    == {"T_gt", "T_lt", "T_eqs", "T_opeq", "T_oplt", "T_opgt"}

\* case export (M2): every case with its key and the description the harness renders; evaluated once, after the
\* exhaustive run, as POSTCONDITION (PrintT of thousands of large values is slow)
ExportAll == ndJsonSerialize(IOEnv.VERIF_CASES, SetToSeq({[key |-> x, desc |-> Build(x)] : x \in Cases}))

\* diagnostics (check --replay / violation reports): VERIF_KEY names a file with JSON lines {"key": ...}; for each the
\* description and its expected meaning are written out
KeyList   == ndJsonDeserialize(IOEnv.VERIF_KEY)
Expect(x) == [key |-> x, desc |-> Build(x), cfg |-> Decoded(Build(x)), ammo |-> Ammo(Build(x))]
ExportOne == LET ks == KeyList IN ndJsonSerialize(IOEnv.VERIF_CASES, [i \in DOMAIN ks |-> Expect(ks[i].key)])
=============================================================================
