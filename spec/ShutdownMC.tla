----------------------------- MODULE ShutdownMC -----------------------------
(* Model-checking instance of Shutdown: nothing but the constants (see spec/cfg/Shutdown_*.cfg). *)
EXTENDS Shutdown
=============================================================================
