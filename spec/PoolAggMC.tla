------------------------------ MODULE PoolAggMC ------------------------------
(* Model-checking instance of PoolAgg: nothing but the constants (see spec/cfg/PoolAgg_*.cfg). *)
EXTENDS PoolAgg
=============================================================================
