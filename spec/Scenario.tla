------------------------------ MODULE Scenario ------------------------------
(***************************************************************************)
(* C15 / C19 - execution of pandora's HTTP scenarios.                      *)
(*                                                                         *)
(* Implementation-shaped model of                                          *)
(*   providers/scenario/config/decode.go   ParseShootName, SpreadNames     *)
(*   providers/scenario/http/decode.go     decodeAmmo, convertScenarioToAmmo*)
(*   providers/scenario/provider.go        Run (ring), Acquire             *)
(*   guns/http_scenario/gun.go             shoot, shootStep, reportErr     *)
(*   http/preprocessor, lib/mp             GetMapValue, calcIndex, Next    *)
(*   http/postprocessor/*                  capture / assert                *)
(*                                                                         *)
(* A CASE is an abstract scenario description (request definitions, the    *)
(* scenarios with their weighted request lists, a data source with R rows) *)
(* together with a target script (what the peer does to the k-th request   *)
(* that reaches it).  The state machine executes `shots` ammo on NInst     *)
(* instances.  One scenario step is three actions, one per linearisation   *)
(* point that another instance can observe:                                *)
(*   Pre   preprocessor (takes [next] counters) + template rendering       *)
(*   Send  the request reaches the target (global arrival number k)        *)
(*   Post  postprocessors (capture, assertion) + Report of the sample      *)
(* Everything is written as functions on a state record so that the trace  *)
(* specification can compute Expected(case) = the observable of the        *)
(* deterministic single-instance run with the very same definitions.       *)
(***************************************************************************)
EXTENDS Integers, Sequences, FiniteSets, TLC

CONSTANTS
    NInst,          \* number of instances shooting concurrently
    Cases,          \* the case space (a set of case records; ScenarioMC builds it)
    \* switches for negative controls; TRUE = what the documentation promises
    StopOnFail,     \* a failed step ends the shot
    SharedNext,     \* [next] counters are shared by all instances
    SleepToPrev,    \* sleep(ms) delays the request that FOLLOWS it (attached to the previous step)
    ExactMult,      \* name(n) yields exactly n steps
    UseWeights,     \* ring composition follows weight / gcd
    RespCanPanic,   \* C19: a response may escalate into a panic of the shot (must be FALSE)
    GrpcAbortOnStatus, \* negative control: the grpc gun ends the shot at ANY error status (documented: only an assertion does)
    HtmlEscapes,    \* the html templater escapes what it renders (FALSE: negative control)
    NextKeyFullPath, \* a [next] counter belongs to the FULL path of the indexed list (FALSE, negative control: to the bare
                    \* indexed segment `users[next]`, so lists with the same name under different parents share one counter)
    OwnSleep        \* the sleep argument of name(n, sleep) belongs to THAT list entry (FALSE, negative control: it
                    \* accumulates on the request, so later entries listing the same request inherit it)

VARIABLE st

Names    == {"a", "b", "c"}
NoVal    == [t |-> "none", n |-> 0]        \* nothing rendered
NoValue  == [t |-> "novalue", n |-> 0]     \* text/template's "<no value>" (missing leaf key)
Val(t, n) == [t |-> t, n |-> n]

-----------------------------------------------------------------------------
(* description -> expansion (ParseShootName + convertScenarioToAmmo) *)

ReqItem(name, n, sl) == [k |-> "req", name |-> name, n |-> n, sl |-> sl]
SleepItem(ms)        == [k |-> "sleep", name |-> "", n |-> 0, sl |-> ms]

Copies(it) == IF ExactMult THEN it.n ELSE it.n + 1

AddSleepLast(steps, ms) ==
    [j \in 1..Len(steps) |-> IF j = Len(steps) THEN [steps[j] EXCEPT !.sleep = @ + ms] ELSE steps[j]]

\* acc: steps so far; carry: (negative control only) sleep waiting for the next step;
\* leak: (negative control OwnSleep = FALSE only) per request name the sleep arguments of the entries seen so far
RECURSIVE ExpandFrom(_, _, _, _)
ExpandFrom(items, acc, carry, leak) ==
    IF items = <<>> THEN acc
    ELSE LET it == Head(items) IN
         IF it.k = "sleep"
         THEN IF SleepToPrev
              THEN ExpandFrom(Tail(items), AddSleepLast(acc, it.sl), 0, leak)
              ELSE ExpandFrom(Tail(items), acc, carry + it.sl, leak)
         ELSE LET sl == IF OwnSleep THEN it.sl ELSE leak[it.name] + it.sl
                  new == [j \in 1..Copies(it) |-> [name |-> it.name, sleep |-> sl]]
                  new2 == IF carry > 0 THEN AddSleepLast(new, carry) ELSE new
              IN ExpandFrom(Tail(items), acc \o new2, 0, [leak EXCEPT ![it.name] = sl])

Expand(items) == ExpandFrom(items, <<>>, 0, [nm \in Names |-> 0])

\* independent reading of the documentation, used as a check of Expand (ExpandOK below)
RECURSIVE StepsBefore(_, _)
StepsBefore(items, p) == IF p <= 1 THEN 0
                         ELSE StepsBefore(items, p - 1) + (IF items[p-1].k = "req" THEN items[p-1].n ELSE 0)
RECURSIVE CountName(_, _)
CountName(items, nm) == IF items = <<>> THEN 0
                        ELSE (IF Head(items).k = "req" /\ Head(items).name = nm THEN Head(items).n ELSE 0)
                             + CountName(Tail(items), nm)
RECURSIVE TotalSleep(_)
TotalSleep(items) == IF items = <<>> THEN 0
                     ELSE (IF Head(items).k = "req" THEN Head(items).n * Head(items).sl ELSE Head(items).sl)
                          + TotalSleep(Tail(items))
RECURSIVE SumSleep(_)
SumSleep(steps) == IF steps = <<>> THEN 0 ELSE Head(steps).sleep + SumSleep(Tail(steps))

ExpandOK(items) ==
    LET e == Expand(items) IN
    /\ Len(e) = StepsBefore(items, Len(items) + 1)
    /\ \A nm \in Names : Cardinality({j \in 1..Len(e) : e[j].name = nm}) = CountName(items, nm)
    /\ SumSleep(e) = TotalSleep(items)
    \* order: the steps of item p occupy positions StepsBefore(p)+1 .. StepsBefore(p)+n
    /\ \A p \in 1..Len(items) : items[p].k = "req" =>
          \A j \in 1..items[p].n : /\ e[StepsBefore(items, p) + j].name = items[p].name
                                   /\ e[StepsBefore(items, p) + j].sleep >= items[p].sl
    \* a sleep(ms) item pauses after the last step listed before it
    /\ \A p \in 2..Len(items) : items[p].k = "sleep" =>
          e[StepsBefore(items, p)].sleep >= items[p].sl

-----------------------------------------------------------------------------
(* weights -> ring (SpreadNames + decodeAmmo + Provider.Run) *)

RECURSIVE GCD(_, _)
GCD(x, y) == IF y = 0 THEN x ELSE GCD(y, x % y)
RECURSIVE GCDSeq(_)
GCDSeq(ws) == IF Len(ws) = 1 THEN ws[1] ELSE GCD(ws[1], GCDSeq(Tail(ws)))
RECURSIVE Flatten(_)
Flatten(ss) == IF ss = <<>> THEN <<>> ELSE Head(ss) \o Flatten(Tail(ss))

EffW(w) == IF w = 0 THEN 1 ELSE w
RingOf(scens) ==
    IF Len(scens) = 1 \/ ~UseWeights THEN [i \in 1..Len(scens) |-> i]
    ELSE LET ws == [i \in 1..Len(scens) |-> EffW(scens[i].weight)]
             g  == GCDSeq(ws)
         IN Flatten([i \in 1..Len(scens) |-> [j \in 1..(ws[i] \div g) |-> i]])

\* the iterator a request's preprocessor ends up with: convertConfigToRequest calls InitIterator on the
\* shared *Preprocessor for every scenario that lists the request; the last scenario's iterator stays
UsedIn(c, nm) == {i \in 1..Len(c.scens) : \E p \in 1..Len(c.scens[i].items) :
                      c.scens[i].items[p].k = "req" /\ c.scens[i].items[p].name = nm}
IterOf(c, nm) == IF UsedIn(c, nm) = {} THEN 0 ELSE CHOOSE i \in UsedIn(c, nm) : \A j \in UsedIn(c, nm) : j <= i

-----------------------------------------------------------------------------
(* state *)

\* Data sources and the indexable lists in them (a PATH names a list):
\*   users, items   file/csv sources                source.users[i].id                    rows r0.. / q0..
\*   buyers, sellers  lists of a NESTED file/json source   source.market.buyers.users[i].id      rows b0.. / s0..
\*                                                        source.market.sellers.users[i].id
\*   vlist, glist   lists of strings of a `variables` source   source.vars.list[i], source.vars.grp.list[i]   v0.. / w0..
\* The lists have different lengths.  The last segment of users / buyers / sellers is the same text `users[..]`, of
\* vlist / glist `list[..]`: a [next] counter belongs to the full path (mp.GetMapValue hands the path walked so far to
\* NextIterator.Next), never to the bare segment.
Paths == {"users", "items", "buyers", "sellers", "vlist", "glist"}
Sources == Paths
PathTag(p) == CASE p = "users" -> "r" [] p = "items" -> "q" [] p = "buyers" -> "b" [] p = "sellers" -> "s"
                [] p = "vlist" -> "v" [] p = "glist" -> "w"
SrcTag(p) == PathTag(p)
LastSeg(p) == CASE p \in {"users", "buyers", "sellers"} -> "users" [] p = "items" -> "items" [] OTHER -> "list"
CtrKeys == Paths \cup {"list"}
PathKey(p) == IF NextKeyFullPath THEN p ELSE LastSeg(p)
PathRows(c, p) == CASE p \in {"users", "items", "sellers"} -> c.rows
                    [] p = "buyers" -> c.rows + 1
                    [] p = "vlist"  -> 2
                    [] p = "glist"  -> 3
\* with `special` the rows of users end in a character html/template escapes: r0< r1< ...
SrcTagC(c, src) == IF src = "users" /\ c.special THEN "r<" ELSE SrcTag(src)

\* the gun kind of a case: "http" (http/scenario gun) or "grpc" (grpc/scenario gun).  Where the two guns differ:
\*   - a failed step: http reports (status or 0, error, __EMPTY__); grpc reports the code it has (0 before the call,
\*     400 for a payload that is no message, else the mapped gRPC status) without an error attached
\*   - an error STATUS from the peer: grpc goes on with the next call unless an assert/response postprocessor objects
\*     (the documentation: "upon assertion, further scenario execution is dropped"); there is no reply message then,
\*     i.e. no request.<name>.postprocessor
\*   - captured values: grpc has no extractors, request.<name>.postprocessor IS the reply message
IsGrpc(s) == s.cs.gun = "grpc"

\* the templater of a case: "text" (text/template) or "html" (html/template).  Where they differ: html/template
\* HTML-escapes the values it renders (r0< -> r0&lt;) and renders a variable that is not there as NOTHING, where
\* text/template writes "<no value>"
EscV(tmpl, v) == IF tmpl # "html" \/ ~HtmlEscapes THEN v
                 ELSE CASE v.t = "r<"      -> [v EXCEPT !.t = "r&lt;"]
                        [] v.t = "novalue" -> NoVal
                        [] OTHER           -> v

FreshVars == [nm \in Names |-> [seen |-> FALSE, hasPre |-> FALSE, row |-> NoVal, hasPost |-> FALSE, tok |-> NoVal]]
IdleInst  == [pc |-> "idle", sc |-> 0, steps |-> <<>>, pos |-> 0, vs |-> FreshVars,
              pend |-> [val |-> NoVal, at |-> "", status |-> 0, k |-> 0, row |-> NoVal, trunc |-> FALSE, rnd |-> 0],
              lastSleep |-> 0, failed |-> FALSE, shot |-> 0,
              spent |-> 0]          \* pauses of the current shot so far (ms)

InitSt(c) ==
    [cs |-> c, ring |-> RingOf(c.scens), taken |-> 0,
     inst |-> [i \in 1..NInst |-> IdleInst],
     \* ctr[owner][scenario iterator][source]; owner 0 = shared
     ctr |-> [o \in 0..NInst |-> [it \in 0..Len(c.scens) |-> [s \in CtrKeys |-> 0]]],
     k |-> 0, log |-> <<>>, samples |-> <<>>,
     handed |-> <<>>,        \* history: [it, src, n] raw [next] numbers handed out, in order
     durs |-> <<>>,          \* history: per finished shot the time it takes AT LEAST (pauses, min_waiting_time)
     panics |-> 0]

Cur(s, i)  == s.inst[i]
Step(s, i) == Cur(s, i).steps[Cur(s, i).pos]
Def(s, i)  == s.cs.reqs[Step(s, i).name]
ScName(s, i) == s.cs.scens[Cur(s, i).sc].name

Sample(s, i, proto, err) == [sc |-> ScName(s, i), step |-> Step(s, i).name, proto |-> proto, err |-> err]

\* the step failed (preprocessor / template / transport / body / postprocessor): reportErr, return err.
\* proto is the status that was RECEIVED (a failure after the response arrived: failed assertion, failing
\* extractor, unreadable body) and 0 when there was no response (preprocessor / template / transport error)
\* the shot of instance i is over: it has taken at least its pauses and at least the scenario's min_waiting_time
\* ("the minimum scenario execution time" - also when a step failed and the rest was skipped)
Max(a, b) == IF a > b THEN a ELSE b
EndShot(s, i) == [s EXCEPT !.durs = Append(@, [sc |-> ScName(s, i),
                                               dur |-> Max(s.cs.scens[Cur(s, i).sc].mwt, Cur(s, i).spent)])]

FailF(s, i, proto) ==
    LET smp == Sample(s, i, proto, ~IsGrpc(s))
        last == Cur(s, i).pos >= Len(Cur(s, i).steps)
        goOn == ~StopOnFail /\ ~last      \* negative control: carry on with the next step
        s1 == [s EXCEPT !.samples = Append(@, smp),
                 !.inst[i] = IF goOn
                             THEN [@ EXCEPT !.pc = "pre", !.pos = @ + 1, !.lastSleep = 0, !.failed = TRUE]
                             ELSE [@ EXCEPT !.pc = "idle", !.lastSleep = 0, !.failed = goOn]]
    IN IF goOn THEN s1 ELSE EndShot(s1, i)

\* provider.Acquire + schedule token: the next ring entry, expanded
AcquireF(s, i) ==
    LET sc == s.ring[(s.taken % Len(s.ring)) + 1]
        steps == Expand(s.cs.scens[sc].items)
        s1 == [s EXCEPT !.taken = @ + 1,
                 !.inst[i] = [IdleInst EXCEPT !.pc = IF steps = <<>> THEN "idle" ELSE "pre",
                                              !.sc = sc, !.steps = steps, !.pos = 1,
                                              !.lastSleep = Cur(s, i).lastSleep, !.shot = s.taken + 1]]
    \* a scenario without requests: the shot is over at once - no request, no sample (min_waiting_time still holds)
    IN IF steps = <<>> THEN EndShot(s1, i) ELSE s1

\* mp.GetMapValue on the variable tree: <<found, value>>
LookupPost(vs, of) == IF vs[of].seen /\ vs[of].hasPost /\ vs[of].tok # NoVal THEN <<TRUE, vs[of].tok>> ELSE <<FALSE, NoVal>>

\* text/template (default missingkey option) on the variable tree: <<ok, value>>.  A variable that is not
\* there - a step that has not run yet in this shot, a step without preprocessor, a capture that found
\* nothing - is NOT an error: it renders "<no value>".  An execution error (here: a field of a list) is.
Render(vs, use) ==
    CASE use.src = "none" -> <<TRUE, NoVal>>
      [] use.src = "pre"  -> IF vs[use.of].seen /\ vs[use.of].hasPre THEN <<TRUE, vs[use.of].row>> ELSE <<TRUE, NoValue>>
      [] use.src = "post" -> IF vs[use.of].seen /\ vs[use.of].hasPost /\ vs[use.of].tok # NoVal
                             THEN <<TRUE, vs[use.of].tok>> ELSE <<TRUE, NoValue>>
      [] use.src = "ghost" -> <<TRUE, NoValue>>     \* {{.request.<no such request>.postprocessor.tok}}
      [] use.src = "bad"   -> <<FALSE, NoVal>>      \* {{.source.users.id}}: can't evaluate field of a list

PreF(s, i) ==
    LET me   == Cur(s, i)
        nm   == Step(s, i).name
        d    == Def(s, i)
        R    == s.cs.rows
        own  == IF SharedNext THEN 0 ELSE i
        it   == IterOf(s.cs, nm)
        \* shootStep: requestVars[step.Name] = fresh map
        vs0  == [me.vs EXCEPT ![nm] = [seen |-> TRUE, hasPre |-> FALSE, row |-> NoVal, hasPost |-> FALSE, tok |-> NoVal]]
        isNext == d.pre.k = "next"
        key  == PathKey(d.pre.of)              \* what the [next] counter belongs to
        Rp   == PathRows(s.cs, d.pre.of)       \* length of the indexed list
        raw  == IF isNext THEN s.ctr[own][it][key] ELSE 0
        \* calcIndex: next = counter mod length, last = length - 1, an integer index (negative, beyond the end) is
        \* taken modulo the length, rand = some row
        pre  == CASE d.pre.k = "none"    -> <<TRUE, FALSE, NoVal>>
                  [] d.pre.k = "next"    -> <<TRUE, TRUE, Val(SrcTagC(s.cs, d.pre.of), raw % Rp)>>
                  [] d.pre.k = "last"    -> <<TRUE, TRUE, Val(SrcTagC(s.cs, d.pre.of), Rp - 1)>>
                  [] d.pre.k = "idx"     -> <<TRUE, TRUE, Val(SrcTagC(s.cs, d.pre.of), s.cs.idx % Rp)>>
                  [] d.pre.k = "rand"    -> <<TRUE, TRUE, Val(SrcTagC(s.cs, d.pre.of), 0)>>     \* n: any of 0..Rp-1 (pend.rnd)
                  [] d.pre.k = "from"    -> LET l == LookupPost(vs0, d.pre.of) IN <<l[1], l[1], l[2]>>
                  [] d.pre.k = "missing" -> <<FALSE, FALSE, NoVal>>
        s1   == IF isNext THEN [s EXCEPT !.ctr[own][it][key] = @ + 1,
                                         !.handed = Append(@, [it |-> it, src |-> d.pre.of, n |-> raw])]
                ELSE s
        vs1  == IF pre[2] THEN [vs0 EXCEPT ![nm].hasPre = TRUE, ![nm].row = pre[3]] ELSE vs0
        rnd0 == Render(vs1, d.use)
        rnd  == <<rnd0[1], EscV(s.cs.tmpl, rnd0[2])>>      \* values pass through the request's templater
        s2   == [s1 EXCEPT !.inst[i].vs = vs1]
    IN IF ~pre[1] \/ ~rnd[1] THEN FailF(s2, i, 0)
       ELSE [s2 EXCEPT !.inst[i].pc = "send",
                       !.inst[i].pend = [val |-> rnd[2], at |-> d.use.at, status |-> 0, k |-> 0, trunc |-> FALSE,
                                         row |-> IF pre[2] THEN pre[3] ELSE NoVal,
                                         \* > 0: the rendered row is ANY of 0..rnd-1 ([rand] rendered by this very step)
                                         rnd |-> IF d.pre.k = "rand" /\ d.use.src = "pre" /\ d.use.of = nm THEN Rp ELSE 0]]

\* the request reaches the target; the script decides what the peer does to arrival number k
SendF(s, i) ==
    LET me == Cur(s, i)
        k1 == s.k + 1
        sc == s.cs.script
        \* scripts act on arrival number k - or ("rowmod", for runs with several instances, where arrival numbers mean
        \* nothing) on the CONTENT of the request: the data-source row rendered into the URI has parity sc.at
        hit == IF sc.kind = "rowmod" THEN me.pend.at = "uri" /\ me.pend.val.t = "r" /\ me.pend.val.n % 2 = sc.at
               ELSE sc.at = k1
        entry == [req |-> Step(s, i).name, val |-> me.pend.val, at |-> me.pend.at, gap |-> me.lastSleep, rnd |-> me.pend.rnd]
        s1 == [s EXCEPT !.k = k1, !.log = Append(@, entry)]
    \* no response at all (status line cut / connection closed after the request was read, with zero response bytes):
    \* the step fails, it is NOT sent again - the target sees it exactly once
    IN IF hit /\ sc.kind \in {"transport", "eof"} THEN FailF(s1, i, 0)
       ELSE [s1 EXCEPT !.inst[i].pc = "post",
                       !.inst[i].pend.status = IF hit /\ sc.kind \in {"status", "rowmod"} THEN (IF IsGrpc(s) THEN 404 ELSE 418) ELSE 200,
                       !.inst[i].pend.k = k1,
                       \* "trunc": status and headers arrive, the body ends before its Content-Length
                       !.inst[i].pend.trunc = (hit /\ sc.kind = "trunc")]

\* postprocessors in configured order (capture, then assert/response), Report, Sleep
PostF(s, i) ==
    LET me == Cur(s, i)
        nm == Step(s, i).name
        d  == Def(s, i)
        tok == CASE d.cap = "none" -> NoVal
                 [] d.cap = "json" -> Val("j", me.pend.k)
                 [] d.cap = "hdr"  -> Val("h", me.pend.k)
                 [] d.cap = "xpath" -> Val("x", me.pend.k)
                 [] d.cap = "jsonnum" -> Val("n", me.pend.k)     \* the JSON number 1000000 + k
                 [] d.cap = "grpc" -> Val("g", me.pend.k)        \* field `hello` of the reply message
        \* grpc: an error status has no reply message - nothing is stored under request.<name>.postprocessor
        captured == ~IsGrpc(s) \/ me.pend.status = 200
        assertFails == d.assert /\ me.pend.status # 200
        last == me.pos >= Len(me.steps)
    \* the body is read (or drained) before any postprocessor runs: a body that cannot be read fails the step -
    \* with or without postprocessors - and the sample keeps the status that was received
        grpcAborts == GrpcAbortOnStatus /\ IsGrpc(s) /\ me.pend.status # 200
    IN IF me.pend.trunc \/ assertFails \/ grpcAborts THEN FailF(s, i, me.pend.status)
       ELSE LET s1 == [s EXCEPT !.samples = Append(@, Sample(s, i, me.pend.status, FALSE)),
                      !.inst[i] = [@ EXCEPT !.vs[nm].hasPost = captured, !.vs[nm].tok = IF captured THEN tok ELSE NoVal,
                                            !.lastSleep = Step(s, i).sleep,
                                            !.spent = @ + Step(s, i).sleep,
                                            !.pc = IF last THEN "idle" ELSE "pre",
                                            !.pos = IF last THEN @ ELSE @ + 1]]
            IN IF last THEN EndShot(s1, i) ELSE s1

Enabled(s, i) == Cur(s, i).pc # "idle" \/ s.taken < s.cs.shots

StepF(s, i) == CASE Cur(s, i).pc = "idle" -> AcquireF(s, i)
                 [] Cur(s, i).pc = "pre"  -> PreF(s, i)
                 [] Cur(s, i).pc = "send" -> SendF(s, i)
                 [] Cur(s, i).pc = "post" -> PostF(s, i)

Done(s) == \A i \in 1..NInst : ~Enabled(s, i)

\* C19: what a response could do to the instance if response-derived data were used unchecked
PanicF(s, i) == [s EXCEPT !.panics = @ + 1, !.inst[i].pc = "idle", !.taken = s.cs.shots]

Init == \E c \in Cases : st = InitSt(c)
Next == \E i \in 1..NInst :
          /\ Enabled(st, i)
          /\ \/ st' = StepF(st, i)
             \/ RespCanPanic /\ Cur(st, i).pc = "post" /\ st' = PanicF(st, i)
Spec == Init /\ [][Next]_st

-----------------------------------------------------------------------------
(* the observable of the deterministic single-instance run *)

RECURSIVE RunFrom(_)
RunFrom(s) == IF ~Enabled(s, 1) THEN s ELSE RunFrom(StepF(s, 1))
Expected(c) == LET f == RunFrom(InitSt(c))
               IN [log |-> f.log, samples |-> f.samples,
                   ring |-> [j \in 1..Len(f.ring) |-> c.scens[f.ring[j]].name],
                   handed |-> f.handed, durs |-> f.durs]

-----------------------------------------------------------------------------
(* properties *)

\* the description is expanded as documented: order, multiplicity, pauses (independent reading)
ExpansionOK == st.taken = 0 => \A j \in 1..Len(st.cs.scens) : ExpandOK(st.cs.scens[j].items)

\* stop on failure: an instance whose current shot has a failed step is not executing a later step
StopsOnFailure == \A i \in 1..NInst : Cur(st, i).failed => Cur(st, i).pc = "idle"

\* every request that reached the target and whose step is finished has exactly one sample; steps that
\* failed before sending have one too (samples >= requests - in flight)
InFlight(s) == Cardinality({i \in 1..NInst : Cur(s, i).pc = "post"})
OneSamplePerStep == Len(st.samples) >= st.k - InFlight(st)

\* order: the requests of a finished successful single-instance shot are the expanded list, in order
\* (checked at Done for one instance and an all-OK run: the log is the concatenation of the expansions)
RECURSIVE RingLog(_, _, _)
RingLog(c, ring, n) == IF n = 0 THEN <<>>
                       ELSE RingLog(c, ring, n - 1) \o
                            LET e == Expand(c.scens[ring[((n - 1) % Len(ring)) + 1]].items)
                            IN [j \in 1..Len(e) |-> e[j].name]
OrderOK == (NInst = 1 /\ Done(st) /\ \A j \in 1..Len(st.samples) : ~st.samples[j].err /\ st.samples[j].proto = 200)
              => [j \in 1..Len(st.log) |-> st.log[j].req] = RingLog(st.cs, st.ring, st.cs.shots)

\* [next]: for every iterator and source the numbers handed out are 0,1,2,... each exactly once
Handed(s, it, src) == {j \in 1..Len(s.handed) : s.handed[j].it = it /\ s.handed[j].src = src}
NextConsecutive ==
    \A it \in 0..Len(st.cs.scens), src \in Sources :
        LET H == Handed(st, it, src) IN
        /\ \A x, y \in H : x # y => st.handed[x].n # st.handed[y].n
        /\ \A x \in H : st.handed[x].n < Cardinality(H)

\* weights: over whole cycles of the ring every scenario gets shots in proportion to its weight
ShotsOf(s, j) == Cardinality({n \in 1..s.taken : s.ring[((n - 1) % Len(s.ring)) + 1] = j})
TotalW(c) == LET RECURSIVE Sum(_)
                 Sum(n) == IF n = 0 THEN 0 ELSE EffW(c.scens[n].weight) + Sum(n - 1)
             IN Sum(Len(c.scens))
Proportional ==
    (Len(st.cs.scens) > 1 /\ st.taken > 0 /\ st.taken % Len(st.ring) = 0) =>
        \A j \in 1..Len(st.cs.scens) : ShotsOf(st, j) * TotalW(st.cs) = EffW(st.cs.scens[j].weight) * st.taken

\* grpc/scenario: an error status of the peer does not end the shot unless the call has an assert/response postprocessor:
\* with a status script that hits a call without assertion (and no other failure) every listed call is made
GrpcGoesOn ==
    (NInst = 1 /\ Done(st) /\ IsGrpc(st) /\ st.cs.script.kind = "status" /\ st.cs.script.at <= Len(st.log)
       /\ ~st.cs.reqs[st.log[st.cs.script.at].req].assert
       /\ \A j \in 1..Len(st.samples) : st.samples[j].proto \in {200, 404})
    => [j \in 1..Len(st.log) |-> st.log[j].req] = RingLog(st.cs, st.ring, st.cs.shots)
\* templaters: a character html/template escapes never reaches the target raw through the html templater, and is never
\* escaped by the text templater
EscapingOK == st.cs.special =>
    \A j \in 1..Len(st.log) : st.log[j].val.t # (IF st.cs.tmpl = "html" THEN "r<" ELSE "r&lt;")

\* duration of shots (independent reading): every shot that is over is accounted, with at least its scenario's
\* min_waiting_time - whether or not a step failed - and, when none of its steps failed, at least all listed pauses
ScIdx(c, nm) == CHOOSE j \in 1..Len(c.scens) : c.scens[j].name = nm
SpansOK ==
    /\ Done(st) => Len(st.durs) = st.taken
    /\ \A n \in 1..Len(st.durs) : st.durs[n].dur >= st.cs.scens[ScIdx(st.cs, st.durs[n].sc)].mwt
    /\ (NInst = 1 /\ Done(st) /\ \A j \in 1..Len(st.samples) : ~st.samples[j].err /\ st.samples[j].proto = 200)
          => \A n \in 1..Len(st.durs) : st.durs[n].dur >= TotalSleep(st.cs.scens[ScIdx(st.cs, st.durs[n].sc)].items)

\* C19: no response makes the shot panic; after any response the instance takes the next ammo
NoPanic == st.panics = 0
AllAmmoTaken == Done(st) => st.taken = st.cs.shots

=============================================================================
