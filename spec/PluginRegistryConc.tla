------------------------- MODULE PluginRegistryConc -------------------------
(***************************************************************************)
(* C18, overlapping factory calls.  core/engine calls ONE NewGun /          *)
(* NewRPSSchedule factory from many instance goroutines, so "all sequences *)
(* of factory calls" includes overlapping ones.                            *)
(*                                                                         *)
(* A factory made from a COMPONENT constructor (pluginConstructor.         *)
(* NewFactory) does, per call: conf := getMaybeConf() (new config from the *)
(* default-config func, user's map decoded into it - each decode is given  *)
(* a unique stamp here), then newPlugin(conf).  A factory made from a      *)
(* FACTORY constructor decoded once at creation (stamp 0) and only calls   *)
(* the registered factory.  The two steps of a call are separate actions,  *)
(* callers interleave freely.  `conf` is a variable of the CALL (Local);   *)
(* the wrong variant keeps it in the factory closure, shared by all calls. *)
(***************************************************************************)
EXTENDS Integers, Sequences, FiniteSets, TLC

CONSTANTS Callers, MaxCalls,
          Ret,        \* "comp" | "fact": calls of ONE factory made from a component / factory constructor;
                      \* "new": Registry.New called concurrently, every call with its OWN config map, by callers that ask for
                      \*        the same registry entry (g1, g2) and for a different one (g3)
          Local       \* TRUE: the decoded config is a variable of the call; FALSE: of the factory closure (wrong)

\* which registry entry (plugin type, name) a caller asks for (Ret = "new")
EntryOf(g) == IF g = "g3" THEN "entry2" ELSE "entry1"

VARIABLES pc,       \* caller -> "idle" | "decoded"
          ncalls,   \* caller -> calls started
          stamp,    \* last stamp handed out
          mine,     \* caller -> stamp its current call decoded
          slot,     \* caller -> the config variable as this call sees it (one shared slot if ~Local)
          done      \* set of finished calls [g, dec, got]
vars == <<pc, ncalls, stamp, mine, slot, done>>

Init == /\ pc = [g \in Callers |-> "idle"] /\ ncalls = [g \in Callers |-> 0] /\ stamp = 0
        /\ mine = [g \in Callers |-> 0] /\ slot = [g \in Callers |-> 0] /\ done = {}

\* conf, err = getMaybeConf()
Decode(g) == /\ pc[g] = "idle" /\ ncalls[g] < MaxCalls
             /\ ncalls' = [ncalls EXCEPT ![g] = @ + 1]
             /\ IF Ret \in {"comp", "new"}
                THEN /\ stamp' = stamp + 1
                     /\ mine' = [mine EXCEPT ![g] = stamp + 1]
                     \* wrong variants: the config lives in the factory closure (comp) / in the registry entry (new)
                     /\ slot' = IF Local THEN [slot EXCEPT ![g] = stamp + 1]
                                ELSE [h \in Callers |-> IF Ret = "new" /\ EntryOf(h) # EntryOf(g) THEN slot[h] ELSE stamp + 1]
                ELSE UNCHANGED <<stamp, mine, slot>>          \* decoded once, at creation: stamp 0
             /\ pc' = [pc EXCEPT ![g] = "decoded"]
             /\ UNCHANGED done
\* newPlugin.Call(conf) / factory()
Construct(g) == /\ pc[g] = "decoded"
                /\ done' = done \cup {[g |-> g, n |-> ncalls[g], dec |-> mine[g], got |-> slot[g]]}
                /\ pc' = [pc EXCEPT ![g] = "idle"]
                /\ UNCHANGED <<ncalls, stamp, mine, slot>>
Next == \E g \in Callers : Decode(g) \/ Construct(g)
Spec == Init /\ [][Next]_vars

\* THE PROPERTY for overlapping calls (over what products report):
\* component constructor: every product is built from the configuration ITS OWN call decoded, no two products share one
OwnConfig(calls) == Ret \in {"comp", "new"} => /\ \A c \in calls : c.got = c.dec
                                    /\ \A c, d \in calls : c # d => c.got # d.got
\* factory constructor: every product sees THE configuration decoded at creation
OneConfig(calls) == Ret = "fact" => \A c \in calls : c.got = 0
OwnConfigInv == OwnConfig(done)
OneConfigInv == OneConfig(done)
=============================================================================
