--------------------------- MODULE TraceHttpConn ----------------------------
(***************************************************************************)
(* C09 conformance (M1), connection part.  The driver ran N instances (one *)
(* real http gun each, from the registered factory) x R requests against a *)
(* recording target, keep-alive on and off, http and https.  Log per run:  *)
(*   Run{n, r, keepalive, ssl, insts, opts, gap_ms, idle_ms}   opts: the   *)
(*                               gun's                                     *)
(*                               documented client options set away from   *)
(*                               their defaults; gap_ms: every instance    *)
(*                               idles at least that long between shots    *)
(*                               (longer than response-header-timeout, far *)
(*                               shorter than idle-conn-timeout)           *)
(*   Shoot{inst, idx, uri, ok}   who shot which request (gun wrapper) and  *)
(*                               whether it ended with a complete answer   *)
(*   Conn{conn, state}           the target's ConnState callback, and      *)
(*   Req{conn, uri, inst, ok}    the request it served, in the target's    *)
(*                               own order (inst joined from Shoot by uri) *)
(*   Connect{conn, uri, host}    connect gun: a CONNECT the proxy target   *)
(*                               accepted; conn = the origin-side          *)
(*                               connection it opened                      *)
(*   Sample{proto, net}, End{n, r}                                         *)
(* Run also says gun (http | connect), cssl, shared (client-number, 0 =    *)
(* per-instance clients) and serial (the instances took turns); Req.idx is *)
(* the instance's 0-based Bind order, from which ClientLabel derives the   *)
(* client it must have been given.                                         *)
(* The effects of HttpConn are applied line by line and every invariant of *)
(* HttpConn is evaluated after every line.                                 *)
(***************************************************************************)
EXTENDS HttpConn, Sequences, Json, IOUtils, TLC

VARIABLES shk,     \* shared-client.client-number of this run (0: per-instance clients)
          l,       \* lines consumed
          nsamp,   \* samples of this run that report a received answer (proto 200, net 0)
          nbad     \* samples of this run that do not

Trace == ndJsonDeserialize(IOEnv.VERIF_TRACE)

tvars == <<l, nsamp, nbad>>
TInit == /\ l = 0 /\ nsamp = 0 /\ nbad = 0
         /\ ninst = 0 /\ ka = TRUE /\ cs = <<>> /\ own = <<>> /\ nreq = <<>>
         /\ pool = <<>> /\ busy = <<>> /\ sent = <<>> /\ fails = <<>> /\ tun = <<>> /\ shk = 0 /\ expiry = FALSE

E == Trace[l + 1]
Keep == UNCHANGED <<ninst, ka, cs, own, nreq, fails, tun, shk, expiry>>

\* the client an instance shoots with: its own, or - shared-client, client-number k - the one Bind handed out
\* round-robin (core/clientpool Next: the first bound instance gets client 1 mod k); idx = 0-based Bind order
ClientLabel(k, idx) == IF k = 0 THEN "i" \o ToString(idx) ELSE "c" \o ToString((idx + 1) % k)
ClientsOfRun(k, n) == {ClientLabel(k, j) : j \in 0..(n - 1)}

Step == /\ l < Len(Trace)
        /\ l' = l + 1
        /\ UNCHANGED <<pool, busy, sent>>           \* client-internal, not observable at the target
        /\ CASE E.ev = "Run" ->
                   /\ ninst' = (IF E.shared > 0 THEN E.shared ELSE E.n) /\ ka' = E.keepalive /\ shk' = E.shared /\ tun' = <<>>
                   \* idle gaps longer than the configured idle-conn-timeout (0 = not set by the run: the 90 s default)
                   /\ expiry' = (E.idle_ms > 0 /\ E.gap_ms > E.idle_ms)
                   /\ cs' = <<>> /\ own' = <<>> /\ nreq' = <<>> /\ nsamp' = 0 /\ nbad' = 0
                   /\ fails' = [k \in ClientsOfRun(E.shared, E.n) |-> 0]
             [] E.ev = "Conn" /\ E.state = "new" ->
                   DialEff(E.conn) /\ UNCHANGED <<ninst, ka, nsamp, nbad, fails, tun, shk, expiry>>
             [] E.ev = "Conn" /\ E.state = "active" ->
                   ActiveEff(E.conn) /\ UNCHANGED <<ninst, ka, own, nreq, nsamp, nbad, fails, tun, shk, expiry>>
             [] E.ev = "Conn" /\ E.state = "idle" ->
                   IdleEff(E.conn) /\ UNCHANGED <<ninst, ka, own, nreq, nsamp, nbad, fails, tun, shk, expiry>>
             [] E.ev = "Conn" /\ E.state = "closed" ->
                   ClosedEff(E.conn) /\ UNCHANGED <<ninst, ka, own, nreq, nsamp, nbad, fails, tun, shk, expiry>>
             [] E.ev = "Req" ->
                   \* the request reached the target; if its exchange did not end with a complete answer (the
                   \* instance's own sample says so) the instance is entitled to a new connection afterwards
                   /\ ReqEff(ClientLabel(shk, E.idx), E.conn)
                   /\ UNCHANGED <<ninst, ka, cs, nsamp, nbad, tun, shk, fails, expiry>>
             [] E.ev = "Shoot" ->
                   \* the gun wrapper's view of a shot (logged before the target's events of the run): a shot that did
                   \* not end with a complete answer - whether or not it reached the target - entitles its client to
                   \* one more connection
                   /\ IF E.ok THEN fails' = fails ELSE FailEff(ClientLabel(shk, E.idx))
                   /\ UNCHANGED <<ninst, ka, cs, own, nreq, nsamp, nbad, tun, shk, expiry>>
             [] E.ev = "Connect" ->
                   \* a CONNECT the proxy accepted: it opened the origin-side connection E.conn
                   /\ TunnelEff(E.conn, [uri |-> E.uri, host |-> E.host])
                   /\ UNCHANGED <<ninst, ka, cs, own, nreq, fails, nsamp, nbad, shk, expiry>>
             [] E.ev = "Sample" ->
                   /\ IF E.proto = 200 /\ E.net = 0 THEN nsamp' = nsamp + 1 /\ nbad' = nbad
                                                    ELSE nbad' = nbad + 1 /\ nsamp' = nsamp
                   /\ Keep
             [] OTHER -> Keep /\ UNCHANGED <<nsamp, nbad>>

\* the line just consumed
Last == Trace[l]
RECURSIVE SumReq(_)
SumReq(S) == IF S = {} THEN 0 ELSE LET c == CHOOSE x \in S : TRUE IN nreq[c] + SumReq(S \ {c})

\* a request is served on a connection the target reported active
ReqOnActive == (l > 0 /\ Last.ev = "Req") => cs[Last.conn] = "active"
\* at the end of a run: every request of every instance arrived and was answered, and without
\* keep-alives the target saw exactly one connection per request
\* (runs with a small response-header-timeout are tolerant: under load an exchange may time out)
RunComplete == (l > 0 /\ Last.ev = "End") =>
                  /\ IF "tolerant" \in DOMAIN Last /\ Last.tolerant
                     THEN /\ nsamp + nbad = Last.n * Last.r
                          /\ SumReq(Conns) >= nsamp /\ SumReq(Conns) <= Last.n * Last.r
                     ELSE /\ SumReq(Conns) = Last.n * Last.r
                          /\ nsamp = Last.n * Last.r /\ nbad = 0
                  /\ ~ka => Cardinality(Conns) = Last.n * Last.r
                  \* a connection nobody sent on can only be the trace of a failed shot
                  /\ Cardinality({c \in Conns : own[c] = NoInst}) <= SumOver(fails, DOMAIN fails)
\* connect gun: at the end of the run every connection the target saw is a tunnel opened by its own CONNECT, which
\* named the gun's target (checked at the end: the proxy logs the CONNECT while the origin logs the new connection)
TTunnelled == (l > 0 /\ Last.ev = "End" /\ "gun" \in DOMAIN Last /\ Last.gun = "connect") =>
                  /\ \A c \in Conns : c \in DOMAIN tun /\ tun[c] = GoodConnect
                  /\ Cardinality(DOMAIN tun) = Cardinality(Conns)
=============================================================================
