--------------------------- MODULE TraceScenario ---------------------------
(***************************************************************************)
(* C15 trace specification.  One NDJSON line per case that `vdrive         *)
(* scenario` ran through the REAL http/scenario provider + gun + engine:   *)
(*   case : the abstract description + target script TLC generated         *)
(*   obs  : what happened - the target's ordered request log, the samples  *)
(*          reported, the scenario names the provider handed out           *)
(*   inst : number of instances of the run                                 *)
(* For single-instance runs the observation must be exactly the observable *)
(* Scenario.tla computes for the case (Expected = the deterministic run of *)
(* the state machine); pauses are one-sided (never shorter than asked).    *)
(* For multi-instance / multi-scenario runs ([next] sharing M1, weights)    *)
(* the order is free; rows seen must be the consecutive numbers 0..M-1     *)
(* mod R per iterator, counts per step those of whole ring cycles.         *)
(* The walk over the lines is chunked so TLC's workers check in parallel.  *)
(***************************************************************************)
EXTENDS Scenario, Json, IOUtils

VARIABLE l

Trace == ndJsonDeserialize(IOEnv.VERIF_TRACE)
Chunk == 8

TInit == l = 0 /\ st = <<>>
TNext == /\ UNCHANGED st
         /\ \/ l = 0 /\ l' \in {j \in 1..Len(Trace) : j % Chunk = 1}
            \/ l > 0 /\ l % Chunk # 0 /\ l < Len(Trace) /\ l' = l + 1

R == Trace[IF l = 0 THEN 1 ELSE l]
C == R.case
O == R.obs
E == Expected(C)
\* one instance and one scenario: the run is deterministic, the observation must be exactly Expected.
\* several instances or several scenarios: the order in which shots interleave (and the order of the ring
\* within a cycle - the statement only promises proportions) is free; counts over whole cycles are compared.
Single == l > 0 /\ R.inst = 1 /\ Len(C.scens) = 1
Multi  == l > 0 /\ (R.inst > 1 \/ Len(C.scens) > 1)

\* the real provider and gun could be built from the rendered description and the engine run returned nil
Built == l = 0 \/ (O.build_err = "" /\ O.run_err = "")

\* order, multiplicity, variable flow, stop on failure: the target saw exactly these requests in this order
LogOK == Single => LET el == E.log IN
                   /\ Len(O.log) = Len(el)
                   /\ \A j \in 1..Len(el) : j <= Len(O.log) =>
                        /\ O.log[j].req = el[j].req
                        /\ O.log[j].at  = el[j].at
                        \* [rand]: some row of the list; everything else: exactly the value
                        /\ IF el[j].rnd > 0
                           THEN O.log[j].val.t = el[j].val.t /\ O.log[j].val.n \in 0..(el[j].rnd - 1)
                           ELSE O.log[j].val = el[j].val

\* pauses: the request after a step with sleep d arrives no earlier than d ms after that step's request
GapsOK == Single => LET el == E.log IN \A j \in 1..Len(el) : j <= Len(O.log) => O.log[j].since >= el[j].gap

\* one sample per executed step, tag scenario.step, status or failure; nothing after the failed step
SamplesOK == Single => LET es == E.samples IN
                       /\ Len(O.samples) = Len(es)
                       /\ \A j \in 1..Len(es) : j <= Len(O.samples) =>
                            /\ O.samples[j].sc = es[j].sc
                            /\ O.samples[j].step = es[j].step
                            /\ O.samples[j].proto = es[j].proto
                            /\ O.samples[j].err = es[j].err
                            /\ O.samples[j].empty = es[j].err

\* the description as the provider expanded it (what the gun is handed): per scenario the steps in order, each with the
\* pause that follows it, and the scenario's min_waiting_time - exactly Expand(items)
StepsOK == (l > 0 /\ O.build_err = "") =>
    \A j \in 1..Len(C.scens) :
        LET e == Expand(C.scens[j].items)
            mine == {k \in 1..Len(O.steps) : O.steps[k].sc = C.scens[j].name}
        IN /\ Cardinality(mine) = 1
           /\ \A k \in mine : /\ O.steps[k].mwt = C.scens[j].mwt
                               /\ Len(O.steps[k].steps) = Len(e)
                               /\ \A n \in 1..Len(e) : n <= Len(O.steps[k].steps) =>
                                     /\ O.steps[k].steps[n].name = e[n].name
                                     /\ O.steps[k].steps[n].sleep = e[n].sleep

\* a shot takes at least its pauses and at least min_waiting_time (one-sided: nothing is demanded about how much longer).
\* Observed: Release - Acquire of every ammo at the provider (one instance: the shots in order).
ShotSpanOK == (l > 0 /\ R.inst = 1 /\ O.build_err = "" /\ O.run_err = "") =>
    LET ed == E.durs IN
    /\ Len(O.spans) = Len(ed)
    /\ IF Len(C.scens) = 1
       THEN \A n \in 1..Len(ed) : n <= Len(O.spans) => O.spans[n].sc = ed[n].sc /\ O.spans[n].ms >= ed[n].dur
       ELSE \* several scenarios: the order inside a ring cycle is free; every shot of a scenario takes at least what the
            \* shortest shot of that scenario takes in the specification's run
            \A n \in 1..Len(O.spans) : \E m \in 1..Len(ed) : ed[m].sc = O.spans[n].sc /\ O.spans[n].ms >= ed[m].dur

\* ammo ring: in every whole cycle (sum of weights / gcd consecutive ammo) each scenario appears weight / gcd times
RingOK == l > 0 => LET ws == [j \in 1..Len(C.scens) |-> EffW(C.scens[j].weight)]
                       g  == IF Len(ws) = 1 THEN ws[1] ELSE GCDSeq(ws)
                       L  == IF Len(ws) = 1 THEN 1 ELSE TotalW(C) \div g
                   IN /\ Len(O.ring) >= 2 * L
                      /\ \A cyc \in 0..((Len(O.ring) \div L) - 1) : \A j \in 1..Len(C.scens) :
                            Cardinality({p \in 1..L : O.ring[cyc * L + p] = C.scens[j].name})
                              = (IF Len(ws) = 1 THEN 1 ELSE ws[j] \div g)

\* [next] across instances: per source the rows seen are 0..M-1 mod R with the right multiplicities,
\* where M is the number of [next] look-ups the description makes (Expected.handed)
SeenRows(src)  == {j \in 1..Len(O.log) : O.log[j].val.t = SrcTag(src)}
Bags == l > 0 /\ C.fam = "mfail"
NextRowsOK == (Multi /\ ~Bags) => LET eh == E.handed IN \A src \in Sources :
                 /\ Cardinality(SeenRows(src)) = Cardinality({j \in 1..Len(eh) : eh[j].src = src})
                 /\ \A r \in 0..(PathRows(C, src) - 1) :
                      Cardinality({j \in SeenRows(src) : O.log[j].val.n = r})
                        = Cardinality({j \in 1..Len(eh) : eh[j].src = src /\ eh[j].n % PathRows(C, src) = r})
MultiSamplesOK == (Multi /\ ~Bags) => LET e == E IN
                           /\ Len(O.samples) = Len(e.samples)
                           /\ Len(O.log) = Len(e.log)
                           /\ \A j \in 1..Len(O.samples) : O.samples[j].proto = 200 /\ ~O.samples[j].err
                           /\ \A nm \in Names : Cardinality({j \in 1..Len(O.samples) : O.samples[j].step = nm})
                                                = Cardinality({j \in 1..Len(e.samples) : e.samples[j].step = nm})
\* several instances with failures (rows decide which shots fail): the requests the target saw and the samples are, as
\* multisets, those of the specification's run - per row either (a, b) or the failed a alone
LogKey(e) == <<e.req, e.at, e.val>>
SmpKey(x) == <<x.sc, x.step, x.proto, x.err>>
MultiBagsOK == Bags =>
    LET e == E IN
    /\ Len(O.log) = Len(e.log) /\ Len(O.samples) = Len(e.samples)
    /\ \A j \in 1..Len(e.log) : Cardinality({i \in 1..Len(O.log) : LogKey(O.log[i]) = LogKey(e.log[j])})
                                  = Cardinality({i \in 1..Len(e.log) : LogKey(e.log[i]) = LogKey(e.log[j])})
    /\ \A j \in 1..Len(e.samples) : Cardinality({i \in 1..Len(O.samples) : SmpKey(O.samples[i]) = SmpKey(e.samples[j])})
                                      = Cardinality({i \in 1..Len(e.samples) : SmpKey(e.samples[i]) = SmpKey(e.samples[j])})
=============================================================================
