----------------------------- MODULE HttpWireMC -----------------------------
(***************************************************************************)
(* Constants for TLC: design-level walk over the case space (one state per *)
(* case), negative controls, and the alphabets shared with the generator   *)
(* (HttpWireGen) and the trace specification (TraceHttpWire).              *)
(***************************************************************************)
EXTENDS HttpWire, TLC

AllFormats == {"uri", "uripost", "raw", "json"}

\* entry alphabet: X-A is also an option (different value), x-c is the option X-C in another spelling,
\* User-Agent is a name the transport would default, X-B is the entry's alone
EntryQuick == << [n |-> "X-A", v |-> "ea"], [n |-> "x-c", v |-> "ec"], [n |-> "User-Agent", v |-> "ua-entry"] >>
EntryBig   == EntryQuick \o << [n |-> "X-B", v |-> "eb"] >>   \* (not used by the shipped configs: 2x the space)
OptAlpha   == << [n |-> "Host", v |-> "OPTHOST"], [n |-> "X-A", v |-> "oa"], [n |-> "X-C", v |-> "oc"] >>
\* thorough: the option list may repeat a name (both values must be added, in order, where the entry has none)
OptAlphaBig == OptAlpha \o << [n |-> "X-C", v |-> "oc2"] >>

Both     == {TRUE, FALSE}
NoModes  == {}
OnlyOff  == {FALSE}

\* present-but-empty entry values (the second one is a blank), names the option list also defines
EmptyAlpha == << [n |-> "X-A", v |-> ""], [n |-> "X-A", v |-> " "], [n |-> "x-c", v |-> ""] >>

\* multi-entry files: 2-3 entries /e1 /e2 /e3 with header lines written before each of them; the lines of the
\* 2nd and 3rd entry redefine X-A / Host or add x-c (uri/uripost: running state; raw/json: the entry's own)
HL1 == { <<>>, << [n |-> "X-A", v |-> "ea"] >>, << [n |-> "X-A", v |-> "ea"], [n |-> "Host", v |-> "AMMOHOST"] >> }
HL2 == { <<>>, << [n |-> "X-A", v |-> "ea2"] >>, << [n |-> "x-c", v |-> "ec"] >>, << [n |-> "Host", v |-> "AMMOHOST2"] >>,
         << [n |-> "X-A", v |-> "ea2"], [n |-> "Host", v |-> "AMMOHOST2"] >> }
HL3 == { <<>>, << [n |-> "X-A", v |-> "ea3"] >> }
FEntry(hl, u, b) == [hl |-> hl, uri |-> u, body |-> b]
\* (the third list repeats a name: where no header line defines X-C, BOTH option values arrive, in option order)
FileOpts == { <<>>, OptAlpha, OptAlphaBig }
FileBody(f, k) == IF f = "uri" \/ k # 2 THEN "" ELSE "k=v&x=%20 two {\"j\":[1,2]}"
FileCases(fmts, sslModes) ==
    UNION { { [kind |-> "file", fmt |-> f, ssl |-> s, preload |-> p, opts |-> o,
               entries |-> << FEntry(h1, "/e1", FileBody(f, 1)), FEntry(h2, "/e2", FileBody(f, 2)) >> \o rest] :
                 s \in sslModes, p \in BOOLEAN, o \in FileOpts, h1 \in HL1, h2 \in HL2,
                 rest \in {<<>>} \cup { << FEntry(h3, "/e3", FileBody(f, 3)) >> : h3 \in HL3 } }
            : f \in fmts }
\* small files (1-2 entries with distinctive bodies of different length and an own header each) handed out again and
\* again to n instances that acquire first and shoot then; "jsonarray" = an http/json file that is one JSON array
ReuseEntries == << FEntry(<< [n |-> "X-A", v |-> "ea"] >>, "/e1", "alpha-body-0123456789"),
                   FEntry(<< [n |-> "X-A", v |-> "ea2"] >>, "/e2", "b2") >>
ReuseCases(fmts, ns) ==
    { [kind |-> "file", fmt |-> f, ssl |-> FALSE, preload |-> p, opts |-> <<>>, entries |-> SubSeq(ReuseEntries, 1, m),
       n |-> n, rounds |-> 3] : f \in fmts, p \in BOOLEAN, m \in 1..2, n \in ns }
ReuseQuick == ReuseCases({"uripost", "raw", "json", "jsonarray"}, {2, 4})
ReuseBig   == ReuseCases({"uripost", "raw", "json", "jsonarray"}, {2, 3, 4})

FilesQuick == FileCases(AllFormats, OnlyOff)
FilesBig   == FileCases(AllFormats, Both)
NoFiles    == {}

MWNamesAll == {"", "X-Now"}
SideAll    == {"off", "all", "warning", "error"}
SideQuick  == {"all", "error"}

MethodsQuick == {"GET", "POST", "PURGE"}
MethodsBig   == {"GET", "POST", "HEAD", "PURGE"}
URIsQuick    == {"/", "/a/b?x=1&y=%20z"}
URIsBig      == URIsQuick \cup {"/q?u=http://e.test/p?a=b&c=/d/"}
NoURIs       == {}
\* the last one is not an RFC 3986 URI ("|" unescaped): net/http re-encodes its path (known finding)
ExtraBig     == {"/a%2Fb/c;p=1/", "/dbl//slash/../x/./y", "/p|q/r?x=a|b"}
BodiesOne    == {"k=v&x=%20 two {\"j\":[1,2]}"}

\* ---- RFC 3986 request-targets in a spelling of their own (seeded C09-10: the class the URI alphabet lacked) ----
\* piece = [raw (spelling in the ammo), norm (decode + Go's default re-escape; negative control only), class (RFC 3986)]
Pc(raw, norm, class) == [raw |-> raw, norm |-> norm, class |-> class]
Same(raw, class) == Pc(raw, raw, class)
PlainSeg == Same("api", "unreserved")
\* an empty segment; as the FIRST segment the target begins with "//": still origin-form (RFC 7230: absolute-path =
\* 1*( "/" segment )), a path - not a network-path reference naming a host
EmptySeg == Same("", "unreserved")
TargetPieces == {
    Pc("Products(1)", "Products%281%29", "sub-delims"),          \* ( ) - OData keys
    Pc("Items('a')", "Items%28%27a%27%29", "sub-delims"),        \* '
    Pc("a%2Fb", "a/b", "pct-encoded"),                           \* an encoded slash is not a path separator
    Pc("c%3Fd%23e", "c%3Fd%23e", "pct-encoded"),                 \* encoded ? and #
    Pc("%2f%3a%40", "/:@", "pct-encoded"),                       \* lower-case hex
    Pc("x%7Ey%2Dz", "x~y-z", "pct-encoded"),                     \* encoded unreserved characters stay encoded
    Pc("*", "%2A", "sub-delims"),
    Pc("x!y", "x%21y", "sub-delims"),
    Same("100%25", "pct-encoded"),                               \* an encoded percent sign
    Same("a%20b+c", "pct-encoded"),
    Same("k=v;p=1,2", "sub-delims"),                             \* path parameters
    Same("u:p@h$&", "colon-at"),
    Pc("%e4%b8%ad%E6%96%87", "%E4%B8%AD%E6%96%87", "pct-encoded"), \* UTF-8, mixed hex case
    Same("", "unreserved") }                                     \* an empty segment ("//" inside the path)
NoQuery == [raw |-> "", norm |-> "", class |-> "none"]
TargetQueries == {
    [raw |-> "?", norm |-> "", class |-> "none"],                \* a bare "?": the empty query is part of the target
    [raw |-> "?x=1&y=%20z", norm |-> "?x=1&y=%20z", class |-> "pct-encoded"],
    [raw |-> "?q=%26%3D%23%2f&r=(1)'*!", norm |-> "?q=%26%3D%23%2f&r=(1)'*!", class |-> "sub-delims"],
    [raw |-> "?a=/p/q?&b?", norm |-> "?a=/p/q?&b?", class |-> "slash-qmark"] }
Tg(segs, q) == [segs |-> segs, query |-> q]
\* quick: every piece as the last and as an inner segment, every query form after a plain and after an encoded path
TargetsQuick == {Tg(<<PlainSeg, p>>, NoQuery) : p \in TargetPieces}
           \cup {Tg(<<p, PlainSeg>>, q) : p \in TargetPieces, q \in {[raw |-> "?", norm |-> "", class |-> "none"]}}
           \cup {Tg(<<EmptySeg, PlainSeg>>, NoQuery), Tg(<<EmptySeg, EmptySeg, PlainSeg>>, NoQuery),
                 Tg(<<EmptySeg, Pc("a%2Fb", "a/b", "pct-encoded")>>, NoQuery),      \* "//" followed by what could not be a host
                 Tg(<<EmptySeg, Same("host.test:8080", "colon-at"), PlainSeg>>, [raw |-> "?x=1&y=%20z", norm |-> "?x=1&y=%20z", class |-> "pct-encoded"])}
           \cup {Tg(<<PlainSeg>>, q) : q \in TargetQueries}
           \cup {Tg(<<Pc("a%2Fb", "a/b", "pct-encoded"), Same("", "unreserved")>>, q) : q \in TargetQueries}
\* thorough: + pieces x queries, pairs of pieces
TargetsBig == TargetsQuick
           \cup {Tg(<<PlainSeg, p>>, q) : p \in TargetPieces, q \in TargetQueries}
           \cup {Tg(<<p1, p2>>, NoQuery) : p1 \in TargetPieces, p2 \in TargetPieces}
NoTargets == {}
\* negative controls only need a witness: a small slice of the space keeps their JVMs cheap
OneURI == {"/"}
TargetsFew == {Tg(<<PlainSeg, Pc("Products(1)", "Products%281%29", "sub-delims")>>, NoQuery), Tg(<<PlainSeg>>, [raw |-> "?", norm |-> "", class |-> "none"])}

=============================================================================
