----------------------------- MODULE HttpWireMC -----------------------------
(***************************************************************************)
(* Constants for TLC: design-level walk over the case space (one state per *)
(* case), negative controls, and the alphabets shared with the generator   *)
(* (HttpWireGen) and the trace specification (TraceHttpWire).              *)
(***************************************************************************)
EXTENDS HttpWire, TLC

AllFormats == {"uri", "uripost", "raw", "json"}

\* entry alphabet: X-A is also an option (different value), x-c is the option X-C in another spelling,
\* User-Agent is a name the transport would default, X-B is the entry's alone
EntryQuick == << [n |-> "X-A", v |-> "ea"], [n |-> "x-c", v |-> "ec"], [n |-> "User-Agent", v |-> "ua-entry"] >>
EntryBig   == EntryQuick \o << [n |-> "X-B", v |-> "eb"] >>   \* (not used by the shipped configs: 2x the space)
OptAlpha   == << [n |-> "Host", v |-> "OPTHOST"], [n |-> "X-A", v |-> "oa"], [n |-> "X-C", v |-> "oc"] >>
\* thorough: the option list may repeat a name (both values must be added, in order, where the entry has none)
OptAlphaBig == OptAlpha \o << [n |-> "X-C", v |-> "oc2"] >>

Both     == {TRUE, FALSE}
OnlyOff  == {FALSE}

\* present-but-empty entry values (the second one is a blank), names the option list also defines
EmptyAlpha == << [n |-> "X-A", v |-> ""], [n |-> "X-A", v |-> " "], [n |-> "x-c", v |-> ""] >>

\* multi-entry files: 2-3 entries /e1 /e2 /e3 with header lines written before each of them; the lines of the
\* 2nd and 3rd entry redefine X-A / Host or add x-c (uri/uripost: running state; raw/json: the entry's own)
HL1 == { <<>>, << [n |-> "X-A", v |-> "ea"] >>, << [n |-> "X-A", v |-> "ea"], [n |-> "Host", v |-> "AMMOHOST"] >> }
HL2 == { <<>>, << [n |-> "X-A", v |-> "ea2"] >>, << [n |-> "x-c", v |-> "ec"] >>, << [n |-> "Host", v |-> "AMMOHOST2"] >>,
         << [n |-> "X-A", v |-> "ea2"], [n |-> "Host", v |-> "AMMOHOST2"] >> }
HL3 == { <<>>, << [n |-> "X-A", v |-> "ea3"] >> }
FEntry(hl, u, b) == [hl |-> hl, uri |-> u, body |-> b]
FileOpts == { <<>>, OptAlpha }
FileBody(f, k) == IF f = "uri" \/ k # 2 THEN "" ELSE "k=v&x=%20 two {\"j\":[1,2]}"
FileCases(fmts, sslModes) ==
    UNION { { [kind |-> "file", fmt |-> f, ssl |-> s, preload |-> p, opts |-> o,
               entries |-> << FEntry(h1, "/e1", FileBody(f, 1)), FEntry(h2, "/e2", FileBody(f, 2)) >> \o rest] :
                 s \in sslModes, p \in BOOLEAN, o \in FileOpts, h1 \in HL1, h2 \in HL2,
                 rest \in {<<>>} \cup { << FEntry(h3, "/e3", FileBody(f, 3)) >> : h3 \in HL3 } }
            : f \in fmts }
\* small files (1-2 entries with distinctive bodies of different length and an own header each) handed out again and
\* again to n instances that acquire first and shoot then; "jsonarray" = an http/json file that is one JSON array
ReuseEntries == << FEntry(<< [n |-> "X-A", v |-> "ea"] >>, "/e1", "alpha-body-0123456789"),
                   FEntry(<< [n |-> "X-A", v |-> "ea2"] >>, "/e2", "b2") >>
ReuseCases(fmts, ns) ==
    { [kind |-> "file", fmt |-> f, ssl |-> FALSE, preload |-> p, opts |-> <<>>, entries |-> SubSeq(ReuseEntries, 1, m),
       n |-> n, rounds |-> 3] : f \in fmts, p \in BOOLEAN, m \in 1..2, n \in ns }
ReuseQuick == ReuseCases({"uripost", "raw", "json", "jsonarray"}, {2, 4})
ReuseBig   == ReuseCases({"uripost", "raw", "json", "jsonarray"}, {2, 3, 4})

FilesQuick == FileCases(AllFormats, OnlyOff)
FilesBig   == FileCases(AllFormats, Both)
NoFiles    == {}

MWNamesAll == {"", "X-Now"}
SideAll    == {"off", "all", "warning", "error"}
SideQuick  == {"all", "error"}

MethodsQuick == {"GET", "POST", "PURGE"}
MethodsBig   == {"GET", "POST", "HEAD", "PURGE"}
URIsQuick    == {"/", "/a/b?x=1&y=%20z"}
URIsBig      == URIsQuick \cup {"/q?u=http://e.test/p?a=b&c=/d/"}
NoURIs       == {}
\* the last one is not an RFC 3986 URI ("|" unescaped): net/http re-encodes its path (known finding)
ExtraBig     == {"/a%2Fb/c;p=1/", "/dbl//slash/../x/./y", "/p|q/r?x=a|b"}
BodiesOne    == {"k=v&x=%20 two {\"j\":[1,2]}"}


=============================================================================
