----------------------------- MODULE HttpWireMC -----------------------------
(***************************************************************************)
(* Constants for TLC: design-level walk over the case space (one state per *)
(* case), negative controls, and the alphabets shared with the generator   *)
(* (HttpWireGen) and the trace specification (TraceHttpWire).              *)
(***************************************************************************)
EXTENDS HttpWire, TLC

AllFormats == {"uri", "uripost", "raw", "json"}

\* entry alphabet: X-A is also an option (different value), x-c is the option X-C in another spelling,
\* User-Agent is a name the transport would default, X-B is the entry's alone
EntryQuick == << [n |-> "X-A", v |-> "ea"], [n |-> "x-c", v |-> "ec"], [n |-> "User-Agent", v |-> "ua-entry"] >>
EntryBig   == EntryQuick \o << [n |-> "X-B", v |-> "eb"] >>   \* (not used by the shipped configs: 2x the space)
OptAlpha   == << [n |-> "Host", v |-> "OPTHOST"], [n |-> "X-A", v |-> "oa"], [n |-> "X-C", v |-> "oc"] >>
\* thorough: the option list may repeat a name (both values must be added, in order, where the entry has none)
OptAlphaBig == OptAlpha \o << [n |-> "X-C", v |-> "oc2"] >>

MethodsQuick == {"GET", "POST", "PURGE"}
MethodsBig   == {"GET", "POST", "HEAD", "PURGE"}
URIsQuick    == {"/", "/a/b?x=1&y=%20z"}
URIsBig      == URIsQuick \cup {"/q?u=http://e.test/p?a=b&c=/d/"}
NoURIs       == {}
\* the last one is not an RFC 3986 URI ("|" unescaped): net/http re-encodes its path (known finding)
ExtraBig     == {"/a%2Fb/c;p=1/", "/dbl//slash/../x/./y", "/p|q/r?x=a|b"}
BodiesOne    == {"k=v&x=%20 two {\"j\":[1,2]}"}

Both     == {TRUE, FALSE}
OnlyOff  == {FALSE}

=============================================================================
