------------------------------ MODULE CfgSchema ------------------------------
(***************************************************************************)
(* C13, configuration files as TEXT (target "cfg" of Malformed.tla).       *)
(*                                                                         *)
(* (1) TREE cases.  The pool schema the CLI reader decodes into is a tree  *)
(*     of typed nodes (CfgNodes).  A case replaces the value at ONE node   *)
(*     by a value of another SHAPE (a list where a mapping is expected, a  *)
(*     string where a number is expected, null, a negative or absurdly     *)
(*     large number, ...) and serialises the whole configuration in one of *)
(*     three syntaxes.  The verdict is COMPUTED from the kind of the node, *)
(*     its place in the tree and the shape, by the rules of the reader:    *)
(*       - viper reads the file; the root of the document must be a        *)
(*         mapping; outside lists a key whose value is an empty mapping    *)
(*         does not exist for viper (AllSettings keeps leaves only);       *)
(*       - the decoder (mapstructure, WeaklyTypedInput = false,            *)
(*         ErrorUnused = true) is STRICT: a mapping is not a list is not a *)
(*         scalar, a string is not a number is not a bool, an unsigned     *)
(*         field takes no negative number, a struct takes no unknown key;  *)
(*         null means "the key is not set";                                *)
(*       - a plugin is a mapping with a `type` naming a registered plugin; *)
(*         a schedule is a plugin or a LIST of plugins (composite);        *)
(*       - the rps schedule is built by a factory when the pool starts:    *)
(*         what is below it is decoded at stage `run`, everything else at  *)
(*         stage `construct`;                                              *)
(*       - what the rules do not pin (a float where an integer is          *)
(*         expected, a number where a duration is expected, a string of    *)
(*         the right type but the wrong content, an empty list) is `lax`:  *)
(*         rejected or accepted, but never a crash or a hang.              *)
(*                                                                         *)
(* (2) TEXT cases.  Defects of the text itself, per syntax (CfgTextTable): *)
(*     syntax errors are rejected when the file is read (stage `parse`),   *)
(*     legal but unusual constructs (anchors, aliases, merge keys, CRLF)   *)
(*     are delivered, the rest is lax.                                     *)
(*                                                                         *)
(* Stages of target "cfg": parse -> construct -> run.                      *)
(***************************************************************************)
EXTENDS Naturals, Sequences, FiniteSets, TLC

CfgSyntaxes == {"yaml", "json", "toml"}
CfgStages   == <<"parse", "construct", "run">>

-----------------------------------------------------------------------------
(* The schema: node -> [kind, up (parent), req (must be present), lazy (decoded when the pool starts)] *)

CfgN(kind, up, req, lazy) == [kind |-> kind, up |-> up, req |-> req, lazy |-> lazy]

CfgNodes ==
    ( "root"                     :> CfgN("struct",     "-",               TRUE,  FALSE) ) @@
    ( "log"                      :> CfgN("struct",     "root",            FALSE, FALSE) ) @@
    ( "log.level"                :> CfgN("enum",       "log",             FALSE, FALSE) ) @@
    ( "pools"                    :> CfgN("structlist", "root",            TRUE,  FALSE) ) @@
    ( "pools.1"                  :> CfgN("struct",     "pools",           TRUE,  FALSE) ) @@
    ( "pools.1.id"               :> CfgN("str",        "pools.1",         FALSE, FALSE) ) @@
    ( "pools.1.gun"              :> CfgN("plugin",     "pools.1",         TRUE,  FALSE) ) @@
    ( "pools.1.gun.type"         :> CfgN("plugtype",   "pools.1.gun",     TRUE,  FALSE) ) @@
    ( "pools.1.gun.target"       :> CfgN("str",        "pools.1.gun",     TRUE,  FALSE) ) @@
    ( "pools.1.gun.dial"         :> CfgN("struct",     "pools.1.gun",     FALSE, FALSE) ) @@
    ( "pools.1.gun.dial.timeout" :> CfgN("dur",        "pools.1.gun.dial", FALSE, FALSE) ) @@
    ( "pools.1.ammo"             :> CfgN("plugin",     "pools.1",         TRUE,  FALSE) ) @@
    ( "pools.1.ammo.type"        :> CfgN("plugtype",   "pools.1.ammo",    TRUE,  FALSE) ) @@
    ( "pools.1.ammo.file"        :> CfgN("str",        "pools.1.ammo",    TRUE,  FALSE) ) @@
    ( "pools.1.ammo.limit"       :> CfgN("uint",       "pools.1.ammo",    FALSE, FALSE) ) @@
    ( "pools.1.ammo.headers"     :> CfgN("strlist",    "pools.1.ammo",    FALSE, FALSE) ) @@
    ( "pools.1.ammo.headers.0"   :> CfgN("str",        "pools.1.ammo.headers", TRUE, FALSE) ) @@
    ( "pools.1.result"           :> CfgN("plugin",     "pools.1",         TRUE,  FALSE) ) @@
    ( "pools.1.result.type"      :> CfgN("plugtype",   "pools.1.result",  TRUE,  FALSE) ) @@
    ( "pools.1.rps"              :> CfgN("sched",      "pools.1",         TRUE,  TRUE ) ) @@
    ( "pools.1.rps.0"            :> CfgN("sched",      "pools.1.rps",     TRUE,  FALSE) ) @@
    ( "pools.1.rps.0.type"       :> CfgN("plugtype",   "pools.1.rps.0",   TRUE,  FALSE) ) @@
    ( "pools.1.rps.0.times"      :> CfgN("int",        "pools.1.rps.0",   FALSE, FALSE) ) @@
    ( "pools.1.rps.1"            :> CfgN("sched",      "pools.1.rps",     TRUE,  FALSE) ) @@
    ( "pools.1.rps.1.ops"        :> CfgN("float",      "pools.1.rps.1",   FALSE, FALSE) ) @@
    ( "pools.1.rps.1.duration"   :> CfgN("dur",        "pools.1.rps.1",   FALSE, FALSE) ) @@
    ( "pools.1.startup"          :> CfgN("sched",      "pools.1",         TRUE,  FALSE) ) @@
    ( "pools.1.startup.type"     :> CfgN("plugtype",   "pools.1.startup", TRUE,  FALSE) ) @@
    ( "pools.1.startup.times"    :> CfgN("int",        "pools.1.startup", FALSE, FALSE) ) @@
    ( "pools.1.discard_overflow" :> CfgN("bool",       "pools.1",         FALSE, FALSE) )

CfgNodeNames == DOMAIN CfgNodes
CfgKind(n) == CfgNodes[n].kind
CfgUp(n)   == CfgNodes[n].up

ListKinds == {"structlist", "strlist", "sched"}

\* proper ancestors of a node (the tree is 6 deep)
RECURSIVE CfgAnc(_)
CfgAnc(n) == IF CfgUp(n) = "-" THEN {} ELSE {CfgUp(n)} \cup CfgAnc(CfgUp(n))

CfgInPool(n)    == n = "pools.1" \/ "pools.1" \in CfgAnc(n)
\* some proper ancestor holds its children in a list (viper does not look inside lists)
CfgUnderList(n) == \E a \in CfgAnc(n) : CfgKind(a) \in ListKinds
\* decoded when the pool starts: strictly below a lazy node
CfgBelowLazy(n) == \E a \in CfgAnc(n) : CfgNodes[a].lazy
CfgHasReqChild(n) == \E m \in CfgNodeNames : CfgUp(m) = n /\ CfgNodes[m].req

-----------------------------------------------------------------------------
(* Shapes *)

CfgShapes == {"map", "emptymap", "list", "emptylist", "listofmap", "listoflist",
              "str", "emptystr", "numstr", "negdur", "hugedur",
              "int", "negint", "hugeint", "float", "inf", "nan", "bool", "null"}

ShapeClass(sh) ==
    CASE sh \in {"map", "emptymap"}                              -> "map"
      [] sh \in {"list", "emptylist", "listofmap", "listoflist"} -> "list"
      [] sh \in {"str", "emptystr", "numstr", "negdur", "hugedur"} -> "string"
      [] sh \in {"int", "negint", "hugeint", "float", "inf", "nan"} -> "number"
      [] sh = "bool" -> "bool"
      [] OTHER       -> "null"

\* what a syntax can write down
CfgExpressible(syn, n, sh) ==
    /\ (syn = "json" => sh \notin {"inf", "nan"})
    /\ (syn = "toml" => sh # "null")
    /\ (syn = "toml" /\ n = "root" => ShapeClass(sh) = "map")      \* a TOML document is a table

\* the shape IS a value of the node's kind: nothing malformed about it, not a case
SameKind(k, sh) ==
    CASE k = "str"  -> sh = "str"
      [] k = "uint" -> sh = "int"
      [] k = "int"  -> sh = "int"
      [] k = "float" -> sh \in {"int", "float"}
      [] k = "bool" -> sh = "bool"
      [] OTHER      -> FALSE

\* "the key is not set"
\* (an element of a schedule list is itself a schedule: a plugin or, again, a list)
NullFits(n) == IF CfgNodes[n].req \/ (CfgKind(n) = "struct" /\ CfgHasReqChild(n)) THEN "no" ELSE "lax"

\* does a value of shape sh fit a node of kind k?  "no": the strict decoder must reject it;
\* "lax": the rules do not say
CfgFits(n, sh) ==
    LET k  == CfgKind(n)
        sc == ShapeClass(sh) IN
    IF sc = "null" THEN NullFits(n)
    ELSE IF sh = "emptymap" /\ ~CfgUnderList(n) /\ k # "structlist" THEN NullFits(n)   \* viper: no leaf below it, so no key
    ELSE CASE k = "struct"     -> IF sh = "emptymap" THEN (IF CfgHasReqChild(n) THEN "no" ELSE "lax") ELSE "no"
           [] k = "plugin"     -> "no"           \* every shape here lacks a `type` naming a plugin
           [] k = "plugtype"   -> "no"           \* none of the strings is a registered name
           [] k = "sched"      -> IF sh = "emptylist" THEN "lax" ELSE "no"
           [] k = "structlist" -> IF sh = "emptylist" THEN "lax" ELSE "no"
           [] k = "strlist"    -> IF sh = "emptylist" THEN "lax" ELSE "no"
           [] k = "str"        -> IF sc = "string" THEN "lax" ELSE "no"       \* right type, content not pinned here
           [] k = "enum"       -> IF sc \in {"string", "number"} THEN "lax" ELSE "no"
           [] k = "uint"       -> IF sh = "negint" THEN "no" ELSE IF sc = "number" THEN "lax" ELSE "no"
           [] k = "int"        -> IF sc = "number" THEN "lax" ELSE "no"
           [] k = "float"      -> IF sc = "number" THEN "lax" ELSE "no"
           [] k = "dur"        -> IF sh = "negdur" \/ sc = "number" THEN "lax" ELSE "no"
           [] k = "bool"       -> "no"
           [] OTHER            -> "lax"

\* the stage at which the defect of a tree case is met
CfgTreeAt(syn, n, sh) ==
    IF syn = "toml" /\ sh = "hugeint" THEN 1                        \* TOML integers are 64 bit: a syntax error
    ELSE IF n = "root" /\ ShapeClass(sh) \notin {"map", "null"} THEN 1   \* the document is not a mapping
    ELSE IF CfgBelowLazy(n) \/ (CfgNodes[n].lazy /\ ShapeClass(sh) = "list") THEN 3
    ELSE 2

CfgTreeV(syn, n, sh) ==
    IF sh = "same" THEN "deliver"
    ELSE IF CfgTreeAt(syn, n, sh) = 1 THEN "reject"
    ELSE IF CfgFits(n, sh) = "no" THEN "reject" ELSE "lax"

CfgTreeArgs ==
    { <<syn, "root", "same">> : syn \in CfgSyntaxes }
    \cup
    { <<syn, n, sh>> \in CfgSyntaxes \X CfgNodeNames \X CfgShapes :
        CfgExpressible(syn, n, sh) /\ ~SameKind(CfgKind(n), sh) }

\* how a rejection at a stage names the pool ("-": there is no pool to name)
CfgNameAt(n, stage) == IF ~CfgInPool(n) THEN "-" ELSE IF stage = 2 THEN "pools[1]" ELSE IF stage = 3 THEN "pool-1" ELSE "-"
\* `pools` replaced by a list of things that are not pools: the second element is one of the culprits, it may be named
CfgMayName(n, sh) == n = "pools" /\ ShapeClass(sh) = "list"

-----------------------------------------------------------------------------
(* Text classes: class -> [syn, at, v, in (defect inside the second pool: a decode-time rejection names it)] *)

CfgT(syn, at, v, inpool) == [syn |-> syn, at |-> at, v |-> v, in |-> inpool]
All3 == CfgSyntaxes

CfgTextTable ==
    ( "t_none"             :> CfgT(All3, 0, "deliver", FALSE) ) @@
    \* nothing in the file / no pools in it: YAML and TOML read an empty document, JSON does not
    ( "t_empty"            :> CfgT({"yaml", "toml"}, 2, "reject", FALSE) ) @@
    ( "t_space"            :> CfgT({"yaml", "toml"}, 2, "reject", FALSE) ) @@
    ( "t_comment_only"     :> CfgT({"yaml", "toml"}, 2, "reject", FALSE) ) @@
    ( "j_empty"            :> CfgT({"json"}, 1, "reject", FALSE) ) @@
    ( "j_space"            :> CfgT({"json"}, 1, "reject", FALSE) ) @@
    ( "j_comment_only"     :> CfgT({"json"}, 1, "reject", FALSE) ) @@
    \* bytes no configuration text contains
    ( "t_nul_mid"          :> CfgT(All3, 1, "reject", FALSE) ) @@
    ( "t_nul_end"          :> CfgT(All3, 1, "reject", FALSE) ) @@
    ( "t_nul_start"        :> CfgT(All3, 1, "reject", FALSE) ) @@
    ( "t_ctrl"             :> CfgT(All3, 1, "reject", FALSE) ) @@
    ( "t_binary"           :> CfgT(All3, 1, "reject", FALSE) ) @@
    ( "t_truncated"        :> CfgT(All3, 1, "reject", FALSE) ) @@
    ( "t_trunc_midtoken"   :> CfgT(All3, 1, "reject", FALSE) ) @@
    \* encodings: the statement does not say which a reader must understand
    ( "t_bom"              :> CfgT(All3, 1, "lax", FALSE) ) @@
    ( "t_bom_mid"          :> CfgT(All3, 1, "lax", FALSE) ) @@
    ( "t_utf16"            :> CfgT(All3, 1, "lax", FALSE) ) @@
    ( "t_badutf8"          :> CfgT(All3, 1, "lax", FALSE) ) @@
    ( "t_cr_only"          :> CfgT(All3, 1, "lax", FALSE) ) @@
    ( "t_crlf"             :> CfgT(All3, 0, "deliver", FALSE) ) @@
    \* size and depth: never a crash, never a hang
    ( "t_long_scalar"      :> CfgT(All3, 1, "lax", FALSE) ) @@
    ( "t_long_key"         :> CfgT(All3, 1, "lax", FALSE) ) @@
    ( "t_many_keys"        :> CfgT(All3, 1, "lax", FALSE) ) @@
    ( "t_deep_list"        :> CfgT(All3, 1, "lax", FALSE) ) @@
    ( "t_deep_map"         :> CfgT(All3, 1, "lax", FALSE) ) @@
    ( "t_deep_unclosed"    :> CfgT(All3, 1, "reject", FALSE) ) @@
    \* keys
    ( "t_dup_key"          :> CfgT(All3, 1, "lax", TRUE) ) @@
    ( "t_dup_key_conflict" :> CfgT(All3, 1, "lax", TRUE) ) @@
    ( "t_dup_root"         :> CfgT(All3, 1, "lax", FALSE) ) @@
    ( "t_case_dup_root"    :> CfgT(All3, 1, "lax", FALSE) ) @@
    ( "t_upper_keys"       :> CfgT(All3, 1, "lax", TRUE) ) @@
    ( "t_dotted_key"       :> CfgT(All3, 1, "lax", FALSE) ) @@
    ( "t_dotted_key_in_pool" :> CfgT(All3, 2, "reject", TRUE) ) @@
    ( "t_empty_key"        :> CfgT(All3, 2, "reject", TRUE) ) @@
    \* syntax errors
    ( "t_trailing_garbage" :> CfgT(All3, 1, "reject", FALSE) ) @@
    ( "t_unclosed_string"  :> CfgT(All3, 1, "reject", FALSE) ) @@
    ( "t_unclosed_list"    :> CfgT(All3, 1, "reject", FALSE) ) @@
    ( "t_unclosed_map"     :> CfgT(All3, 1, "reject", FALSE) ) @@
    ( "t_missing_sep"      :> CfgT(All3, 1, "reject", FALSE) ) @@
    ( "t_missing_comma"    :> CfgT(All3, 1, "reject", FALSE) ) @@
    ( "t_trailing_comma"   :> CfgT(All3, 1, "reject", FALSE) ) @@
    ( "t_bare_word"        :> CfgT(All3, 1, "reject", FALSE) ) @@
    ( "t_single_quotes"    :> CfgT({"json"}, 1, "reject", FALSE) ) @@
    ( "t_unquoted_key"     :> CfgT({"json"}, 1, "reject", FALSE) ) @@
    ( "t_second_doc"       :> CfgT({"yaml", "json"}, 1, "lax", FALSE) ) @@
    \* numbers
    ( "t_huge_exp"         :> CfgT(All3, 1, "lax", TRUE) ) @@
    ( "t_leading_zero"     :> CfgT(All3, 1, "lax", TRUE) ) @@
    ( "t_hex_number"       :> CfgT(All3, 1, "lax", TRUE) ) @@
    \* YAML: indentation
    ( "y_tab_indent"       :> CfgT({"yaml"}, 1, "reject", FALSE) ) @@
    ( "y_bad_indent"       :> CfgT({"yaml"}, 1, "reject", FALSE) ) @@
    ( "y_over_indent"      :> CfgT({"yaml"}, 1, "reject", FALSE) ) @@
    \* YAML: anchors, aliases, merge keys - legal uses are delivered, dangling / cyclic ones rejected, and an
    \* expansion bomb must neither hang nor exhaust the memory
    ( "y_alias_pool"       :> CfgT({"yaml"}, 0, "deliver", FALSE) ) @@
    ( "y_merge_key"        :> CfgT({"yaml"}, 0, "deliver", FALSE) ) @@
    ( "y_alias_scalar"     :> CfgT({"yaml"}, 0, "deliver", FALSE) ) @@
    ( "y_undefined_alias"  :> CfgT({"yaml"}, 1, "reject", FALSE) ) @@
    ( "y_alias_before_anchor" :> CfgT({"yaml"}, 1, "reject", FALSE) ) @@
    ( "y_recursive_anchor" :> CfgT({"yaml"}, 1, "reject", FALSE) ) @@
    ( "y_dup_anchor"       :> CfgT({"yaml"}, 1, "lax", TRUE) ) @@
    ( "y_laughs_unused"    :> CfgT({"yaml"}, 1, "lax", FALSE) ) @@
    ( "y_laughs_headers"   :> CfgT({"yaml"}, 1, "lax", TRUE) ) @@
    ( "y_laughs_small"     :> CfgT({"yaml"}, 1, "lax", TRUE) ) @@
    \* YAML: tags, keys that are not strings, directives
    ( "y_tag_str"          :> CfgT({"yaml"}, 2, "reject", TRUE) ) @@
    ( "y_tag_int_bad"      :> CfgT({"yaml"}, 1, "reject", FALSE) ) @@
    ( "y_tag_unknown"      :> CfgT({"yaml"}, 1, "lax", TRUE) ) @@
    ( "y_tag_binary_bad"   :> CfgT({"yaml"}, 1, "reject", FALSE) ) @@
    ( "y_tag_map_on_scalar" :> CfgT({"yaml"}, 1, "lax", TRUE) ) @@
    ( "y_complex_key"      :> CfgT({"yaml"}, 1, "lax", TRUE) ) @@
    ( "y_flow_in_block_key" :> CfgT({"yaml"}, 1, "lax", TRUE) ) @@
    ( "y_int_key"          :> CfgT({"yaml"}, 1, "lax", TRUE) ) @@
    ( "y_bool_key"         :> CfgT({"yaml"}, 1, "lax", TRUE) ) @@
    ( "y_null_key"         :> CfgT({"yaml"}, 1, "lax", TRUE) ) @@
    ( "y_directive_bad"    :> CfgT({"yaml"}, 1, "reject", FALSE) ) @@
    ( "y_directive_unknown" :> CfgT({"yaml"}, 1, "reject", FALSE) ) @@
    ( "y_percent_line"     :> CfgT({"yaml"}, 1, "reject", FALSE) ) @@
    ( "y_block_scalar_bad" :> CfgT({"yaml"}, 1, "reject", FALSE) ) @@
    ( "y_doc_end_garbage"  :> CfgT({"yaml"}, 1, "lax", FALSE) ) @@
    ( "y_octal_like"       :> CfgT({"yaml"}, 1, "lax", TRUE) ) @@
    ( "y_sexagesimal"      :> CfgT({"yaml"}, 1, "lax", TRUE) ) @@
    ( "y_norway"           :> CfgT({"yaml"}, 1, "lax", TRUE) ) @@
    ( "y_timestamp"        :> CfgT({"yaml"}, 1, "lax", TRUE) ) @@
    \* TOML: tables
    ( "o_dup_table"        :> CfgT({"toml"}, 1, "reject", FALSE) ) @@
    ( "o_table_vs_key"     :> CfgT({"toml"}, 1, "reject", FALSE) ) @@
    ( "o_bad_table_header" :> CfgT({"toml"}, 1, "reject", FALSE) ) @@
    ( "o_empty_table_name" :> CfgT({"toml"}, 1, "reject", FALSE) ) @@
    ( "o_multiline_inline" :> CfgT({"toml"}, 1, "lax", FALSE) ) @@
    ( "o_date_value"       :> CfgT({"toml"}, 2, "reject", TRUE) ) @@
    ( "o_datetime_value"   :> CfgT({"toml"}, 2, "reject", TRUE) ) @@
    ( "o_literal_multiline_unclosed" :> CfgT({"toml"}, 1, "reject", FALSE) ) @@
    ( "o_bad_escape"       :> CfgT({"toml"}, 1, "reject", FALSE) ) @@
    ( "o_array_of_tables"  :> CfgT({"toml"}, 0, "deliver", FALSE) ) @@
    ( "o_array_of_tables_mixed" :> CfgT({"toml"}, 1, "reject", FALSE) )

CfgTextClasses == DOMAIN CfgTextTable
CfgTextArgs == { <<syn, cl>> \in CfgSyntaxes \X CfgTextClasses : syn \in CfgTextTable[cl].syn }

-----------------------------------------------------------------------------
(* Verdict record of a case of target "cfg": [v, at, nm(stage), opt] *)

CfgInfo(cls, arg) ==
    IF cls = "tree"
    THEN [v |-> CfgTreeV(arg[1], arg[2], arg[3]), at |-> IF arg[3] = "same" THEN 0 ELSE CfgTreeAt(arg[1], arg[2], arg[3]),
          inpool |-> arg[3] # "same" /\ CfgInPool(arg[2]), opt |-> arg[3] # "same" /\ CfgMayName(arg[2], arg[3])]
    ELSE [v |-> CfgTextTable[arg[2]].v, at |-> CfgTextTable[arg[2]].at, inpool |-> CfgTextTable[arg[2]].in, opt |-> FALSE]

CfgNameOf(info, stage) == IF ~info.inpool THEN "-" ELSE IF stage = 2 THEN "pools[1]" ELSE IF stage = 3 THEN "pool-1" ELSE "-"

IsCfgCase(cls, arg) ==
    \/ cls = "tree" /\ Len(arg) = 3 /\ arg \in CfgTreeArgs
    \/ cls = "text" /\ Len(arg) = 2 /\ arg \in CfgTextArgs

=============================================================================
