--------------------------- MODULE ScenarioConfig ---------------------------
(***************************************************************************)
(* C16 -- a scenario means the same whether written in HCL or in YAML.     *)
(*                                                                         *)
(* This module is the declarative meaning of a scenario description, as    *)
(* documented in docs/eng/scenario-http-generator.md,                      *)
(* scenario-grpc-generator.md and scenario/variable_source.md:             *)
(*                                                                         *)
(*   desc             an abstract description: variable sources, requests  *)
(*                    (HTTP) or calls (gRPC), scenarios.  An optional      *)
(*                    field is a sequence of length 0 (left out) or 1.     *)
(*                    A map is a sequence of <<key, value>> pairs.         *)
(*   Decoded(desc)    what the provider's configuration (AmmoConfig) must  *)
(*                    contain for it: every field, defaults applied.       *)
(*   Ammo(desc)       the ammo list the provider hands out: scenarios      *)
(*                    repeated by weight / gcd, steps expanded from the    *)
(*                    name(n, sleep) / sleep(ms) forms, default templater. *)
(*                                                                         *)
(* There is ONE expected value per description.  The harness renders the   *)
(* description in both syntaxes (two renderings each), runs the real       *)
(* decoders, and TraceScenarioConfig.tla demands that every rendering      *)
(* yields exactly Decoded(desc) and Ammo(desc).                            *)
(*                                                                         *)
(* Strings are opaque: structural strings (names, plugin types) are plain, *)
(* value strings are tokens "T_..." that the harness maps to nasty         *)
(* literals (quotes, templates, yes/123/1e3/null, multi-line, unicode,     *)
(* ${..}, #, ": ", leading/trailing blanks ...).                           *)
(*                                                                         *)
(* The case space is generated from a key = [k, f, s, n]: kind, presence   *)
(* flags, string slots, number slots (Build).  Cases: every flag group     *)
(* fully, every PAIR of flags fully on the richest and on the poorest      *)
(* description, every single string substitution, every single number      *)
(* substitution.                                                           *)
(***************************************************************************)
EXTENDS Integers, Sequences, FiniteSets, TLC

CONSTANTS
  Tokens,         \* nasty value tokens ("T_...")
  CoreTokens,     \* the subset used on every slot in the quick tier (all Tokens go to one slot per syntactic position)
  DelimTokens,    \* tokens admissible as csv delimiter (one valid rune first)
  OpTokens,       \* documented comparison operators of assert/response size
  DropField,      \* negative control: a field the oracle forgets ("" = none)
  WeightDefault,  \* documented default weight (1); negative control: 0
  Tier            \* "quick" | "thorough": how many pair cases

\* ---------------------------------------------------------------- helpers
Opt(b, v)  == IF b THEN <<v>> ELSE <<>>
Range(s)   == {s[i] : i \in DOMAIN s}
MapOf(ps)  == [k \in {ps[i][1] : i \in DOMAIN ps} |-> ps[CHOOSE i \in DOMAIN ps : ps[i][1] = k][2]]
OptMap(o)  == IF o = <<>> THEN <<>> ELSE MapOf(o[1])      \* left out = empty map
OptSeq(o)  == IF o = <<>> THEN <<>> ELSE o[1]             \* left out = empty list
Empty      == "T_empty"                                    \* the abstract name of the empty string
OptStr(o)  == IF o = <<>> THEN Empty ELSE o[1]
OptNum(o)  == IF o = <<>> THEN 0 ELSE o[1]
Take(ps, n) == SubSeq(ps, 1, n)
Rev(s)     == [i \in DOMAIN s |-> s[Len(s) + 1 - i]]
RECURSIVE Flat(_)
Flat(ss)   == IF ss = <<>> THEN <<>> ELSE Head(ss) \o Flat(Tail(ss))
RECURSIVE SumSeq(_)
SumSeq(s)  == IF s = <<>> THEN 0 ELSE Head(s) + SumSeq(Tail(s))
RECURSIVE Gcd(_, _)
Gcd(a, b)  == IF b = 0 THEN a ELSE Gcd(b, a % b)
RECURSIVE GcdSeq(_)
GcdSeq(s)  == IF s = <<>> THEN 0 ELSE Gcd(Head(s), GcdSeq(Tail(s)))
Rep(x, n)  == [i \in 1..n |-> x]

\* ---------------------------------------------------------------- flags
\* value 0 = left out everywhere; MaxVal = the richest form
MaxVal == [
  src_csv |-> 1, csv_fields |-> 1, csv_ifl |-> 2, csv_delim |-> 1, src_json |-> 1, src_vars |-> 1,
  var_num |-> 1,    \* a `variables` entry written as a bare number (documented example: port = 8090)
  hdr |-> 3,        \* headers / metadata: 0 left out, 1 empty map, 2 one entry, 3 two entries
  tag |-> 1,
  body |-> 1,       \* http only
  pre |-> 2,        \* http: 0/1 preprocessor block; grpc: 0..2 "prepare" blocks
  templ |-> 2,      \* http: 0 none, 1 text, 2 html
  p_hdr |-> 1, p_json |-> 1, p_xpath |-> 1, p_assert |-> 2,  \* grpc: number of assert/response blocks (2nd one is bare)
  p_rev |-> 1,      \* http: postprocessors in reverse order
  a_hdr |-> 1, a_body |-> 2, a_status |-> 1, a_size |-> 1,
  sc2 |-> 1, w1 |-> 1, w2 |-> 1, mwt1 |-> 1, mwt2 |-> 1,
  form |-> 3 ]      \* shape of scenario 1's request list

AllFlags   == DOMAIN MaxVal
SrcFlags   == {"src_csv", "csv_fields", "csv_ifl", "csv_delim", "src_json", "src_vars", "var_num"}
ScFlags    == {"sc2", "w1", "w2", "mwt1", "mwt2", "form"}
HttpOnly   == {"body", "templ", "p_hdr", "p_json", "p_xpath", "p_rev", "a_hdr", "a_size"}
Flags(k)   == IF k = "http" THEN AllFlags ELSE AllFlags \ HttpOnly
FMax(k, x) == IF x \notin Flags(k) THEN 0
              ELSE IF k = "http" /\ x = "pre" THEN 1
              ELSE IF k = "http" /\ x = "p_assert" THEN 1
              ELSE MaxVal[x]

\* dependent flags mean nothing when their parent is off: normalise so that equal descriptions have equal keys
NormF(k, f) == [x \in AllFlags |->
   IF x \notin Flags(k) THEN 0
   ELSE IF x \in {"csv_fields", "csv_ifl", "csv_delim"} /\ f["src_csv"] = 0 THEN 0
   ELSE IF x = "var_num" /\ f["src_vars"] = 0 THEN 0
   ELSE IF x \in {"a_hdr", "a_body", "a_status", "a_size"} /\ f["p_assert"] = 0 THEN 0
   ELSE IF x \in {"w2", "mwt2"} /\ f["sc2"] = 0 THEN 0
   ELSE IF x = "p_rev" /\ f["p_hdr"] + f["p_json"] + f["p_xpath"] + f["p_assert"] < 2 THEN 0
   ELSE f[x]]

Groups(k) == IF k = "http"
  THEN { SrcFlags, ScFlags, {"hdr", "tag", "body", "pre", "templ"},
         {"p_hdr", "p_json", "p_xpath", "p_assert", "p_rev"},
         {"p_assert", "a_hdr", "a_body", "a_status", "a_size"} }
  ELSE { SrcFlags, ScFlags, {"hdr", "tag", "pre", "p_assert"}, {"p_assert", "a_body", "a_status"} }

\* ---------------------------------------------------------------- slots
BaseS == [
  csv_file |-> "users.csv", csv_f1 |-> "user_id", csv_f2 |-> "pass", csv_delim |-> "T_semi",
  json_file |-> "filter.json", var_k1 |-> "host", var_v1 |-> "localhost", var_k2 |-> "port", var_v2 |-> "8090",
  method |-> "POST", uri |-> "/auth", call |-> "target.TargetService.Auth", payload |-> "T_json",
  h_k1 |-> "Content-Type", h_v1 |-> "application/json", h_k2 |-> "Useragent", h_v2 |-> "Yandex",
  tag |-> "auth", body |-> "T_tmplbody",
  pre_k |-> "user", pre_v |-> "source.users[next]", pre2_k |-> "flt", pre2_v |-> "source.filter_src.list[rand]",
  ph_k |-> "traceID", ph_v |-> "T_hdrmod", pj_k |-> "token", pj_v |-> "$.auth_key",
  px_k |-> "data", px_v |-> "T_xpath", ah_k |-> "Content-Encoding", ah_v |-> "gzip",
  ab_1 |-> "needle", ab_2 |-> "T_dq", op |-> "T_gt" ]

AllSlots  == DOMAIN BaseS
HttpSlots == AllSlots \ {"call", "payload", "pre2_k", "pre2_v"}
GrpcSlots == AllSlots \ {"method", "uri", "body", "ph_k", "ph_v", "pj_k", "pj_v", "px_k", "px_v", "ah_k", "ah_v", "op"}
Slots(k)  == IF k = "http" THEN HttpSlots ELSE GrpcSlots
\* a file name cannot be empty (the provider opens the file); delimiter and operator have documented alphabets
SlotAlphabet(x) == IF x = "csv_delim" THEN DelimTokens ELSE IF x = "op" THEN OpTokens
                   ELSE IF x \in {"csv_file", "json_file"} THEN Tokens \ {Empty} ELSE Tokens
\* one slot per syntactic position gets the whole alphabet in the quick tier: attribute string, map key, map value,
\* list element, body / payload text, variables key and value; the thorough tier substitutes everything everywhere
FullSlots(k) == IF k = "http" THEN {"uri", "h_k1", "h_v2", "ab_2", "body", "var_v2", "csv_delim", "op"}
                ELSE {"h_k2", "ab_1", "payload", "csv_delim"}
SlotTokens(k, x) == IF Tier = "thorough" \/ x \in FullSlots(k) THEN SlotAlphabet(x) ELSE SlotAlphabet(x) \cap CoreTokens

BaseN == [w1 |-> 4, w2 |-> 6, mwt1 |-> 1000, mwt2 |-> 10, cnt |-> 2, sl1 |-> 30, sl2 |-> 50, status |-> 200, size |-> 10000, vnum |-> 8090]
NumAlts == [w1 |-> {1, 3, 12, 50}, w2 |-> {1, 4, 9}, mwt1 |-> {0, 1, 3600000}, mwt2 |-> {1000},
            cnt |-> {1, 3}, sl1 |-> {0, 100}, sl2 |-> {1, 60000}, status |-> {0, 404}, size |-> {0, 1}, vnum |-> {}]

\* ---------------------------------------------------------------- key -> description
Pairs1(s) == << <<s.h_k1, s.h_v1>> >>
Pairs2(s) == << <<s.h_k1, s.h_v1>>, <<s.h_k2, s.h_v2>> >>
MapFlag(v, s) == IF v = 0 THEN <<>> ELSE IF v = 1 THEN << <<>> >> ELSE IF v = 2 THEN <<Pairs1(s)>> ELSE <<Pairs2(s)>>

Sources(f, s, n) ==
  (IF f.src_csv = 1 THEN << [type |-> "file/csv", name |-> "users", file |-> <<s.csv_file>>,
                             fields |-> Opt(f.csv_fields = 1, <<s.csv_f1, s.csv_f2>>),
                             ifl |-> IF f.csv_ifl = 0 THEN <<>> ELSE <<f.csv_ifl = 1>>,
                             delim |-> Opt(f.csv_delim = 1, s.csv_delim), variables |-> <<>>, numvars |-> <<>>] >> ELSE <<>>)
  \o (IF f.src_json = 1 THEN << [type |-> "file/json", name |-> "filter_src", file |-> <<s.json_file>>,
                                 fields |-> <<>>, ifl |-> <<>>, delim |-> <<>>, variables |-> <<>>, numvars |-> <<>>] >> ELSE <<>>)
  \o (IF f.src_vars = 1 THEN << [type |-> "variables", name |-> "global", file |-> <<>>, fields |-> <<>>, ifl |-> <<>>,
                                 delim |-> <<>>, variables |-> << << <<s.var_k1, s.var_v1>>, <<s.var_k2, s.var_v2>> >> >>,
                                 numvars |-> IF f.var_num = 1 THEN << [key |-> "rate", val |-> n.vnum] >> ELSE <<>>] >> ELSE <<>>)

NoPost == [type |-> "", mapping |-> <<>>, headers |-> <<>>, body |-> <<>>, status |-> <<>>, size |-> <<>>]
HttpPosts(f, s, n) ==
  LET ps == (IF f.p_hdr = 1 THEN << [NoPost EXCEPT !.type = "var/header", !.mapping = << << <<s.ph_k, s.ph_v>> >> >>] >> ELSE <<>>)
         \o (IF f.p_json = 1 THEN << [NoPost EXCEPT !.type = "var/jsonpath", !.mapping = << << <<s.pj_k, s.pj_v>>, <<s.pre_k, s.pj_v>> >> >>] >> ELSE <<>>)
         \o (IF f.p_xpath = 1 THEN << [NoPost EXCEPT !.type = "var/xpath", !.mapping = << << <<s.px_k, s.px_v>> >> >>] >> ELSE <<>>)
         \o (IF f.p_assert = 1 THEN << [NoPost EXCEPT !.type = "assert/response",
                                          !.headers = Opt(f.a_hdr = 1, << <<s.ah_k, s.ah_v>> >>),
                                          !.body = IF f.a_body = 0 THEN <<>> ELSE IF f.a_body = 1 THEN << <<s.ab_1>> >> ELSE << <<s.ab_1, s.ab_2>> >>,
                                          !.status = Opt(f.a_status = 1, n.status),
                                          !.size = Opt(f.a_size = 1, [val |-> n.size, op |-> s.op])] >> ELSE <<>>)
  IN IF f.p_rev = 1 THEN Rev(ps) ELSE ps

Requests(f, s, n) == <<
  [name |-> "r1", method |-> s.method, uri |-> s.uri, headers |-> MapFlag(f.hdr, s), tag |-> Opt(f.tag = 1, s.tag),
   body |-> Opt(f.body = 1, s.body), pre |-> Opt(f.pre = 1, << <<s.pre_k, s.pre_v>> >>),
   templater |-> IF f.templ = 0 THEN <<>> ELSE IF f.templ = 1 THEN <<"text">> ELSE <<"html">>,
   posts |-> HttpPosts(f, s, n)],
  \* the poorest request the documentation allows: method and uri only
  [name |-> "r2", method |-> "GET", uri |-> "/list", headers |-> <<>>, tag |-> <<>>, body |-> <<>>, pre |-> <<>>,
   templater |-> <<>>, posts |-> <<>>] >>

Calls(f, s, n) == <<
  [name |-> "r1", call |-> s.call, payload |-> s.payload, metadata |-> MapFlag(f.hdr, s), tag |-> Opt(f.tag = 1, s.tag),
   pres |-> Take(<< [type |-> "prepare", mapping |-> << <<s.pre_k, s.pre_v>> >>],
                    [type |-> "prepare", mapping |-> << <<s.pre2_k, s.pre2_v>>, <<s.pre_k, s.pre2_v>> >>] >>, f.pre),
   posts |-> Take(<< [type |-> "assert/response",
                      payload |-> IF f.a_body = 0 THEN <<>> ELSE IF f.a_body = 1 THEN << <<s.ab_1>> >> ELSE << <<s.ab_1, s.ab_2>> >>,
                      status |-> Opt(f.a_status = 1, n.status)],
                     [type |-> "assert/response", payload |-> <<>>, status |-> <<>>] >>, f.p_assert)],
  [name |-> "r2", call |-> "target.TargetService.List", payload |-> "{}", metadata |-> <<>>, tag |-> <<>>,
   pres |-> <<>>, posts |-> <<>>] >>

St(name, args) == [name |-> name, args |-> args]
Steps1(f, n) == CASE f.form = 0 -> << St("r1", <<>>) >>
                  [] f.form = 1 -> << St("r1", <<n.cnt>>) >>
                  [] f.form = 2 -> << St("r1", <<n.cnt, n.sl1>>), St("r2", <<>>) >>
                  [] OTHER      -> << St("r1", <<>>), St("sleep", <<n.sl2>>), St("r2", <<n.cnt, n.sl1>>), St("sleep", <<n.sl2>>), St("sleep", <<n.sl1>>) >>
Scenarios(f, n) ==
  << [name |-> "scenario_first", weight |-> Opt(f.w1 = 1, n.w1), mwt |-> Opt(f.mwt1 = 1, n.mwt1), steps |-> Steps1(f, n)] >>
  \o (IF f.sc2 = 1 THEN << [name |-> "scenario_second", weight |-> Opt(f.w2 = 1, n.w2), mwt |-> Opt(f.mwt2 = 1, n.mwt2),
                            steps |-> << St("r2", <<>>), St("r1", <<1>>) >>] >> ELSE <<>>)

Build(c) == [kind |-> c.k,
             sources |-> Sources(c.f, c.s, c.n),
             requests |-> IF c.k = "http" THEN Requests(c.f, c.s, c.n) ELSE <<>>,
             calls |-> IF c.k = "grpc" THEN Calls(c.f, c.s, c.n) ELSE <<>>,
             scenarios |-> Scenarios(c.f, c.n)]

\* ---------------------------------------------------------------- the meaning: configuration level
Drop(fld, v, dflt) == IF DropField = fld THEN dflt ELSE v

DSource(x) == [type |-> x.type, name |-> x.name, file |-> OptStr(x.file), fields |-> OptSeq(x.fields),
               ifl |-> IF x.ifl = <<>> THEN FALSE ELSE x.ifl[1], delim |-> Drop("delim", OptStr(x.delim), Empty),
               \* a value written as a number stays a number (abstractly "#<n>"; strings are tokens)
               variables |-> [k \in DOMAIN OptMap(x.variables) \cup {x.numvars[i].key : i \in DOMAIN x.numvars} |->
                                IF k \in DOMAIN OptMap(x.variables) THEN OptMap(x.variables)[k]
                                ELSE "#" \o ToString(x.numvars[CHOOSE i \in DOMAIN x.numvars : x.numvars[i].key = k].val)]]
DPost(p) == [type |-> p.type, mapping |-> OptMap(p.mapping), headers |-> OptMap(p.headers), body |-> OptSeq(p.body),
             status |-> OptNum(p.status), size |-> Drop("size", p.size, <<>>)]
DRequest(r) == [name |-> r.name, method |-> r.method, uri |-> r.uri, headers |-> OptMap(r.headers),
                tag |-> Drop("tag", OptStr(r.tag), Empty), body |-> r.body,
                pre |-> IF r.pre = <<>> THEN <<>> ELSE <<MapOf(r.pre[1])>>,
                templater |-> IF r.templater = <<>> THEN "" ELSE r.templater[1],   \* "" = none configured
                posts |-> [i \in DOMAIN r.posts |-> DPost(r.posts[i])]]
DCall(r) == [name |-> r.name, call |-> r.call, payload |-> r.payload, metadata |-> OptMap(r.metadata),
             tag |-> Drop("tag", OptStr(r.tag), Empty),
             pres |-> [i \in DOMAIN r.pres |-> [type |-> r.pres[i].type, mapping |-> MapOf(r.pres[i].mapping)]],
             posts |-> [i \in DOMAIN r.posts |-> [type |-> r.posts[i].type, payload |-> OptSeq(r.posts[i].payload),
                                                 status |-> OptNum(r.posts[i].status)]]]
\* request list entries as the documentation writes them: name, name(n), name(n, sleep), sleep(ms)
StepText(st) == IF st.args = <<>> THEN st.name
                ELSE IF Len(st.args) = 1 THEN st.name \o "(" \o ToString(st.args[1]) \o ")"
                ELSE st.name \o "(" \o ToString(st.args[1]) \o ", " \o ToString(st.args[2]) \o ")"
DScenario(x) == [name |-> x.name, weight |-> OptNum(x.weight), mwt |-> Drop("mwt", OptNum(x.mwt), 0),
                 requests |-> [i \in DOMAIN x.steps |-> StepText(x.steps[i])]]

Decoded(d) == [sources   |-> [i \in DOMAIN d.sources |-> DSource(d.sources[i])],
               requests  |-> [i \in DOMAIN d.requests |-> DRequest(d.requests[i])],
               calls     |-> [i \in DOMAIN d.calls |-> DCall(d.calls[i])],
               scenarios |-> [i \in DOMAIN d.scenarios |-> DScenario(d.scenarios[i])]]

\* ---------------------------------------------------------------- the meaning: ammo level
\* a request as a step of an ammo: as configured, templater defaulting to "text"
AReq(d, name) ==
  IF d.kind = "http"
  THEN LET r == DRequest(d.requests[CHOOSE i \in DOMAIN d.requests : d.requests[i].name = name])
       IN [r EXCEPT !.templater = IF r.templater = "" THEN "text" ELSE r.templater]
  ELSE DCall(d.calls[CHOOSE i \in DOMAIN d.calls : d.calls[i].name = name])

\* name(n, sleep): n copies each followed by sleep; sleep(ms): added after the step before it
RECURSIVE Expand(_, _, _)
Expand(d, steps, acc) ==
  IF steps = <<>> THEN acc
  ELSE LET st == Head(steps) IN
    IF st.name = "sleep"
    THEN Expand(d, Tail(steps), [acc EXCEPT ![Len(acc)].sleep = @ + st.args[1]])
    ELSE LET cnt == IF Len(st.args) >= 1 THEN st.args[1] ELSE 1
             sl  == IF Len(st.args) >= 2 THEN st.args[2] ELSE 0
         IN Expand(d, Tail(steps), acc \o Rep([req |-> AReq(d, st.name), sleep |-> sl], cnt))

EffWeight(x) == IF x.weight = <<>> THEN WeightDefault ELSE x.weight[1]
Copies(d, i) == LET g == GcdSeq([j \in DOMAIN d.scenarios |-> EffWeight(d.scenarios[j])]) IN
                IF Len(d.scenarios) = 1 THEN 1 ELSE IF g = 0 THEN 0 ELSE EffWeight(d.scenarios[i]) \div g
\* the variables every ammo carries: per source name what the templates see -- for a `variables` source its map
\* (numbers stay numbers), for file sources the file's content (not modelled: empty)
AVars(d) == [nm \in {d.sources[i].name : i \in DOMAIN d.sources} |->
               DSource(d.sources[CHOOSE i \in DOMAIN d.sources : d.sources[i].name = nm]).variables]
AScenario(d, x) == [name |-> x.name, mwt |-> Drop("mwt", OptNum(x.mwt), 0), steps |-> Expand(d, x.steps, <<>>),
                    vars |-> AVars(d)]
Ammo(d) == Flat([i \in DOMAIN d.scenarios |-> Rep(AScenario(d, d.scenarios[i]), Copies(d, i))])

\* ---------------------------------------------------------------- the case space
\* the rich base has every flag at its richest value, except var_num (see design/C16.md: HCL turns the number into a
\* string -- a known finding that must not shadow every other case)
BaseKey(k, hi) == [k |-> k, f |-> [x \in AllFlags |-> IF hi /\ x # "var_num" THEN FMax(k, x) ELSE 0], s |-> BaseS, n |-> BaseN]
WithF(c, g)    == [c EXCEPT !.f = NormF(c.k, [x \in AllFlags |-> IF x \in DOMAIN g THEN g[x] ELSE c.f[x]])]
FullOn(c, G)   == { WithF(c, g) : g \in {h \in [G -> 0..3] : \A x \in G : h[x] <= FMax(c.k, x)} }

\* buckets partition the work (and let TLC's workers enumerate in parallel): one per flag group, per pair of
\* flags (on the richest description; on the poorest one singly, in the thorough tier pairwise; the quick tier takes
\* pairs for http only -- grpc shares the code for sources and scenarios and has its own flags in two full groups), per slot
FlagBuckets(k) == { [k |-> "bucket", kind |-> k, fam |-> "flags", hi |-> TRUE, G |-> G] : G \in Groups(k) }
                  \cup { [k |-> "bucket", kind |-> k, fam |-> "flags", hi |-> TRUE, G |-> {a, b}] :
                            <<a, b>> \in {p \in Flags(k) \X Flags(k) : Tier = "thorough" \/ k = "http" \/ p[1] = p[2]} }
                  \cup { [k |-> "bucket", kind |-> k, fam |-> "flags", hi |-> FALSE, G |-> {a, b}] :
                            <<a, b>> \in {p \in Flags(k) \X Flags(k) : Tier = "thorough" \/ p[1] = p[2]} }
SlotBuckets(k) == { [k |-> "bucket", kind |-> k, fam |-> "slot", x |-> x] : x \in Slots(k) }
NumBuckets(k)  == { [k |-> "bucket", kind |-> k, fam |-> "num", x |-> x] : x \in DOMAIN BaseN }
\* thorough tier: two neighbouring slots substituted at once (key and value of one entry, two keys of one map, two
\* entries of one list, ...) with distinct core tokens
SlotPairs(k)   == IF k = "http"
                  THEN { <<"h_k1", "h_v1">>, <<"h_k1", "h_k2">>, <<"var_k1", "var_v1">>, <<"ab_1", "ab_2">>, <<"pre_k", "pre_v">>,
                         <<"csv_f1", "csv_f2">>, <<"uri", "body">> }
                  ELSE { <<"h_k1", "h_v1">>, <<"h_k1", "h_k2">>, <<"ab_1", "ab_2">>, <<"pre_k", "pre2_k">>, <<"call", "payload">> }
\* the two tokens behind known findings (design/C16.md) are left to the single substitutions
PairTokens     == (Tokens \cap CoreTokens) \ {"T_merge", "T_ls"}
Slot2Buckets(k) == IF Tier = "thorough"
                   THEN { [k |-> "bucket", kind |-> k, fam |-> "slot2", x |-> p[1], y |-> p[2]] : p \in SlotPairs(k) } ELSE {}
Buckets        == UNION { FlagBuckets(k) \cup SlotBuckets(k) \cup NumBuckets(k) \cup Slot2Buckets(k) : k \in {"http", "grpc"} }
CasesIn(b)     == CASE b.fam = "flags" -> FullOn(BaseKey(b.kind, b.hi), b.G)
                    [] b.fam = "slot"  -> { [BaseKey(b.kind, TRUE) EXCEPT !.s[b.x] = t] : t \in SlotTokens(b.kind, b.x) }
                    [] b.fam = "num"   -> { [BaseKey(b.kind, TRUE) EXCEPT !.n[b.x] = v] : v \in NumAlts[b.x] }
                    [] b.fam = "slot2" -> { [BaseKey(b.kind, TRUE) EXCEPT !.s[b.x] = q[1], !.s[b.y] = q[2]] :
                                              q \in {r \in PairTokens \X PairTokens : r[1] # r[2]} }
Cases          == UNION { CasesIn(b) : b \in Buckets }

\* ---------------------------------------------------------------- design-level state machine: one state per case
VARIABLE c
NoCase == [k |-> "none"]
Init == c = NoCase
IsCase == c.k \in {"http", "grpc"}
Next == \/ c.k = "none" /\ c' \in Buckets
        \/ c.k = "bucket" /\ c' \in CasesIn(c)
Spec == Init /\ [][Next]_c
Stutter == UNCHANGED c

D == Build(c)

\* every optional field that the description gives survives into the meaning, at both levels
OptionalSurvive == IsCase =>
  LET dd == Decoded(D) aa == Ammo(D) IN
  /\ \A i \in DOMAIN D.sources :
       /\ D.sources[i].delim # <<>> => dd.sources[i].delim = D.sources[i].delim[1]
       /\ D.sources[i].fields # <<>> => dd.sources[i].fields = D.sources[i].fields[1]
       /\ D.sources[i].ifl # <<>> => dd.sources[i].ifl = D.sources[i].ifl[1]
  /\ \A i \in DOMAIN D.requests :
       /\ D.requests[i].tag # <<>> => dd.requests[i].tag = D.requests[i].tag[1]
       /\ dd.requests[i].body = D.requests[i].body
       /\ \A j \in DOMAIN D.requests[i].posts : dd.requests[i].posts[j].size = D.requests[i].posts[j].size
       /\ \A a \in Range(aa) : \A st \in Range(a.steps) :
            st.req.name = D.requests[i].name =>
               /\ D.requests[i].tag # <<>> => st.req.tag = D.requests[i].tag[1]
               /\ D.requests[i].templater # <<>> => st.req.templater = D.requests[i].templater[1]
  /\ \A i \in DOMAIN D.calls : D.calls[i].tag # <<>> => dd.calls[i].tag = D.calls[i].tag[1]
  /\ \A i \in DOMAIN D.scenarios :
       /\ D.scenarios[i].mwt # <<>> => dd.scenarios[i].mwt = D.scenarios[i].mwt[1]
       /\ D.scenarios[i].weight # <<>> => dd.scenarios[i].weight = D.scenarios[i].weight[1]
       /\ \A a \in Range(aa) : a.name = D.scenarios[i].name /\ D.scenarios[i].mwt # <<>> => a.mwt = D.scenarios[i].mwt[1]

\* the ammo list: every scenario is there, in proportion to its weight, and every step and every sleep is accounted for
StepCount(st) == IF st.name = "sleep" THEN 0 ELSE IF st.args = <<>> THEN 1 ELSE st.args[1]
StepSleep(st) == IF st.name = "sleep" THEN st.args[1] ELSE IF Len(st.args) = 2 THEN st.args[1] * st.args[2] ELSE 0
AmmoShape == IsCase =>
  LET aa == Ammo(D) IN
  /\ \A i \in DOMAIN D.scenarios :
       LET mine == {j \in DOMAIN aa : aa[j].name = D.scenarios[i].name} IN
       /\ mine # {}
       /\ \A i2 \in DOMAIN D.scenarios :
            Cardinality(mine) * EffWeight(D.scenarios[i2])
              = Cardinality({j \in DOMAIN aa : aa[j].name = D.scenarios[i2].name}) * EffWeight(D.scenarios[i])
       /\ \A j \in mine :
            /\ Len(aa[j].steps) = SumSeq([q \in DOMAIN D.scenarios[i].steps |-> StepCount(D.scenarios[i].steps[q])])
            /\ SumSeq([q \in DOMAIN aa[j].steps |-> aa[j].steps[q].sleep])
                 = SumSeq([q \in DOMAIN D.scenarios[i].steps |-> StepSleep(D.scenarios[i].steps[q])])
            /\ \A q \in DOMAIN aa[j].steps : aa[j].steps[q].req.name \in {"r1", "r2"}
  /\ Len(D.scenarios) > 1 =>
       GcdSeq([i \in DOMAIN D.scenarios |-> Cardinality({j \in DOMAIN aa : aa[j].name = D.scenarios[i].name})]) = 1

\* a step of an http ammo always has a templater (documented default: text)
DefaultsApplied == IsCase /\ D.kind = "http" =>
  \A a \in Range(Ammo(D)) : \A st \in Range(a.steps) : st.req.templater \in {"text", "html"}

=============================================================================
