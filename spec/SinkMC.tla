------------------------------- MODULE SinkMC -------------------------------
(* Model-checking instance of Sink: nothing but the constants (see spec/cfg/Sink_*.cfg). *)
EXTENDS Sink
=============================================================================
