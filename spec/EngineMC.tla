------------------------------ MODULE EngineMC ------------------------------
(* Plans for Engine.tla: 2-3 pools.  Every pool plan carries the abstract fields Engine.tla reads (kind, n, cause) and *)
(* the concrete fields of a PoolRun pool plan, from which `vdrive poolrun` builds the scripted mocks.                  *)
EXTENDS Engine, Json

Base == [n |-> 1, t |-> 1, shared |-> TRUE, ammo |-> 2, provider |-> "ok", aggregator |-> "ok", warm |-> "none",
         gunFail |-> -1, bindFail |-> -1, schedFail |-> -1, panicInst |-> -1, panicShot |-> -1,
         closable |-> TRUE, ek |-> "plain", long |-> FALSE, slow |-> FALSE, fault |-> "none", shape |-> "small", block |-> "none",
         kind |-> "ok", cause |-> ""]
Ok     == Base
Ok2    == [n |-> 2, t |-> 2, shape |-> "two-instances"] @@ Base
Slow   == [kind |-> "slow", slow |-> TRUE, t |-> 2, shape |-> "slow"] @@ Base
Long   == [kind |-> "long", long |-> TRUE, shape |-> "long"] @@ Base
Long2  == [kind |-> "long", long |-> TRUE, n |-> 2, shape |-> "long-two-instances"] @@ Base
FailAgg   == [kind |-> "fail", cause |-> "agg", aggregator |-> "now", fault |-> "agg-at-once"] @@ Base
FailProv  == [kind |-> "fail", cause |-> "prov", provider |-> "fail", ammo |-> 1, fault |-> "prov-mid-run"] @@ Base
FailPanic == [kind |-> "fail", cause |-> "panic", panicInst |-> 0, panicShot |-> 1, fault |-> "panic-first"] @@ Base
FailDrop  == [kind |-> "fail", cause |-> "agg", aggregator |-> "drop", fault |-> "agg-drop-on-cancel"] @@ Base
FailGun   == [kind |-> "failsync", cause |-> "newgun", gunFail |-> 0, fault |-> "newgun-warmup"] @@ Base
FailSched == [kind |-> "failsync", cause |-> "sched", schedFail |-> 0, fault |-> "sched-shared"] @@ Base
\* a pool whose warm-up / shared schedule factory does not return before Engine.Run has returned
BlockWarm  == [block |-> "warmup", warm |-> "ok", fault |-> "warmup-ok", shape |-> "blocked"] @@ Base
BlockGun   == [block |-> "newgun-warmup", shape |-> "blocked"] @@ Base
BlockSched == [block |-> "sched-shared", shape |-> "blocked"] @@ Base

PoolSets == <<
  <<Ok, Ok, Ok>>,                  \* 1  all succeed
  <<Ok, Slow, Ok2>>,               \* 2  control: the slow pool is not stopped by the others finishing
  <<FailAgg, Long, Long>>,         \* 3  one failure stops two pools that would run for an hour
  <<Long, FailProv, Ok>>,          \* 4
  <<Long2, Ok, FailPanic>>,        \* 5
  <<FailGun, Long, Ok>>,           \* 6  synchronous failure
  <<Long, Long, FailSched>>,       \* 7
  <<FailAgg, FailProv, Long>>,     \* 8  two failures: the first one received is returned
  <<FailDrop, FailPanic, Ok>>,     \* 9  a late failure and an early one
  <<FailGun, FailSched, FailAgg>>, \* 10 everything fails
  <<Long, FailAgg>>,               \* 11 two pools
  <<Ok, FailProv>>                 \* 12
>>
CancelSets == <<
  <<Long, Long, Ok>>,              \* the caller cancels three pools mid-run
  <<Long2, FailAgg, Ok>>,          \* cancel vs pool failure
  <<Long, Slow>>,
  <<FailGun, Long, Long>>,
  <<BlockWarm, Long, Ok>>,         \* 5  the caller cancels while a pool is inside a warm-up that ignores the ctx: Run returns at once
  <<Long, BlockSched, Long>>,      \* 6
  <<BlockGun, BlockWarm>>          \* 7
>>
\* pools that share an id (Engine.tla, "pool ids"): Run must still wait for EVERY pool - it returns nil only after the
\* slow pool is through, and the failure of the failing pool whenever that pool gets its result in
DupSets == <<
  <<"same",    <<Ok, Slow>>>>,         \* 1  the short pool's result must not end the run
  <<"same",    <<Ok, FailProv>>>>,     \* 2  ... nor hide the other pool's failure
  <<"same",    <<Ok, Slow, Ok2>>>>,    \* 3
  <<"default", <<Slow, Ok>>>>,         \* 4  `id: pool_1` on the first pool = the generated id of the second
  <<"default", <<Ok, FailAgg>>>>       \* 5
>>
\* ids 6000+: the poolrun driver and TracePoolRun / TraceEngine tell plans apart by id
PlansNC == { [id |-> 6000 + i, pools |-> PoolSets[i], cancel |-> FALSE, dupid |-> "none"] : i \in 1..Len(PoolSets) }
PlansC  == { [id |-> 6100 + i, pools |-> CancelSets[i], cancel |-> TRUE, dupid |-> "none"] : i \in 1..Len(CancelSets) }
PlansD  == { [id |-> 6200 + i, pools |-> DupSets[i][2], cancel |-> FALSE, dupid |-> DupSets[i][1]] : i \in 1..Len(DupSets) }
AllPlans == PlansNC \cup PlansC \cup PlansD
NegTrue == TRUE
LivePlans == PlansNC                       \* a cancel is not a fair step; every no-cancel plan ends by itself or by a failure
ThreeLong == {pl \in PlansNC : pl.id \in {6003, 6008}}
BlockPlans == {pl \in PlansC : pl.id \in {6105, 6106, 6107}}
QuickPlans == {pl \in AllPlans : pl.id \in {6003, 6006, 6012, 6103, 6107, 6201, 6202}}
PromptPlans == {pl \in PlansC : pl.id \in {6103, 6104, 6107}}
TwoFail == {pl \in AllPlans : pl.id \in {6009, 6010}}
OneThree == {pl \in AllPlans : pl.id = 6006}
LiveThorough == {pl \in PlansNC : pl.id \in {6001, 6003, 6004, 6006, 6008, 6011, 6012}}
LiveQuick == {pl \in AllPlans : pl.id \in {6006, 6012}}
=============================================================================
