------------------------- MODULE TraceSampleCoding --------------------------
(***************************************************************************)
(* C10 conformance.  The log of `vdrive samplecoding` (both modes):        *)
(*   Reset{insts}                         a new run: fresh provider(s)     *)
(*   Provider                             a fresh provider (ids restart)   *)
(*   Begin{inst, caseid, c, id}           the recording gun wrapper: a     *)
(*                                        shot of case c starts; id is the *)
(*                                        id of the ammo (0: it has none)  *)
(*   Report{inst, tags, id, proto, net}   the reporting aggregator mock    *)
(*   End{inst}                            the shot returned                *)
(*   RunEnd{n, r}                         ids mode: n instances made r     *)
(*                                        acquisitions each                *)
(* in the order of a sequence number taken under the log's mutex; the      *)
(* events of one instance are in program order (guns report on the         *)
(* shooting goroutine).  The effects of SampleCoding are applied line by   *)
(* line; what a shot must have reported is Expected(c) of SampleCoding.    *)
(***************************************************************************)
EXTENDS SampleCodingMC, Json, IOUtils

VARIABLE l
Trace == ndJsonDeserialize(IOEnv.VERIF_TRACE)
E == Trace[l + 1]
Last == Trace[l]

TInit == /\ l = 0
         /\ ph = <<>> /\ cur = <<>> /\ rep = <<>> /\ shots = <<>> /\ myid = <<>> /\ ctr = <<>> /\ ids = <<>>

Step == /\ l < Len(Trace)
        /\ l' = l + 1
        /\ UNCHANGED ctr
        /\ CASE E.ev = "Reset" ->
                  LET I == Rng(E.insts)
                  IN  /\ ph' = [i \in I |-> "idle"] /\ cur' = [i \in I |-> NoCase] /\ rep' = [i \in I |-> <<>>]
                      /\ shots' = [i \in I |-> 0] /\ myid' = [i \in I |-> 0] /\ ids' = <<>>
             [] E.ev = "Provider" ->
                  /\ ids' = <<>>
                  /\ UNCHANGED <<ph, cur, rep, shots, myid>>
             [] E.ev = "Begin" ->
                  /\ BeginEff(E.inst, E.c)
                  /\ IF E.id > 0 THEN AcquireEff(E.inst, E.id) ELSE myid' = [myid EXCEPT ![E.inst] = 0] /\ ids' = ids
                  /\ UNCHANGED shots
             [] E.ev = "Report" ->
                  /\ ReportEff(E.inst, [tags |-> E.tags, proto |-> E.proto, net |-> E.net, id |-> E.id])
                  /\ UNCHANGED <<ph, cur, shots, myid, ids>>
             [] E.ev = "End" ->
                  /\ EndEff(E.inst)
                  /\ UNCHANGED <<cur, rep, myid, ids>>
             [] E.ev = "RunEnd" ->
                  UNCHANGED <<ph, cur, rep, shots, myid, ids>>

\* ---- what is checked ----
AtEnd == l > 0 /\ Last.ev = "End"
Li == Last.inst

\* (that the driver echoed exactly the generated cases is a plain equality of JSON values, checked by checks/c10.py)
\* one sample per fired request / executed step: exact at the end of the shot, never more while it runs
TOneSample == /\ AtEnd => CountOK(cur[Li], rep[Li])
              /\ \A i \in DOMAIN ph : ph[i] = "shooting" => Len(rep[i]) <= ExpectedCount(cur[i])
TProto == AtEnd => ProtoOK(cur[Li], rep[Li])
TNet   == AtEnd => NetOK(cur[Li], rep[Li])
TTag   == AtEnd => TagOK(cur[Li], rep[Li])
\* HTTP ammo attaches its id to its sample
TSampleId == AtEnd => (cur[Li].kind \in {"http", "tag"} => \A k \in DOMAIN rep[Li] : rep[Li][k].id = myid[Li])
\* ids are injective within a run: the id just handed out was never handed out before by this provider
\* (checked incrementally), and at the end of a concurrent run the whole invariant of SampleCoding holds
\* with as many distinct ids as there were acquisitions
TIdFresh == (l > 0 /\ Last.ev = "Begin" /\ Last.id > 0) => ids[Last.id] = 1
TRunIds  == (l > 0 /\ Last.ev = "RunEnd") =>
               /\ IdsInjective
               /\ Cardinality(DOMAIN ids) = Last.n * Last.r
               /\ \A i \in DOMAIN ph : ph[i] = "idle" /\ shots[i] = Last.r
=============================================================================
