------------------------- MODULE TraceSampleCoding --------------------------
(***************************************************************************)
(* C10 conformance.  The log of `vdrive samplecoding` (both modes):        *)
(*   Reset{insts}                         every listed instance is idle;   *)
(*                                        a restart point of the walk      *)
(*   Provider                             a fresh provider (cases mode)    *)
(*   Begin{inst, caseid, c, id}           the recording gun wrapper: a     *)
(*                                        shot of case c starts; id is the *)
(*                                        id of the ammo (0: it has none)  *)
(*   Report{inst, tags, id, proto, net}   the reporting aggregator mock    *)
(*   End{inst, steps}                     the shot returned (scenario: the *)
(*                                        step labels the target saw)      *)
(*   RunBegin{n, r} ... RunEnd{n, r, first}   ids mode: n instances made   *)
(*                                        r acquisitions each on ONE       *)
(*                                        provider; first = line number of *)
(*                                        the RunBegin                     *)
(* Lines are in the order of a sequence number taken under the log's       *)
(* mutex; the events of one instance are in program order (guns report on  *)
(* the shooting goroutine).  The effects of SampleCoding are applied line  *)
(* by line; what a shot must have reported is Expected(c) of SampleCoding. *)
(* The walk restarts at every Reset (short counterexamples, parallel       *)
(* workers): a Reset is only taken from a blank state.                     *)
(***************************************************************************)
EXTENDS SampleCodingMC, Json, IOUtils

VARIABLE l
Trace == ndJsonDeserialize(IOEnv.VERIF_TRACE)
E == Trace[l + 1]
Last == Trace[l]

Blank == ph = <<>>
TInit == /\ l \in {k - 1 : k \in {j \in 1..Len(Trace) : Trace[j].ev = "Reset"}}
         /\ ph = <<>> /\ cur = <<>> /\ rep = <<>> /\ shots = <<>> /\ myid = <<>> /\ ctr = <<>> /\ ids = <<>> /\ cancelled = <<>>

Step == /\ l < Len(Trace)
        /\ l' = l + 1
        /\ UNCHANGED <<ctr, ids, cancelled>>            \* id injectivity is decided on the whole run at RunEnd (TRunIds)
        /\ CASE E.ev = "Reset" ->
                  LET I == Rng(E.insts)
                  IN  /\ Blank               \* otherwise this chunk ends here; the next one starts from its own init state
                      /\ ph' = [i \in I |-> "idle"] /\ cur' = [i \in I |-> NoCase] /\ rep' = [i \in I |-> <<>>]
                      /\ shots' = [i \in I |-> 0] /\ myid' = [i \in I |-> 0]
             [] E.ev = "Begin" ->
                  /\ BeginEff(E.inst, E.c)
                  /\ myid' = [myid EXCEPT ![E.inst] = E.id]
                  /\ UNCHANGED shots
             [] E.ev = "Report" ->
                  /\ ReportEff(E.inst, [tags |-> E.tags, proto |-> E.proto, net |-> E.net, id |-> E.id])
                  /\ UNCHANGED <<ph, cur, shots, myid>>
             [] E.ev = "End" ->
                  /\ EndEff(E.inst)
                  /\ UNCHANGED <<cur, rep, myid>>
             [] OTHER ->                      \* Provider, RunBegin, RunEnd
                  UNCHANGED <<ph, cur, rep, shots, myid>>

\* ---- what is checked ----
AtEnd == l > 0 /\ ~Blank /\ Last.ev = "End"
Li == Last.inst
\* (that the driver echoed exactly the generated cases is a plain equality of JSON values, checked by checks/c10.py)

\* one sample per fired request / executed step: exact at the end of the shot, never more while it runs
TOneSample == /\ AtEnd => CountOK(cur[Li], rep[Li])
              /\ \A i \in DOMAIN ph : ph[i] = "shooting" => Len(rep[i]) <= ExpectedCount(cur[i])
TProto == AtEnd => ProtoOK(cur[Li], rep[Li])
TNet   == AtEnd => NetOK(cur[Li], rep[Li])
TTag   == AtEnd => TagOK(cur[Li], rep[Li])
\* scenario shots: the target saw requests of exactly the steps that were executed up to sending - none of a step
\* after the failed one, none of a step whose preprocessor / template failed (End carries the labels seen)
TSent  == /\ (AtEnd /\ cur[Li].kind \in {"httpscn", "grpcscn"}) => Rng(Last.steps) = SentSteps(cur[Li])
          /\ (AtEnd /\ IsCancel(cur[Li])) => CancelSentOK(cur[Li], Len(rep[Li]), Rng(Last.steps))
\* HTTP ammo attaches its id to its sample
TSampleId == AtEnd => (cur[Li].kind \in {"http", "tag"} => \A k \in DOMAIN rep[Li] : rep[Li][k].id = myid[Li] /\ myid[Li] > 0)
\* ids are injective within a run: the ids of all acquisitions between RunBegin and RunEnd are pairwise distinct
\* (set cardinality = number of acquisitions = n * r), whatever the interleaving was
TRunIds == (l > 0 /\ ~Blank /\ Last.ev = "RunEnd") =>
              LET B  == {k \in Last.first..l : Trace[k].ev = "Begin"}
                  Id == {Trace[k].id : k \in B}
              IN  /\ Cardinality(B) = Last.n * Last.r
                  /\ Cardinality(Id) = Cardinality(B)
                  /\ 0 \notin Id
=============================================================================
