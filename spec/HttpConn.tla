------------------------------ MODULE HttpConn ------------------------------
(***************************************************************************)
(* C09 - the connection part.  By default every instance owns its own HTTP *)
(* client (guns/http: NewBaseGun builds one transport per gun, the engine  *)
(* builds one gun per instance); with `shared-client: {enabled, client-    *)
(* number: k}` WarmUp builds k clients and Bind hands them to the          *)
(* instances round-robin (core/clientpool Next).  Instances shoot          *)
(* sequentially and the target keeps connections open.  The machine is the *)
(* server's view (net/http ConnState: new, active, idle, closed) driven by *)
(* the instances through their clients:                                    *)
(*                                                                         *)
(*   Dial(i)     instance i has a request to send and its client has no    *)
(*               idle connection; with the connect gun the dial includes   *)
(*               the CONNECT exchange with the proxy: one tunnel per       *)
(*               connection (tun)                                          *)
(*   Send(i)     the request goes out on an idle connection of i's client  *)
(*   Respond(i)  the exchange is complete: with keep-alives the connection *)
(*               returns to the client's pool (server: idle), with         *)
(*               disable-keep-alives it is closed (server: closed)         *)
(*   Fail(i)     the exchange fails (e.g. the response headers do not      *)
(*               arrive within response-header-timeout): the client gives  *)
(*               the connection up; the next request needs a new one       *)
(*   Gap(i)      the instance idles between two shots, for less than the   *)
(*               configured idle-conn-timeout: nothing happens to the      *)
(*               pooled connection                                         *)
(*                                                                         *)
(* Property: with keep-alives a client that carries one request at a time  *)
(* (a per-instance client always does; a shared client does when the       *)
(* instances take turns, Serial) keeps ONE connection, so the target sees  *)
(* at most as many connections as there are clients - instances by         *)
(* default, client-number with shared-client; a connection is never used   *)
(* by two clients; without keep-alives exactly one connection per request; *)
(* every connection of a connect gun is a tunnel opened by its own CONNECT.*)
(*                                                                         *)
(* The rule about idle gaps is about ONE option: a pooled connection       *)
(* survives any gap below the configured idle-conn-timeout, whatever the   *)
(* other timeouts (response-header, expect-continue, tls-handshake, dial   *)
(* timeout, keep-alive period) are; conversely, with a small               *)
(* idle-conn-timeout and longer gaps (expiry) the pooled connection is     *)
(* gone at the next shot: every shot travels on a connection of its own.   *)
(*                                                                         *)
(* Negative controls: Reuse = FALSE, a client that silently drops its      *)
(* connection after every exchange although keep-alives are on;            *)
(* IdleDrop = TRUE, a client that drops its pooled connection during an    *)
(* idle gap shorter than idle-conn-timeout; ClientOf <- OwnClient with     *)
(* NClients < instances, "one client per instance although shared";        *)
(* ShortIdle with Expire = FALSE, idle-conn-timeout not wired (the pooled  *)
(* connection outlives it).                                                *)
(***************************************************************************)
EXTENDS Naturals, FiniteSets

CONSTANTS Inst,      \* instance ids
          MaxReq,    \* requests per instance
          KAModes,   \* subset of BOOLEAN: keep-alive settings explored
          Reuse,     \* TRUE: the client pools its connection (the design)
          IdleDrop,  \* FALSE: an idle gap below idle-conn-timeout leaves the pooled connection alone (the design)
          MaxFail,   \* failed exchanges per client explored
          ClientOf,  \* instance -> the client it shoots with (identity: per-instance clients)
          NClients,  \* number of clients the configuration asks for (instances, or client-number)
          Serial,    \* TRUE: the instances take turns (at most one exchange in flight)
          ShortIdle, \* TRUE: idle-conn-timeout is small and every instance idles longer than that between shots
          Expire,    \* TRUE: a pooled connection older than idle-conn-timeout is not used again (the design)
          ConnectGun \* TRUE: connect gun, every dial ends with a CONNECT to the proxy target

VARIABLES ninst,     \* number of clients configured for this run (per-instance clients: the instances)
          ka,        \* keep-alives enabled for this run
          cs,        \* connection -> "new" | "active" | "idle" | "closed"   (connections are 1, 2, ...)
          own,       \* connection -> client that sent on it (NoInst before the first request)
          nreq,      \* connection -> number of requests received on it
          pool,      \* client -> its idle connections
          busy,      \* instance -> connection with an exchange in flight, 0 if none
          sent,      \* instance -> requests sent so far
          fails,     \* client -> exchanges that failed so far
          tun,       \* connection -> the CONNECT that opened it (connect gun)
          expiry     \* the run has idle gaps longer than its idle-conn-timeout
vars == <<ninst, ka, cs, own, nreq, pool, busy, sent, fails, tun, expiry>>

NoInst == "-"
Conns == DOMAIN cs
Clients == {ClientOf[i] : i \in Inst}
GoodConnect == [uri |-> "GUNTARGET", host |-> "GUNTARGET"]

Init == /\ ka \in KAModes /\ ninst = NClients /\ expiry = ShortIdle
        /\ cs = <<>> /\ own = <<>> /\ nreq = <<>> /\ tun = <<>>
        /\ pool = [k \in Clients |-> {}] /\ busy = [i \in Inst |-> 0] /\ sent = [i \in Inst |-> 0]
        /\ fails = [k \in Clients |-> 0]

Extend(f, c, v) == [x \in DOMAIN f \cup {c} |-> IF x = c THEN v ELSE f[x]]

\* ---- effects (shared with the trace specification, which binds client and connection from the log) ----
DialEff(c) == /\ c \notin Conns
              /\ cs' = Extend(cs, c, "new") /\ own' = Extend(own, c, NoInst) /\ nreq' = Extend(nreq, c, 0)

ActiveEff(c) == c \in Conns /\ cs' = [cs EXCEPT ![c] = "active"]

\* k: the client of the instance that shot the request
FailEff(k) == fails' = [fails EXCEPT ![k] = @ + 1]

ReqEff(k, c) == /\ c \in Conns
                /\ own' = [own EXCEPT ![c] = IF @ = NoInst THEN k ELSE IF @ = k THEN k ELSE "shared"]
                /\ nreq' = [nreq EXCEPT ![c] = @ + 1]

IdleEff(c)   == c \in Conns /\ cs' = [cs EXCEPT ![c] = "idle"]
ClosedEff(c) == c \in Conns /\ cs' = [cs EXCEPT ![c] = "closed"]
TunnelEff(c, line) == tun' = Extend(tun, c, line)

\* ---- the design: who does what when ----
Quiet == \A j \in Inst : busy[j] = 0

Dial(i) == /\ busy[i] = 0 /\ pool[ClientOf[i]] = {} /\ sent[i] < MaxReq
           /\ Serial => Quiet
           /\ LET c == Cardinality(Conns) + 1
              IN  /\ DialEff(c) /\ pool' = [pool EXCEPT ![ClientOf[i]] = {c}]
                  /\ IF ConnectGun THEN TunnelEff(c, GoodConnect) ELSE tun' = tun
           /\ UNCHANGED <<ninst, ka, busy, sent, fails, expiry>>

Send(i) == /\ busy[i] = 0 /\ pool[ClientOf[i]] # {} /\ sent[i] < MaxReq
           /\ Serial => Quiet
           /\ \E c \in pool[ClientOf[i]] :
                  /\ cs' = [cs EXCEPT ![c] = "active"]
                  /\ ReqEff(ClientOf[i], c)
                  /\ busy' = [busy EXCEPT ![i] = c]
                  /\ pool' = [pool EXCEPT ![ClientOf[i]] = @ \ {c}]
           /\ sent' = [sent EXCEPT ![i] = @ + 1]
           /\ UNCHANGED <<ninst, ka, fails, tun, expiry>>

Respond(i) == /\ busy[i] # 0
              /\ LET c == busy[i]
                 IN  IF ka /\ expiry /\ Expire
                     THEN IdleEff(c) /\ UNCHANGED pool      \* too old by the time of the next shot: never used again
                     ELSE IF ka /\ Reuse
                     THEN IdleEff(c) /\ pool' = [pool EXCEPT ![ClientOf[i]] = @ \cup {c}]
                     ELSE IF ka THEN IdleEff(c) /\ UNCHANGED pool      \* dropped by the client, still open at the target
                     ELSE ClosedEff(c) /\ UNCHANGED pool
              /\ busy' = [busy EXCEPT ![i] = 0]
              /\ UNCHANGED <<ninst, ka, own, nreq, sent, fails, tun, expiry>>

Fail(i) == /\ busy[i] # 0 /\ fails[ClientOf[i]] < MaxFail
           /\ ClosedEff(busy[i]) /\ FailEff(ClientOf[i])
           /\ busy' = [busy EXCEPT ![i] = 0]
           /\ UNCHANGED <<ninst, ka, own, nreq, pool, sent, tun, expiry>>

Gap(i) == /\ busy[i] = 0 /\ pool[ClientOf[i]] # {}
          /\ IF IdleDrop THEN \E c \in pool[ClientOf[i]] : ClosedEff(c) /\ pool' = [pool EXCEPT ![ClientOf[i]] = @ \ {c}]
                         ELSE UNCHANGED <<cs, pool>>
          /\ UNCHANGED <<ninst, ka, own, nreq, busy, sent, fails, tun, expiry>>

Next == \E i \in Inst : Dial(i) \/ Send(i) \/ Respond(i) \/ Fail(i) \/ Gap(i)
Spec == Init /\ [][Next]_vars

\* ---- the property ----
TypeOK == /\ ka \in BOOLEAN
          /\ \A c \in Conns : cs[c] \in {"new", "active", "idle", "closed"}

RECURSIVE SumOver(_, _)
SumOver(f, S) == IF S = {} THEN 0 ELSE LET x == CHOOSE y \in S : TRUE IN f[x] + SumOver(f, S \ {x})
ConnsOf(k) == {c \in Conns : own[c] = k}

\* keep-alive: all requests of a client that carries one request at a time travel on one connection - whatever
\* the idle gaps below idle-conn-timeout - except that a failed exchange costs the connection ...
OneConnPerInstance == (ka /\ ~expiry) => \A k \in DOMAIN fails : Cardinality(ConnsOf(k)) <= 1 + fails[k]
\* ... so a target that keeps connections open sees no more connections than clients (+ failed exchanges):
\* instances by default, client-number with shared-client
ConnsBounded == (ka /\ ~expiry) => Cardinality(Conns) <= ninst + SumOver(fails, DOMAIN fails)
\* a connection is never used by two clients
NotShared == \A c \in Conns : own[c] # "shared"
\* idle-conn-timeout shorter than the idle gaps: the pooled connection has expired at the next shot
ExpiredNotReused == (ka /\ expiry) => \A c \in Conns : nreq[c] <= 1
\* disable-keep-alives: one connection per request
OneConnPerRequest == ~ka => \A c \in Conns : nreq[c] <= 1
\* connect gun: every connection is a tunnel opened by its own CONNECT naming the gun's target
Tunnelled == ConnectGun => \A c \in Conns : c \in DOMAIN tun /\ tun[c] = GoodConnect
=============================================================================
