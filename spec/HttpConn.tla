------------------------------ MODULE HttpConn ------------------------------
(***************************************************************************)
(* C09 - the connection part.  Every instance owns its own HTTP client     *)
(* (guns/http: NewBaseGun builds one transport per gun, the engine builds  *)
(* one gun per instance), shoots sequentially, and the target keeps        *)
(* connections open.  The machine is the server's view (net/http           *)
(* ConnState: new, active, idle, closed) driven by the instances:          *)
(*                                                                         *)
(*   Dial(i)     instance i has a request to send and no pooled connection *)
(*   Send(i)     the request goes out on i's connection   (server: active) *)
(*   Respond(i)  the exchange is complete: with keep-alives the connection *)
(*               returns to i's pool (server: idle), with                  *)
(*               disable-keep-alives it is closed (server: closed)         *)
(*                                                                         *)
(* Property: with keep-alives an instance uses one connection for all its  *)
(* requests, so the target sees at most as many connections as there are   *)
(* instances; without, exactly one connection per request.                 *)
(*                                                                         *)
(* Reuse = FALSE is the negative control: a client that silently drops its *)
(* connection after every exchange although keep-alives are on.            *)
(***************************************************************************)
EXTENDS Naturals, FiniteSets

CONSTANTS Inst,      \* instance ids
          MaxReq,    \* requests per instance
          KAModes,   \* subset of BOOLEAN: keep-alive settings explored
          Reuse      \* TRUE: the client pools its connection (the design)

VARIABLES ninst,     \* number of instances of this run
          ka,        \* keep-alives enabled for this run
          cs,        \* connection -> "new" | "active" | "idle" | "closed"   (connections are 1, 2, ...)
          own,       \* connection -> instance that sent on it (NoInst before the first request)
          nreq,      \* connection -> number of requests received on it
          pool,      \* instance -> its pooled connection, 0 if none
          busy,      \* instance -> connection with an exchange in flight, 0 if none
          sent       \* instance -> requests sent so far
vars == <<ninst, ka, cs, own, nreq, pool, busy, sent>>

NoInst == "-"
Conns == DOMAIN cs

Init == /\ ka \in KAModes /\ ninst = Cardinality(Inst)
        /\ cs = <<>> /\ own = <<>> /\ nreq = <<>>
        /\ pool = [i \in Inst |-> 0] /\ busy = [i \in Inst |-> 0] /\ sent = [i \in Inst |-> 0]

Extend(f, c, v) == [x \in DOMAIN f \cup {c} |-> IF x = c THEN v ELSE f[x]]

\* ---- effects (shared with the trace specification, which binds i and c from the log) ----
DialEff(c) == /\ c \notin Conns
              /\ cs' = Extend(cs, c, "new") /\ own' = Extend(own, c, NoInst) /\ nreq' = Extend(nreq, c, 0)

ActiveEff(c) == c \in Conns /\ cs' = [cs EXCEPT ![c] = "active"]

ReqEff(i, c) == /\ c \in Conns
                /\ own' = [own EXCEPT ![c] = IF @ = NoInst THEN i ELSE IF @ = i THEN i ELSE "shared"]
                /\ nreq' = [nreq EXCEPT ![c] = @ + 1]

IdleEff(c)   == c \in Conns /\ cs' = [cs EXCEPT ![c] = "idle"]
ClosedEff(c) == c \in Conns /\ cs' = [cs EXCEPT ![c] = "closed"]

\* ---- the design: who does what when ----
Dial(i) == /\ busy[i] = 0 /\ pool[i] = 0 /\ sent[i] < MaxReq
           /\ LET c == Cardinality(Conns) + 1
              IN  DialEff(c) /\ pool' = [pool EXCEPT ![i] = c]
           /\ UNCHANGED <<ninst, ka, busy, sent>>

Send(i) == /\ busy[i] = 0 /\ pool[i] # 0 /\ sent[i] < MaxReq
           /\ LET c == pool[i]
              IN  /\ cs' = [cs EXCEPT ![c] = "active"]
                  /\ own' = [own EXCEPT ![c] = IF @ = NoInst THEN i ELSE IF @ = i THEN i ELSE "shared"]
                  /\ nreq' = [nreq EXCEPT ![c] = @ + 1]
                  /\ busy' = [busy EXCEPT ![i] = c]
           /\ pool' = [pool EXCEPT ![i] = 0]
           /\ sent' = [sent EXCEPT ![i] = @ + 1]
           /\ UNCHANGED <<ninst, ka>>

Respond(i) == /\ busy[i] # 0
              /\ LET c == busy[i]
                 IN  IF ka /\ Reuse
                     THEN IdleEff(c) /\ pool' = [pool EXCEPT ![i] = c]
                     ELSE IF ka THEN IdleEff(c) /\ UNCHANGED pool      \* dropped by the client, still open at the target
                     ELSE ClosedEff(c) /\ UNCHANGED pool
              /\ busy' = [busy EXCEPT ![i] = 0]
              /\ UNCHANGED <<ninst, ka, own, nreq, sent>>

Next == \E i \in Inst : Dial(i) \/ Send(i) \/ Respond(i)
Spec == Init /\ [][Next]_vars

\* ---- the property ----
TypeOK == /\ ka \in BOOLEAN
          /\ \A c \in Conns : cs[c] \in {"new", "active", "idle", "closed"}

\* keep-alive: all requests of an instance travel on one connection ...
OneConnPerInstance == ka => \A c1, c2 \in Conns : (own[c1] = own[c2] /\ own[c1] # NoInst) => c1 = c2
\* ... so a target that keeps connections open sees no more connections than instances
ConnsBounded == ka => Cardinality(Conns) <= ninst
\* per-instance clients: a connection is never used by two instances
NotShared == \A c \in Conns : own[c] # "shared"
\* disable-keep-alives: one connection per request
OneConnPerRequest == ~ka => \A c \in Conns : nreq[c] <= 1
=============================================================================
