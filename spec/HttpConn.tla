------------------------------ MODULE HttpConn ------------------------------
(***************************************************************************)
(* C09 - the connection part.  Every instance owns its own HTTP client     *)
(* (guns/http: NewBaseGun builds one transport per gun, the engine builds  *)
(* one gun per instance), shoots sequentially, and the target keeps        *)
(* connections open.  The machine is the server's view (net/http           *)
(* ConnState: new, active, idle, closed) driven by the instances:          *)
(*                                                                         *)
(*   Dial(i)     instance i has a request to send and no pooled connection *)
(*   Send(i)     the request goes out on i's connection   (server: active) *)
(*   Respond(i)  the exchange is complete: with keep-alives the connection *)
(*               returns to i's pool (server: idle), with                  *)
(*               disable-keep-alives it is closed (server: closed)         *)
(*                                                                         *)
(* Property: with keep-alives an instance uses one connection for all its  *)
(* requests, so the target sees at most as many connections as there are   *)
(* instances; without, exactly one connection per request.                 *)
(*                                                                         *)
(*   Fail(i)     the exchange fails (e.g. the response headers do not      *)
(*               arrive within response-header-timeout): the client gives  *)
(*               the connection up; its next request needs a new one       *)
(*   Gap(i)      the instance idles between two shots, for less than the   *)
(*               configured idle-conn-timeout: nothing happens to its      *)
(*               pooled connection                                         *)
(*                                                                         *)
(* Negative controls: Reuse = FALSE, a client that silently drops its      *)
(* connection after every exchange although keep-alives are on;            *)
(* IdleDrop = TRUE, a client that drops its pooled connection during an    *)
(* idle gap shorter than idle-conn-timeout.                                *)
(***************************************************************************)
EXTENDS Naturals, FiniteSets

CONSTANTS Inst,      \* instance ids
          MaxReq,    \* requests per instance
          KAModes,   \* subset of BOOLEAN: keep-alive settings explored
          Reuse,     \* TRUE: the client pools its connection (the design)
          IdleDrop,  \* FALSE: an idle gap below idle-conn-timeout leaves the pooled connection alone (the design)
          MaxFail    \* failed exchanges per instance explored

VARIABLES ninst,     \* number of instances of this run
          ka,        \* keep-alives enabled for this run
          cs,        \* connection -> "new" | "active" | "idle" | "closed"   (connections are 1, 2, ...)
          own,       \* connection -> instance that sent on it (NoInst before the first request)
          nreq,      \* connection -> number of requests received on it
          pool,      \* instance -> its pooled connection, 0 if none
          busy,      \* instance -> connection with an exchange in flight, 0 if none
          sent,      \* instance -> requests sent so far
          fails      \* instance -> exchanges that failed so far
vars == <<ninst, ka, cs, own, nreq, pool, busy, sent, fails>>

NoInst == "-"
Conns == DOMAIN cs

Init == /\ ka \in KAModes /\ ninst = Cardinality(Inst)
        /\ cs = <<>> /\ own = <<>> /\ nreq = <<>>
        /\ pool = [i \in Inst |-> 0] /\ busy = [i \in Inst |-> 0] /\ sent = [i \in Inst |-> 0]
        /\ fails = [i \in Inst |-> 0]

Extend(f, c, v) == [x \in DOMAIN f \cup {c} |-> IF x = c THEN v ELSE f[x]]

\* ---- effects (shared with the trace specification, which binds i and c from the log) ----
DialEff(c) == /\ c \notin Conns
              /\ cs' = Extend(cs, c, "new") /\ own' = Extend(own, c, NoInst) /\ nreq' = Extend(nreq, c, 0)

ActiveEff(c) == c \in Conns /\ cs' = [cs EXCEPT ![c] = "active"]

FailEff(i) == fails' = [fails EXCEPT ![i] = @ + 1]

ReqEff(i, c) == /\ c \in Conns
                /\ own' = [own EXCEPT ![c] = IF @ = NoInst THEN i ELSE IF @ = i THEN i ELSE "shared"]
                /\ nreq' = [nreq EXCEPT ![c] = @ + 1]

IdleEff(c)   == c \in Conns /\ cs' = [cs EXCEPT ![c] = "idle"]
ClosedEff(c) == c \in Conns /\ cs' = [cs EXCEPT ![c] = "closed"]

\* ---- the design: who does what when ----
Dial(i) == /\ busy[i] = 0 /\ pool[i] = 0 /\ sent[i] < MaxReq
           /\ LET c == Cardinality(Conns) + 1
              IN  DialEff(c) /\ pool' = [pool EXCEPT ![i] = c]
           /\ UNCHANGED <<ninst, ka, busy, sent, fails>>

Send(i) == /\ busy[i] = 0 /\ pool[i] # 0 /\ sent[i] < MaxReq
           /\ LET c == pool[i]
              IN  /\ cs' = [cs EXCEPT ![c] = "active"]
                  /\ own' = [own EXCEPT ![c] = IF @ = NoInst THEN i ELSE IF @ = i THEN i ELSE "shared"]
                  /\ nreq' = [nreq EXCEPT ![c] = @ + 1]
                  /\ busy' = [busy EXCEPT ![i] = c]
           /\ pool' = [pool EXCEPT ![i] = 0]
           /\ sent' = [sent EXCEPT ![i] = @ + 1]
           /\ UNCHANGED <<ninst, ka, fails>>

Respond(i) == /\ busy[i] # 0
              /\ LET c == busy[i]
                 IN  IF ka /\ Reuse
                     THEN IdleEff(c) /\ pool' = [pool EXCEPT ![i] = c]
                     ELSE IF ka THEN IdleEff(c) /\ UNCHANGED pool      \* dropped by the client, still open at the target
                     ELSE ClosedEff(c) /\ UNCHANGED pool
              /\ busy' = [busy EXCEPT ![i] = 0]
              /\ UNCHANGED <<ninst, ka, own, nreq, sent, fails>>

Fail(i) == /\ busy[i] # 0 /\ fails[i] < MaxFail
           /\ ClosedEff(busy[i]) /\ FailEff(i)
           /\ busy' = [busy EXCEPT ![i] = 0]
           /\ UNCHANGED <<ninst, ka, own, nreq, pool, sent>>

Gap(i) == /\ busy[i] = 0 /\ pool[i] # 0
          /\ IF IdleDrop THEN ClosedEff(pool[i]) /\ pool' = [pool EXCEPT ![i] = 0]
                         ELSE UNCHANGED <<cs, pool>>
          /\ UNCHANGED <<ninst, ka, own, nreq, busy, sent, fails>>

Next == \E i \in Inst : Dial(i) \/ Send(i) \/ Respond(i) \/ Fail(i) \/ Gap(i)
Spec == Init /\ [][Next]_vars

\* ---- the property ----
TypeOK == /\ ka \in BOOLEAN
          /\ \A c \in Conns : cs[c] \in {"new", "active", "idle", "closed"}

RECURSIVE SumOver(_, _)
SumOver(f, S) == IF S = {} THEN 0 ELSE LET x == CHOOSE y \in S : TRUE IN f[x] + SumOver(f, S \ {x})
ConnsOf(i) == {c \in Conns : own[c] = i}

\* keep-alive: all requests of an instance travel on one connection - whatever the idle gaps below
\* idle-conn-timeout - except that a failed exchange costs the instance its connection ...
OneConnPerInstance == ka => \A i \in DOMAIN fails : Cardinality(ConnsOf(i)) <= 1 + fails[i]
\* ... so a target that keeps connections open sees no more connections than instances (+ failed exchanges)
ConnsBounded == ka => Cardinality(Conns) <= ninst + SumOver(fails, DOMAIN fails)
\* per-instance clients: a connection is never used by two instances
NotShared == \A c \in Conns : own[c] # "shared"
\* disable-keep-alives: one connection per request
OneConnPerRequest == ~ka => \A c \in Conns : nreq[c] <= 1
=============================================================================
