---------------------------- MODULE SampleCoding ----------------------------
(***************************************************************************)
(* C10 - sample result coding.                                             *)
(*                                                                         *)
(* Data part (functions):                                                  *)
(*   GrpcCode(st)        documented gRPC status -> HTTP-style code table   *)
(*                       (docs/eng/grpc-generator.md; guns/grpc/core.go    *)
(*                       ConvertGrpcStatus)                                *)
(*   HttpSample(o)       proto / net coding of an HTTP exchange outcome    *)
(*                       (guns/http/base.go Shoot, netsample getErrno)     *)
(*   Tags(t, at, elems)  ammo tag, auto-tag, __EMPTY__ (base.go autotag)   *)
(*   Expected(c)         the sequence of samples one shot of case c must   *)
(*                       report, as <<[tags, proto, net]>>                 *)
(*                                                                         *)
(* State part: OneSamplePerRequest.  An instance takes ammo (Acquire gives *)
(* it the next id), begins a shot, the gun reports samples to the          *)
(* aggregator, the shot ends:  ShootBegin -> Report* -> ShootEnd, where a  *)
(* plain gun reports exactly one sample and a scenario gun one per         *)
(* executed step (steps run in order until the first one whose exchange    *)
(* fails, inclusive).  Ids handed out by one provider are pairwise         *)
(* distinct whatever the interleaving of the acquiring instances.          *)
(*                                                                         *)
(* Variant: "spec", or a deliberately wrong variant (negative controls):   *)
(* "swap" (proto and net swapped), "grpc_internal" (Internal mapped like   *)
(* Unavailable), "double" (failed exchange reported twice), "double_post"  *)
(* (scenario step with a failing postprocessor reported twice), "id_local" *)
(* (id counter per instance), "depth_off" (auto-tag takes depth+1          *)
(* elements), "no_empty" (no __EMPTY__ tag), "stale_tag" (an untagged      *)
(* grpc/json entry is reported under the tag of the entry before it: the   *)
(* pooled ammo object decoded in place).                                   *)
(***************************************************************************)
EXTENDS Naturals, Sequences, FiniteSets, TLC

CONSTANTS Variant,
          Inst,        \* instances of the state machine
          MaxShots,    \* shots per instance
          Catalogue    \* cases the state machine picks from

Rng(s) == {s[i] : i \in DOMAIN s}
Min(a, b) == IF a < b THEN a ELSE b

-----------------------------------------------------------------------------
(* gRPC status code (numeric, as on the wire) -> reported proto code *)
GrpcCode(st) ==
    CASE st = 0  -> 200      \* OK
      [] st = 1  -> 499      \* Canceled
      [] st = 3  -> 400      \* InvalidArgument
      [] st = 4  -> 504      \* DeadlineExceeded
      [] st = 5  -> 404      \* NotFound
      [] st = 6  -> 409      \* AlreadyExists
      [] st = 7  -> 403      \* PermissionDenied
      [] st = 8  -> 429      \* ResourceExhausted
      [] st = 9  -> 400      \* FailedPrecondition
      [] st = 10 -> 409      \* Aborted
      [] st = 11 -> 400      \* OutOfRange
      [] st = 12 -> 501      \* Unimplemented
      [] st = 13 -> IF Variant = "grpc_internal" THEN 503 ELSE 500   \* Internal: "anything else"
      [] st = 14 -> 503      \* Unavailable
      [] st = 16 -> 401      \* Unauthenticated
      [] OTHER   -> 500      \* Unknown (2), DataLoss (15), codes outside the table

-----------------------------------------------------------------------------
(* HTTP exchange outcomes: o = [kind, status]                                                   *)
(*   "status"     a complete response with that status arrived                                  *)
(*   "truncated"  status line and headers arrived, the body broke off (connection closed)       *)
(*   "resetbody"  status line and headers arrived, the connection was reset in mid-body          *)
(*   "refused" | "reset" | "timeout"   no response                                              *)
ResponseArrived(o) == o.kind = "status"
HttpSample(o) ==
    LET proto == IF o.kind \in {"status", "truncated", "resetbody"} THEN o.status ELSE 0
        nz    == ResponseArrived(o)
    IN  IF Variant = "swap" THEN [proto |-> IF nz THEN 0 ELSE 999, netzero |-> proto = 0]
        ELSE [proto |-> proto, netzero |-> nz]

-----------------------------------------------------------------------------
(* Tags.  A URI path is "/" followed by its elements joined by "/": "/a/b/" has the elements   *)
(* <<"a", "b", "">>, "/" has <<"">> (or none).  The auto-tag is the path cut after its first    *)
(* `depth` elements.                                                                            *)
RECURSIVE Join(_)
Join(s) == IF s = <<>> THEN "" ELSE IF Len(s) = 1 THEN s[1] ELSE s[1] \o "/" \o Join(Tail(s))

PathOf(elems) == "/" \o Join(elems)
AutoTag(depth, elems) ==
    LET d == IF Variant = "depth_off" THEN depth + 1 ELSE depth
    IN  "/" \o Join(SubSeq(elems, 1, Min(d, Len(elems))))

\* at = [enabled, depth, notagonly]; the sample's tags in order (phout joins them with "|")
\* (nopath: the URI has no path at all - query only, or absolute-form without a path - so there is nothing to derive
\* an auto-tag from; the negative control "no_empty_auto" forgets __EMPTY__ whenever auto-tagging ran)
TagsP(ammoTag, at, elems, nopath) ==
    LET own  == IF ammoTag = "" THEN <<>> ELSE <<ammoTag>>
        runs == at.enabled /\ (~at.notagonly \/ ammoTag = "")
        auto == IF runs /\ ~nopath THEN <<AutoTag(at.depth, elems)>> ELSE <<>>
        t    == own \o auto
    IN  IF t = <<>> /\ Variant # "no_empty" /\ ~(Variant = "no_empty_auto" /\ runs) THEN <<"__EMPTY__">> ELSE t
Tags(ammoTag, at, elems) == TagsP(ammoTag, at, elems, FALSE)

NoAuto == [enabled |-> FALSE, depth |-> 2, notagonly |-> TRUE]

-----------------------------------------------------------------------------
(* Cases (what one shot is) and the samples it must report.                                     *)
(*   [kind |-> "http", out]                      plain http gun, untagged ammo, no auto-tag;    *)
(*                                               optional side = [answlog, trace]: the gun's    *)
(*                                               answer log / httptrace (dump + trace) are on - *)
(*                                               they only observe, the sample is the same      *)
(*   [kind |-> "tag", fmt, tag, at, elems, query, uri]   plain http gun against a 200 target    *)
(*   [kind |-> "grpc", status]                   grpc gun, ammo tagged "g", target answers status*)
(*   [kind |-> "grpcbad", what]                  grpc gun: unknown method / ill-typed payload   *)
(*   [kind |-> "grpcfail", what]                 grpc gun: nobody listens (Unavailable) / the    *)
(*                                               target never answers (DeadlineExceeded)         *)
(*   [kind |-> "invalid"]                        http gun handed an ammo flagged invalid (one   *)
(*                                               sample, __EMPTY__, proto 0; net not fixed)     *)
(*   [kind |-> "httpscn", name, steps]           http scenario gun;                             *)
(*                                               steps = <<[name, pre, out, post, sleep]>>      *)
(*   [kind |-> "grpcscn", name, steps]           grpc scenario gun;                             *)
(*                                               steps = <<[tag, pre, status, post, want]>>     *)
(*   [kind |-> "grpcfile", n, pattern]           ONE grpc/json file of n entries through ONE    *)
(*                                               provider (passes 1, continueonerror) and the   *)
(*                                               grpc gun, one instance: entry k is written as  *)
(*                                               pattern[((k-1) % Len(pattern)) + 1] says - a   *)
(*                                               tag, "" (the line has NO tag key), "!" (the    *)
(*                                               line is not JSON).  The provider decodes into  *)
(*                                               pooled ammo objects and has a queue of 128: a  *)
(*                                               file longer than that is shot with recycled    *)
(*                                               objects.  One sample per entry, in file order, *)
(*                                               tagged with THAT entry's tag.                  *)
(* A scenario step runs  preprocessor -> template -> exchange -> postprocessors (-> sleep):     *)
(*   pre  "none" | "ok" | "fail" (preprocessor refers to a missing variable) | "tmplfail"       *)
(*        (the request template cannot be rendered): with fail / tmplfail NO request is sent    *)
(*   out / status   what the target answers (http: exchange outcome, grpc: status code)         *)
(*   post "none" | "pass" | "assertfail" (assert/response not satisfied) | "extractfail"        *)
(*        (http: var/jsonpath on a non-JSON body; grpc: assert on a payload that is not there)  *)
(*   want (grpc) the code the step's status assert expects - GrpcCode(status) for "pass",       *)
(*        computed here so that the driver needs no table                                       *)
(* A step that fails - before, in, or after its exchange - ends the shot: the later steps are   *)
(* not executed and report nothing.  Every executed step reports exactly ONE sample.            *)
Failed(o) == ~ResponseArrived(o)
PreFails(st)  == st.pre \in {"fail", "tmplfail"}
PostFails(st) == st.post \in {"assertfail", "extractfail"}

HttpStepStops(st) == PreFails(st) \/ Failed(st.out) \/ PostFails(st)
GrpcStepStops(st) == PreFails(st) \/ PostFails(st)          \* a non-OK status alone does not stop a grpc scenario

\* steps executed by a scenario shot: up to and including the first step that fails
RECURSIVE ExecutedBy(_, _)
ExecutedBy(Stops(_), steps) == IF steps = <<>> THEN <<>>
                               ELSE IF Stops(Head(steps)) THEN <<Head(steps)>>
                               ELSE <<Head(steps)>> \o ExecutedBy(Stops, Tail(steps))
Executed(c) == IF c.kind = "httpscn" THEN ExecutedBy(HttpStepStops, c.steps) ELSE ExecutedBy(GrpcStepStops, c.steps)

\* net: "zero" | "nonzero" | "any" (the statement does not pin it)
Sample(tags, proto, net) == [tags |-> tags, proto |-> proto, net |-> net]
NetOf(zero) == IF zero THEN "zero" ELSE "nonzero"

\* the sample of one executed http scenario step
HttpStepSample(name, st) ==
    LET tags == <<name \o "." \o st.name>>
        s    == HttpSample(st.out)
    IN  IF PreFails(st)        THEN Sample(tags, 0, "any")              \* nothing was sent: no status
        ELSE IF Failed(st.out) THEN Sample(tags, s.proto, NetOf(s.netzero))
        ELSE IF PostFails(st)  THEN Sample(tags, s.proto, "any")        \* the status received; pandora marks the failed assert in net
        ELSE Sample(tags, s.proto, NetOf(s.netzero))
GrpcStepSample(name, st) ==
    LET tags == <<name \o "." \o st.tag>>
    IN  IF PreFails(st) THEN Sample(tags, 0, "zero") ELSE Sample(tags, GrpcCode(st.status), "zero")

\* entry k of a grpc/json file case, and its one sample: the entry's own tag / __EMPTY__ when it has none / an
\* undecodable line: nothing is sent, no status, no tag of its own
FileElem(c, k) == c.pattern[((k - 1) % Len(c.pattern)) + 1]
RECURSIVE PrevTag(_, _)
PrevTag(c, k) == IF k < 1 THEN "" ELSE IF FileElem(c, k) \notin {"", "!"} THEN FileElem(c, k) ELSE PrevTag(c, k - 1)
FileSample(c, k) ==
    LET e == FileElem(c, k)
        t == IF e = "" /\ Variant = "stale_tag" THEN PrevTag(c, k - 1) ELSE e
    IN  IF e = "!" THEN Sample(Tags("", NoAuto, <<>>), 0, "any") ELSE Sample(Tags(t, NoAuto, <<>>), 200, "zero")

Expected(c) ==
    CASE c.kind = "grpcfile" -> [k \in 1..c.n |-> FileSample(c, k)]
      [] c.kind = "http" ->
            LET s == HttpSample(c.out)
                one == <<Sample(Tags("", NoAuto, <<>>), s.proto, NetOf(s.netzero))>>
            IN  IF Variant = "double" /\ Failed(c.out) THEN one \o one ELSE one
      [] c.kind = "tag" ->
            <<Sample(TagsP(c.tag, c.at, c.elems, "nopath" \in DOMAIN c /\ c.nopath), 200, "zero")>>
      [] c.kind = "grpc" ->
            <<Sample(<<"g">>, GrpcCode(c.status), "zero")>>
      [] c.kind = "grpcfail" ->                     \* statuses produced by the client itself
            <<Sample(<<"g">>, GrpcCode(IF c.what = "refused" THEN 14 ELSE 4), "zero")>>
      [] c.kind = "invalid" ->                      \* nothing is sent: no status, no tag of its own
            <<Sample(Tags("", NoAuto, <<>>), 0, "any")>>
      [] c.kind = "httpscn" ->
            LET ex == Executed(c)
                one(k) == <<HttpStepSample(c.name, ex[k])>>
                \* negative control: a step whose postprocessor fails is reported by the step AND by its caller
                rep(k) == IF Variant = "double_post" /\ PostFails(ex[k]) /\ ~PreFails(ex[k]) /\ ~Failed(ex[k].out)
                          THEN one(k) \o one(k) ELSE one(k)
                RECURSIVE Cat(_)
                Cat(k) == IF k > Len(ex) THEN <<>> ELSE rep(k) \o Cat(k + 1)
            IN  Cat(1)
      [] c.kind = "grpcscn" ->
            LET ex == Executed(c)
            IN  [k \in 1..Len(ex) |-> GrpcStepSample(c.name, ex[k])]

\* the steps whose request must reach the target: the executed ones that got as far as sending (by label);
\* nothing of a step after the failed one, nothing of a step that failed before sending
SentSteps(c) == LET ex == Executed(c)
                IN  {IF c.kind = "httpscn" THEN ex[k].name ELSE ex[k].tag : k \in {j \in DOMAIN ex : ~PreFails(ex[j])}}

\* A scenario shot whose gun / instance context is cancelled while it runs - during a step's sleep, during an exchange,
\* between two steps: [kind |-> "scncancel", gun, name, steps <<labels>>, when].  Whatever ends the shot, and wherever:
\* the steps that were executed are a prefix s1..sp of the scenario, and each of them reported exactly ONE sample, in
\* order; the target saw requests of s1..s(p-1) at least and of nothing beyond sp.
IsCancel(c) == c.kind = "scncancel"
CancelTagsOK(c, rep) == /\ Len(rep) <= Len(c.steps)
                        /\ \A k \in DOMAIN rep : rep[k].tags # <<>> /\ rep[k].tags[1] = c.name \o "." \o c.steps[k]
CancelSentOK(c, p, seen) == /\ seen \subseteq {c.steps[k] : k \in 1..p}
                            /\ {c.steps[k] : k \in 1..(IF p > 0 THEN p - 1 ELSE 0)} \subseteq seen

\* cases for which the statement fixes the NUMBER of samples only
CountOnly(c) == c.kind = "grpcbad" \/ IsCancel(c)
ExpectedCount(c) == IF IsCancel(c) THEN Len(c.steps) ELSE IF CountOnly(c) THEN 1 ELSE IF c.kind = "grpcfile" THEN c.n ELSE Len(Expected(c))

(* Comparison of what the aggregator got (rep: <<[tags, proto, net]>>) with Expected(c).        *)
\* the first tag of a scenario sample names scenario and step; plain guns: the whole tag list
\* grpc/json file: the statement says __EMPTY__ for an entry without a tag; the grpc gun leaves the tag empty (design/C10.md:
\* recorded, not decided).  Decided here, one-sided: an untagged entry's sample carries NO tag of another entry
TagsMatch(c, got, want) == IF c.kind \in {"httpscn", "grpcscn"} THEN got # <<>> /\ got[1] = want[1]
                           ELSE IF c.kind = "grpcfile" THEN got = want \/ (want = <<"__EMPTY__">> /\ got \in {<<>>, <<"">>})
                           ELSE got = want
CountOK(c, rep) == IF IsCancel(c) THEN CancelTagsOK(c, rep) ELSE Len(rep) = ExpectedCount(c)
ProtoOK(c, rep) == CountOnly(c) \/ \A k \in DOMAIN rep : k \in DOMAIN Expected(c) => rep[k].proto = Expected(c)[k].proto
NetOK(c, rep)   == CountOnly(c) \/ \A k \in DOMAIN rep : k \in DOMAIN Expected(c) =>
                                       \/ Expected(c)[k].net = "any"
                                       \/ (rep[k].net = 0) = (Expected(c)[k].net = "zero")
TagOK(c, rep)   == CountOnly(c) \/ \A k \in DOMAIN rep : k \in DOMAIN Expected(c) => TagsMatch(c, rep[k].tags, Expected(c)[k].tags)

-----------------------------------------------------------------------------
(* OneSamplePerRequest and id allocation as a state machine. *)
VARIABLES ph,      \* instance -> "idle" | "armed" (holds ammo) | "shooting"
          cur,     \* instance -> the case of its current shot
          rep,     \* instance -> samples reported by the current / last shot
          shots,   \* instance -> shots finished
          myid,    \* instance -> id of the ammo it holds
          ctr,     \* the provider's id counter (per instance when Variant = "id_local")
          ids,     \* ids handed out so far, with multiplicity: id -> how often
          cancelled \* instance -> its context was cancelled during the current / last shot
vars == <<ph, cur, rep, shots, myid, ctr, ids, cancelled>>

NoCase == [kind |-> "none"]
Init == /\ ph = [i \in Inst |-> "idle"] /\ cur = [i \in Inst |-> NoCase] /\ rep = [i \in Inst |-> <<>>]
        /\ shots = [i \in Inst |-> 0] /\ myid = [i \in Inst |-> 0]
        /\ ctr = [i \in Inst |-> 0] /\ ids = <<>> /\ cancelled = [i \in Inst |-> FALSE]

Bump(f, k) == IF k \in DOMAIN f THEN [f EXCEPT ![k] = @ + 1] ELSE (k :> 1) @@ f

\* effects shared with the trace specification
AcquireEff(i, id) == /\ myid' = [myid EXCEPT ![i] = id]
                     /\ ids' = Bump(ids, id)
BeginEff(i, c)    == /\ ph' = [ph EXCEPT ![i] = "shooting"] /\ cur' = [cur EXCEPT ![i] = c]
                     /\ rep' = [rep EXCEPT ![i] = <<>>]
ReportEff(i, s)   == rep' = [rep EXCEPT ![i] = Append(@, s)]
EndEff(i)         == /\ ph' = [ph EXCEPT ![i] = "idle"] /\ shots' = [shots EXCEPT ![i] = @ + 1]

Acquire(i) == /\ ph[i] = "idle" /\ shots[i] < MaxShots
              /\ LET k == IF Variant = "id_local" THEN i ELSE CHOOSE x \in Inst : TRUE
                 IN  /\ ctr' = [ctr EXCEPT ![k] = @ + 1]
                     /\ AcquireEff(i, ctr[k] + 1)
              /\ ph' = [ph EXCEPT ![i] = "armed"]
              /\ UNCHANGED <<cur, rep, shots, cancelled>>

ShootBegin(i) == /\ ph[i] = "armed"
                 /\ \E c \in Catalogue : BeginEff(i, c)
                 /\ cancelled' = [cancelled EXCEPT ![i] = FALSE]
                 /\ UNCHANGED <<shots, myid, ctr, ids>>

\* the gun reports the next sample its case demands
Report(i) == /\ ph[i] = "shooting" /\ Len(rep[i]) < Len(Expected(cur[i]))
             /\ LET e == Expected(cur[i])[Len(rep[i]) + 1]
                IN  ReportEff(i, [tags |-> e.tags, proto |-> e.proto, net |-> IF e.net = "zero" THEN 0 ELSE 999])
             /\ UNCHANGED <<ph, cur, shots, myid, ctr, ids, cancelled>>

ShootEnd(i) == /\ ph[i] = "shooting" /\ Len(rep[i]) = Len(Expected(cur[i]))
               /\ EndEff(i)
               /\ UNCHANGED <<cur, rep, myid, ctr, ids, cancelled>>

\* the instance's context is cancelled while a scenario shot runs - during a step's sleep, an exchange, between steps
Cancel(i) == /\ ph[i] = "shooting" /\ ~cancelled[i] /\ cur[i].kind \in {"httpscn", "grpcscn"}
             /\ cancelled' = [cancelled EXCEPT ![i] = TRUE]
             /\ UNCHANGED <<ph, cur, rep, shots, myid, ctr, ids>>
\* ... which may end the shot after any step; the steps executed so far have reported, nothing else is reported
\* (negative control "double_cancel": the step that was interrupted in its sleep is reported once more)
EndEarly(i) == /\ ph[i] = "shooting" /\ cancelled[i]
               /\ EndEff(i)
               /\ IF Variant = "double_cancel" /\ rep[i] # <<>>
                  THEN rep' = [rep EXCEPT ![i] = Append(@, @[Len(@)])] ELSE rep' = rep
               /\ UNCHANGED <<cur, myid, ctr, ids, cancelled>>

Next == \E i \in Inst : Acquire(i) \/ ShootBegin(i) \/ Report(i) \/ ShootEnd(i) \/ Cancel(i) \/ EndEarly(i)
Spec == Init /\ [][Next]_vars

\* ---- properties ----
\* requests a shot of case c fires / steps it executes (scenario), independently of Expected
Fired(c) == IF c.kind \in {"httpscn", "grpcscn"} THEN Len(Executed(c)) ELSE IF c.kind = "grpcfile" THEN c.n ELSE 1

TypeOK == /\ \A i \in Inst : ph[i] \in {"idle", "armed", "shooting"}
          /\ \A i \in Inst : shots[i] \in 0..MaxShots

\* a finished shot reported exactly one sample per request it fired; a running one never more
OneSamplePerRequest ==
    \A i \in Inst : /\ (ph[i] = "idle" /\ cur[i] # NoCase /\ ~cancelled[i]) => Len(rep[i]) = Fired(cur[i])
                    \* a cancelled shot: the executed steps are a prefix, one sample each, in order
                    /\ (ph[i] = "idle" /\ cur[i] # NoCase /\ cancelled[i]) =>
                          /\ Len(rep[i]) <= Fired(cur[i])
                          /\ \A k \in DOMAIN rep[i] : rep[i][k].tags = Expected(cur[i])[k].tags
                    /\ ph[i] = "shooting" => Len(rep[i]) <= Fired(cur[i])

\* ids of one provider are pairwise distinct
IdsInjective == \A k \in DOMAIN ids : ids[k] = 1

\* proto is the status received (0 if none); net is 0 exactly when a response arrived
HttpCoding ==
    \A i \in Inst : cur[i].kind = "http" =>
        \A k \in DOMAIN rep[i] :
            /\ (rep[i][k].net = 0) <=> ResponseArrived(cur[i].out)
            /\ rep[i][k].proto = (IF cur[i].out.kind \in {"status", "truncated", "resetbody"} THEN cur[i].out.status ELSE 0)

\* the function agrees with the table of docs/eng/grpc-generator.md, row by row (status 0..16)
DocTable == <<200, 499, 500, 400, 504, 404, 409, 403, 429, 400, 409, 400, 501, 500, 503, 500, 401>>
\* (DOMAIN ph = Inst only makes the formula state-level, so that TLC reports it as an invariant violation)
GrpcTable == /\ DOMAIN ph = Inst
             /\ \A st \in 0..16 : GrpcCode(st) = DocTable[st + 1]
             /\ \A st \in {17, 99} : GrpcCode(st) = 500

\* a grpc/json file: every entry's sample is tagged with that entry's own tag, __EMPTY__ when it has none
FileTags == \A i \in Inst : cur[i].kind = "grpcfile" =>
               \A k \in DOMAIN rep[i] : rep[i][k].tags = (IF FileElem(cur[i], k) \in {"", "!"} THEN <<"__EMPTY__">> ELSE <<FileElem(cur[i], k)>>)

\* every sample carries a tag; the documented example of the auto-tag
TagNeverEmpty == \A i \in Inst : \A k \in DOMAIN rep[i] : rep[i][k].tags # <<>>
DocExample == /\ DOMAIN ph = Inst
              /\ AutoTag(2, <<"my", "very", "deep", "page">>) = "/my/very"
              /\ Tags("", [enabled |-> TRUE, depth |-> 2, notagonly |-> TRUE], <<"my", "very", "deep", "page">>) = <<"/my/very">>
              /\ Tags("t", [enabled |-> TRUE, depth |-> 1, notagonly |-> FALSE], <<"a", "">>) = <<"t", "/a">>
              /\ (Tags("", NoAuto, <<"a">>) = <<"__EMPTY__">> \/ Variant = "no_empty")
=============================================================================
