---------------------------- MODULE TraceLeftBig ----------------------------
(***************************************************************************)
(* C02 trace specification: Left() bookkeeping of profiles whose token     *)
(* totals do not fit 32 bits (and of ordinary ones), built by the REAL     *)
(* constructors and by config decoding.  Nothing is drained: the driver    *)
(* constructs the profile, reads Left(), starts it, draws a few tokens and *)
(* reads Left() after every draw (and after sleeping past a short          *)
(* unlimited part).  One NDJSON line per profile:                          *)
(*   tree : profile tree (ProfileTree.tla), via, err, tneg,                *)
(*   obs  : sequence of [draw, ok, t (instant since start, BigNat),        *)
(*                       neg, v (|Left()| as BigNat)]                      *)
(*          draw = FALSE: only Left() was read.                            *)
(* The contract (properties.jsonl C02): the reported number of tokens left *)
(* is exact whenever it is non-negative, zero only if no token remains,    *)
(* drops by one per token drawn, negative only while the total is          *)
(* genuinely unknown.  With B = the parts behind the last unlimited part   *)
(* (all PTs when there is none) and dB(i) = tokens handed out from B up  *)
(* to observation i (recognised by their instant: B starts exactly at the  *)
(* finish of the last unlimited part):                                     *)
(*   Known          v_i >= 0  =>  SumLo(B) <= v_i + dB(i) <= SumHi(B)      *)
(*   DropsByOne     v_i + dB(i) is the same number at every non-negative i *)
(*   NegOnlyUnknown v_i <  0  =>  an unlimited part exists, dB(i) = 0 and  *)
(*                                nobody has seen the end                  *)
(*   ZeroOnlyAtEnd  v_i = 0   =>  no later draw succeeds;  a failed draw   *)
(*                                => Left() = 0 from then on               *)
(* SumLo/SumHi differ only by the float rounding slack of ProfileMath      *)
(* (exact-integer boundaries); once(n) parts are exact.                    *)
(***************************************************************************)
EXTENDS ProfileTree, Json, IOUtils, TLC

VARIABLE l

Trace == ndJsonDeserialize(IOEnv.VERIF_TRACE)
Chunk == 4

Init == l = 0
Next == \/ l = 0 /\ l' \in {j \in 1..Len(Trace) : j % Chunk = 1}
        \/ l > 0 /\ l % Chunk # 0 /\ l < Len(Trace) /\ l' = l + 1

R     == Trace[IF l = 0 THEN 1 ELSE l]
PTs == Flatten(R.tree)
U     == LastUnl(PTs)
Off   == OffsetOf(PTs, U + 1)            \* where the parts behind the last unlimited part start
O     == R.obs
N     == Len(O)

FromBehind(j) == O[j].draw /\ O[j].ok /\ Geq(O[j].t, Off)
dB(i)    == Cardinality({j \in 1..i : FromBehind(j)})
Ended(i) == \E j \in 1..i : O[j].draw /\ ~O[j].ok
NonNeg   == {i \in 1..N : ~O[i].neg}
Plus(i)  == Add(O[i].v, FromInt(dB(i)))

Built          == l = 0 \/ (R.err = "" /\ ~R.tneg /\ N >= 2)
OracleOK       == l = 0 \/ R.err # "" \/ OracleOKParts(PTs)
Known          == l = 0 \/ R.err # "" \/
                  \A i \in NonNeg : /\ Leq(SumLo(PTs, U + 1), Plus(i))
                                    /\ Leq(Plus(i), SumHi(PTs, U + 1))
DropsByOne     == l = 0 \/ R.err # "" \/ \A i, j \in NonNeg : Plus(i) = Plus(j)
NegOnlyUnknown == l = 0 \/ R.err # "" \/
                  \A i \in 1..N : O[i].neg => U > 0 /\ dB(i) = 0 /\ ~Ended(i)
ZeroOnlyAtEnd  == l = 0 \/ R.err # "" \/
                  /\ \A i \in NonNeg : O[i].v = <<>> => \A j \in (i+1)..N : O[j].draw => ~O[j].ok
                  /\ \A i \in 1..N : O[i].draw /\ ~O[i].ok => ~O[i].neg /\ O[i].v = <<>>
=============================================================================
