--------------------------- MODULE PoolCountersPI ---------------------------
(***************************************************************************)
(* C03's conservation laws with PER-INSTANCE RPS profiles                  *)
(* (rps-per-instance: every instance draws from a schedule of its own) and *)
(* discard_overflow, for ANY number of instances, tokens and ammo items:   *)
(* the companion of PoolCounters.tla (one shared profile).  Checked with   *)
(* Apalache as an INDUCTIVE invariant, N, TT, A unconstrained naturals:    *)
(*    Init => IndInv,   IndInv /\ Next => IndInv',   IndInv => Accounting  *)
(*                                                                         *)
(* Counter abstraction.  An instance is at one point of instance.Run and   *)
(* its own profile either still has tokens (class P) or has none (class Z);*)
(* the state counts the instances per (point, class) and keeps the SUM of  *)
(* the tokens left in all profiles (tokSum; TT = the sum at the start,     *)
(* i.e. created x tokens of one profile).  Only the owner draws from a     *)
(* profile, so a draw takes one token from tokSum and the owner stays in P *)
(* or moves to Z; both are allowed whenever they are consistent with       *)
(* "every P instance owns at least one token, Z instances own none"        *)
(* (tokSum >= P, P = 0 => tokSum = 0), which every concrete draw is: the   *)
(* abstraction over-approximates the instance loop of Pool.tla.            *)
(*   cChkP/Z  at `for !waiter.IsFinished(ctx)`   cAcq   before Acquire (P) *)
(*   cWait    holding ammo, before waiter.Wait (P: Left() > 0 was seen and *)
(*            nobody else draws from this profile)                         *)
(*   cTokP/Z  holding ammo + token     cShootP/Z in gun.Shoot              *)
(*   cRelP/Z  before the deferred Release (after a shot or a discard)      *)
(*   e0 (Z)   loop left with Left() = 0       eA (P) out of ammo           *)
(* TLC checks the same module on small constants (PoolCountersPI_tlc.cfg). *)
(***************************************************************************)
EXTENDS Integers

CONSTANTS
  \* @type: Int;
  N,
  \* @type: Int;
  TT,
  \* @type: Int;
  A

VARIABLES
  \* @type: Int;
  tokSum,
  \* @type: Int;
  ammoLeft,
  \* @type: Int;
  cChkP,
  \* @type: Int;
  cChkZ,
  \* @type: Int;
  cAcq,
  \* @type: Int;
  cWait,
  \* @type: Int;
  cTokP,
  \* @type: Int;
  cTokZ,
  \* @type: Int;
  cShootP,
  \* @type: Int;
  cShootZ,
  \* @type: Int;
  cRelP,
  \* @type: Int;
  cRelZ,
  \* @type: Int;
  e0,
  \* @type: Int;
  eA,
  \* @type: Int;
  fired,
  \* @type: Int;
  discarded,
  \* @type: Int;
  released,
  \* @type: Int;
  acquired

\* @type: <<Int, Int, Int, Int, Int, Int, Int, Int, Int, Int, Int, Int, Int, Int, Int, Int, Int, Int>>;
vars == <<tokSum, ammoLeft, cChkP, cChkZ, cAcq, cWait, cTokP, cTokZ, cShootP, cShootZ, cRelP, cRelZ, e0, eA, fired, discarded, released, acquired>>

\* TT = N x (tokens of one profile): 0, or at least one token per instance
CInit == N \in Nat /\ TT \in Nat /\ A \in Nat /\ (TT = 0 \/ TT >= N)

\* instances whose own profile still has tokens
P == cChkP + cAcq + cWait + cTokP + cShootP + cRelP + eA

Init == /\ tokSum = TT /\ ammoLeft = A
        /\ cChkP = (IF TT > 0 THEN N ELSE 0) /\ cChkZ = (IF TT > 0 THEN 0 ELSE N)
        /\ cAcq = 0 /\ cWait = 0 /\ cTokP = 0 /\ cTokZ = 0 /\ cShootP = 0 /\ cShootZ = 0 /\ cRelP = 0 /\ cRelZ = 0
        /\ e0 = 0 /\ eA = 0 /\ fired = 0 /\ discarded = 0 /\ released = 0 /\ acquired = 0

\* IsFinished: the instance's OWN profile answers Left() = 0 -> its loop ends
CheckEnd == /\ cChkZ > 0
            /\ cChkZ' = cChkZ - 1 /\ e0' = e0 + 1
            /\ UNCHANGED <<tokSum, ammoLeft, cChkP, cAcq, cWait, cTokP, cTokZ, cShootP, cShootZ, cRelP, cRelZ, eA, fired, discarded, released, acquired>>
CheckGo == /\ cChkP > 0
           /\ cChkP' = cChkP - 1 /\ cAcq' = cAcq + 1
           /\ UNCHANGED <<tokSum, ammoLeft, cChkZ, cWait, cTokP, cTokZ, cShootP, cShootZ, cRelP, cRelZ, e0, eA, fired, discarded, released, acquired>>
AcquireOk == /\ cAcq > 0 /\ ammoLeft > 0
             /\ ammoLeft' = ammoLeft - 1 /\ acquired' = acquired + 1 /\ cAcq' = cAcq - 1 /\ cWait' = cWait + 1
             /\ UNCHANGED <<tokSum, cChkP, cChkZ, cTokP, cTokZ, cShootP, cShootZ, cRelP, cRelZ, e0, eA, fired, discarded, released>>
AcquireNone == /\ cAcq > 0 /\ ammoLeft = 0
               /\ cAcq' = cAcq - 1 /\ eA' = eA + 1
               /\ UNCHANGED <<tokSum, ammoLeft, cChkP, cChkZ, cWait, cTokP, cTokZ, cShootP, cShootZ, cRelP, cRelZ, e0, fired, discarded, released, acquired>>
\* waiter.Wait: the instance draws a token of its own profile (nobody else can), which still has tokens afterwards ...
DrawStay == /\ cWait > 0 /\ tokSum - 1 >= P
            /\ tokSum' = tokSum - 1 /\ cWait' = cWait - 1 /\ cTokP' = cTokP + 1
            /\ UNCHANGED <<ammoLeft, cChkP, cChkZ, cAcq, cTokZ, cShootP, cShootZ, cRelP, cRelZ, e0, eA, fired, discarded, released, acquired>>
\* ... or it was its last one
DrawLast == /\ cWait > 0 /\ tokSum >= 1 /\ (P - 1 = 0 => tokSum - 1 = 0)
            /\ tokSum' = tokSum - 1 /\ cWait' = cWait - 1 /\ cTokZ' = cTokZ + 1
            /\ UNCHANGED <<ammoLeft, cChkP, cChkZ, cAcq, cTokP, cShootP, cShootZ, cRelP, cRelZ, e0, eA, fired, discarded, released, acquired>>
ShootP == /\ cTokP > 0
          /\ cTokP' = cTokP - 1 /\ cShootP' = cShootP + 1
          /\ UNCHANGED <<tokSum, ammoLeft, cChkP, cChkZ, cAcq, cWait, cTokZ, cShootZ, cRelP, cRelZ, e0, eA, fired, discarded, released, acquired>>
DiscardShotP == /\ cTokP > 0
                /\ cTokP' = cTokP - 1 /\ cRelP' = cRelP + 1 /\ discarded' = discarded + 1
                /\ UNCHANGED <<tokSum, ammoLeft, cChkP, cChkZ, cAcq, cWait, cTokZ, cShootP, cShootZ, cRelZ, e0, eA, fired, released, acquired>>
ShootEndP == /\ cShootP > 0
             /\ cShootP' = cShootP - 1 /\ cRelP' = cRelP + 1 /\ fired' = fired + 1
             /\ UNCHANGED <<tokSum, ammoLeft, cChkP, cChkZ, cAcq, cWait, cTokP, cTokZ, cShootZ, cRelZ, e0, eA, discarded, released, acquired>>
ReleaseP == /\ cRelP > 0
            /\ cRelP' = cRelP - 1 /\ cChkP' = cChkP + 1 /\ released' = released + 1
            /\ UNCHANGED <<tokSum, ammoLeft, cChkZ, cAcq, cWait, cTokP, cTokZ, cShootP, cShootZ, cRelZ, e0, eA, fired, discarded, acquired>>
ShootZ == /\ cTokZ > 0
          /\ cTokZ' = cTokZ - 1 /\ cShootZ' = cShootZ + 1
          /\ UNCHANGED <<tokSum, ammoLeft, cChkP, cChkZ, cAcq, cWait, cTokP, cShootP, cRelP, cRelZ, e0, eA, fired, discarded, released, acquired>>
DiscardShotZ == /\ cTokZ > 0
                /\ cTokZ' = cTokZ - 1 /\ cRelZ' = cRelZ + 1 /\ discarded' = discarded + 1
                /\ UNCHANGED <<tokSum, ammoLeft, cChkP, cChkZ, cAcq, cWait, cTokP, cShootP, cShootZ, cRelP, e0, eA, fired, released, acquired>>
ShootEndZ == /\ cShootZ > 0
             /\ cShootZ' = cShootZ - 1 /\ cRelZ' = cRelZ + 1 /\ fired' = fired + 1
             /\ UNCHANGED <<tokSum, ammoLeft, cChkP, cChkZ, cAcq, cWait, cTokP, cTokZ, cShootP, cRelP, e0, eA, discarded, released, acquired>>
ReleaseZ == /\ cRelZ > 0
            /\ cRelZ' = cRelZ - 1 /\ cChkZ' = cChkZ + 1 /\ released' = released + 1
            /\ UNCHANGED <<tokSum, ammoLeft, cChkP, cAcq, cWait, cTokP, cTokZ, cShootP, cShootZ, cRelP, e0, eA, fired, discarded, acquired>>

Next == CheckEnd \/ CheckGo \/ AcquireOk \/ AcquireNone \/ DrawStay \/ DrawLast \/ ShootP \/ DiscardShotP \/ ShootEndP \/ ReleaseP \/ ShootZ \/ DiscardShotZ \/ ShootEndZ \/ ReleaseZ

Spec == Init /\ [][Next]_vars

----------------------------------------------------------------------------
NonNeg == /\ tokSum >= 0 /\ ammoLeft >= 0 /\ cChkP >= 0 /\ cChkZ >= 0 /\ cAcq >= 0 /\ cWait >= 0 /\ cTokP >= 0 /\ cTokZ >= 0
          /\ cShootP >= 0 /\ cShootZ >= 0 /\ cRelP >= 0 /\ cRelZ >= 0 /\ e0 >= 0 /\ eA >= 0
          /\ fired >= 0 /\ discarded >= 0 /\ released >= 0 /\ acquired >= 0
          /\ N >= 0 /\ TT >= 0 /\ A >= 0

Held == cWait + cTokP + cTokZ + cShootP + cShootZ + cRelP + cRelZ

\* the inductive invariant
IndInv ==
  /\ NonNeg
  \* every instance is at exactly one point of the loop
  /\ cChkP + cChkZ + cAcq + cWait + cTokP + cTokZ + cShootP + cShootZ + cRelP + cRelZ + e0 + eA = N
  \* every token of every profile is in exactly one place: still in its schedule, held, in a shot, or spent
  /\ tokSum + cTokP + cTokZ + cShootP + cShootZ + fired + discarded = TT
  \* every item: still with the provider, or acquired; an acquired one is held or released
  /\ ammoLeft + acquired = A
  /\ acquired = released + Held
  \* an acquired item always gets a token (no missed draw): the per-instance form of UnfiredBound = 0
  /\ acquired = fired + discarded + cWait + cTokP + cTokZ + cShootP + cShootZ
  \* P instances own at least one token each, Z instances none
  /\ tokSum >= P /\ (P = 0 => tokSum = 0)
  /\ (eA > 0 => ammoLeft = 0)

IndInit == /\ tokSum \in Int /\ ammoLeft \in Int /\ cChkP \in Int /\ cChkZ \in Int /\ cAcq \in Int /\ cWait \in Int /\ cTokP \in Int /\ cTokZ \in Int /\ cShootP \in Int /\ cShootZ \in Int /\ cRelP \in Int /\ cRelZ \in Int /\ e0 \in Int /\ eA \in Int /\ fired \in Int /\ discarded \in Int /\ released \in Int /\ acquired \in Int
           /\ IndInv

\* what C03 states at a normal end (tokens = created x tokens of one profile = TT)
Done == e0 + eA = N
MinTA == IF TT <= A THEN TT ELSE A
Accounting == Done /\ N >= 1 => /\ fired + discarded = MinTA
                                /\ released = acquired
                                /\ acquired - fired - discarded = 0

\* negative control (non-vacuity): token and item conservation alone are inductive too, but do NOT imply the law
IndInvWeak == /\ NonNeg
              /\ tokSum + cTokP + cTokZ + cShootP + cShootZ + fired + discarded = TT
              /\ ammoLeft + acquired = A
IndInitWeak == /\ tokSum \in Int /\ ammoLeft \in Int /\ cChkP \in Int /\ cChkZ \in Int /\ cAcq \in Int /\ cWait \in Int /\ cTokP \in Int /\ cTokZ \in Int /\ cShootP \in Int /\ cShootZ \in Int /\ cRelP \in Int /\ cRelZ \in Int /\ e0 \in Int /\ eA \in Int /\ fired \in Int /\ discarded \in Int /\ released \in Int /\ acquired \in Int
               /\ IndInvWeak
=============================================================================
