------------------------------ MODULE GrpcJson ------------------------------
(***************************************************************************)
(* C20 -- "the request message equals the entry's JSON payload interpreted *)
(* against the method's input type obtained by reflection".                *)
(*                                                                         *)
(* This module IS that interpretation (the proto3 JSON mapping), as a      *)
(* function from an abstract written payload to the message the server     *)
(* must decode -- or to "rejected": the payload does not fit the input     *)
(* type, the call is never sent and the entry gets its one failed sample.  *)
(*                                                                         *)
(* A written JSON value W is                                               *)
(*   Num(v) Str(v) Bool(v)   a number / string / boolean literal of the    *)
(*                           VALUE v (an identifier: the renderer owns the *)
(*                           table id -> literal text, id -> canonical     *)
(*                           text; the properties of a value that matter   *)
(*                           for the mapping are stated HERE)              *)
(*   Null  Obj(<<[n, w]>>)  Arr(<<w>>)                                     *)
(* The decoded message is a set of LEAVES [p, v]: p the path in .proto     *)
(* field names ("item.item_id", "nums[0]", "Code200.5"), v the value, "{}" *)
(* for a present message without content.                                  *)
(*                                                                         *)
(* The rules (proto3 JSON mapping, only the part both protojson and the    *)
(* codec pandora uses agree on -- see design/C20.md for what is left out): *)
(*  - a member is named by the .proto field name or its lowerCamel JSON    *)
(*    name; an unknown name rejects the payload                            *)
(*  - null = the field is absent (google.protobuf.Value: the null value)   *)
(*  - 32/64-bit integers: a number or a string literal, exact, in range;   *)
(*    out of range, a fraction, another literal class: rejected            *)
(*  - double: number or string literal, "NaN" / "Infinity"                 *)
(*  - bool: true / false only; string: string literals only                *)
(*  - enum: value name (exact case) or number; an unknown NAME is          *)
(*    rejected, an unknown NUMBER is kept                                  *)
(*  - bytes: standard base64 with padding                                  *)
(*  - message: an object; {} = present without content                     *)
(*  - repeated: an array, elements in order, default elements kept;        *)
(*    [] = absent                                                          *)
(*  - map: an object, keys parsed as the key type, default values kept;    *)
(*    {} = absent                                                          *)
(*  - a plain scalar written with its default value is absent (proto3);    *)
(*    a oneof member, a wrapper, an element, a map value keeps it          *)
(*  - Timestamp / Duration: RFC 3339 / "<seconds>s" strings; wrappers: the *)
(*    bare value; Struct / Value: any JSON                                 *)
(*                                                                         *)
(* Negative controls (CONSTANTS, FALSE for the real design):               *)
(*   ViaFloat      number literals travel through a float64 before they    *)
(*                 are interpreted: integers beyond 2^53 arrive rounded    *)
(*   KeepDefaults  default-valued plain scalars are treated as set         *)
(***************************************************************************)
EXTENDS Integers, Sequences, FiniteSets, TLC

CONSTANTS ViaFloat, KeepDefaults

Rng(s) == {s[i] : i \in DOMAIN s}

(***************************** written values ******************************)
W(k, v, m, e) == [k |-> k, v |-> v, m |-> m, e |-> e]
Num(v)  == W("num", v, <<>>, <<>>)
Str(v)  == W("str", v, <<>>, <<>>)
Bool(v) == W("bool", v, <<>>, <<>>)
Null    == W("null", "", <<>>, <<>>)
Obj(m)  == W("obj", "", m, <<>>)
Arr(e)  == W("arr", "", <<>>, e)
Mem(n, w) == [n |-> n, w |-> w]

(****************************** the values *********************************)
\* integers: sign and magnitude in bits (|v| < 2^bits)
IntInfo == [i0    |-> [neg |-> FALSE, bits |-> 0],      \* 0
            i1    |-> [neg |-> FALSE, bits |-> 6],      \* 42
            ineg  |-> [neg |-> TRUE,  bits |-> 3],      \* -7
            i31   |-> [neg |-> FALSE, bits |-> 31],     \* 2147483647
            i32   |-> [neg |-> FALSE, bits |-> 32],     \* 4294967295
            i33   |-> [neg |-> FALSE, bits |-> 33],     \* 4294967296
            i53   |-> [neg |-> FALSE, bits |-> 54],     \* 9007199254740993 = 2^53 + 1
            in53  |-> [neg |-> TRUE,  bits |-> 54],     \* -9007199254740993
            i57   |-> [neg |-> FALSE, bits |-> 57],     \* 123456789012345678
            i63   |-> [neg |-> FALSE, bits |-> 63],     \* 9223372036854775807
            i64   |-> [neg |-> FALSE, bits |-> 64],     \* 9223372036854775808
            u64   |-> [neg |-> FALSE, bits |-> 64],     \* 18446744073709551615
            i65   |-> [neg |-> FALSE, bits |-> 65]]     \* 18446744073709551616
IntIds == DOMAIN IntInfo
IntTypes == {"int32", "uint32", "int64", "uint64"}
Fits(v, T) == LET x == IntInfo[v] IN
              CASE T = "int32"  -> x.bits <= 31
                [] T = "uint32" -> ~x.neg /\ x.bits <= 32
                [] T = "int64"  -> x.bits <= 63
                [] T = "uint64" -> ~x.neg /\ x.bits <= 64
\* exactly representable as a double and printed back as the same text
DblInts  == {"i0", "i1", "ineg", "i31"}
FracIds  == {"f15"}                                      \* 1.5
DblWords == {"fNaN", "fInf"}                             \* "NaN", "Infinity" (string literals only)
TextIds  == {"s0", "s1", "sU", "sabc"}                  \* "", plain, unicode + escapes, "abc"
KnownEnum == {"eZERO", "eRED", "eGREEN"}                \* COLOR_UNSPECIFIED = 0, RED = 1, GREEN = 2
EnumNums  == KnownEnum \cup {"e7"}                       \* e7: the number 7, no such value
\* ePURPLE: a name the enum does not have; ered: "red" (wrong case)
B64Ids   == {"s0", "b1"}                                 \* "", "aGVsbG8/" ; bbad: "!!!"
TsIds    == {"tsZ", "tsOff"}                             \* "2024-01-02T03:04:05Z", "2024-01-02T03:04:05.5+01:00" ; tsBad: "yesterday"
DurIds   == {"d15", "dneg"}                              \* "1.5s", "-3s" ; dBad: "soon"

(****************************** the schema *********************************)
\* card: one | oneof | rep | map ; t: scalar class | "msg" | "json" ; mt: message type ; kt: map key class
F(n, jn, card, t, mt, kt) == [n |-> n, jn |-> jn, card |-> card, t |-> t, mt |-> mt, kt |-> kt]
S(n, jn, t) == F(n, jn, "one", t, "", "")
Msgs == [
  \* the example service (examples/grpc/server/proto/target.proto)
  HelloRequest |-> <<S("name", "name", "string")>>,
  AuthRequest  |-> <<S("login", "login", "string"), S("pass", "pass", "string")>>,
  ListRequest  |-> <<S("token", "token", "string"), S("user_id", "userId", "int64")>>,
  OrderRequest |-> <<S("token", "token", "string"), S("user_id", "userId", "int64"), S("item_id", "itemId", "int64")>>,
  ListItem     |-> <<S("item_id", "itemId", "int64")>>,
  ListResponse |-> <<F("result", "result", "rep", "msg", "ListItem", "")>>,
  StatisticBodyResponse |-> <<F("Code200", "Code200", "map", "uint64", "", "int64"), S("Code400", "Code400", "uint64"), S("Code500", "Code500", "uint64")>>,
  StatsResponse |-> <<F("Auth", "Auth", "one", "msg", "StatisticBodyResponse", ""), F("List", "List", "one", "msg", "StatisticBodyResponse", ""),
                      F("Order", "Order", "one", "msg", "StatisticBodyResponse", ""), S("Hello", "Hello", "int64")>>,
  \* verif.Rich (harness/internal/grpctarget/rich.go): one field per remaining mapping class
  Rich |-> <<S("s", "s", "string"), S("i64", "i64", "int64"), S("u64", "u64", "uint64"), S("i32", "i32", "int32"), S("u32", "u32", "uint32"),
             S("b", "b", "bool"), S("d", "d", "double"), S("e", "e", "enum"), S("raw", "raw", "bytes"),
             F("item", "item", "one", "msg", "ListItem", ""), F("nums", "nums", "rep", "int64", "", ""),
             F("items", "items", "rep", "msg", "ListItem", ""), F("labels", "labels", "map", "msg", "ListItem", "string"),
             F("o_s", "oS", "oneof", "string", "", ""), F("o_i", "oI", "oneof", "int64", "", ""), F("o_m", "oM", "oneof", "msg", "ListItem", ""),
             S("ts", "ts", "timestamp"), S("dur", "dur", "duration"), S("w64", "w64", "wrap64"), S("ws", "ws", "wrapstr"),
             F("st", "st", "one", "json", "struct", ""), F("val", "val", "one", "json", "value", ""),
             F("es", "es", "rep", "enum", "", ""), F("stats", "stats", "one", "msg", "StatisticBodyResponse", ""),
             S("snake_case", "snakeCase", "string")>>]
HasField(M, n) == \E i \in DOMAIN Msgs[M] : Msgs[M][i].n = n \/ Msgs[M][i].jn = n
FieldOf(M, n) == Msgs[M][CHOOSE i \in DOMAIN Msgs[M] : Msgs[M][i].n = n \/ Msgs[M][i].jn = n]

(***************************** interpretation ******************************)
Leaf(p, v) == [p |-> p, v |-> v]
OkL(L) == [ok |-> TRUE, leaves |-> L]
RejL   == [ok |-> FALSE, leaves |-> {}]
Path(p, n) == IF p = "" THEN n ELSE p \o "." \o n
Idx(p, i)  == p \o "[" \o ToString(i) \o "]"

Absent == [ok |-> TRUE, val |-> ""]
SetV(v) == [ok |-> TRUE, val |-> v]
Rej == [ok |-> FALSE, val |-> ""]
\* a default value is absent unless the position tracks presence (oneof member, wrapper, element, map value)
Z(pres, isZero, v) == IF isZero /\ ~pres /\ ~KeepDefaults THEN Absent ELSE SetV(v)
\* (negative control) a number literal of an integer beyond 2^53 arrives as another number
Exact(w) == ~(ViaFloat /\ w.k = "num" /\ w.v \in IntIds /\ IntInfo[w.v].bits > 53)

DecScalar(T, w, pres) ==
    CASE T = "string" -> IF w.k = "str" /\ w.v \in TextIds THEN Z(pres, w.v = "s0", w.v) ELSE Rej
      [] T \in IntTypes -> IF w.k \in {"num", "str"} /\ w.v \in IntIds /\ Fits(w.v, T)
                           THEN (IF Exact(w) THEN Z(pres, w.v = "i0", w.v) ELSE SetV("rounded")) ELSE Rej
      [] T = "wrap64" -> IF w.k \in {"num", "str"} /\ w.v \in IntIds /\ Fits(w.v, "int64")
                         THEN (IF Exact(w) THEN SetV(w.v) ELSE SetV("rounded")) ELSE Rej
      [] T = "bool" -> IF w.k = "bool" THEN Z(pres, w.v = "false", w.v) ELSE Rej
      [] T = "double" -> IF w.k \in {"num", "str"} /\ w.v \in DblInts \cup FracIds THEN Z(pres, w.v = "i0", w.v)
                         ELSE IF w.k = "str" /\ w.v \in DblWords THEN SetV(w.v) ELSE Rej
      [] T = "enum" -> IF (w.k = "str" /\ w.v \in KnownEnum) \/ (w.k = "num" /\ w.v \in EnumNums)
                       THEN Z(pres, w.v = "eZERO", w.v) ELSE Rej
      [] T = "bytes" -> IF w.k = "str" /\ w.v \in B64Ids THEN Z(pres, w.v = "s0", w.v) ELSE Rej
      [] T = "timestamp" -> IF w.k = "str" /\ w.v \in TsIds THEN SetV(w.v) ELSE Rej
      [] T = "duration" -> IF w.k = "str" /\ w.v \in DurIds THEN SetV(w.v) ELSE Rej
      [] T = "wrapstr" -> IF w.k = "str" /\ w.v \in TextIds THEN SetV(w.v) ELSE Rej
      [] OTHER -> Rej

RECURSIVE DecJson(_, _)
\* google.protobuf.Struct / Value: any JSON, kept as written
DecJson(w, p) ==
    CASE w.k \in {"num", "str", "bool"} -> OkL({Leaf(p, w.v)})
      [] w.k = "null" -> OkL({Leaf(p, "null")})
      [] w.k = "obj" -> IF w.m = <<>> THEN OkL({Leaf(p, "{}")})
                        ELSE OkL(UNION {DecJson(w.m[i].w, Path(p, w.m[i].n)).leaves : i \in DOMAIN w.m})
      [] w.k = "arr" -> IF w.e = <<>> THEN OkL({Leaf(p, "[]")})
                        ELSE OkL(UNION {DecJson(w.e[i], Idx(p, i - 1)).leaves : i \in DOMAIN w.e})

All(rs) == IF \E i \in DOMAIN rs : ~rs[i].ok THEN RejL ELSE OkL(UNION {rs[i].leaves : i \in DOMAIN rs})

RECURSIVE DecMsg(_, _, _), DecOne(_, _, _, _), DecField(_, _, _)
\* a message written as the object w
DecMsg(M, w, p) ==
    All([i \in DOMAIN w.m |-> IF HasField(M, w.m[i].n)
                              THEN DecField(FieldOf(M, w.m[i].n), w.m[i].w, Path(p, FieldOf(M, w.m[i].n).n))
                              ELSE RejL])
\* one value of field type (t, mt) at path p
DecOne(f, w, p, pres) ==
    CASE f.t = "msg" -> IF w.k # "obj" THEN RejL
                        ELSE LET r == DecMsg(f.mt, w, p) IN
                             IF ~r.ok THEN RejL ELSE IF r.leaves = {} THEN OkL({Leaf(p, "{}")}) ELSE r
      [] f.t = "json" -> IF f.mt = "struct" /\ w.k # "obj" THEN RejL ELSE DecJson(w, p)
      [] OTHER -> LET r == DecScalar(f.t, w, pres) IN
                  IF ~r.ok THEN RejL ELSE IF r.val = "" THEN OkL({}) ELSE OkL({Leaf(p, r.val)})
\* map keys are written as member names, i.e. as TEXT (that text is also the path element): the integers among them
KeyInt == ("5" :> "i1") @@ ("6" :> "i1") @@ ("-7" :> "ineg") @@ ("9223372036854775808" :> "i64")     \* text -> an integer of its size class
KeyOk(kt, n) == kt = "string" \/ (n \in DOMAIN KeyInt /\ Fits(KeyInt[n], kt))
DecField(f, w, p) ==
    IF w.k = "null" THEN (IF f.t = "json" /\ f.mt = "value" THEN OkL({Leaf(p, "null")}) ELSE OkL({}))
    ELSE CASE f.card = "one"   -> DecOne(f, w, p, f.t \in {"wrap64", "wrapstr", "timestamp", "duration"})
           [] f.card = "oneof" -> DecOne(f, w, p, TRUE)
           [] f.card = "rep"   -> IF w.k # "arr" THEN RejL
                                  ELSE All([i \in DOMAIN w.e |-> DecOne(f, w.e[i], Idx(p, i - 1), TRUE)])
           [] f.card = "map"   -> IF w.k # "obj" THEN RejL
                                  ELSE All([i \in DOMAIN w.m |-> IF KeyOk(f.kt, w.m[i].n)
                                                                 THEN DecOne(f, w.m[i].w, Path(p, w.m[i].n), TRUE) ELSE RejL])

\* the entry whose payload is w, shot at a method with input type M: is the call sent, and what does the server decode
Expect(M, w) == IF w.k # "obj" THEN RejL ELSE DecMsg(M, w, "")
=============================================================================
