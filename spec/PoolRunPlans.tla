---------------------------- MODULE PoolRunPlans ----------------------------
(* Prints the fault-plan catalogue for the conformance driver (one JSON object per plan); *)
(* TLC then explores the smallest plan, which takes a second.                             *)
EXTENDS PoolRunMC
CONSTANT ExportPlans
ASSUME \A pl \in ExportPlans : PrintT(<<"VERIF", ToJson(pl)>>)
=============================================================================
