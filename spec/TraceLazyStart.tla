--------------------------- MODULE TraceLazyStart ---------------------------
(***************************************************************************)
(* C02, lazy start of a doAt schedule under contention (M1).               *)
(* Schedule.tla's LeafLazy says: a leaf that was never Start()ed starts at *)
(* the instant of the first Next(), atomically - every caller, however     *)
(* close behind the first one, computes from that ONE start instant.  A    *)
(* once(n) profile therefore hands out n tokens that all carry the same    *)
(* instant, reports that same instant as its finish time to every later    *)
(* call, and the instant was read during the trial.  One trace line per    *)
(* batch of trials (G goroutines released together on a fresh schedule).   *)
(***************************************************************************)
EXTENDS Integers, Sequences, Json, IOUtils, TLC

VARIABLE l
Trace == ndJsonDeserialize(IOEnv.VERIF_TRACE)
Chunk == 4
Init == l = 0
Next == \/ l = 0 /\ l' \in {j \in 1..Len(Trace) : j % Chunk = 1}
        \/ l > 0 /\ l % Chunk # 0 /\ l < Len(Trace) /\ l' = l + 1
B == Trace[IF l = 0 THEN 1 ELSE l]

IsOnce == B.kind = "once"
\* every token of the profile was handed out exactly once; every goroutine saw the end exactly once
AllTokensOnce   == l = 0 \/ ~IsOnce \/ \A i \in 1..Len(B.trials) : B.trials[i].ok = B.n /\ B.trials[i].end = B.g
\* a drained limited schedule reports exactly 0 left (never negative: its length is known), however its last
\* token was fought over
LeftZeroAfterDrain == l = 0 \/ ~IsOnce \/ \A i \in 1..Len(B.trials) : B.trials[i].leftend = 0
\* all tokens and all finish times of a once(n) profile are ONE instant
OneStartInstant == l = 0 \/ ~IsOnce \/ \A i \in 1..Len(B.trials) : B.trials[i].dist = 1
\* an unlimited(1 h) part that nobody started: every Next() gets a token (the hour is not over), and every Left(),
\* however close to the first Next(), is negative - LeafLeft(unl) = -1 while ~startd \/ now < fin; never 0
UnlNeverFinished == l = 0 \/ IsOnce \/ \A i \in 1..Len(B.trials) :
                        /\ B.trials[i].end = 0 /\ B.trials[i].ok = B.g \div 2
                        /\ B.trials[i].leftneg = B.trials[i].leftall
\* ... which was taken while the trial ran (not the zero time, not a stale or future reading)
StartedInTrial  == l = 0 \/ \A i \in 1..Len(B.trials) : ~B.trials[i].loneg /\ ~B.trials[i].hineg
=============================================================================
