------------------------------- MODULE Engine -------------------------------
(***************************************************************************)
(* The engine above the pools (C05, growth): several pools in one engine.  *)
(*                                                                         *)
(* Engine.Run (core/engine/engine.go) is modelled statement by statement   *)
(* as in PoolRun.tla - one goroutine per pool (pool.Run, then the two-way  *)
(* select "runRes <- result / ctx.Done"), the main loop over the 1-buffered*)
(* runRes channel with its nested "ctx done -> ctx.Err()" select, the      *)
(* deferred cancel(), Engine.Wait on the WaitGroup.  The POOLS are         *)
(* abstracted to the contract that PoolRun.tla establishes for one pool    *)
(* (assume/guarantee: PoolRun checks it with the engine part for <= 2      *)
(* pools; here 2-3 pools run against it):                                  *)
(*   - a pool has background tasks: provider Run, aggregator Run, the      *)
(*     instance starter, running instances;                                *)
(*   - nothing of a "long" pool (schedule/ammo outlast the run) stops      *)
(*     unless the pool's ctx is done; finite pools may stop by themselves; *)
(*   - pool.Run returns nil only after all background tasks ended and      *)
(*     onWaitDone was called; an error only if the plan makes a component  *)
(*     of that pool fail; ctx.Err() only if the ctx it was given is done;  *)
(*     a failing pool may still return nil/ctx when its ctx was done first *)
(*     (error suppressed because nobody listens);                          *)
(*   - onWaitDone is called exactly once, after every background task of   *)
(*     the pool ended (or at once when the pool fails before starting any).*)
(* Every cancel is two steps (decided/logged, then effective), as in       *)
(* PoolRun.tla.                                                            *)
(***************************************************************************)
EXTENDS Integers, Sequences, FiniteSets, TLC

CONSTANTS Plans,          \* set of engine plans [id, pools : Seq of pool plans (field kind, n, cause), cancel]
          FixEngCancel,   \* FALSE: pools run on the caller's ctx (negative control)
          FixEngSelect,   \* FALSE: Run's loop has no `case <-ctx.Done()`, a cancel is noticed only when a pool result arrives (negative control)
          FixReportSelect,\* FALSE: the pool goroutine sends its result without the ctx.Done alternative (negative control)
          FixFirst,       \* FALSE: Run keeps collecting and returns the LAST error (negative control)
          FixWait         \* FALSE: only the first pool is registered in the WaitGroup (negative control)

VARIABLES plan, cancelReq, userCancel, engDefer, cancelAtRet, engI, engRet, engCh, waitRet,
          recvd,     \* ghost: results received by Run's main loop, in order
          lastErr,   \* (negative control FixFirst = FALSE only)
          pst,       \* [pool -> init|run|ret|report|done]
          pret,      \* [pool -> [k, c]] what pool.Run returned
          on,        \* [pool -> BOOLEAN] the pool's background tasks were started (runAsync)
          bg,        \* [pool -> number of background tasks still running: provider Run, aggregator Run, instances]
          toStart,   \* [pool -> instances the starter may still start]
          wd         \* [pool -> number of onWaitDone calls]

vars == <<plan, cancelReq, userCancel, engDefer, cancelAtRet, engI, engRet, engCh, waitRet, recvd, lastErr,
          pst, pret, on, bg, toStart, wd>>
engVars == <<cancelReq, userCancel, engDefer, cancelAtRet, engI, engRet, engCh, waitRet, recvd, lastErr>>
poolVars == <<pst, pret, on, bg, toStart, wd>>

NP == Len(plan.pools)
Pools == 1..NP
PP(p) == plan.pools[p]
Kind(p) == PP(p).kind          \* ok | slow | long | fail | failsync
Ret(k, c) == [k |-> k, c |-> c]
ERet(k, p, c) == [k |-> k, p |-> p, c |-> c]

EngineCtxDone == userCancel \/ engDefer
PoolParentDone == userCancel \/ (FixEngCancel /\ engDefer)        \* the ctx handed to pool.Run
PoolCtxDone(p) == PoolParentDone \/ pst[p] \in {"report", "done"} \* + deferred cancel of instancePool.Run

InitFor(pl) ==
  /\ plan = pl
  /\ cancelReq = FALSE /\ userCancel = FALSE /\ engDefer = FALSE /\ cancelAtRet = FALSE
  /\ engI = 0 /\ engRet = ERet("none", 0, "") /\ engCh = <<>> /\ waitRet = FALSE /\ recvd = <<>>
  /\ lastErr = ERet("none", 0, "")
  /\ pst = [p \in 1..Len(pl.pools) |-> "init"]
  /\ pret = [p \in 1..Len(pl.pools) |-> Ret("none", "")]
  /\ on = [p \in 1..Len(pl.pools) |-> FALSE]
  /\ bg = [p \in 1..Len(pl.pools) |-> 0]
  /\ toStart = [p \in 1..Len(pl.pools) |-> 0]
  /\ wd = [p \in 1..Len(pl.pools) |-> 0]
Init == \E pl \in Plans : InitFor(pl)

(* ---- pool ids ---------------------------------------------------------------------------------- *)
\* `id:` of a pool section is a free-form string and nothing makes it unique: a copy-pasted section, or an explicit
\* id equal to the default `pool_<index>` generated for a pool without one.  Plan field dupid: "none" (distinct
\* ids), "same" (every pool carries the same explicit id), "default" (pool 1 is called `pool_1`, which is also what
\* pool 2, written without an id, gets).  Run's loop COUNTS the results it has received (one per pool goroutine);
\* the ids take no part in it.  PendingById (definition, overridden only by the negative control
\* cfg/Engine_neg_pendingbyid.cfg): the wrong variant that keeps a SET of pending ids and stops when it is empty.
PendingById == FALSE
PId(p) == IF plan.dupid = "none" THEN p ELSE 0
AllAwaited(n, rs) == IF PendingById
                     THEN {PId(p) : p \in Pools} \ {PId(rs[j].p) : j \in 1..Len(rs)} = {}
                     ELSE n = NP

(* ---- Engine.Run, the caller, Engine.Wait (as in PoolRun.tla) -------------------------------- *)
EngRecv ==
  /\ engRet.k = "none" /\ Len(engCh) > 0
  /\ LET r == Head(engCh) IN
       /\ engCh' = Tail(engCh)
       /\ recvd' = Append(recvd, r)
       /\ IF r.ret.k # "nil"
          THEN IF FixFirst
               THEN /\ engRet' = IF userCancel THEN ERet("ctx", 0, "") ELSE ERet("err", r.p, r.ret.c)
                    /\ UNCHANGED <<engI, lastErr>>
               ELSE \* wrong variant: remember the error, go on, return the last one at the end
                    /\ engI' = engI + 1
                    /\ lastErr' = ERet("err", r.p, r.ret.c)
                    /\ engRet' = IF engI + 1 = NP THEN ERet("err", r.p, r.ret.c) ELSE engRet
          ELSE /\ engI' = engI + 1
               /\ engRet' = IF AllAwaited(engI + 1, Append(recvd, r))
                            THEN (IF lastErr.k = "none" THEN ERet("nil", 0, "") ELSE lastErr) ELSE engRet
               /\ UNCHANGED lastErr
  /\ cancelAtRet' = IF engRet'.k # "none" THEN userCancel ELSE cancelAtRet
  /\ UNCHANGED <<plan, cancelReq, userCancel, engDefer, waitRet, poolVars>>

EngCancel ==
  /\ FixEngSelect
  /\ engRet.k = "none" /\ userCancel
  /\ engRet' = ERet("ctx", 0, "") /\ cancelAtRet' = TRUE
  /\ UNCHANGED <<plan, cancelReq, userCancel, engDefer, engI, engCh, waitRet, recvd, lastErr, poolVars>>

EngDefer ==
  /\ engRet.k # "none" /\ ~engDefer /\ engDefer' = TRUE
  /\ UNCHANGED <<plan, cancelReq, userCancel, cancelAtRet, engI, engRet, engCh, waitRet, recvd, lastErr, poolVars>>

EngStep == EngRecv \/ EngCancel \/ EngDefer

UserCancel ==
  /\ plan.cancel /\ ~cancelReq /\ engRet.k = "none" /\ cancelReq' = TRUE
  /\ UNCHANGED <<plan, userCancel, engDefer, cancelAtRet, engI, engRet, engCh, waitRet, recvd, lastErr, poolVars>>
UserCancelDo ==
  /\ cancelReq /\ ~userCancel /\ userCancel' = TRUE
  /\ UNCHANGED <<plan, cancelReq, engDefer, cancelAtRet, engI, engRet, engCh, waitRet, recvd, lastErr, poolVars>>

Registered(p) == FixWait \/ p = 1
WaitReturn ==
  /\ engRet.k # "none" /\ ~waitRet
  /\ \A p \in Pools : Registered(p) => wd[p] > 0
  /\ waitRet' = TRUE
  /\ UNCHANGED <<plan, cancelReq, userCancel, engDefer, cancelAtRet, engI, engRet, engCh, recvd, lastErr, poolVars>>

(* ---- a pool, by contract ---------------------------------------------------------------------- *)
BgDone(p) == bg[p] = 0 /\ toStart[p] = 0
MayStop(p) == Kind(p) # "long" \/ PoolCtxDone(p)

\* instancePool.Run up to the start of its background tasks (provider Run, aggregator Run, instance starter); a pool of
\* kind failsync fails before (warm-up, shared schedule): onWaitDone at once, error returned whatever the ctx
\* plan field block: a context-unaware, slow call in the synchronous part (gun factory / WarmUp / shared schedule
\* factory) returns only after Engine.Run has returned (see PoolRun.tla)
PoolStart(p) ==
  /\ pst[p] = "init" /\ (PP(p).block # "none" => engRet.k # "none")
  /\ IF Kind(p) = "failsync"
     THEN /\ pst' = [pst EXCEPT ![p] = "ret"] /\ pret' = [pret EXCEPT ![p] = Ret("err", PP(p).cause)]
          /\ wd' = [wd EXCEPT ![p] = @ + 1] /\ UNCHANGED <<on, bg, toStart>>
     ELSE /\ pst' = [pst EXCEPT ![p] = "run"] /\ on' = [on EXCEPT ![p] = TRUE]
          /\ bg' = [bg EXCEPT ![p] = 2] /\ toStart' = [toStart EXCEPT ![p] = PP(p).n]
          /\ UNCHANGED <<pret, wd>>
  /\ UNCHANGED <<plan, engVars>>

\* the starter starts one more instance / gives up (start ctx done, creation failure)
InstStart(p) ==
  /\ toStart[p] > 0
  /\ toStart' = [toStart EXCEPT ![p] = @ - 1] /\ bg' = [bg EXCEPT ![p] = @ + 1]
  /\ UNCHANGED <<plan, engVars, pst, pret, on, wd>>
StartEnd(p) ==
  /\ toStart[p] > 0 /\ toStart' = [toStart EXCEPT ![p] = 0]
  /\ UNCHANGED <<plan, engVars, pst, pret, on, bg, wd>>
\* a provider Run / aggregator Run returns, an instance stops
BgStop(p) ==
  /\ bg[p] > 0 /\ MayStop(p) /\ bg' = [bg EXCEPT ![p] = @ - 1]
  /\ UNCHANGED <<plan, engVars, pst, pret, on, toStart, wd>>

\* the await goroutine has received all four results: close(awaitErr); onWaitDone()
AwaitExit(p) ==
  /\ on[p] /\ BgDone(p) /\ wd[p] = 0
  \* a failing pool's await goroutine is parked in onErrAwaited until Run took the error or the pool ctx is done
  /\ Kind(p) = "fail" => (pst[p] # "run" \/ PoolParentDone)
  /\ wd' = [wd EXCEPT ![p] = 1]
  /\ UNCHANGED <<plan, engVars, pst, pret, on, bg, toStart>>

\* the final select of instancePool.Run
PoolRet(p, r) ==
  /\ pst[p] = "run"
  /\ \/ r = Ret("nil", "") /\ wd[p] = 1 /\ (Kind(p) # "fail" \/ PoolParentDone)
     \/ r = Ret("err", PP(p).cause) /\ Kind(p) = "fail" /\ wd[p] = 0
     \/ r = Ret("ctx", "") /\ PoolParentDone
  /\ pret' = [pret EXCEPT ![p] = r] /\ pst' = [pst EXCEPT ![p] = "ret"]
  /\ UNCHANGED <<plan, engVars, on, bg, toStart, wd>>

PoolDefer(p) ==
  /\ pst[p] = "ret" /\ pst' = [pst EXCEPT ![p] = "report"]
  /\ UNCHANGED <<plan, engVars, pret, on, bg, toStart, wd>>
PoolReportSend(p) ==
  /\ pst[p] = "report" /\ Len(engCh) < 1
  /\ engCh' = Append(engCh, [p |-> p, ret |-> pret[p]])
  /\ pst' = [pst EXCEPT ![p] = "done"]
  /\ UNCHANGED <<plan, cancelReq, userCancel, engDefer, cancelAtRet, engI, engRet, waitRet, recvd, lastErr,
                 pret, on, bg, toStart, wd>>
PoolReportSuppress(p) ==
  /\ FixReportSelect /\ pst[p] = "report" /\ EngineCtxDone
  /\ pst' = [pst EXCEPT ![p] = "done"]
  /\ UNCHANGED <<plan, engVars, pret, on, bg, toStart, wd>>

PoolGo(p) == PoolStart(p) \/ (\E k \in {"nil", "ctx"} : PoolRet(p, Ret(k, ""))) \/ PoolRet(p, Ret("err", PP(p).cause))
             \/ PoolDefer(p) \/ PoolReportSend(p) \/ PoolReportSuppress(p)
PoolBg(p) == InstStart(p) \/ StartEnd(p) \/ BgStop(p) \/ AwaitExit(p)

AllStopped == \A p \in Pools : pst[p] = "done" /\ BgDone(p) /\ wd[p] = 1
Terminated == engRet.k # "none" /\ engDefer /\ (cancelReq => userCancel) /\ waitRet /\ AllStopped
Done == Terminated /\ UNCHANGED vars

Next == EngStep \/ UserCancel \/ UserCancelDo \/ WaitReturn \/ (\E p \in Pools : PoolGo(p) \/ PoolBg(p)) \/ Done
Spec == Init /\ [][Next]_vars
PoolIds == UNION {1..Len(pl.pools) : pl \in Plans}
FairSpec == Spec /\ WF_vars(EngStep) /\ WF_vars(WaitReturn) /\ WF_vars(UserCancelDo)
                 /\ \A p \in PoolIds : WF_vars(p \in Pools /\ PoolGo(p)) /\ WF_vars(p \in Pools /\ PoolBg(p))

(* ---- properties --------------------------------------------------------------------------------- *)
\* Run returns the FIRST pool error its loop receives (all results before it were nil), nil only when every pool
\* returned nil, ctx.Err() only when the caller cancelled
FirstError == engRet.k = "err" =>
                /\ Len(recvd) > 0 /\ recvd[Len(recvd)] = [p |-> engRet.p, ret |-> Ret("err", engRet.c)]
                /\ \A j \in 1..(Len(recvd) - 1) : recvd[j].ret.k = "nil"
                /\ pret[engRet.p] = Ret("err", engRet.c) /\ ~cancelAtRet
AllNil == engRet.k = "nil" => Len(recvd) = NP /\ \A p \in Pools : pret[p].k = "nil"
CtxOnlyIfCancelled == engRet.k = "ctx" => cancelAtRet
\* a failing pool's error is lost only to the caller's own cancel or because Run has already returned
NoFailureHidden == \A p \in Pools : (Kind(p) = "failsync" /\ pst[p] # "init") => pret[p].k = "err"
CancelPrompt == (userCancel /\ engRet.k = "none") => ENABLED EngStep
\* once Run has returned (for any reason) and its deferred cancel has run, every pool's ctx is done
StopAfterReturn == engDefer => \A p \in Pools : PoolCtxDone(p)
\* Wait returns only after every pool's instances have stopped and every provider / aggregator Run has returned
WaitAfterAll == waitRet => \A p \in Pools : wd[p] = 1 /\ BgDone(p)
WaitDoneOnce == \A p \in Pools : wd[p] <= 1
\* liveness
\* only Engine.Run's own goroutine is scheduled: a cancelled Run returns without anyone else's help
EngFairSpec == Spec /\ WF_vars(EngStep)
CancelPromptLive == userCancel ~> (engRet.k # "none")
RunReturns == <>(engRet.k # "none")
Termination == (engRet.k # "none") ~> Terminated
=============================================================================
