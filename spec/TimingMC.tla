------------------------------ MODULE TimingMC ------------------------------
(* Model-checking instance of Timing: constant sets and the script export (M2). *)
EXTENDS Timing, Json

R4      == {0, 5, 25, 35}          \* responses: instant, fast, > 2 s, > 2 s + widest gap
R025    == {0, 25}
R0812   == {0, 8, 12}              \* about a second: a burst falls behind by accumulation
G135    == {1, 3, 5}
G1235   == {1, 2, 3, 5}
G0135   == {0, 1, 3, 5}
G15     == {1, 5}
G1_30   == {1, 30}
G1230   == {1, 2, 30}
G1530   == {1, 5, 30}
G0230   == {0, 2, 30}              \* equal-time bursts (gap 0), a little spacing, pauses
G013530 == {0, 1, 3, 5, 30}
One     == {1}
OneTwo  == {1, 2}
Three   == {3}
Both    == {TRUE, FALSE}
OnlyOn  == {TRUE}
AllPcs  == {"idle", "loop", "next", "cmp", "arm", "sleep", "decide", "shooting", "done"}
AtCmp   == {"cmp"}
L036    == {0, 3, 6}
S0      == {0}
S0730   == {0, 7, 30}
S030    == {0, 30}
S0412   == {0, 4, 12}

\* script export: at the end of a walk print the whole decision history (one line per walk)
Export == AllDone => PrintT(<<"VERIF", ToJson([disc |-> disc, ninst |-> ninst, fin |-> now, hist |-> hist, startAt |-> startAt])>>)
=============================================================================
