--------------------------- MODULE TracePoolSched ---------------------------
(***************************************************************************)
(* Binding of PoolSched.tla (Pool x Schedule x Waiter grain) to the real   *)
(* engine: runs of `vdrive pool -focus c03sched` (real engine.Engine, real *)
(* two-part compositeSchedule [once(n1), once(n2)] / [once(n), unlimited]  *)
(* / [unlimited, once(n)] shared by 1..4 instances).                       *)
(*                                                                         *)
(* The mocks log the RESULT of every Left() / Next() call (the wrapper     *)
(* serialises the calls, so a call's internal steps are not interleaved    *)
(* with another call's).  A logged entry is the RETURN step of the call in *)
(* PoolSched (L_Ret with the logged answer; N_Ret / N_Lock with the logged *)
(* ok); the steps inside the call (RLock, child call, shift under the      *)
(* write lock, retry), the Waiter's due/sleep/wake steps and the passing   *)
(* of the unlimited part's finish instant are SILENT steps of the instance *)
(* the next entry belongs to.  The trace is accepted iff some behaviour of *)
(* PoolSched consumes every line (high-water mark + POSTCONDITION); every  *)
(* invariant of PoolSched is evaluated on every state on the way.          *)
(***************************************************************************)
EXTENDS PoolSched, Json, IOUtils

VARIABLES l, fin

Trace == ndJsonDeserialize(IOEnv.VERIF_TRACE)
Ev == Trace[l]
I  == Ev.inst + 1
IsInst == I \in Inst
Mark == TLCSet(1, IF TLCGet(1) > l + 1 THEN TLCGet(1) ELSE l + 1)
Unbounded == 1000000

Empty == <<[kind |-> "doat", n |-> 0], [kind |-> "doat", n |-> 0]>>

TInit == /\ l = 1 /\ fin = FALSE /\ TLCSet(1, 1)
         /\ tree = Empty /\ a = 0
         /\ head = 1 /\ cnt = [k \in 1..2 |-> 0]
         /\ unlStarted = FALSE /\ unlDone = FALSE /\ unlDrawn = 0 /\ cstarted = FALSE /\ readers = {}
         /\ given = 0 /\ rel = <<>>
         /\ pc = [i \in Inst |-> "none"] /\ held = [i \in Inst |-> 0]
         /\ seen = [i \in Inst |-> 0] /\ lft = [i \in Inst |-> 0] /\ laf = [i \in Inst |-> 0]
         /\ ok = [i \in Inst |-> FALSE] /\ why = [i \in Inst |-> ""]
         /\ fired = 0 /\ discarded = 0 /\ drawn = 0 /\ panicked = FALSE /\ zeroBad = FALSE

Consume == l' = l + 1 /\ Mark
Stay    == l' = l

C_Conf == /\ Ev.ev = "conf" /\ fin' = FALSE
          /\ tree' = <<[kind |-> Ev.tree[1].kind, n |-> Ev.tree[1].n], [kind |-> Ev.tree[2].kind, n |-> Ev.tree[2].n]>>
          /\ a' = IF Ev.a < 0 THEN Unbounded ELSE Ev.a
          /\ head' = 1 /\ cnt' = [k \in 1..2 |-> 0]
          /\ unlStarted' = FALSE /\ unlDone' = FALSE /\ unlDrawn' = 0 /\ cstarted' = FALSE /\ readers' = {}
          /\ given' = 0 /\ rel' = <<>>
          /\ pc' = [i \in Inst |-> "none"] /\ held' = [i \in Inst |-> 0]
          /\ seen' = [i \in Inst |-> 0] /\ lft' = [i \in Inst |-> 0] /\ laf' = [i \in Inst |-> 0]
          /\ ok' = [i \in Inst |-> FALSE] /\ why' = [i \in Inst |-> ""]
          /\ fired' = 0 /\ discarded' = 0 /\ drawn' = 0 /\ panicked' = FALSE /\ zeroBad' = FALSE

Live == ~fin

C_Bind == /\ Ev.ev = "bind" /\ Live /\ IsInst /\ pc[I] = "none"
          /\ pc' = [pc EXCEPT ![I] = "check"]
          /\ UNCHANGED <<tree, a, schedVars, given, rel, held, callVars, why, fired, discarded, ghosts, fin>>
\* entries PoolSched has no step for
C_Skip == /\ Ev.ev \in {"snext", "rep"} /\ Live /\ UNCHANGED <<vars, fin>>
C_Close == /\ Ev.ev = "close" /\ Live /\ IsInst /\ pc[I] = "ended" /\ UNCHANGED <<vars, fin>>

C_Left == /\ Ev.ev = "left" /\ Live /\ IsInst
          /\ L_Ret(I) /\ LeftAnswer(I) = Ev.n            \* the answer the real composite gave
          /\ UNCHANGED fin
C_Acq == /\ Ev.ev = "acq" /\ Live /\ IsInst
         /\ Acquire(I) /\ held'[I] = Ev.item
         /\ UNCHANGED fin
C_Next == /\ Ev.ev = "next" /\ Live /\ IsInst
          /\ (N_Ret(I) \/ N_Lock(I))
          /\ pc'[I] = IF Ev.ok THEN "w_cmp" ELSE "release"
          /\ UNCHANGED fin
C_ShootB == /\ Ev.ev = "shoot_b" /\ Live /\ IsInst /\ Fire(I) /\ held[I] = Ev.item /\ UNCHANGED fin
C_ShootE == /\ Ev.ev = "shoot_e" /\ Live /\ IsInst /\ ShootEnd(I) /\ held[I] = Ev.item /\ UNCHANGED fin
C_Discard == /\ Ev.ev = "discard" /\ Live /\ IsInst /\ DiscardShot(I) /\ UNCHANGED fin
C_Rel == /\ Ev.ev = "rel" /\ Live /\ IsInst /\ Release(I) /\ held[I] = Ev.item /\ UNCHANGED fin
C_End == /\ Ev.ev = "end" /\ Live /\ Ev.err = ""
         /\ Ev.request = fired /\ Ev.response = fired
         /\ fin' = TRUE /\ UNCHANGED vars

\* steps inside the call / the Waiter of the instance the next entry belongs to
Silent ==
  /\ l <= Len(Trace) /\ Live /\ Stay /\ UNCHANGED fin
  /\ \/ Ev.ev = "left" /\ IsInst /\ (\/ L_RLock(I) \/ L_Child(I) \/ L_Lock(I)
                                     \/ (L_Ret(I) /\ LeftAnswer(I) = -2))
     \/ Ev.ev = "next" /\ IsInst /\ (\/ N_RLock(I) \/ N_Child(I)
                                     \/ (N_Ret(I) /\ pc'[I] = "n_lock")
                                     \/ (N_Lock(I) /\ pc'[I] = "wait"))
     \/ Ev.ev \in {"shoot_b", "discard"} /\ IsInst /\ (W_Due(I) \/ W_Sleep(I) \/ W_Wake(I))
     \/ Ev.ev \in {"left", "next"} /\ TimePasses

\* (the high-water mark is advanced only after the entry's step was found enabled)
TNext == \/ l <= Len(Trace) /\ (\/ C_Conf \/ C_Bind \/ C_Skip \/ C_Close \/ C_Left \/ C_Acq \/ C_Next
                                \/ C_ShootB \/ C_ShootE \/ C_Discard \/ C_Rel \/ C_End) /\ Consume
         \/ Silent

Accepted == PrintT(<<"VERIF-HWM", TLCGet(1)>>) /\ TLCGet(1) = Len(Trace) + 1

\* end of a run: every instance that was created has ended, and C03's accounting holds
BoundAll == {i \in Inst : pc[i] # "none"}
EndAccounting == fin => /\ \A i \in BoundAll : pc[i] = "ended"
                        /\ fired + discarded = drawn
                        /\ BoundAll # {} => (IF Finite THEN drawn = Min(Total, a) ELSE drawn >= Min(Total, a))
                        /\ \A x \in 1..given : rel[x] = 1
                        /\ Unfired >= 0 /\ Unfired <= (IF Finite THEN Max(Cardinality(BoundAll) - 1, 0) ELSE Cardinality(BoundAll))
=============================================================================
