------------------------------ MODULE Responses ------------------------------
(***************************************************************************)
(* C19 - no response from the target can abort or crash the run.           *)
(*                                                                         *)
(* The response alphabet (what a peer can do to one request), the gun      *)
(* kinds, the configured postprocessors, and the OUTCOME function: the     *)
(* sample(s) every ammo must yield.  Around it a small model of the        *)
(* instance loop of core/engine/instance.go:                               *)
(*     Acquire -> Shoot (per step: Send, peer answers with a letter,       *)
(*     postprocess, Report) -> next ammo                                   *)
(* with `recover()` turning a panic inside Shoot into the failure of the   *)
(* whole pool.  RespCanPanic = TRUE is the negative control: response-     *)
(* derived data used unchecked (var/header substr on a short value).       *)
(***************************************************************************)
EXTENDS Integers, Sequences, FiniteSets, TLC

CONSTANTS NInst, NAmmo, Guns, RespCanPanic

\* ---------------------------------------------------------------- alphabet
\* status letters carry a JSON body {"tok": ...} and a long X-Tok header, unless the status forbids a body
StatusCodes == {200, 201, 204, 299, 301, 304, 400, 404, 418, 429, 500, 503, 599}
NoBody(code) == code \in {204, 304}
StatusLetter(code) == [l |-> "status", code |-> code]
Plain(l) == [l |-> l, code |-> 200]

\* TLS handshake level (TLS guns: http with ssl, http2, http2/scenario; the target DOES speak HTTP/2): a fatal alert from
\* the peer (internal_error), the peer hanging up after the ClientHello, a reset after the peer's certificate flight,
\* a peer that never answers the ClientHello.  The first three hit a SHARE of the handshakes of a run (every response
\* closes its connection, so handshakes happen throughout the run); the other requests of the run get a plain 200.
TlsShare    == {"tlsalert", "tlsclose", "tlsreset"}
TlsLetters  == TlsShare \cup {"tlstimeout"}
\* AVAILABILITY histories: the target is up, goes away during the run (its connections are reset / it black-holes new
\* ones / nothing listens on its port) and comes back, while instances are still being started.  A request that meets
\* the target while it is away fails like a transport failure; the others are answered with a plain 200 / OK.
AvailLetters == {"avreset", "avhole", "avrefused"}
ShareLetters == TlsShare \cup AvailLetters
\* the connect gun's TUNNEL: the CONNECT is not answered (connection closed) / answered 407 / with bytes that are no status
\* line / with 200 and bytes behind it - no request gets through, every shot is a transport failure
TunnelLetters == {"tunrefused", "tun407", "tungarbage", "tunextra"}
\* "many1xx": more interim 1xx responses than the client puts up with
\* HTTP/2 frame level (the http2 guns against a frame-level target): GOAWAY and the connection closed, RST_STREAM instead
\* of a response, a DATA frame on stream 0, a header block that is not HPACK - no response; "h2rstmid" (below): HEADERS 200
\* and a part of the body, then RST_STREAM; "h2flood" (below): thousands of SETTINGS and PING frames, then a good response
H2NetLetters == {"h2goaway", "h2rst", "h2badframe", "h2hpackbad"}
\* the ANNOUNCED length of the body is a number chosen by the peer.  "cl2p62" / "clmax64": Content-Length 2^62 / 2^63-1 (the
\* largest the client's int64 holds), 25 bytes of body, then the peer hangs up: status and headers arrive, the body ends
\* early - whoever reads it, however (drained, read into memory for postprocessors / answlog / debug log).  "cl2p63" /
\* "cl1e20": 2^63 / 10^20, no length a client can accept: no response at all.  (TLC's integers are 32 bit: the numbers live
\* in the renderer, scentarget.AnnouncedLength; here they are letters.)
LenBodyLetters == {"cl2p62", "clmax64"}
LenNetLetters  == {"cl2p63", "cl1e20"}
NetLetters  == LenNetLetters \cup {"badstatus", "badheader", "hugeheader", "closebefore", "closeduring", "refused", "timeout", "many1xx"} \cup TlsLetters
               \cup AvailLetters \cup TunnelLetters \cup H2NetLetters
\* chunked bodies with a chunk size that overflows / is negative / whose data is not followed by CRLF / that end inside a
\* chunk; "gzipbad": Content-Encoding gzip on a body that is no gzip stream, client configured to decompress
BodyLetters == LenBodyLetters \cup {"trunc", "badchunk", "chunkhuge", "chunkneg", "chunknocrlf", "chunktrunc", "gzipbad", "h2rstmid"}
\* "lst*": a well-formed 200 whose JSON body has, under the key `list` that later steps index, an EMPTY array / an array
\* of one element / a string / null / an object (every other JSON-bodied letter: an array of two elements)
ListLetters == {"lst0", "lst1", "lststr", "lstnull", "lstobj"}
\* "cont100": an unsolicited 100 Continue before the response; "upgrade": 101 Switching Protocols (nobody asked), then the
\* peer hangs up; "gzipraw": the gzipbad bytes with the default client (no decompression: the garbage IS the body);
\* "manyheaders": a header block of 1.2 MB in 20 000 lines; "dribble": a well-formed response in one-byte writes
OddLetters  == {"early", "empty", "big", "notjson", "jsonarr", "nothtml", "shorthdr", "nohdr", "cont100", "upgrade", "gzipraw",
                "manyheaders", "dribble", "h2flood"} \cup ListLetters
\* "hv": a well-formed 200 whose X-Tok header value has exactly `code` bytes (0 = empty / absent)
ValueLens   == {0, 1, 2, 3, 5, 12}
HvLetter(n) == [l |-> "hv", code |-> n]
HttpLetters == {StatusLetter(c) : c \in StatusCodes} \cup {Plain(l) : l \in NetLetters \cup BodyLetters \cup OddLetters}
               \cup {HvLetter(n) : n \in ValueLens}

\* attributes of the response the client gets to see
NetFails(x)   == x.l \in NetLetters                      \* no response at all: transport error
BodyFails(x)  == x.l \in BodyLetters                     \* status and headers arrive, reading the body fails
Code(x)       == IF x.l = "status" THEN x.code ELSE IF x.l = "upgrade" THEN 101 ELSE 200
\* ("jsonarr" is valid JSON, but an array)
\* the body is a JSON object in which $.tok exists; what is under $.list: "n" an array with elements, "empty" an empty
\* array, "scalar" something that cannot be indexed (a string, null, an object)
ListKind(x)   == CASE x.l = "lst0" -> "empty" [] x.l \in {"lststr", "lstnull", "lstobj"} -> "scalar" [] OTHER -> "n"
BodyJSON(x)   == CASE x.l = "status" -> ~NoBody(x.code)
                   [] x.l \in {"early", "big", "shorthdr", "nohdr", "hv", "cont100", "manyheaders", "dribble", "h2flood"} \cup ListLetters -> TRUE
                   [] OTHER -> FALSE
BodyHasTok(x) == BodyJSON(x) \/ x.l \in {"notjson", "jsonarr"}          \* the byte string "tok" occurs in the body
HdrTok(x)     == CASE x.l \in {"shorthdr", "hv"} -> "short" [] x.l = "nohdr" -> "absent" [] OTHER -> "long"

\* gRPC: the status the server returns / what happens to the call
\* codes.Code is the uint32 of the grpc-status trailer: the peer may send values outside the canonical 0..16
GrpcCodes   == 0..16 \cup {17, 42, 2147483647}
\* "gempty": status OK, the reply message is empty (no field set); "ggarbage": status OK, the message bytes cannot be
\* decoded; "gkillmid": the response headers arrive, then the connection is closed (the stream ends in the middle).
\* (Trailers-only responses are what every error code letter is: the server answers an error without headers or message.)
\* "w*": status OK and a reply whose TYPE is one of protobuf's well-known types (a second service of the target, every method
\* takes google.protobuf.Empty): Empty, Timestamp, Duration, StringValue, Int64Value, BoolValue, BytesValue, Struct,
\* ListValue, Any.  A client built on dynamic messages gets the generated type for these, and their JSON form is special:
\* an object only for Empty, Struct and Any (protobuf JSON mapping); a string / number / bool / array for the others.
WktLetters  == {"wempty", "wtime", "wdur", "wstring", "wint64", "wbool", "wbytes", "wstruct", "wlist", "wany"}
WktObject   == {"wempty", "wstruct", "wany"}
GrpcLetters == {[l |-> "code", code |-> c] : c \in GrpcCodes} \cup {Plain(l) : l \in WktLetters}
               \cup {Plain("gbig"), Plain("gtoobig"), Plain("gslow"), Plain("gkill"), Plain("gempty"), Plain("ggarbage"), Plain("gkillmid")}
               \cup {Plain(l) : l \in AvailLetters}
GrpcOK(x)   == (x.l = "code" /\ x.code = 0) \/ x.l \in {"gbig", "gempty"} \cup WktLetters
\* the reply message carries the greeting the grpc/scenario runs assert on
GrpcGreets(x) == GrpcOK(x) /\ x.l # "gempty" /\ x.l \notin WktLetters

\* ---------------------------------------------------------------- postprocessors of step "a" of a scenario gun
Posts == {"none", "jsonpath", "header_substr", "xpath", "assert", "all"}
\* response-derived LISTS flowing into a later step: a captures `items: $.list` (var/jsonpath), b's preprocessor maps
\* `row: request.a.postprocessor.items[<index>]` with every index form
IdxPosts == {"idx_last", "idx_next", "idx_rand", "idx_0", "idx_neg", "idx_big"}
Has(p, q) == p = q \/ p = "all"

\* ---------------------------------------------------------------- var/header modifiers on response-derived values
\* `Header|substr(a[,b])` on a value of n bytes.  Documented / pinned by the repository's tests: a negative a counts
\* from the end, b <= 0 (and the one-argument form, b = 0) counts from the end, an end beyond the value is the end
\* of the value, start > end are swapped.  That pins the result whenever the resolved start lies inside the value
\* and the resolved end is not before its beginning; for every other combination the statement only demands
\* "some value, never a failure of the run".
Bounds(n) == {0 - n - 7, 0 - n - 1, 0 - n, -1, 0, 1, n - 1, n, n + 1, n + 7}
SubstrCases(n) == {<<a, b, TRUE>> : a \in Bounds(n), b \in Bounds(n)} \cup {<<a, 0, FALSE>> : a \in Bounds(n)}
ResolveFrom(n, a) == IF a < 0 THEN n + a ELSE a
ResolveTo(n, b, hasb) == IF ~hasb \/ b <= 0 THEN n + (IF hasb THEN b ELSE 0) ELSE b
Pinned(n, a, b, hasb) == ResolveFrom(n, a) \in 0..n /\ ResolveTo(n, b, hasb) >= 0
SubstrExpected(n, a, b, hasb) ==
    LET f  == ResolveFrom(n, a)
        t0 == ResolveTo(n, b, hasb)
        t  == IF t0 > n THEN n ELSE t0
        lo == IF f > t THEN t ELSE f
        hi == IF f > t THEN f ELSE t
    IN [start |-> lo, len |-> hi - lo]
\* design-level sanity of the function above: total and inside the value on the whole enumerated space
SubstrTotal == \A n \in ValueLens : \A c \in SubstrCases(n) :
                  Pinned(n, c[1], c[2], c[3]) =>
                      LET e == SubstrExpected(n, c[1], c[2], c[3]) IN e.start >= 0 /\ e.len >= 0 /\ e.start + e.len <= n

\* ---------------------------------------------------------------- shape of the ammo
\* The outcome of a letter does not depend on what the ammo looks like: gRPC calls with / without metadata, with an empty
\* payload (the letter then travels in the metadata or is the target's default), http requests with / without a body.
AmmoVariants == {"plain", "meta", "emptymeta", "emptydefault", "body"}

\* a sample class: proto, whether an error is attached, whether the step counts as failed (scenario: __EMPTY__ tag)
Smp(proto, err, failed) == [proto |-> proto, err |-> err, failed |-> failed]
GE400 == -400     \* "some code >= 400" (exact coding of gRPC statuses is C10/C20's business)

\* http / http2 gun: one sample per ammo
HttpOutcome(x) ==
    IF NetFails(x) THEN Smp(0, TRUE, FALSE)
    ELSE IF BodyFails(x) THEN Smp(Code(x), TRUE, FALSE)
    ELSE Smp(Code(x), FALSE, FALSE)

\* http/scenario step with postprocessors p: failed step = error + __EMPTY__ (+ the received status, see below)
StepFails(x, p) ==
    \/ NetFails(x) \/ BodyFails(x)
    \/ Has(p, "jsonpath") /\ (~BodyJSON(x) \/ ListKind(x) # "n")   \* the body is not JSON / $.list[0] does not exist: capture error
    \/ p \in IdxPosts /\ ~BodyJSON(x)                         \* $.list does not exist
    \/ Has(p, "assert") /\ (HdrTok(x) # "long" \/ ~BodyHasTok(x))   \* assert/response headers {X-Tok: "h"}, body ["tok"]
    \* var/header with |substr(5,10) on a short or absent value and var/xpath on anything never fail the step
\* a failed step carries the status that was received, 0 if no response arrived at all
ScenStepOutcome(x, p) == IF NetFails(x) THEN Smp(0, TRUE, TRUE)
                         ELSE IF StepFails(x, p) THEN Smp(Code(x), TRUE, TRUE)
                         ELSE Smp(Code(x), FALSE, FALSE)

\* scenario = << a (postprocessors p), b (none) >>; the same letter answers both steps
\* with an index form in b's preprocessor: a list without elements (or something that is no list) fails step b BEFORE
\* anything is sent - a failed step without a response (proto 0) -, it never fails the run
HttpScenOutcome(x, p) ==
    IF StepFails(x, p) THEN <<ScenStepOutcome(x, p)>>
    ELSE IF p \in IdxPosts /\ ListKind(x) # "n" THEN <<ScenStepOutcome(x, p), Smp(0, TRUE, TRUE)>>
    ELSE <<ScenStepOutcome(x, p), ScenStepOutcome(x, "none")>>

GrpcOutcome(x) == IF GrpcOK(x) THEN Smp(200, FALSE, FALSE) ELSE Smp(GE400, FALSE, FALSE)
\* grpc/scenario: a has assert/response(status_code 200, payload ["Hello"]); a failed assertion ends the shot,
\* its sample carries the received code
\* (an OK reply without the greeting fails the payload assertion: the sample keeps the code 200, the shot ends)
\* a well-known-type reply has no greeting: for these letters step a asserts the status only, and the reply goes on into the
\* step's variables (a JSON object).  A reply whose JSON form is no object cannot become variables: the step's sample keeps the
\* code 200, the shot ends there - never the run.
GrpcScenOutcome(x) == IF x.l \in WktLetters
                      THEN (IF x.l \in WktObject THEN <<Smp(200, FALSE, FALSE), Smp(200, FALSE, FALSE)>> ELSE <<Smp(200, FALSE, FALSE)>>)
                      ELSE IF GrpcGreets(x) THEN <<Smp(200, FALSE, FALSE), Smp(200, FALSE, FALSE)>>
                      ELSE IF GrpcOK(x) THEN <<Smp(200, FALSE, FALSE)>>
                      ELSE <<Smp(GE400, FALSE, FALSE)>>

Outcome(gun, x, p) ==
    CASE gun \in {"http", "https", "http2", "connect"} -> <<HttpOutcome(x)>>
      [] gun \in {"http/scenario", "http2/scenario"} -> HttpScenOutcome(x, p)
      [] gun = "grpc"                                -> <<GrpcOutcome(x)>>
      [] gun = "grpc/scenario"                       -> GrpcScenOutcome(x)

GrpcGuns == {"grpc", "grpc/scenario"}
\* what a request gets when nothing is wrong
OkLetter(gun) == IF gun \in GrpcGuns THEN [l |-> "code", code |-> 0] ELSE StatusLetter(200)
LettersOf(gun) == IF gun \in {"grpc", "grpc/scenario"} THEN GrpcLetters ELSE HttpLetters
PostsOf(gun)   == IF gun = "http/scenario" THEN Posts \cup IdxPosts ELSE IF gun = "http2/scenario" THEN Posts ELSE {"none"}

\* For the instance loop two letters are the same thing when they yield the same samples under every postprocessor set of
\* the gun: the loop is explored over one representative per class (OutcomeTotal still ranges over every letter; the
\* negative control over every letter, its trigger being a property of single letters).
ClassOf(gun, x) == [p \in PostsOf(gun) |-> Outcome(gun, x, p)]
Repr == [g \in Guns |-> {CHOOSE y \in LettersOf(g) : ClassOf(g, y) = c : c \in {ClassOf(g, x) : x \in LettersOf(g)}}]
AcqLetters(gun) == IF RespCanPanic THEN LettersOf(gun) ELSE Repr[gun]

\* the only documented fatal condition: an http2 gun against a target that does not speak HTTP/2
Fatal(gun, x) == gun \in {"http2", "http2/scenario"} /\ x.l = "nonh2"

\* ---------------------------------------------------------------- the instance loop
VARIABLES run,      \* [gun, posts] of this run
          taken,    \* ammo acquired so far
          pc,       \* per instance: "idle" | "shoot" | "done"
          cur,      \* per instance: the letter the peer answers the current ammo with
          nsamples, \* samples reported
          due,      \* samples the ammo shot so far must have yielded (by Outcome)
          poolErr   \* "none" | "panic"
vars == <<run, taken, pc, cur, nsamples, due, poolErr>>

Init == /\ \E g \in Guns : \E p \in PostsOf(g) : run = [gun |-> g, posts |-> p]
        /\ taken = 0 /\ pc = [i \in 1..NInst |-> "idle"] /\ cur = [i \in 1..NInst |-> Plain("none")]
        /\ nsamples = 0 /\ due = 0 /\ poolErr = "none"

Acquire(i) == /\ pc[i] = "idle" /\ poolErr = "none" /\ taken < NAmmo
              /\ taken' = taken + 1
              /\ \E x \in AcqLetters(run.gun) : cur' = [cur EXCEPT ![i] = x]
              /\ pc' = [pc EXCEPT ![i] = "shoot"]
              /\ UNCHANGED <<run, nsamples, due, poolErr>>

\* Shoot returns normally: the samples of this ammo are reported, the instance is back at the loop head
Shot(i) == /\ pc[i] = "shoot" /\ poolErr = "none"
           /\ nsamples' = nsamples + Len(Outcome(run.gun, cur[i], run.posts))
           /\ due' = due + Len(Outcome(run.gun, cur[i], run.posts))
           /\ pc' = [pc EXCEPT ![i] = "idle"]
           /\ UNCHANGED <<run, taken, cur, poolErr>>

\* which of the unchecked uses below the negative control switches on (all; the cfg of a negative control that is to prove ONE
\* rule non-vacuous substitutes a singleton: CONSTANT PanicKinds <- PanicAnnounced)
PanicKinds == {"substr", "idx", "announced", "grpccode", "wkt", "tls"}
PanicAnnounced == {"announced"}
PanicWkt == {"wkt"}
\* negative control: response-derived data used unchecked - Shoot panics, instance.Run recovers it into
\* "shoot panic", the pool fails and every instance is cancelled
ShotPanic(i) == /\ RespCanPanic /\ pc[i] = "shoot" /\ poolErr = "none"
                /\ \/ "substr" \in PanicKinds /\ run.gun = "http/scenario" /\ Has(run.posts, "header_substr") /\ HdrTok(cur[i]) = "short"
                   \* or: a symbolic index into a response-derived list that is empty
                   \/ "idx" \in PanicKinds /\ run.gun = "http/scenario" /\ run.posts \in IdxPosts /\ ListKind(cur[i]) = "empty"
                   \* or: a buffer sized by the length the peer ANNOUNCES, where the step reads the body into memory
                   \/ "announced" \in PanicKinds /\ run.gun \in {"http/scenario", "http2/scenario"} /\ run.posts # "none"
                      /\ cur[i].l \in LenBodyLetters
                   \* or: a table lookup with the peer's gRPC status code
                   \/ "grpccode" \in PanicKinds /\ run.gun \in {"grpc", "grpc/scenario"} /\ cur[i].l = "code" /\ cur[i].code > 16
                   \* or: the reply taken for a dynamic message whatever its type (the scenario gun turns an OK reply into variables)
                   \/ "wkt" \in PanicKinds /\ run.gun = "grpc/scenario" /\ cur[i].l \in WktLetters
                   \* or: every TLS alert of the peer mistaken for the documented "target has no HTTP/2"
                   \/ "tls" \in PanicKinds /\ run.gun \in {"http2", "http2/scenario"} /\ cur[i].l \in TlsLetters
                /\ poolErr' = "panic"
                /\ due' = due + Len(Outcome(run.gun, cur[i], run.posts))
                /\ pc' = [j \in 1..NInst |-> "done"]
                /\ UNCHANGED <<run, taken, cur, nsamples>>

Finish(i) == /\ pc[i] = "idle" /\ taken = NAmmo /\ pc' = [pc EXCEPT ![i] = "done"]
             /\ UNCHANGED <<run, taken, cur, nsamples, due, poolErr>>

Next == \E i \in 1..NInst : Acquire(i) \/ Shot(i) \/ ShotPanic(i) \/ Finish(i)
Spec == Init /\ [][Next]_vars

AllDone == \A i \in 1..NInst : pc[i] = "done"

\* the pool never fails because of a response
NoPoolFailure == poolErr = "none"
\* every ammo was fired and yielded exactly its samples
Accounted == AllDone => (taken = NAmmo /\ nsamples = due)
\* an outcome exists for every letter, and it is one or two samples
OutcomeTotal == \A g \in Guns : \A p \in PostsOf(g) : \A x \in LettersOf(g) : Len(Outcome(g, x, p)) \in {1, 2}
=============================================================================
