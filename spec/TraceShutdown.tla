--------------------------- MODULE TraceShutdown ---------------------------
(***************************************************************************)
(* C06 trace specification, process level: what `vdrive aggsig` recorded   *)
(* about real pandora processes (vpandora = real cli.Run + counting        *)
(* wrapper) that were stopped with SIGINT / SIGTERM at a seeded instant,   *)
(* or ended by themselves, judged with the final predicate of              *)
(* Shutdown.tla (ExitComplete / NormalEndExact) through the shared         *)
(* operators of Phout.tla.                                                 *)
(*                                                                         *)
(* Mapping to Shutdown.tla:  Signal ~ Signal1 (returned_before is a lower  *)
(* bound of stopCount: it was read before the signal was sent);            *)
(* Exit ~ exited; entered ~ an upper bound of Total (calls that had begun);*)
(* lines ~ nd; dropped ~ result; agg_returned ~ apc = "done";              *)
(* forced ~ forced (second signal / timeout, taken from pandora's log).    *)
(***************************************************************************)
EXTENDS Phout, Json, IOUtils

VARIABLES l, sig, inst, before, bad
vars == <<l, sig, inst, before, bad>>

Trace == ndJsonDeserialize(IOEnv.VERIF_TRACE)
Ev == Trace[l]
Flag(cond, name) == IF cond THEN {} ELSE {name}

Init == l = 1 /\ sig = "" /\ inst = 0 /\ before = -1 /\ bad = {}

Start == /\ Ev.ev = "Start"
         /\ sig' = Ev.sig /\ inst' = Ev.inst_total /\ before' = -1 /\ UNCHANGED bad
Signal == /\ Ev.ev = "Signal"
          /\ before' = Ev.returned_before
          /\ bad' = bad \cup Flag(sig = Ev.sig /\ before = -1, "DriverSignalTwice")
          /\ UNCHANGED <<sig, inst>>
Exit == /\ Ev.ev = "Exit"
        /\ bad' = bad \cup
             (IF Ev.forced THEN {}         \* by design a forced exit does not wait (Shutdown!Forced)
              ELSE Flag(Ev.agg_returned, "ExitedBeforeAggregatorReturned")
                   \cup Flag(Ev.last_complete, "LastLineTruncated")
                   \cup Flag(Ev.malformed = 0, "MalformedLine")
                   \cup Flag(Ev.agg_err = "", "UnexpectedAggregatorError")
                   \cup (IF sig = "none" /\ Ev.status = 0
                         \* every pool ended by itself (Shutdown!NormalEndExact): nothing at all is lost
                         THEN Flag(Ev.entered = Ev.returned
                                   /\ CompleteCounts(Ev.lines, Ev.dropped, Ev.entered), "LinesPlusDropsIsNotReports")
                         ELSE IF sig = "none"
                         \* no signal, but the run failed (e.g. one pool ended with the drop error): Engine.Run
                         \* cancels the other pools mid-run (Shutdown!FailDelivered); per instance at most the
                         \* shot in flight is reported after that stop (Shutdown!LateBounded)
                         THEN Flag(CompleteBetween(Ev.lines, Ev.dropped, Ev.entered - inst, Ev.entered),
                                   "MoreThanTheShotsInFlightMissing")
                         ELSE Flag(before >= 0 /\ CompleteBetween(Ev.lines, Ev.dropped, before, Ev.entered),
                                   "ReportsMadeBeforeTheSignalMissing")))
        /\ UNCHANGED <<sig, inst, before>>

Next == /\ l <= Len(Trace)
        /\ l' = l + 1
        /\ (Start \/ Signal \/ Exit)

Accepted == l <= Len(Trace) => ENABLED Next
NoViolation == bad = {}
=============================================================================
