--------------------------- MODULE TraceShutdown ---------------------------
(***************************************************************************)
(* C06 trace specification, process level: what `vdrive aggsig` recorded   *)
(* about real pandora processes (vpandora = real cli.Run + counting        *)
(* wrapper) that were stopped with SIGINT / SIGTERM at a seeded instant,   *)
(* or ended by themselves, judged with the final predicate of              *)
(* Shutdown.tla (ExitComplete / NormalEndExact) through the shared         *)
(* operators of Phout.tla.                                                 *)
(*                                                                         *)
(* Mapping to Shutdown.tla:  Signal ~ Signal1 (returned_before is a lower  *)
(* bound of stopCount: it was read before the signal was sent);            *)
(* Exit ~ exited; entered ~ an upper bound of Total (calls that had begun);*)
(* lines ~ nd; dropped ~ result; agg_returned ~ apc = "done";              *)
(* forced ~ timeout_exit, or another_signal with two signals sent (taken   *)
(* from pandora's log and the driver's own count of signals).              *)
(* Runs with fail = TRUE: a second pool ("vfail" provider) fails by itself *)
(* ~ FailDelivered / RecvErr(err) -> "errwait"; the one signal is sent     *)
(* when pandora has logged "Awaiting started tasks" ~                      *)
(* SignalWhileAwaitingTasks; failed_returned_before (written by the        *)
(* failing provider itself right before it failed) ~ stopCount.            *)
(* Scenarios (Start.scen): "second" ~ SecondSignal; "timeout" (the sink    *)
(* takes nothing any more) ~ FlushBegin without FlushEnd, InterruptTimeout;*)
(* "startup" (signal sent without waiting for a report) ~ EarlySignal or   *)
(* Signal1 at Total = 0; "hup" / "quit" ~ UntrappedSignal; "backpr" ~      *)
(* ReportBlocks / two-step writes; "full" (/dev/full) ~ Aggregator!        *)
(* WriteFails: NoSilentLoss at process level = the process FAILS;          *)
(* "nodir": a destination that cannot be opened - the process fails;       *)
(* "grpc", "mixed": the plain rule with another gun / two aggregator kinds.*)
(* "hang" (the target stops answering, plain file) ~ Hangs,                *)
(* InterruptTimeout with PatientTimers: TimeoutExitFlushed.                *)
(* Which exits may lose data - exactly Shutdown!Exempt: a logged timeout,  *)
(* "Another signal received" after TWO signals, death by SIGHUP/SIGQUIT,   *)
(* death by SIGINT/SIGTERM's default action when the signal was sent       *)
(* before any report had returned (before signal.Notify).  Every exit,     *)
(* forced or not, satisfies Shutdown!ForcedBounded.                        *)
(***************************************************************************)
EXTENDS Phout, Json, IOUtils

VARIABLES l, sig, inst, fail, before, scen, bad
vars == <<l, sig, inst, fail, before, scen, bad>>

Trace == ndJsonDeserialize(IOEnv.VERIF_TRACE)
Ev == Trace[l]
Flag(cond, name) == IF cond THEN {} ELSE {name}

Init == l = 1 /\ sig = "" /\ inst = 0 /\ fail = FALSE /\ before = -1 /\ scen = "" /\ bad = {}

Start == /\ Ev.ev = "Start"
         /\ sig' = Ev.sig /\ inst' = Ev.inst_total /\ fail' = Ev.fail /\ before' = -1 /\ scen' = Ev.scen /\ UNCHANGED bad
Signal == /\ Ev.ev = "Signal"
          /\ before' = Ev.returned_before
          /\ bad' = bad \cup Flag(sig = Ev.sig /\ before = -1, "DriverSignalTwice")
          /\ UNCHANGED <<sig, inst, fail, scen>>

\* Shutdown!Exempt, on what is observable
\* cause "timeout": pandora's own log.  A timer excuses missing data only when the SINK kept the aggregator from
\* finishing (scenario "timeout").  In scenario "hang" the sink is a plain file and what does not end are shots (the
\* target stops answering right before the signal): Shutdown!TimeoutExitFlushed - the aggregator is stopped by the
\* cancel of the run itself, not by the end of the instances, so when pandora gives up after its 3 s everything
\* reported before the signal is flushed and closed: such an exit is judged like an unforced one.
TimeoutExit   == Ev.timeout_exit /\ scen # "hang"
SecondExit    == Ev.another_signal /\ Ev.signals >= 2                 \* cause "second": the driver did send two
UntrappedExit == sig \in {"HUP", "QUIT"} /\ ~Ev.agg_returned          \* cause "untrapped": default action
EarlyExit     == Ev.killed # "" /\ sig \in {"INT", "TERM"} /\ before = 0 /\ scen = "startup"   \* cause "early"
ForcedExit    == TimeoutExit \/ SecondExit \/ UntrappedExit \/ EarlyExit

Exit == /\ Ev.ev = "Exit"
        /\ bad' = bad \cup
             \* Shutdown!ForcedBounded: whatever ended the process, nothing is invented, whole lines are well-formed
             Flag(Ev.lines + Ev.dropped <= Ev.entered, "MoreLinesPlusDropsThanReports")
             \cup Flag(Ev.malformed = 0, "MalformedLine")
             \* Shutdown!EventuallyExits: a stopped pandora whose sink blocks gives up by itself
             \cup Flag(~Ev.hung, "DidNotExitAfterInterruptTimeout")
             \* the interrupt timeout is 30 s after SIGINT, 3 s after SIGTERM, counted from the signal (measured by the
             \* driver from before it sent the signal: never shorter than pandora's own measure)
             \cup Flag((Ev.timeout_exit /\ ~fail /\ sig \in {"INT", "TERM"}) => Ev.elapsed_ms >= (IF sig = "INT" THEN 30000 ELSE 3000),
                       "TimeoutExitBeforeTheTimeout")
             \* SIGINT / SIGTERM are trapped once reports are being made: their default action never ends the process then
             \cup Flag((Ev.killed # "" /\ sig \in {"INT", "TERM"}) => (before = 0 /\ scen = "startup"), "KilledByATrappedSignal")
             \cup
             (IF ForcedExit THEN {}
              ELSE IF scen = "full"
              \* every write fails (ENOSPC): Aggregator!NoSilentLoss - the aggregator's Run reports it, the run fails
              THEN Flag(Ev.agg_returned, "ExitedBeforeAggregatorReturned")
                   \cup Flag(Ev.entered - Ev.dropped > 0 => Ev.agg_err # "", "SinkFailureNotReported")
                   \cup Flag(Ev.agg_err # "" => Ev.status # 0, "SinkFailureExitZero")
              ELSE IF scen = "nodir"
              \* the destination cannot be opened (phout: when the config is decoded; file sink: when the aggregator's Run
              \* starts): pandora does not pretend that it wrote a result
              THEN Flag(Ev.status # 0, "UnwritableDestinationExitZero")
              ELSE IF fail
              \* one pool failed by itself ~ Shutdown!FailDelivered, main in "errwait"; with or without one signal
              \* while the started tasks are awaited: everything whose Report had returned before the failure is
              \* in the flushed, closed output of the other pool
              THEN Flag(Ev.agg_returned, "ExitedBeforeAggregatorReturned")
                   \cup Flag(Ev.last_complete, "LastLineTruncated")
                   \cup Flag(Ev.agg_err = "", "UnexpectedAggregatorError")
                   \cup Flag(Ev.failed_returned_before >= 0
                             /\ CompleteBetween(Ev.lines, Ev.dropped, Ev.failed_returned_before, Ev.entered),
                             "ReportsMadeBeforeTheFailureMissing")
              \* (a pool that was stopped before it started its aggregator has reported nothing: Ev.entered = 0)
              ELSE Flag(Ev.agg_returned \/ Ev.entered = 0, "ExitedBeforeAggregatorReturned")
                   \cup Flag(Ev.last_complete, "LastLineTruncated")
                   \cup Flag(Ev.agg_err = "", "UnexpectedAggregatorError")
                   \cup (IF sig = "none" /\ Ev.status = 0
                         \* every pool ended by itself (Shutdown!NormalEndExact): nothing at all is lost
                         THEN Flag(Ev.entered = Ev.returned
                                   /\ CompleteCounts(Ev.lines, Ev.dropped, Ev.entered), "LinesPlusDropsIsNotReports")
                         ELSE IF sig = "none"
                         \* no signal, but the run failed (e.g. one pool ended with the drop error): Engine.Run
                         \* cancels the other pools mid-run (Shutdown!FailDelivered); per instance at most the
                         \* shot in flight is reported after that stop (Shutdown!LateBounded)
                         THEN Flag(CompleteBetween(Ev.lines, Ev.dropped, Ev.entered - inst, Ev.entered),
                                   "MoreThanTheShotsInFlightMissing")
                         ELSE Flag(before >= 0 /\ CompleteBetween(Ev.lines, Ev.dropped, before, Ev.entered),
                                   "ReportsMadeBeforeTheSignalMissing")))
        /\ UNCHANGED <<sig, inst, fail, before, scen>>

Next == /\ l <= Len(Trace)
        /\ l' = l + 1
        /\ (Start \/ Signal \/ Exit)

Accepted == l <= Len(Trace) => ENABLED Next
NoViolation == bad = {}
=============================================================================
