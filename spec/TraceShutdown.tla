--------------------------- MODULE TraceShutdown ---------------------------
(***************************************************************************)
(* C06 trace specification, process level: what `vdrive aggsig` recorded   *)
(* about real pandora processes (vpandora = real cli.Run + counting        *)
(* wrapper) that were stopped with SIGINT / SIGTERM at a seeded instant,   *)
(* or ended by themselves, judged with the final predicate of              *)
(* Shutdown.tla (ExitComplete / NormalEndExact) through the shared         *)
(* operators of Phout.tla.                                                 *)
(*                                                                         *)
(* Mapping to Shutdown.tla:  Signal ~ Signal1 (returned_before is a lower  *)
(* bound of stopCount: it was read before the signal was sent);            *)
(* Exit ~ exited; entered ~ an upper bound of Total (calls that had begun);*)
(* lines ~ nd; dropped ~ result; agg_returned ~ apc = "done";              *)
(* forced ~ forced (second signal / timeout, taken from pandora's log).    *)
(***************************************************************************)
EXTENDS Phout, Json, IOUtils

VARIABLES l, sig, before, bad
vars == <<l, sig, before, bad>>

Trace == ndJsonDeserialize(IOEnv.VERIF_TRACE)
Ev == Trace[l]
Flag(cond, name) == IF cond THEN {} ELSE {name}

Init == l = 1 /\ sig = "" /\ before = -1 /\ bad = {}

Start == /\ Ev.ev = "Start"
         /\ sig' = Ev.sig /\ before' = -1 /\ UNCHANGED bad
Signal == /\ Ev.ev = "Signal"
          /\ before' = Ev.returned_before
          /\ bad' = bad \cup Flag(sig = Ev.sig /\ before = -1, "DriverSignalTwice")
          /\ UNCHANGED sig
Exit == /\ Ev.ev = "Exit"
        /\ bad' = bad \cup
             (IF Ev.forced THEN {}         \* by design a forced exit does not wait (Shutdown!Forced)
              ELSE Flag(Ev.agg_returned, "ExitedBeforeAggregatorReturned")
                   \cup Flag(Ev.last_complete, "LastLineTruncated")
                   \cup Flag(Ev.malformed = 0, "MalformedLine")
                   \cup Flag(Ev.agg_err = "", "UnexpectedAggregatorError")
                   \cup (IF sig = "none"
                         THEN Flag(Ev.entered = Ev.returned
                                   /\ CompleteCounts(Ev.lines, Ev.dropped, Ev.entered), "LinesPlusDropsIsNotReports")
                         ELSE Flag(before >= 0 /\ CompleteBetween(Ev.lines, Ev.dropped, before, Ev.entered),
                                   "ReportsMadeBeforeTheSignalMissing")))
        /\ UNCHANGED <<sig, before>>

Next == /\ l <= Len(Trace)
        /\ l' = l + 1
        /\ (Start \/ Signal \/ Exit)

Accepted == l <= Len(Trace) => ENABLED Next
NoViolation == bad = {}
=============================================================================
