--------------------------- MODULE TraceShutdown ---------------------------
(***************************************************************************)
(* C06 trace specification, process level: what `vdrive aggsig` recorded   *)
(* about real pandora processes (vpandora = real cli.Run + counting        *)
(* wrapper) that were stopped with SIGINT / SIGTERM at a seeded instant,   *)
(* or ended by themselves, judged with the final predicate of              *)
(* Shutdown.tla (ExitComplete / NormalEndExact) through the shared         *)
(* operators of Phout.tla.                                                 *)
(*                                                                         *)
(* Mapping to Shutdown.tla:  Signal ~ Signal1 (returned_before is a lower  *)
(* bound of stopCount: it was read before the signal was sent);            *)
(* Exit ~ exited; entered ~ an upper bound of Total (calls that had begun);*)
(* lines ~ nd; dropped ~ result; agg_returned ~ apc = "done";              *)
(* forced ~ timeout_exit, or another_signal with two signals sent (taken   *)
(* from pandora's log and the driver's own count of signals).              *)
(* Runs with fail = TRUE: a second pool ("vfail" provider) fails by itself *)
(* ~ FailDelivered / RecvErr(err) -> "errwait"; the one signal is sent     *)
(* when pandora has logged "Awaiting started tasks" ~                      *)
(* SignalWhileAwaitingTasks; failed_returned_before (written by the        *)
(* failing provider itself right before it failed) ~ stopCount.            *)
(***************************************************************************)
EXTENDS Phout, Json, IOUtils

VARIABLES l, sig, inst, fail, before, bad
vars == <<l, sig, inst, fail, before, bad>>

Trace == ndJsonDeserialize(IOEnv.VERIF_TRACE)
Ev == Trace[l]
Flag(cond, name) == IF cond THEN {} ELSE {name}

Init == l = 1 /\ sig = "" /\ inst = 0 /\ fail = FALSE /\ before = -1 /\ bad = {}

Start == /\ Ev.ev = "Start"
         /\ sig' = Ev.sig /\ inst' = Ev.inst_total /\ fail' = Ev.fail /\ before' = -1 /\ UNCHANGED bad
Signal == /\ Ev.ev = "Signal"
          /\ before' = Ev.returned_before
          /\ bad' = bad \cup Flag(sig = Ev.sig /\ before = -1, "DriverSignalTwice")
          /\ UNCHANGED <<sig, inst, fail>>
Exit == /\ Ev.ev = "Exit"
        /\ bad' = bad \cup
             \* by design pandora does not wait when its timeout expires or after a SECOND signal (Shutdown!Forced);
             \* "Another signal received" after ONE signal is not that (Shutdown!SignalWhileAwaitingTasks)
             (IF Ev.timeout_exit \/ (Ev.another_signal /\ Ev.signals >= 2) THEN {}
              ELSE IF fail
              \* one pool failed by itself ~ Shutdown!FailDelivered, main in "errwait"; with or without one signal
              \* while the started tasks are awaited: everything whose Report had returned before the failure is
              \* in the flushed, closed output of the other pool
              THEN Flag(Ev.agg_returned, "ExitedBeforeAggregatorReturned")
                   \cup Flag(Ev.last_complete, "LastLineTruncated")
                   \cup Flag(Ev.malformed = 0, "MalformedLine")
                   \cup Flag(Ev.agg_err = "", "UnexpectedAggregatorError")
                   \cup Flag(Ev.failed_returned_before >= 0
                             /\ CompleteBetween(Ev.lines, Ev.dropped, Ev.failed_returned_before, Ev.entered),
                             "ReportsMadeBeforeTheFailureMissing")
              ELSE Flag(Ev.agg_returned, "ExitedBeforeAggregatorReturned")
                   \cup Flag(Ev.last_complete, "LastLineTruncated")
                   \cup Flag(Ev.malformed = 0, "MalformedLine")
                   \cup Flag(Ev.agg_err = "", "UnexpectedAggregatorError")
                   \cup (IF sig = "none" /\ Ev.status = 0
                         \* every pool ended by itself (Shutdown!NormalEndExact): nothing at all is lost
                         THEN Flag(Ev.entered = Ev.returned
                                   /\ CompleteCounts(Ev.lines, Ev.dropped, Ev.entered), "LinesPlusDropsIsNotReports")
                         ELSE IF sig = "none"
                         \* no signal, but the run failed (e.g. one pool ended with the drop error): Engine.Run
                         \* cancels the other pools mid-run (Shutdown!FailDelivered); per instance at most the
                         \* shot in flight is reported after that stop (Shutdown!LateBounded)
                         THEN Flag(CompleteBetween(Ev.lines, Ev.dropped, Ev.entered - inst, Ev.entered),
                                   "MoreThanTheShotsInFlightMissing")
                         ELSE Flag(before >= 0 /\ CompleteBetween(Ev.lines, Ev.dropped, before, Ev.entered),
                                   "ReportsMadeBeforeTheSignalMissing")))
        /\ UNCHANGED <<sig, inst, fail, before>>

Next == /\ l <= Len(Trace)
        /\ l' = l + 1
        /\ (Start \/ Signal \/ Exit)

Accepted == l <= Len(Trace) => ENABLED Next
NoViolation == bad = {}
=============================================================================
