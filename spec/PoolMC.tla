------------------------------- MODULE PoolMC -------------------------------
(* Model-checking instance of Pool: configuration families and the M2 export. *)
EXTENDS Pool, Json

Cfg(st, t, a, per, d) == [startup |-> st, t |-> t, tmin |-> t, a |-> a, per |-> per, discard |-> d]
\* RPS profile with an `unlimited` part: at least tmin tokens, end unknown
CfgU(st, tmin, a, per, d) == [startup |-> st, t |-> -1, tmin |-> tmin, a |-> a, per |-> per, discard |-> d]

\* startup profiles (token instants in ticks)
Once(n)  == [k \in 1..n |-> 0]
Startups == {Once(1), Once(2), Once(3), <<0, 1>>, <<0, 1, 2>>, <<0, 0, 1>>, <<1, 1>>}
\* once(1) once(2) once(3); const; const; instance_step(2,3,1); instance_step(0,2,2)

\* quick exhaustive family: every mode, N <= 3, T <= 2, A in 0..T+1 and unbounded
Small == {Cfg(st, t, a, per, d) : st \in {Once(1), Once(2), <<0, 1>>, <<0, 0, 1>>}, t \in 0..2,
                                  a \in {-1, 0, 1, 2, 3}, per \in BOOLEAN, d \in BOOLEAN}
Quick == {Cfg(st, t, a, per, d) : st \in {Once(1), Once(2), <<0, 1>>}, t \in 0..2,
                                  a \in {-1, 0, 1, 3}, per \in BOOLEAN, d \in BOOLEAN}
         \cup {Cfg(<<0, 0, 1>>, 2, a, per, FALSE) : a \in {-1, 1, 3}, per \in BOOLEAN}
         \cup {CfgU(st, tm, a, per, FALSE) : st \in {Once(2), <<0, 1>>}, tm \in {0, 2}, a \in {-1, 2},
                                            per \in BOOLEAN}
\* C12 quick family: startup shapes with 3 tokens / late first token, against RPS end and ammo end
QuickStart == {Cfg(st, 2, a, per, FALSE) : st \in {<<0, 1, 2>>, <<0, 0, 1>>}, a \in {-1, 1, 3}, per \in BOOLEAN}
              \cup {Cfg(Once(3), 1, a, per, FALSE) : a \in {-1, 1}, per \in BOOLEAN}
              \cup {Cfg(<<1, 1>>, t, a, per, FALSE) : t \in {1, 2}, a \in {-1, 1, 3}, per \in BOOLEAN}
\* thorough family: <= 2 instances with T <= 3, A <= 4 | 7, all modes; 3 instances: shared T <= 3, per-instance T <= 2
\* (measured: one 3-instance per-instance configuration with T = 2 has 97 k states, shared T = 3 has 45 k)
Large == {Cfg(st, t, a, per, d) : st \in {Once(1), Once(2), <<0, 1>>, <<1, 1>>}, t \in 0..3, a \in {-1, 0, 1, 2, 3, 4, 7},
                                  per \in BOOLEAN, d \in BOOLEAN}
         \cup {Cfg(st, t, a, FALSE, FALSE) : st \in {Once(3), <<0, 1, 2>>, <<0, 0, 1>>}, t \in 0..3, a \in {-1, 1, 2, 3, 4}}
         \cup {Cfg(st, t, a, TRUE, FALSE) : st \in {Once(3), <<0, 1, 2>>, <<0, 0, 1>>}, t \in 0..2, a \in {-1, 2, 4}}
         \cup {CfgU(st, tm, a, per, d) : st \in {Once(2), <<0, 1>>}, tm \in {0, 1, 2}, a \in {-1, 2, 4},
                                         per \in BOOLEAN, d \in BOOLEAN}
         \cup {CfgU(<<0, 0, 1>>, 1, a, per, FALSE) : a \in {-1, 2}, per \in BOOLEAN}
\* negative controls need only a few configurations
NegCfgs == {Cfg(st, 2, a, per, TRUE) : st \in {Once(2), <<0, 1>>, <<0, 1, 2>>}, a \in {-1, 1, 3, 5}, per \in BOOLEAN}
NegCfgsU == {CfgU(Once(2), 2, a, FALSE, FALSE) : a \in {-1, 3}}

\* M2: every reachable outcome of a configuration, computed by TLC
Outcome == [startup |-> cfg.startup, n |-> N, t |-> cfg.t, tmin |-> cfg.tmin, a |-> cfg.a, per |-> cfg.per, discard |-> cfg.discard,
            created |-> created, shots |-> fired + discarded, acquired |-> given,
            expected |-> ExpectedShots]
Export == Done => PrintT(<<"VERIF", ToJson(Outcome)>>)

\* the ghost histories and counters that are functions of the rest do not distinguish states
=============================================================================
