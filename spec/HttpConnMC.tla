----------------------------- MODULE HttpConnMC -----------------------------
EXTENDS HttpConn
Both == {TRUE, FALSE}
I2 == {"i1", "i2"}
I3 == {"i1", "i2", "i3"}
\* per-instance clients
Own2 == [i \in I2 |-> i]
Own3 == [i \in I3 |-> i]
\* shared-client, client-number 2, three instances, round-robin (core/clientpool Next: the first gets client 1)
Shared3k2 == [i \in I3 |-> CASE i = "i1" -> "c1" [] i = "i2" -> "c0" [] OTHER -> "c1"]
\* shared-client, client-number 1
Shared3k1 == [i \in I3 |-> "c0"]
=============================================================================
