----------------------------- MODULE SchedIndMC -----------------------------
(* SchedInd on small constants for TLC (both tools exercise the same module): the constants NewComposite computes  *)
(* are derived here by recursion from the shape, and ASSUME Shape checks them against SchedInd's own relations.    *)
EXTENDS SchedInd, TLC

\* shape A: [once(2), unlimited, once(0), once(1)]   shape B: [once(1), once(0), once(0), once(2)] (retry paths)
\* shape C: [unlimited, once(2), unlimited, once(1)]
nA == <<2, 0, 0, 1>>
uA == <<FALSE, TRUE, FALSE, FALSE>>
nB == <<1, 0, 0, 2>>
uB == <<FALSE, FALSE, FALSE, FALSE>>
nC == <<0, 2, 0, 1>>
uC == <<TRUE, FALSE, TRUE, FALSE>>

RECURSIVE LA(_, _, _), ST(_, _), SU(_, _)
LA(nn, uu, p) == IF p = K THEN 0
                 ELSE IF uu[p+1] \/ LA(nn, uu, p+1) < 0 THEN -1 ELSE LA(nn, uu, p+1) + nn[p+1]
ST(nn, p) == IF p = K THEN 0 ELSE ST(nn, p+1) + nn[p+1]
SU(uu, p) == IF p = K THEN FALSE ELSE uu[p+1] \/ SU(uu, p+1)

laA == [p \in Parts |-> LA(nA, uA, p)]
stA == [p \in Parts |-> ST(nA, p)]
suA == [p \in Parts |-> SU(uA, p)]
laB == [p \in Parts |-> LA(nB, uB, p)]
stB == [p \in Parts |-> ST(nB, p)]
suB == [p \in Parts |-> SU(uB, p)]
laC == [p \in Parts |-> LA(nC, uC, p)]
stC == [p \in Parts |-> ST(nC, p)]
suC == [p \in Parts |-> SU(uC, p)]

ASSUME Shape

\* TLC only: the counters overshoot without bound (every Next() after the end increments); three overshoots suffice
Bound == \A p \in Parts : cnt[p] <= n[p] + 3
=============================================================================
