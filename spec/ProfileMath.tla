----------------------------- MODULE ProfileMath -----------------------------
(***************************************************************************)
(* C01 (and the token instants used by C12): what a load profile IS.       *)
(*                                                                         *)
(* A profile is a record                                                   *)
(*   [kind |-> "const"|"line"|"step"|"once",                               *)
(*    from_m, to_m : rates in milli-operations per second (so 0.1 and 2.5  *)
(*                   rps are exact integers),                              *)
(*    step : whole rps (step profiles), times : count (once profiles),     *)
(*    dur  : duration in ns as a BigNat]                                   *)
(*                                                                         *)
(* The declarative reading of docs/eng/load-profile.md:                    *)
(*   operation k of a const/line profile happens at the earliest instant t *)
(*   with  Integral_0^t rps >= k ; the profile has floor(Integral_0^D rps) *)
(*   operations; a step profile is one const profile per rate level, each  *)
(*   starting where the previous one finished; once(n) = n operations at   *)
(*   the start instant; an exhausted profile reports start + duration.     *)
(*                                                                         *)
(* All inequalities are decided WITHOUT division in exact integer          *)
(* arithmetic (BigNat).  Units: t, D in ns; rates in milli-ops/s:          *)
(*   const :  ops_m * t >= k * 10^12                                       *)
(*   line  :  2*D*from_m*t + (to_m - from_m)*t^2 >= 2*D*k*10^12            *)
(* Instants are compared at tolerance Tau = 1 us (the code computes them   *)
(* in float64 and truncates to ns; Tau is far above that error on the      *)
(* explored domain and far below timer granularity).                       *)
(***************************************************************************)
EXTENDS BigNat, FiniteSets

E12 == <<0, 0, 0, 1>>          \* 10^12
Tau == <<1000>>                \* 1 us in ns
TauP1 == <<1001>>

ConstP(ops_m, dur) == [kind |-> "const", from_m |-> ops_m, to_m |-> ops_m, step |-> 0, times |-> 0, dur |-> dur]

\* Coefficients of the inequality  Integral_0^t rps >= k, computed once per part:
\*   const :  A*t >= C*k                    A = ops_m,          C = 10^12
\*   line  :  A*t +/- B*t^2 >= C*k          A = 2*D*from_m, B = |to_m - from_m|, C = 2*D*10^12
Coef(p) ==
    IF p.kind = "const"
    THEN [lin |-> TRUE, A |-> FromInt(p.from_m), B |-> <<>>, C |-> E12, inc |-> TRUE, dur |-> p.dur]
    ELSE [lin |-> FALSE,
          A   |-> Mul(FromInt(2), Mul(FromInt(p.from_m), p.dur)),
          B   |-> FromInt(IF p.to_m >= p.from_m THEN p.to_m - p.from_m ELSE p.from_m - p.to_m),
          C   |-> Mul(Mul(FromInt(2), p.dur), E12),
          inc |-> p.to_m >= p.from_m,
          dur |-> p.dur]

\* Integral_0^t rps >= k  (no clamping of t to [0, D])
CumGErawC(cf, k, t) ==
    IF cf.lin THEN Geq(Mul(cf.A, t), Mul(cf.C, FromInt(k)))
    ELSE IF cf.inc THEN Geq(Add(Mul(cf.A, t), Mul(cf.B, Mul(t, t))), Mul(cf.C, FromInt(k)))
                   ELSE Geq(Mul(cf.A, t), Add(Mul(cf.C, FromInt(k)), Mul(cf.B, Mul(t, t))))

CumGEC(cf, k, t) == CumGErawC(cf, k, MinB(t, cf.dur))
CumGEraw(p, k, t) == CumGErawC(Coef(p), k, t)
CumGE(p, k, t) == CumGEC(Coef(p), k, t)

\* t (relative to the part's start) is the earliest instant at which the integral reaches k, up to Tau
IsOpTimeC(p, cf, k, t) ==
    IF p.kind = "once" THEN t = <<>>
    ELSE /\ Leq(t, p.dur)
         /\ CumGEC(cf, k, Add(t, Tau))
         /\ (Leq(t, Tau) \/ ~CumGEC(cf, k, Sub(t, TauP1)))
IsOpTime(p, k, t) == IsOpTimeC(p, Coef(p), k, t)

\* c operations in total is "the integral over the whole duration, rounded down", the duration
\* being taken up to Tau (when the exact integral is within Tau of an integer the float code may
\* round either way; both are accepted).  The integral at D itself also counts: a line that
\* decreases to 0 extrapolates to a negative rate beyond D, so D + Tau alone would be too strict.
CountOK(p, c) ==
    IF p.kind = "once" THEN c = p.times
    ELSE LET cf == Coef(p)
         IN  /\ (c = 0 \/ CumGErawC(cf, c, p.dur) \/ CumGErawC(cf, c, Add(p.dur, Tau)))
             /\ ~CumGErawC(cf, c + 1, Sub(p.dur, Tau))

PartDur(p) == IF p.kind = "once" THEN <<>> ELSE p.dur

\* The succession of simple parts a profile denotes.
Parts(p) ==
    IF p.kind = "step"
    THEN IF p.from_m = p.to_m THEN <<ConstP(p.from_m, p.dur)>>
         ELSE [j \in 1..((p.to_m - p.from_m) \div (1000 * p.step) + 1) |->
                  ConstP(p.from_m + (j-1) * 1000 * p.step, p.dur)]
    ELSE <<p>>

RECURSIVE SumDur(_, _)
SumDur(parts, j) == IF j > Len(parts) THEN <<>> ELSE Add(PartDur(parts[j]), SumDur(parts, j+1))
TotalDur(p) == SumDur(Parts(p), 1)

\* which k of a part with c operations get the (expensive) IsOpTime test: all when c <= 240,
\* otherwise the first and last 80 and a stride chosen by the seed.  Order and bounds are
\* checked on every k.
Sampled(c, k, sd) == c <= 240 \/ k < 80 \/ k >= c - 80 \/ k % 97 = sd % 97

\* number of tokens from index idx on that lie strictly before instant lim
\* (a set comprehension, not a recursion: deep recursion is quadratic in TLC)
CountBefore(ts, idx, lim) == Cardinality({i \in idx..Len(ts) : Lt(ts[i], lim)})

\* tokens ts[idx..] realise parts[j..], part j starting at instant off (relative to the profile's start)
RECURSIVE PartsOK(_, _, _, _, _, _)
PartsOK(parts, j, ts, idx, off, sd) ==
    IF j > Len(parts) THEN idx = Len(ts) + 1
    ELSE LET p   == parts[j]
             end == Add(off, PartDur(p))
             c0  == IF p.kind = "once" THEN p.times ELSE CountBefore(ts, idx, end)
             cands == {c \in {c0 - 1, c0, c0 + 1} : c >= 0 /\ idx + c - 1 <= Len(ts)}
             cf  == IF p.kind = "once" THEN [lin |-> TRUE] ELSE Coef(p)
         IN  \E c \in cands :
                /\ CountOK(p, c)
                /\ \A k \in 0..(c-1) :
                      /\ Geq(ts[idx + k], off)
                      /\ Sampled(c, k, sd) => IsOpTimeC(p, cf, k, Sub(ts[idx + k], off))
                /\ PartsOK(parts, j + 1, ts, idx + c, end, sd)

OpsOK(p, ts, sd) == PartsOK(Parts(p), 1, ts, 1, <<>>, sd)

Monotone(ts) == \A i \in 1..(Len(ts) - 1) : Leq(ts[i], ts[i+1])
Bounded(p, ts) == LET td == TotalDur(p) IN \A i \in 1..Len(ts) : Leq(ts[i], td)

=============================================================================
