------------------------------ MODULE LineEdit ------------------------------
(***************************************************************************)
(* C13, line level.  A VALID ammo file of NEntries entries is a sequence   *)
(* of LINES with roles that depend on the format:                          *)
(*    uri       C  (H1 H2 U)*        C = [X-Common: c], H1 = [X-Seq: ek],  *)
(*    uripost   C  (H1 H2 S B)*      H2 = [Host: ek...], U = uri line,     *)
(*    raw       (S R)*               S = size line, B = body line,         *)
(*    jsonline  J*                   R = the sized request block,          *)
(*    grpcjson  J*                   J = one JSON object                   *)
(* ONE edit operator is applied to the line sequence:                      *)
(*    dup(i)      duplicate line i          swap(i)  swap lines i and i+1  *)
(*    del(i)      delete line i             nofinalnl  drop the last \n    *)
(*    nul(i,w), cr(i,w)  insert a NUL / CR byte into ENTRY line i at       *)
(*                w = start | mid | end (mid: inside the URL / the size    *)
(*                number / the first JSON string; end: before the newline) *)
(*    size(k,d)   change the size field of entry k: p1 (+1), m1 (-1),      *)
(*                x100 (two more digits), d10 (last digit dropped)         *)
(* and the EDITED sequence is read by an abstract reader of the format -   *)
(* header lines set state, entry lines deliver an entry carrying that      *)
(* state, a sized entry needs its body line, lines are trimmed of white    *)
(* space (CR) but not of NUL, a control byte inside a URL or a number or a *)
(* JSON token is an error.  The result is the EXPECTED observation:        *)
(* res (ok / error), the deliveries (compared with those of the unedited   *)
(* file: `same` = length of the common prefix), the positions of invalid   *)
(* deliveries (grpc/json with continue-on-error).  Where the outcome       *)
(* depends on byte arithmetic the module does not model (a size line       *)
(* followed by something that is not its body) the expectation is          *)
(* `unknown`; the outcome alphabet {ok, error} and the prefix rule (the    *)
(* entries wholly in front of the edited line are delivered first,         *)
(* unchanged) hold for EVERY case.                                         *)
(***************************************************************************)
EXTENDS Naturals, Sequences, FiniteSets, TLC

CONSTANTS NEntries,   \* entries of the valid file
          Variant     \* "ok" | negative controls: "stickydup" (a duplicated header line counts twice),
                      \*                           "nulok" (a NUL in front of an entry line is ignored)

VARIABLES cs, phase
vars == <<cs, phase>>

Targets == { <<"uri", "stream">>, <<"uripost", "stream">>, <<"raw", "stream">>, <<"jsonline", "stream">>,
             <<"grpcjson", "stream">>, <<"grpcjson", "continue">> }

L(role, k) == [role |-> role, k |-> k, mark |-> ""]

RECURSIVE Flat(_, _, _)
Flat(f, k, n) == IF k > n THEN <<>>
                 ELSE (CASE f = "uri"     -> <<L("H1", k), L("H2", k), L("U", k)>>
                         [] f = "uripost" -> <<L("H1", k), L("H2", k), L("S", k), L("B", k)>>
                         [] f = "raw"     -> <<L("S", k), L("R", k)>>
                         [] OTHER         -> <<L("J", k)>>) \o Flat(f, k + 1, n)
Lines(f, n) == (IF f \in {"uri", "uripost"} THEN <<L("C", 0)>> ELSE <<>>) \o Flat(f, 1, n)
NLines(f, n) == Len(Lines(f, n))

EntryRoles == {"U", "S", "J"}          \* the line that makes an entry (byte inserts go there)
HeaderRoles == {"C", "H1", "H2"}

-----------------------------------------------------------------------------
(* Edits *)

Wheres == {"start", "mid", "end"}
SizeOps == {"p1", "m1", "x100", "d10"}

Edit(op, i, w) == [op |-> op, i |-> i, w |-> w]

EditsOf(f, n) ==
    LET ls == Lines(f, n) IN
    { Edit("dup", i, "-") : i \in 1..Len(ls) }
    \cup { Edit("del", i, "-") : i \in 1..Len(ls) }
    \cup { Edit("swap", i, "-") : i \in 1..(Len(ls) - 1) }
    \cup { Edit(b, i, w) : b \in {"nul", "cr"}, i \in { j \in 1..Len(ls) : ls[j].role \in EntryRoles }, w \in Wheres }
    \cup (IF f \in {"uripost", "raw"} THEN { Edit("size", i, d) : i \in { j \in 1..Len(ls) : ls[j].role = "S" }, d \in SizeOps } ELSE {})
    \cup { Edit("nofinalnl", Len(ls), "-") }

Cases(dummy) == UNION { { [format |-> t[1], mode |-> t[2], n |-> NEntries, e |-> e] : e \in EditsOf(t[1], NEntries) } : t \in Targets }

IsCase(c) ==
    /\ <<c.format, c.mode>> \in Targets /\ c.n \in 1..NEntries
    /\ c.e \in EditsOf(c.format, c.n)

\* the edited line sequence
Apply(ls, e) ==
    CASE e.op = "dup"  -> SubSeq(ls, 1, e.i) \o <<ls[e.i]>> \o SubSeq(ls, e.i + 1, Len(ls))
      [] e.op = "del"  -> SubSeq(ls, 1, e.i - 1) \o SubSeq(ls, e.i + 1, Len(ls))
      [] e.op = "swap" -> SubSeq(ls, 1, e.i - 1) \o <<ls[e.i + 1], ls[e.i]>> \o SubSeq(ls, e.i + 2, Len(ls))
      [] e.op \in {"nul", "cr"} -> [ls EXCEPT ![e.i].mark = e.op \o "_" \o e.w]
      [] e.op = "size" -> [ls EXCEPT ![e.i].mark = e.w]
      [] OTHER -> ls          \* nofinalnl: a last line without newline is a line like any other

\* entries wholly in front of the first line the edit touches
Intact(c) ==
    LET ls == Lines(c.format, c.n)
        firstTouched == IF c.e.op = "nofinalnl" THEN Len(ls) ELSE c.e.i
        before == { j \in 1..(firstTouched - 1) : ls[j].role \in {"U", "B", "R", "J"} }   \* lines that complete an entry
    IN Cardinality(before)

-----------------------------------------------------------------------------
(* Abstract readers.  acc = [seq, host, com, out, inv, res, need]          *)
(*   out : deliveries [id, seq, host, com, m]  (m # "": the entry itself is changed)                      *)
(*   inv : positions (in out) of deliveries handed out invalid (continue-on-error)                        *)
(*   res : "ok" | "error" | "unknown"                                                                      *)
(*   need: sized formats - the size line read last, whose body must come next ([k, m] or "none")          *)

Acc0 == [seq |-> 0, host |-> 0, com |-> 0, out |-> <<>>, inv |-> <<>>, res |-> "ok", need |-> <<>>]
D(id, a, m) == [id |-> id, seq |-> a.seq, host |-> a.host, com |-> a.com, m |-> m]
Err(a) == [a EXCEPT !.res = "error"]
Unk(a) == [a EXCEPT !.res = "unknown"]
Put(a, d) == [a EXCEPT !.out = Append(@, d)]

\* white space around a line is trimmed (CR at either end is harmless); a NUL is not white space
Trimmed(m) == IF m \in {"cr_start", "cr_end"} THEN "" ELSE m

\* a header line sets state; the same line twice sets it twice to the same value (Variant "stickydup": not so)
SetHdr(l, a, dupOf) ==
    LET b == CASE l.role = "C" -> [a EXCEPT !.com = 1] [] l.role = "H1" -> [a EXCEPT !.seq = l.k] [] OTHER -> [a EXCEPT !.host = l.k]
    IN IF Variant = "stickydup" /\ dupOf THEN [b EXCEPT !.seq = @ + 100] ELSE b

UriStep(l, a, dupOf) ==
    LET m == Trimmed(l.mark) IN
    IF l.role \in HeaderRoles THEN SetHdr(l, a, dupOf)
    ELSE IF m = "nul_start" THEN (IF Variant = "nulok" THEN Put(a, D(l.k, a, "")) ELSE Err(a))   \* not '[', not a URL either
    ELSE IF m \in {"nul_mid", "cr_mid"} THEN Err(a)                                              \* control byte inside the URL
    ELSE Put(a, D(l.k, a, IF m = "nul_end" THEN "tag" ELSE ""))                                  \* the tag is opaque

\* uripost / raw: size line, then its body.  Anything else behind a size line is byte arithmetic: unknown.
SizedStep(f, l, a, dupOf) ==
    LET m == Trimmed(l.mark) IN
    IF a.need # <<>> THEN
        \* the reader is inside a sized entry: the next line must be the body of that entry
        (IF l.role \in {"B", "R"} /\ l.k = a.need[1] /\ ~dupOf
           THEN LET sz == a.need[2]
                    d  == D(l.k, a, IF sz \in {"p1", "m1", "d10"} THEN "body" ELSE a.need[3])
                    b  == [Put(a, d) EXCEPT !.need = <<>>] IN
                CASE sz = "x100" -> Err([a EXCEPT !.need = <<>>])          \* asks for more than the file holds
                  [] sz \in {"m1", "d10"} -> (IF f = "raw" /\ sz = "d10" THEN Unk(a) ELSE Err(b))   \* short body, the rest is no size line
                  [] OTHER -> b
           ELSE Unk(a))
    ELSE IF l.role \in HeaderRoles THEN SetHdr(l, a, dupOf)
    ELSE IF l.role = "S" THEN
        (IF m \in {"nul_start", "nul_mid", "cr_mid"} THEN (IF Variant = "nulok" /\ m = "nul_start" THEN [a EXCEPT !.need = <<l.k, "", "">>] ELSE Err(a))
         ELSE [a EXCEPT !.need = <<l.k, IF m \in SizeOps THEN m ELSE "", IF m = "nul_end" THEN "tag" ELSE "">>])
    ELSE Err(a)                                                            \* a body where a size line is expected

\* http/json: a stream of JSON values, newlines are white space
JsonLineStep(l, a) ==
    LET m == Trimmed(l.mark) IN
    IF m \in {"nul_start", "nul_mid", "cr_mid"} THEN (IF Variant = "nulok" /\ m = "nul_start" THEN Put(a, D(l.k, a, "")) ELSE Err(a))
    ELSE IF m = "nul_end" THEN Err(Put(a, D(l.k, a, "")))                  \* the object is complete, what follows is not JSON
    ELSE Put(a, D(l.k, a, ""))

\* grpc/json: one object per line, the whole line is decoded
GrpcStep(l, a, mode) ==
    LET m == Trimmed(l.mark) IN
    IF m \in {"nul_mid", "cr_mid", "nul_end"} THEN Unk(a)                  \* inside a string, behind the object: the decoder's business
    ELSE IF m = "nul_start" /\ Variant # "nulok"
         THEN (IF mode = "continue" THEN [Put(a, D(l.k, a, "invalid")) EXCEPT !.inv = Append(@, Len(a.out) + 1)] ELSE Err(a))
    ELSE Put(a, D(l.k, a, ""))

Step(f, mode, l, a, dupOf) ==
    CASE f = "uri" -> UriStep(l, a, dupOf)
      [] f \in {"uripost", "raw"} -> SizedStep(f, l, a, dupOf)
      [] f = "jsonline" -> JsonLineStep(l, a)
      [] OTHER -> GrpcStep(l, a, mode)

RECURSIVE Run(_, _, _, _, _, _)
Run(f, mode, ls, i, a, dupAt) ==
    IF i > Len(ls) \/ a.res # "ok" THEN a
    ELSE Run(f, mode, ls, i + 1, Step(f, mode, ls[i], a, i = dupAt), dupAt)

\* a size line at the very end without its body is a truncated entry
Finish(a) == IF a.res = "ok" /\ a.need # <<>> THEN Err([a EXCEPT !.need = <<>>]) ELSE a

Read(f, mode, ls, dupAt) == Finish(Run(f, mode, ls, 1, Acc0, dupAt))

RECURSIVE Common(_, _, _)
Common(x, y, i) == IF i > Len(x) \/ i > Len(y) \/ x[i] # y[i] THEN i - 1 ELSE Common(x, y, i + 1)

\* is `same` pinned?  raw, size + 1: the extra byte lies behind the request's Content-Length - the request may well be the same
Exact(c) == ~(c.format = "raw" /\ c.e.op = "size" /\ c.e.w = "p1")

Expect(c) ==
    LET ls  == Lines(c.format, c.n)
        ref == Read(c.format, c.mode, ls, 0).out
        r   == Read(c.format, c.mode, Apply(ls, c.e), IF c.e.op = "dup" THEN c.e.i + 1 ELSE 0)
    IN [res |-> r.res, delivered |-> Len(r.out), same |-> Common(r.out, ref, 1), inv |-> r.inv, exact |-> Exact(c)]

-----------------------------------------------------------------------------
Init == cs \in Cases(0) /\ phase = "picked"
Next == phase = "picked" /\ phase' = "read" /\ UNCHANGED cs
Spec == Init /\ [][Next]_vars
Done == phase = "read"

LineAt(c) == Lines(c.format, c.n)[c.e.i]

TypeOK == IsCase(cs) /\ Expect(cs).res \in {"ok", "error", "unknown"}
\* the unedited file is read completely, every entry carrying its own header state
ReferenceIsClean ==
    LET r == Read(cs.format, cs.mode, Lines(cs.format, cs.n), 0) IN
    r.res = "ok" /\ Len(r.out) = cs.n /\ \A k \in 1..cs.n : r.out[k].id = k /\ r.out[k].m = ""
                 /\ (cs.format \in {"uri", "uripost"} => r.out[k].seq = k /\ r.out[k].host = k /\ r.out[k].com = 1)
\* whatever the edit, what lies wholly in front of it is delivered first and unchanged
PrefixSurvives == Expect(cs).res # "unknown" => Expect(cs).same >= Intact(cs)
\* duplicating a header line changes nothing (setting a header twice is setting it once)
HeaderDupIdempotent ==
    (cs.e.op = "dup" /\ LineAt(cs).role \in HeaderRoles) =>
        (Expect(cs).res = "ok" /\ Expect(cs).delivered = cs.n /\ Expect(cs).same = cs.n)
\* duplicating the line of a line-oriented entry delivers that entry twice and loses nothing
EntryDupAddsOne ==
    (cs.e.op = "dup" /\ LineAt(cs).role \in {"U", "J"}) => (Expect(cs).res = "ok" /\ Expect(cs).delivered = cs.n + 1)
\* a NUL in front of, or inside, the part of an entry line that is parsed never goes unnoticed
ControlByteNoticed ==
    (cs.e.op = "nul" /\ cs.e.w \in {"start", "mid"}) => (Expect(cs).res = "unknown" \/ Expect(cs).same < cs.n)
\* entries are handed out invalid only under continue-on-error by the reader that honours it
InvalidOnlyContinue == Expect(cs).inv # <<>> => (cs.format = "grpcjson" /\ cs.mode = "continue")
=============================================================================
