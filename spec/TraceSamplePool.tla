-------------------------- MODULE TraceSamplePool ----------------------------
(***************************************************************************)
(* C10 conformance, pool part.  The log of `vdrive samplepool`: shots of   *)
(* TLC-generated plans fired by the REAL http guns (ammo from the REAL uri *)
(* provider) into the REAL phout aggregator - the one aggregator that      *)
(* returns samples to the process-wide pool - with a tee in front of it:   *)
(*                                                                         *)
(*   Reset{run, procs, n}     a pool run starts (own phout aggregator and  *)
(*                            output file; the sample pool is the          *)
(*                            process's and survives from run to run)      *)
(*   Shot{inst, c, ammo, obj, s}   the tee, at Aggregator.Report, under    *)
(*                            its mutex (log order = queue order): the     *)
(*                            shot kind c of the plan, the id of its ammo, *)
(*                            the identity of the sample object and its    *)
(*                            content s (all columns of the phout line)    *)
(*   Line{j, s}               after the aggregator has finished: the j-th  *)
(*                            line of the phout file, parsed               *)
(*   End{reports, lines}                                                   *)
(*   ELine{j, s}, EEnd{reports (= tokens of the schedule), lines}   a pool *)
(*                            run by the real engine from a YAML config:   *)
(*                            the lines of its phout file                  *)
(*                                                                         *)
(* Rules (operators of SamplePool.tla):                                    *)
(*   TCoded       what a shot reports codes THAT shot - LineOK: proto, net *)
(*                zero / non-zero, tags, id, size and timing columns 0     *)
(*                unless its gun traces - whatever the object carried      *)
(*                before (a failed, a discarded, a traced shot)            *)
(*   TWritten     the j-th line of the file is the j-th reported sample,   *)
(*                column by column (nobody wrote into it after Report)     *)
(*   TAllWritten  one line per reported sample                             *)
(*   TObject      an object that is reported again has been handed out     *)
(*                again: its earlier report must be among the samples      *)
(*                reported before (trivially) - recorded as `recycled`     *)
(*                for the coverage figures                                 *)
(***************************************************************************)
EXTENDS SamplePoolMC, Json, IOUtils

VARIABLES l, on, reps, lines, recycled
Trace == ndJsonDeserialize(IOEnv.VERIF_TRACE)
E == Trace[l + 1]
Last == Trace[l]

\* projection of the recorded columns to the abstract sample: sz = 0 iff every size / timing column is 0
Abs(s) == [tags |-> s.tags, id |-> s.id, proto |-> s.proto, net |-> s.net,
           sz |-> IF \A k \in DOMAIN s.cols : s.cols[k] = 0 THEN 0 ELSE 1]

TPInit == /\ PInit
          /\ l \in {k - 1 : k \in {j \in 1..Len(Trace) : Trace[j].ev = "Reset"}}
          /\ on = FALSE /\ reps = <<>> /\ lines = <<>> /\ recycled = 0

TPStep == /\ l < Len(Trace)
          /\ l' = l + 1
          /\ UNCHANGED <<vars, pvars>>
          /\ CASE E.ev = "Reset" -> /\ ~on            \* otherwise this chunk ends here
                                    /\ on' = TRUE /\ UNCHANGED <<reps, lines, recycled>>
               [] E.ev = "Shot"  -> /\ reps' = Append(reps, [c |-> E.c, ammo |-> E.ammo, obj |-> E.obj, s |-> E.s])
                                    /\ recycled' = recycled + (IF \E k \in DOMAIN reps : reps[k].obj = E.obj THEN 1 ELSE 0)
                                    /\ UNCHANGED <<on, lines>>
               [] E.ev = "Line"  -> /\ lines' = Append(lines, E.s)
                                    /\ UNCHANGED <<on, reps, recycled>>
               [] OTHER          -> UNCHANGED <<on, reps, lines, recycled>>

At(ev) == l > 0 /\ on /\ Last.ev = ev
\* the shot kind is one the plans are made of
TWellFormed == At("Shot") => Last.c \in PoolKinds
TCoded      == At("Shot") => LineOK(Last.c, Last.ammo, Abs(Last.s))
TWritten    == At("Line") => /\ Len(lines) <= Len(reps)
                             /\ Len(lines) <= Len(reps) => lines[Len(lines)] = reps[Len(lines)].s
\* a pool run by the REAL engine (discard_overflow at work), only the phout file recorded: every line is the line of a
\* discarded shot or codes a fired shot that got its 200 - nothing in between (`... 777 200`) - and there is one line
\* per token of the schedule
EngineKinds == {PDisc, PShot(POut("status", 200), FALSE)}
TEngineLine == At("ELine") => \E c \in EngineKinds : /\ LineOK(c, Last.s.id, Abs(Last.s))
                                                     /\ IF IsDiscard(c) THEN Last.s.id = 0 /\ Last.s.proto = 0 ELSE Last.s.id > 0
TEngineEnd  == At("EEnd") => Last.lines = Last.reports
TAllWritten == At("End") => /\ Len(lines) = Len(reps)
                            /\ Last.reports = Len(reps) /\ Last.lines = Len(lines)
=============================================================================
