--------------------------- MODULE PluginRegistry ---------------------------
(***************************************************************************)
(* C18 - plugin registry (core/plugin/{registry,constructor}.go) together  *)
(* with the config hooks that feed it (core/plugin/pluginconfig/hooks.go). *)
(*                                                                         *)
(* A CASE fixes                                                            *)
(*   - the SHAPE of the registered constructor: what it returns (ret:      *)
(*     component | factory of components), what it takes (cfg: nothing |   *)
(*     struct | pointer to struct), whether it has an error result (cerr), *)
(*     whether the returned factory has one (ferr), whether it returns the *)
(*     implementation type instead of the interface (impl), whether a      *)
(*     default-config func is registered (dflt);                           *)
(*   - the REQUESTED FORM (field type the user config is decoded into):    *)
(*     New | FactoryErr | FactoryNoErr;                                    *)
(*   - an injected failure and where it strikes (fail, failAt);            *)
(*   - the call sequence: the factory is called `calls` times, the driver  *)
(*     mutates product k's configuration before asking for product k+1;    *)
(*   - a nested plugin inside the configuration (none | one | list, the    *)
(*     list becoming a composite through the slice hook);                  *)
(*   - the shape of the user's map (viper: map[string]any all the way      *)
(*     down; yaml: map[any]any).                                           *)
(*                                                                         *)
(* The model is implementation shaped: CreateStep is what                  *)
(* pluginconfig.Hook/FactoryHook + Registry.New/NewFactory do when the     *)
(* holder is decoded, CallStep is one call of the returned factory.  The   *)
(* user's map is part of the state (parseConf used to delete the `type`    *)
(* key from the CALLER's map - CopyMap = FALSE models that).               *)
(* The property is stated independently as invariants over the recorded    *)
(* observables.                                                            *)
(***************************************************************************)
EXTENDS Integers, Sequences, FiniteSets, TLC

CONSTANTS
    CopyMap,     \* TRUE: parseConf works on a copy of the caller's map (fixed code)
    CacheConf,   \* FALSE is right; TRUE: a factory made from a component constructor keeps the first decoded config
    UseDefault,  \* TRUE is right; FALSE: the registered default-config func is ignored
    MaxCalls,    \* the factory is called 1..MaxCalls times (3 in the quick tier, 4 in the thorough tier)
    HelperForwards,   \* TRUE is right; FALSE: a helper of core/register does not hand the default-config func on to the registry
    ValidateDefaults, \* TRUE is right; FALSE: a section holding only `type` is not decoded - and so the defaults are not validated
    PanicRule    \* "noerr" is right: panic iff the requested factory type has no error result; "flipped": the other way round

Rets    == {"comp", "fact"}
Cfgs    == {"none", "struct", "ptr"}
Forms   == {"New", "FactoryErr", "FactoryNoErr"}
Fails   == {"none", "ctor", "conf", "prod"}
Nesteds == {"none", "one", "list", "list0"}     \* list0: a plugin list of length 0 (`s: []` -> a composite of nothing)
Shapes  == {"viper", "yaml"}
Regs    == {"synth", "real"}
Users   == {"set", "empty"}               \* the user's settings: some options | only the plugin `type`
DVs     == {"valid", "noreq", "minbad"}   \* what the registered default config is worth under the config's validation tags
\* HOW the constructor gets into the registry: Registry.Register, or one of the helpers of core/register (register.go) - each fixes
\* a component interface and must hand the constructor AND the optional default-config func on to the default registry
Helpers == {"RegisterPtr", "Provider", "Limiter", "Gun", "Aggregator", "DataSource", "DataSink"}
Hows    == {"Register"} \cup Helpers

CaseSpace == [reg : Regs, ret : Rets, cfg : Cfgs, cerr : BOOLEAN, ferr : BOOLEAN, impl : BOOLEAN, dflt : BOOLEAN,
              form : Forms, fail : Fails, failAt : 1..MaxCalls, calls : 1..MaxCalls, nested : Nesteds, shape : Shapes,
              mutate : BOOLEAN, user : Users, dv : DVs, how : Hows]

\* The config struct carries validation tags (R: required, M: min=1).  The user's settings, when given, are valid; so the
\* configuration a component would be built from is INVALID exactly when the user gives nothing and the defaults are not valid.
InvalidConf(c) == c.cfg # "none" /\ c.user = "empty" /\ ~(c.dflt /\ c.dv = "valid")

\* which combinations exist (the others are normalised away or cannot be registered / injected)
ValidSynth(c) ==
    /\ c.reg = "synth"
    /\ (c.ret = "comp" => ~c.ferr)
    /\ (c.cfg = "none" => ~c.dflt /\ c.nested = "none")
    /\ (c.form = "New" => c.calls = 1)
    /\ (c.mutate => c.calls >= 2 /\ c.cfg # "none" /\ c.ret = "comp")
    /\ c.failAt <= c.calls
    /\ (c.fail \in {"none", "conf"} => c.failAt = 1)
    /\ (c.fail = "ctor" => c.cerr /\ (c.ret = "fact" => c.failAt = 1))
    /\ (c.fail = "prod" => c.ret = "fact" /\ c.ferr)
    \* user settings / default variants (normalised: no config => nothing to set or to validate)
    /\ (c.cfg = "none" => c.user = "empty" /\ c.dv = "valid")
    /\ (c.dv # "valid" => c.dflt /\ c.nested = "none" /\ c.fail = "none" /\ ~c.mutate)
    /\ (c.user = "empty" /\ c.cfg # "none" => c.nested = "none" /\ c.fail # "conf" /\ ~c.mutate)
    /\ (InvalidConf(c) => c.fail = "none")
    \* an empty plugin list: the interesting part is that decoding and construction go through (no failure injection)
    /\ (c.nested = "list0" => c.fail = "none" /\ ~c.mutate /\ ~c.impl)
    \* through a helper: every constructor shape x requested form x with / without default func x user settings / type only x
    \* map shape, up to two products (failure injection, nesting and mutation are the registry's business: how = Register)
    /\ (c.how # "Register" => c.fail = "none" /\ c.nested = "none" /\ ~c.mutate /\ ~c.impl /\ c.dv = "valid" /\ c.calls <= 2)

\* the real registry: `rps` of a pool (a func() (core.Schedule, error) field) given as a list (-> composite of
\* real `once` schedules) or as an explicit composite; schedule constructors take a struct, return core.Schedule
ValidReal(c) ==
    /\ c.reg = "real" /\ c.how = "Register" /\ c.cfg = "struct" /\ ~c.cerr /\ ~c.ferr /\ ~c.impl
    /\ c.fail = "none" /\ c.failAt = 1 /\ ~c.mutate
    /\ \/ /\ c.ret = "comp" /\ ~c.dflt /\ c.form = "FactoryErr" /\ c.nested \in {"one", "list", "list0"} /\ c.user = "set" /\ c.dv = "valid"
       \* sections holding only `type`, real entries: startup {type: once} (times 0 violates min=1), rps {type: const}
       \* (duration 0 violates min-time), gun {type: http} (factory constructor, default config without the required target)
       \/ /\ c.ret = "comp" /\ ~c.dflt /\ c.form \in {"New", "FactoryErr"} /\ c.nested = "none" /\ c.user = "empty" /\ c.dv = "valid"
          /\ (c.form = "New" => c.calls = 1)
       \/ /\ c.ret = "fact" /\ c.dflt /\ c.dv = "noreq" /\ c.form = "FactoryErr" /\ c.nested = "none" /\ c.user = "empty"

Valid(c) == ValidSynth(c) \/ ValidReal(c)
Cases == {c \in CaseSpace : Valid(c)}

---------------------------------------------------------------------------
(* configuration values: defaults (from the default-config func) overlaid by the user's settings *)
UserA == 5          \* user sets a: 5   (default 7)
DfltB == "d"        \* user does not set b (default "d")
UserC == "u"        \* user sets c: "u" (no default)
UserR == "ur"       \* user sets r: "ur" (required; valid default "r")
UserM == 2          \* user sets m: 2   (min=1; valid default 1)
MutA  == 99         \* what the driver writes into product k's config before asking for product k+1

NestedCount(c) == CASE c.nested \in {"none", "list0"} -> 0 [] c.nested = "one" -> 1 [] c.nested = "list" -> 2
\* the user's map holds nested plugin MAPS (with their own `type` keys)
HasNestedMaps(c) == c.nested \in {"one", "list"}

NoProd == [out |-> "none", perr |-> FALSE, a |-> 0, b |-> "", c |-> "", r |-> "", m |-> 0, n |-> 0, fresh |-> FALSE]
Failed(out, perr) == [NoProd EXCEPT !.out = out, !.perr = perr]

\* what a product built from a freshly created, freshly decoded config sees
HasDflt(c) == c.dflt /\ UseDefault /\ (c.how \in Helpers => HelperForwards)
ConfB(c) == IF HasDflt(c) THEN DfltB ELSE ""
ValA(c) == IF c.user = "set" THEN UserA ELSE IF HasDflt(c) THEN 7 ELSE 0
ValC(c) == IF c.user = "set" THEN UserC ELSE ""
ValR(c) == IF c.user = "set" THEN UserR ELSE IF HasDflt(c) /\ c.dv # "noreq" THEN "r" ELSE ""
ValM(c) == IF c.user = "set" THEN UserM ELSE IF HasDflt(c) /\ c.dv # "minbad" THEN 1 ELSE 0
\* the validation tags on defaults (+) settings
ConfValid(c) == ValR(c) # "" /\ ValM(c) >= 1
Seen(c, a, fresh) ==
    IF c.cfg = "none" THEN [NoProd EXCEPT !.out = "ok", !.fresh = TRUE]
    ELSE [out |-> "ok", perr |-> FALSE, a |-> a, b |-> ConfB(c), c |-> ValC(c), r |-> ValR(c), m |-> ValM(c),
          n |-> NestedCount(c), fresh |-> fresh]

St0 == [created |-> "none",
        nested_type |-> TRUE,    \* the nested plugin maps inside the USER's map still carry their `type` key
        nd |-> 0,                \* decodes of the config struct (cfg # none)
        ndflt |-> 0,             \* calls of the registered default-config func
        nctor |-> 0,             \* calls of the registered constructor
        nfact |-> 0,             \* calls of the factory a factory-constructor returned
        cached |-> FALSE,        \* (CacheConf) a decoded config is kept
        dirty |-> FALSE,         \* the driver has mutated the config object of the previous product
        prods |-> <<>>]

\* defaultConfigContainer.Get(fillConf): new config, decode the user's map into it.
\* Returns <<state', ok>>
GetConf(c, st) ==
    LET typeonly == c.user = "empty" /\ ~ValidateDefaults      \* nil fillConf: nothing decoded, nothing validated
        ok == /\ c.fail # "conf"
              /\ (HasNestedMaps(c) => st.nested_type)
              /\ (typeonly \/ ConfValid(c))
        eats == HasNestedMaps(c) /\ c.shape = "viper" /\ ~CopyMap   \* parseConf deletes `type` from the caller's nested map
    IN <<[st EXCEPT !.nd = IF c.user = "set" THEN @ + 1 ELSE @,      \* (observed through a field the user's settings carry)
                    !.ndflt = IF HasDflt(c) THEN @ + 1 ELSE @,
                    !.nested_type = IF eats THEN FALSE ELSE @], ok>>

\* error at a factory CALL: error result if the requested type has one, else a panic carrying the error
CallFailure(c) ==
    LET haserr == c.form = "FactoryErr"
        asErr  == IF PanicRule = "noerr" THEN haserr ELSE ~haserr
    IN IF asErr THEN Failed("error", FALSE) ELSE Failed("panic", TRUE)

Push(st, p) == [st EXCEPT !.prods = Append(@, p)]

\* decoding the holder: pluginconfig.Hook -> Registry.New  /  FactoryHook -> Registry.NewFactory
CreateStep(c, st) ==
    IF c.form = "New" THEN
        LET g  == IF c.cfg = "none" THEN <<st, c.fail # "conf">> ELSE GetConf(c, st)
            s1 == g[1]
        IN IF ~g[2] THEN [s1 EXCEPT !.created = "error"]
           ELSE LET s2 == [s1 EXCEPT !.nctor = @ + 1]
                IN IF c.fail = "ctor" THEN [s2 EXCEPT !.created = "error"]
                   ELSE IF c.ret = "comp" THEN Push([s2 EXCEPT !.created = "ok"], Seen(c, ValA(c), TRUE))
                   ELSE LET s3 == [s2 EXCEPT !.nfact = @ + 1]
                        IN IF c.fail = "prod" THEN [s3 EXCEPT !.created = "error"]
                           ELSE Push([s3 EXCEPT !.created = "ok"], Seen(c, ValA(c), TRUE))
    ELSE IF c.ret = "comp" THEN
        \* config is created lazily, per product; with no config the user's map is only checked against struct{}
        IF c.cfg = "none" /\ c.fail = "conf" THEN [st EXCEPT !.created = "error"] ELSE [st EXCEPT !.created = "ok"]
    ELSE
        \* factory constructor: config decoded ONCE, registered constructor called ONCE, now
        LET g  == IF c.cfg = "none" THEN <<st, c.fail # "conf">> ELSE GetConf(c, st)
            s1 == g[1]
        IN IF ~g[2] THEN [s1 EXCEPT !.created = "error"]
           ELSE LET s2 == [s1 EXCEPT !.nctor = @ + 1]
                IN IF c.fail = "ctor" THEN [s2 EXCEPT !.created = "error"] ELSE [s2 EXCEPT !.created = "ok"]

\* the k-th call of the factory obtained by CreateStep (forms FactoryErr / FactoryNoErr)
CallStep(c, st, k) ==
    IF c.ret = "fact" THEN
        LET s1 == [st EXCEPT !.nfact = @ + 1]
        IN IF c.fail = "prod" /\ c.failAt = k THEN Push(s1, CallFailure(c))
           ELSE \* all products see THE config decoded at creation (the same pointer: fresh only the first time it is seen)
                Push(s1, Seen(c, ValA(c), c.cfg # "ptr" \/ ~\E i \in 1..Len(st.prods) : st.prods[i].out = "ok"))
    ELSE
        LET reuse == CacheConf /\ st.cached /\ c.cfg # "none"
            g  == IF c.cfg = "none" \/ reuse THEN <<st, TRUE>> ELSE GetConf(c, st)
            s1 == g[1]
        IN IF ~g[2] THEN Push(s1, CallFailure(c))
           ELSE LET s2 == [s1 EXCEPT !.nctor = @ + 1, !.cached = TRUE]
                IN IF c.fail = "ctor" /\ c.failAt = s2.nctor THEN Push(s2, CallFailure(c))
                   ELSE Push(s2, Seen(c, IF reuse /\ st.dirty /\ c.cfg = "ptr" THEN MutA ELSE ValA(c), ~reuse \/ c.cfg # "ptr"))

\* the driver writes MutA into the config held by the last product (if there is one)
MutateStep(c, st) ==
    IF c.mutate /\ Len(st.prods) > 0 /\ st.prods[Len(st.prods)].out = "ok" THEN [st EXCEPT !.dirty = TRUE] ELSE st

RECURSIVE RunCalls(_, _, _)
RunCalls(c, st, k) ==
    IF k > c.calls THEN st ELSE RunCalls(c, MutateStep(c, CallStep(c, st, k)), k + 1)

\* the complete observable of a case (used by the trace specification and by the case generator)
Final(c) ==
    LET s == CreateStep(c, St0)
    IN IF c.form = "New" \/ s.created # "ok" THEN s ELSE RunCalls(c, s, 1)

Observable(s) == [created |-> s.created, nd |-> s.nd, ndflt |-> s.ndflt, nctor |-> s.nctor, nfact |-> s.nfact,
                  prods |-> s.prods]

---------------------------------------------------------------------------
(* the same thing as a state machine, so that TLC evaluates the invariants after EVERY step *)
VARIABLES cs, st, k, phase
vars == <<cs, st, k, phase>>

Init == cs \in Cases /\ st = St0 /\ k = 0 /\ phase = "create"

Create == /\ phase = "create"
          /\ st' = CreateStep(cs, st)
          /\ phase' = IF cs.form = "New" \/ st'.created # "ok" THEN "done" ELSE "call"
          /\ UNCHANGED <<cs, k>>

Call == /\ phase = "call" /\ k < cs.calls
        /\ st' = MutateStep(cs, CallStep(cs, st, k + 1))
        /\ k' = k + 1
        /\ phase' = IF k' = cs.calls THEN "done" ELSE "call"
        /\ UNCHANGED cs

Next == Create \/ Call
Spec == Init /\ [][Next]_vars

---------------------------------------------------------------------------
(* THE PROPERTY, stated over the observables only *)
Ok(p) == p.out = "ok"
Prods == {st.prods[i] : i \in 1..Len(st.prods)}
Attempts == IF cs.form = "New" THEN (IF phase = "create" THEN 0 ELSE 1) ELSE k

TypeOK == /\ st.created \in {"none", "ok", "error"}
          /\ \A p \in Prods : p.out \in {"ok", "error", "panic"}

\* every component is configured with the registered defaults overlaid by the user's settings
ConfigRight == \A p \in Prods : Ok(p) /\ cs.cfg # "none" =>
                  /\ (cs.user = "set" => p.a = UserA /\ p.c = UserC /\ p.r = UserR /\ p.m = UserM)
                  /\ (cs.user = "empty" => /\ p.a = (IF cs.dflt THEN 7 ELSE 0) /\ p.c = ""
                                           /\ p.r = "r" /\ p.m = 1)      \* only VALID defaults can be seen by a product
                  /\ p.b = (IF cs.dflt THEN DfltB ELSE "")
                  /\ p.n = NestedCount(cs)

\* nothing fails unless a failure was injected - in particular the 2nd, 3rd product of a factory
NoSpuriousFailure == cs.fail = "none" /\ ~InvalidConf(cs) => st.created # "error" /\ \A p \in Prods : Ok(p)

\* an injected failure reaches the caller: at creation, or at the call it strikes
FailureReaches ==
    \* ... and so does a configuration (defaults (+) settings) that violates its validation tags, also when the user gave
    \* nothing but the plugin type: no product is ever built from invalid defaults
    /\ (InvalidConf(cs) /\ phase # "create" =>
            st.created = "error" \/ (Len(st.prods) = k /\ \A p \in Prods : ~Ok(p)))
    /\ (cs.fail = "conf" /\ phase # "create" =>
            st.created = "error" \/ (Len(st.prods) = k /\ \A p \in Prods : ~Ok(p)))
    /\ (cs.fail \in {"ctor", "prod"} /\ phase = "done" =>
            st.created = "error" \/ (Len(st.prods) >= cs.failAt /\ ~Ok(st.prods[cs.failAt])))

\* errors are error results; a panic (carrying the error) only when the requested factory type has no error result
PanicRuleInv == \A p \in Prods :
                   /\ (p.out = "panic" => cs.form = "FactoryNoErr" /\ p.perr)
                   /\ (p.out = "error" => cs.form = "FactoryErr")

\* factory made from a COMPONENT constructor: every product from a freshly created and freshly decoded config
FreshPerProduct == cs.ret = "comp" /\ cs.form # "New" /\ cs.cfg # "none" =>
                      /\ \A p \in Prods : Ok(p) => p.fresh
                      /\ (cs.user = "set" => st.nd = Attempts)
                      /\ (cs.dflt => st.ndflt = Attempts)

\* factory made from a FACTORY constructor: config decoded once, constructor called once, registered factory once per product
OncePerFactory == cs.ret = "fact" /\ cs.form # "New" /\ st.created = "ok" =>
                      /\ (cs.cfg # "none" /\ cs.user = "set" => st.nd = 1)
                      /\ st.nctor = 1
                      /\ st.nfact = k

StateView == <<cs, st, k, phase>>
=============================================================================
