--------------------------- MODULE ConfigDecodeMC ---------------------------
(* Model-checking instance of ConfigDecode + the generators (M2).                                       *)
(*  phase A (ConfigDecode_genv.cfg): the variants (base configurations, leaf list, documented map levels) *)
(*  -> `vdrive confdecode -mode points` decodes them with the real structs and reports every struct node  *)
(*     it finds by reflection (IOEnv.VERIF_POINTS, also read by every other configuration of this module) *)
(*  phase B (ConfigDecode_gen.cfg): the complete case list with the delta the driver has to apply.        *)
EXTENDS ConfigDecode, Json, IOUtils, SequencesExt

ReflPointsIO == ndJsonDeserialize(IOEnv.VERIF_POINTS)

VariantOut(V) == [name |-> V.name,
                  leaves |-> [j \in 1..Len(V.leaves) |-> [p |-> V.leaves[j].p, k |-> V.leaves[j].k, f |-> V.leaves[j].f]],
                  full |-> BaseEntries(V, "full"), min |-> BaseEntries(V, "min"),
                  spec_points |-> SetToSeq(SpecPoints(V))]
ExportedVariants == ndJsonSerialize(IOEnv.VERIF_OUT_VARIANTS, [i \in 1..Len(Variants) |-> VariantOut(Variants[i])])

CaseSeq == SetToSeq(AllCases)
ExportedCases == ndJsonSerialize(IOEnv.VERIF_OUT_CASES,
                    [i \in 1..Len(CaseSeq) |-> [c |-> CaseSeq[i], delta |-> Delta(CaseSeq[i]), phval |-> PhValue(CaseSeq[i]), adv |-> AdvOf(CaseSeq[i]), multi |-> MultiOf(CaseSeq[i]),
                                              vias |-> SetToSeq(ViasFor(CaseSeq[i]) \ {"decode", "cli"})]])

\* every map level the documentation shows exists in the real config structs
DocumentedLevelsExist == \A i \in 1..Len(Variants) : SpecPoints(Variants[i]) \subseteq ReflOf(Variants[i])
MissingLevels == UNION {{[v |-> Variants[i].name, p |-> q] : q \in SpecPoints(Variants[i]) \ ReflOf(Variants[i])} : i \in 1..Len(Variants)}
ExtraLevels == UNION {{[v |-> Variants[i].name, p |-> q] : q \in ReflOf(Variants[i]) \ SpecPoints(Variants[i])} : i \in 1..Len(Variants)}
Report == PrintT(<<"VERIF", ToJson([cases |-> Cardinality(AllCases), missing |-> SetToSeq(MissingLevels), extra |-> SetToSeq(ExtraLevels)])>>)

GenInit == cs = NoCase /\ via = "cli" /\ stage = 0 /\ err = FALSE
GenNext == UNCHANGED vars
=============================================================================
