----------------------------- MODULE ScenarioMC -----------------------------
(* Model-checking instance of Scenario: the finite case space (descriptions x target scripts) and the  *)
(* export of cases for the M2 replay through the real provider + gun.                                   *)
EXTENDS Scenario, Json, IOUtils

Sd  == IF "VERIF_SEED" \in DOMAIN IOEnv THEN atoi(IOEnv.VERIF_SEED) ELSE 1
Mod == IF "VERIF_MOD" \in DOMAIN IOEnv THEN atoi(IOEnv.VERIF_MOD) ELSE 1

-----------------------------------------------------------------------------
(* request definitions *)
PreM(k, of)      == [k |-> k, of |-> of]
Use(src, of, at) == [src |-> src, of |-> of, at |-> at]
RDef(pre, use, cap, as) == [pre |-> pre, use |-> use, cap |-> cap, assert |-> as]
NoPre == PreM("none", "")
NoUse == Use("none", "", "")

\* flow profiles: which variables each request captures and renders
Flows == <<
  \* 1 plain, assertions on a and c
  [a |-> RDef(NoPre, NoUse, "none", TRUE), b |-> RDef(NoPre, NoUse, "none", FALSE), c |-> RDef(NoPre, NoUse, "none", TRUE)],
  \* 2 data source: [next] / [last] / integer index, rendered into uri / header / body
  [a |-> RDef(PreM("next", "users"), Use("pre", "a", "uri"), "none", TRUE),
   b |-> RDef(PreM("last", "users"), Use("pre", "b", "hdr"), "none", FALSE),
   c |-> RDef(PreM("idx", "items"), Use("pre", "c", "body"), "none", FALSE)],
  \* 3 chain of captured values: a -json-> b -header-> c
  [a |-> RDef(NoPre, NoUse, "json", FALSE),
   b |-> RDef(NoPre, Use("post", "a", "hdr"), "hdr", TRUE),
   c |-> RDef(NoPre, Use("post", "b", "body"), "none", FALSE)],
  \* 4 chain through preprocessors: a -header-> b.pre -> b -xpath-> c.pre -> c
  [a |-> RDef(NoPre, NoUse, "hdr", FALSE),
   b |-> RDef(PreM("from", "a"), Use("pre", "b", "hdr"), "xpath", FALSE),
   c |-> RDef(PreM("from", "b"), Use("pre", "c", "uri"), "none", TRUE)],
  \* 5 two sources with their own [next] counters, a later step reads an earlier step's preprocessor variable
  [a |-> RDef(PreM("next", "items"), Use("pre", "a", "body"), "xpath", FALSE),
   b |-> RDef(PreM("next", "users"), Use("post", "a", "body"), "none", TRUE),
   c |-> RDef(PreM("next", "users"), Use("pre", "b", "hdr"), "json", FALSE)],
  \* 6 a variable that does not exist (renders "<no value>"), a template execution error, a preprocessor error
  [a |-> RDef(NoPre, Use("ghost", "", "hdr"), "json", FALSE),
   b |-> RDef(NoPre, Use("bad", "", "uri"), "none", FALSE),
   c |-> RDef(PreM("missing", ""), NoUse, "none", FALSE)],
  \* 7 variables that are not there render "<no value>": nothing captured (leaf missing), no preprocessor (inner
  \*   node missing), a step referring to its own postprocessor (not set yet while it renders)
  [a |-> RDef(NoPre, Use("post", "a", "hdr"), "hdr", FALSE),
   b |-> RDef(NoPre, Use("post", "c", "body"), "none", TRUE),
   c |-> RDef(PreM("last", "items"), Use("pre", "a", "hdr"), "none", FALSE)],
  \* 8 headers that happen to be called "url" and "body" are headers like any other ("hbody": the request also has
  \*   a literal body, which must arrive unchanged)
  [a |-> RDef(PreM("next", "users"), Use("pre", "a", "hurl"), "json", FALSE),
   b |-> RDef(NoPre, Use("post", "a", "hbody"), "none", TRUE),
   c |-> RDef(PreM("last", "items"), Use("pre", "c", "hbody"), "none", FALSE)],
  \* 9 a captured JSON NUMBER (a 7-digit id) flows into body / header / (through a preprocessor) the URI
  [a |-> RDef(NoPre, NoUse, "jsonnum", FALSE),
   b |-> RDef(NoPre, Use("post", "a", "body"), "jsonnum", TRUE),
   c |-> RDef(PreM("from", "b"), Use("pre", "c", "uri"), "none", FALSE)]
>>

NameSeqs == << <<"a">>, <<"a", "b">>, <<"b", "a">>, <<"a", "a">>, <<"a", "b", "c">>, <<"a", "b", "a">>, <<"c", "b", "a">> >>

\* one listed request = name(n[, sl]) optionally followed by sleep(af)
Shape(n, sl, af) == [n |-> n, sl |-> sl, af |-> af]
ShapeCode(sh) == (sh.n - 1) * 4 + (IF sh.sl > 0 THEN 2 ELSE 0) + (IF sh.af > 0 THEN 1 ELSE 0)
AllShapes   == {Shape(n, sl, af) : n \in 1..3, sl \in {0, 3}, af \in {0, 4}}
MultShapes  == {Shape(n, 0, 0) : n \in 1..3}
SleepShapes == {Shape(1, sl, af) : sl \in {0, 3}, af \in {0, 4}}

ItemsOf(ns, shs) == Flatten([p \in 1..Len(ns) |->
                        <<ReqItem(ns[p], shs[p].n, shs[p].sl)>> \o
                        (IF shs[p].af > 0 THEN <<SleepItem(shs[p].af)>> ELSE <<>>)])

StepsOf(shs) == LET RECURSIVE S(_)
                    S(p) == IF p = 0 THEN 0 ELSE shs[p].n + S(p - 1)
                IN S(Len(shs))

\* target scripts: all OK / transport failure at arrival k / status 418 at arrival k
Script(kind, at) == [kind |-> kind, at |-> at]
\* (quick: failure positions 1..5 only)
\* "eof": the target reads the whole request (headers and body; GET and POST steps alike) and closes the connection
\* cleanly without a single response byte.  It acts on a FRESH connection (the answer to arrival k-1 says
\* Connection: close), where net/http itself never re-sends - a second arrival of the step could only come from pandora.
\* (On a REUSED connection net/http legitimately re-sends an idempotent request; that history is not in the space.)
ScriptKinds == {"transport", "status", "trunc", "eof"}
ScriptsFor(steps) == {Script("ok", 0)} \cup {Script(kd, k) : kd \in ScriptKinds, k \in 1..(steps + 1)}
\* quick: failure positions 1..5; truncated bodies and clean closes at positions 1..2
ScriptsLvl(steps, lvl) == IF lvl = 0
                          THEN {sc \in ScriptsFor(IF steps > 4 THEN 4 ELSE steps) : sc.kind \in {"trunc", "eof"} => sc.at <= 2}
                          ELSE ScriptsFor(steps)
ScriptCode(sc) == IF sc.kind = "ok" THEN 0
                  ELSE (CASE sc.kind = "transport" -> 0 [] sc.kind = "status" -> 13 [] sc.kind = "trunc" -> 26
                          [] sc.kind = "eof" -> 39) + sc.at

\* lvl 0 (quick): all shapes for one listed request, 4 / 2 representative shapes for lists of 2 / 3
\* lvl 1 (thorough): all shapes for lists of 1 and 2, multiplicities and sleeps separately for lists of 3
\* lvl 2: everything (5 628 structures)
Shapes2 == {Shape(1, 0, 0), Shape(3, 3, 0), Shape(2, 0, 4), Shape(1, 3, 4)}
Shapes3 == {Shape(1, 0, 0), Shape(2, 3, 4)}
ShapeSeqs(len, lvl) ==
    IF len = 1 \/ lvl = 2 THEN [1..len -> AllShapes]
    ELSE IF lvl = 1 THEN (IF len = 2 THEN [1..len -> AllShapes] ELSE [1..len -> MultShapes] \cup [1..len -> SleepShapes])
    ELSE (IF len = 2 THEN [1..len -> Shapes2] ELSE [1..len -> Shapes3])

StructCode(shs) == LET RECURSIVE C(_)
                       C(p) == IF p = 0 THEN 0 ELSE C(p - 1) * 13 + ShapeCode(shs[p]) + 1
                   IN C(Len(shs))

FlowCase(f, nsi, shs, sc) ==
    [id |-> ((f * 8 + nsi) * 2400 + StructCode(shs)) * 67 + ScriptCode(sc),
     fam |-> "flow", reqs |-> Flows[f],
     scens |-> << [name |-> "s1", weight |-> 1, mwt |-> 0, items |-> ItemsOf(NameSeqs[nsi], shs)] >>,
     gun |-> "http", tmpl |-> "text", special |-> FALSE, rows |-> 3, idx |-> 7, shots |-> 2, script |-> sc]

\* initial states: every flow profile x name sequence x shapes x script (enumerated lazily by TLC)
FlowInit(lvl) ==
    \E f \in 1..Len(Flows), nsi \in 1..Len(NameSeqs) :
      \E shs \in ShapeSeqs(Len(NameSeqs[nsi]), lvl) :
        \E sc \in ScriptsLvl(StepsOf(shs), lvl) :
          st = InitSt(FlowCase(f, nsi, shs, sc))

-----------------------------------------------------------------------------
(* weights -> ring: 1..3 scenarios, weights in {1,2,3,4,6}; scenario j = one plain request *)
Weights == {1, 2, 3, 4, 6}
WCode(w) == IF w = 6 THEN 5 ELSE w
PlainReqs == Flows[1]
RingScens(ws) == [j \in 1..Len(ws) |-> [name |-> <<"s1", "s2", "s3">>[j], weight |-> ws[j], mwt |-> 0,
                                         items |-> <<ReqItem(<<"a", "b", "c">>[j], 1, 0)>>]]
RingLen(ws) == Len(RingOf(RingScens(ws)))
WsCode(ws) == LET RECURSIVE C(_)
                  C(p) == IF p = 0 THEN 0 ELSE C(p - 1) * 6 + WCode(ws[p])
              IN C(Len(ws))
RingCase(ws) == [id |-> 20000000 + WsCode(ws), fam |-> "ring", reqs |-> PlainReqs, scens |-> RingScens(ws),
                 gun |-> "http", tmpl |-> "text", special |-> FALSE, rows |-> 3, idx |-> 7, shots |-> 2 * RingLen(ws), script |-> Script("ok", 0)]
RingInit == \E n \in 1..3 : \E ws \in [1..n -> Weights] : st = InitSt(RingCase(ws))

\* a request listed by two scenarios: its preprocessor keeps the iterator of the LAST scenario listing it
IterScens(w1, w2) == << [name |-> "s1", weight |-> w1, mwt |-> 0, items |-> <<ReqItem("a", 1, 0), ReqItem("b", 2, 0)>>],
                        [name |-> "s2", weight |-> w2, mwt |-> 0, items |-> <<ReqItem("a", 2, 0)>>] >>
IterCase(w1, w2) ==
    [id |-> 20100000 + (w1 * 10 + w2), fam |-> "iter",
     reqs |-> [a |-> RDef(PreM("next", "users"), Use("pre", "a", "uri"), "none", FALSE),
               b |-> RDef(PreM("next", "users"), Use("pre", "b", "hdr"), "none", TRUE),
               c |-> RDef(NoPre, NoUse, "none", FALSE)],
     scens |-> IterScens(w1, w2),
     gun |-> "http", tmpl |-> "text", special |-> FALSE, rows |-> 3, idx |-> 7, shots |-> 2 * Len(RingOf(IterScens(w1, w2))), script |-> Script("ok", 0)]
IterInit == \E w1 \in {1, 2, 3}, w2 \in {1, 2} : st = InitSt(IterCase(w1, w2))

\* several instances: [next] under every interleaving (design level, NInst = 2) and on the real engine (M1, 4 instances)
NextCase(rows, shots) ==
    [id |-> 20200000 + rows * 100 + shots, fam |-> "next",
     reqs |-> [a |-> RDef(PreM("next", "users"), Use("pre", "a", "uri"), "none", FALSE),
               b |-> RDef(PreM("next", "items"), Use("pre", "b", "hdr"), "none", FALSE),
               c |-> RDef(PreM("next", "users"), Use("pre", "c", "body"), "none", FALSE)],
     scens |-> << [name |-> "s1", weight |-> 1, mwt |-> 0, items |-> <<ReqItem("a", 2, 0), ReqItem("b", 1, 0), ReqItem("c", 1, 0)>>] >>,
     gun |-> "http", tmpl |-> "text", special |-> FALSE, rows |-> rows, idx |-> 7, shots |-> shots, script |-> Script("ok", 0)]
SmallNextCase(shots) == [NextCase(2, shots) EXCEPT !.id = 20300000 + shots,
                            !.scens = << [name |-> "s1", weight |-> 1, mwt |-> 0, items |-> <<ReqItem("a", 1, 0), ReqItem("c", 2, 0)>>] >>]
NextInit == \E n \in 1..3 : st = InitSt(SmallNextCase(n))
\* the order of log and samples does not influence the future: explore one representative per length
NextView == [st EXCEPT !.log = Len(st.log), !.samples = Len(st.samples), !.durs = Len(st.durs)]
NextBigInit == \E rows \in {1, 2, 3, 5}, shots \in {7, 12} : st = InitSt(NextCase(rows, shots))

\* FIRST-access contention (M1): 8 instances, one shot each; in front of every step's real preprocessor the harness puts a
\* spin barrier (through the gun's pluggable Preprocessor interface), so the 8 instances make the FIRST [next] look-up of
\* the path users (step a) resp. items (step b) on a fresh iterator at the same instant.  Replayed many times per run.
FirstCase(rows) ==
    [id |-> 20400000 + rows, fam |-> "first",
     reqs |-> [a |-> RDef(PreM("next", "users"), Use("pre", "a", "uri"), "none", FALSE),
               b |-> RDef(PreM("next", "items"), Use("pre", "b", "hdr"), "none", FALSE),
               c |-> RDef(NoPre, NoUse, "none", FALSE)],
     scens |-> << [name |-> "s1", weight |-> 1, mwt |-> 0, items |-> <<ReqItem("a", 1, 0), ReqItem("b", 1, 0)>>] >>,
     gun |-> "http", tmpl |-> "text", special |-> FALSE, rows |-> rows, idx |-> 7, shots |-> 8, script |-> Script("ok", 0)]
FirstInit == \E rows \in {2, 3, 5} : st = InitSt(FirstCase(rows))

-----------------------------------------------------------------------------
(* the html templater: the flows whose renderings can differ ("<no value>" is escaped), and a flow over data-source rows *)
(* that end in "<" rendered into header and body, with both templaters                                                  *)
HFlow == [a |-> RDef(PreM("next", "users"), Use("pre", "a", "hdr"), "json", FALSE),
          b |-> RDef(NoPre, Use("ghost", "", "body"), "none", TRUE),
          c |-> RDef(PreM("last", "users"), Use("pre", "c", "body"), "none", FALSE)]
TmplScripts == {Script("ok", 0), Script("status", 2), Script("transport", 1)}
OneShape(n) == [p \in 1..n |-> Shape(1, 0, 0)]
TmplCase(f, nsi, sc, tmpl, special) ==
    [FlowCase(f, nsi, OneShape(Len(NameSeqs[nsi])), sc) EXCEPT
        !.id = 21000000 + (((IF special THEN 10 ELSE f) * 8 + nsi) * 2 + (IF tmpl = "html" THEN 1 ELSE 0)) * 67 + ScriptCode(sc),
        !.fam = "tmpl", !.tmpl = tmpl, !.special = special,
        !.reqs = IF special THEN HFlow ELSE Flows[f]]
TmplInit == \/ \E f \in {2, 3, 6, 7, 8, 9}, nsi \in {3, 5} : \E sc \in TmplScripts : st = InitSt(TmplCase(f, nsi, sc, "html", FALSE))
            \/ \E nsi \in {3, 5, 7}, tmpl \in {"text", "html"} : \E sc \in TmplScripts : st = InitSt(TmplCase(1, nsi, sc, tmpl, TRUE))

-----------------------------------------------------------------------------
(* the grpc/scenario gun: the same flow semantics (order, multiplicity, pauses, variable flow, abort) on calls *)
GDef(pre, use, as) == RDef(pre, use, "grpc", as)
GFlows == <<
  \* 1 plain calls, assertions on a and c
  [a |-> GDef(NoPre, NoUse, TRUE), b |-> GDef(NoPre, NoUse, FALSE), c |-> GDef(NoPre, NoUse, TRUE)],
  \* 2 data source [next] / [last] / [7] rendered into the payload and the metadata
  [a |-> GDef(PreM("next", "users"), Use("pre", "a", "payload"), TRUE),
   b |-> GDef(PreM("last", "users"), Use("pre", "b", "meta"), FALSE),
   c |-> GDef(PreM("idx", "items"), Use("pre", "c", "payload"), FALSE)],
  \* 3 the reply of a call flows into the next calls: a -> b (payload) -> c (metadata); b asserts
  [a |-> GDef(NoPre, NoUse, FALSE),
   b |-> GDef(NoPre, Use("post", "a", "payload"), TRUE),
   c |-> GDef(NoPre, Use("post", "b", "meta"), FALSE)],
  \* 4 through preprocessors: a's reply -> b.pre -> b's payload; b's reply -> c.pre -> c's metadata
  [a |-> GDef(NoPre, NoUse, FALSE),
   b |-> GDef(PreM("from", "a"), Use("pre", "b", "payload"), FALSE),
   c |-> GDef(PreM("from", "b"), Use("pre", "c", "meta"), TRUE)],
  \* 5 a variable that is not there, a template execution error, a preprocessor error
  [a |-> GDef(NoPre, Use("ghost", "", "meta"), FALSE),
   b |-> GDef(NoPre, Use("bad", "", "payload"), FALSE),
   c |-> GDef(PreM("missing", ""), NoUse, FALSE)]
>>
GShapes == {Shape(1, 0, 0), Shape(2, 3, 4)}
GScripts(steps, lvl) == {Script("ok", 0)} \cup {Script("status", k) : k \in 1..(IF lvl = 0 /\ steps > 2 THEN 3 ELSE steps + 1)}
GrpcCase(f, nsi, shs, sc) ==
    [FlowCase(f, nsi, shs, sc) EXCEPT
        !.id = 22000000 + ((f * 8 + nsi) * 2400 + StructCode(shs)) * 67 + ScriptCode(sc),
        !.fam = "grpc", !.gun = "grpc", !.reqs = GFlows[f]]
GrpcInit(lvl) ==
    \E f \in 1..Len(GFlows), nsi \in 1..Len(NameSeqs) :
      \E shs \in (IF lvl = 0 THEN [1..Len(NameSeqs[nsi]) -> GShapes] ELSE ShapeSeqs(Len(NameSeqs[nsi]), 0)) :
        \E sc \in GScripts(StepsOf(shs), lvl) :
          st = InitSt(GrpcCase(f, nsi, shs, sc))

\* several instances AND failures: every shot draws its own row (16 rows, 8 shots); a's request is answered 418 when the row
\* it renders has parity `at`, a asserts -> that shot ends; b renders a's row, so the target's log shows per row whether the
\* shot went on.  Compared as multisets (order free).
MFailCase(par) ==
    [id |-> 20500000 + par, fam |-> "mfail",
     reqs |-> [a |-> RDef(PreM("next", "users"), Use("pre", "a", "uri"), "none", TRUE),
               b |-> RDef(NoPre, Use("pre", "a", "hdr"), "none", FALSE),
               c |-> RDef(NoPre, NoUse, "none", FALSE)],
     scens |-> << [name |-> "s1", weight |-> 1, mwt |-> 0, items |-> <<ReqItem("a", 1, 0), ReqItem("b", 1, 0)>>] >>,
     gun |-> "http", tmpl |-> "text", special |-> FALSE, rows |-> 16, idx |-> 7, shots |-> 8, script |-> Script("rowmod", par)]
MFailInit == \E par \in {0, 1} : st = InitSt(MFailCase(par))

-----------------------------------------------------------------------------
(* nested sources, several indexed paths per scenario, every index kind                                                 *)
(* The lists buyers / sellers (nested file/json source) and users (file/csv) all END in the segment `users[..]`, vlist / *)
(* glist (variables source) in `list[..]`; the lists have different lengths (rows+1, rows, rows, 2, 3).                  *)
SrcFlows == <<
  \* 1 three [next] look-ups whose last segment is the same text, in one scenario
  [a |-> RDef(PreM("next", "buyers"), Use("pre", "a", "uri"), "none", FALSE),
   b |-> RDef(PreM("next", "sellers"), Use("pre", "b", "hdr"), "none", TRUE),
   c |-> RDef(PreM("next", "users"), Use("pre", "c", "body"), "none", FALSE)],
  \* 2 lists of strings of a variables source (top level and nested), [next] and [last]
  [a |-> RDef(PreM("next", "vlist"), Use("pre", "a", "hdr"), "none", FALSE),
   b |-> RDef(PreM("next", "glist"), Use("pre", "b", "body"), "none", FALSE),
   c |-> RDef(PreM("last", "glist"), Use("pre", "c", "uri"), "none", FALSE)],
  \* 3 [rand] (any row of the list) and an integer index (negative / beyond the end: modulo the length)
  [a |-> RDef(PreM("rand", "buyers"), Use("pre", "a", "uri"), "none", FALSE),
   b |-> RDef(PreM("rand", "vlist"), Use("pre", "b", "hdr"), "none", FALSE),
   c |-> RDef(PreM("idx", "sellers"), Use("pre", "c", "body"), "none", FALSE)],
  \* 4 integer index and [last] on every kind of source
  [a |-> RDef(PreM("idx", "glist"), Use("pre", "a", "uri"), "none", FALSE),
   b |-> RDef(PreM("last", "buyers"), Use("pre", "b", "hdr"), "none", FALSE),
   c |-> RDef(PreM("idx", "users"), Use("pre", "c", "body"), "none", FALSE)],
  \* 5 [next] on the nested lists, a later step renders an earlier step's row; one step on [rand] of the csv source
  [a |-> RDef(PreM("next", "sellers"), Use("pre", "a", "hdr"), "json", FALSE),
   b |-> RDef(PreM("next", "buyers"), Use("pre", "a", "body"), "none", FALSE),
   c |-> RDef(PreM("rand", "items"), Use("pre", "c", "uri"), "none", FALSE)]
>>
SrcIdx == {-1, -4, 0, 5, 7}
IdxCode(x) == x + 4
SrcCase(f, nsi, rows, idx) ==
    [FlowCase(f, nsi, OneShape(Len(NameSeqs[nsi])), Script("ok", 0)) EXCEPT
        !.id = 23000000 + ((f * 8 + nsi) * 8 + rows) * 12 + IdxCode(idx),
        !.fam = "src", !.reqs = SrcFlows[f], !.rows = rows, !.idx = idx, !.shots = 4]
SrcInit == \E f \in 1..Len(SrcFlows), nsi \in {2, 4, 5, 6, 7}, rows \in {2, 3} :
             \E idx \in (IF f \in {3, 4} THEN SrcIdx ELSE {7}) : st = InitSt(SrcCase(f, nsi, rows, idx))
\* design level, two instances under every interleaving: per-path counters
SrcSmallCase(n) == [SrcCase(1, 5, 2, 7) EXCEPT !.id = 23900000 + n, !.shots = n]
SrcSmallInit == \E n \in 1..2 : st = InitSt(SrcSmallCase(n))

\* several scenarios on the same sources (every scenario has its own iterator: each starts at row 0 of every list)
ShareScens(w1, w2) == << [name |-> "s1", weight |-> w1, mwt |-> 0, items |-> <<ReqItem("a", 1, 0), ReqItem("b", 1, 0)>>],
                         [name |-> "s2", weight |-> w2, mwt |-> 0, items |-> <<ReqItem("c", 2, 0)>>] >>
ShareCase(w1, w2, rows) ==
    [id |-> 23800000 + (w1 * 10 + w2) * 10 + rows, fam |-> "share",
     reqs |-> [a |-> RDef(PreM("next", "buyers"), Use("pre", "a", "uri"), "none", FALSE),
               b |-> RDef(PreM("next", "sellers"), Use("pre", "b", "hdr"), "none", FALSE),
               c |-> RDef(PreM("next", "buyers"), Use("pre", "c", "body"), "none", FALSE)],
     scens |-> ShareScens(w1, w2),
     gun |-> "http", tmpl |-> "text", special |-> FALSE, rows |-> rows, idx |-> 7,
     shots |-> 2 * Len(RingOf(ShareScens(w1, w2))), script |-> Script("ok", 0)]
ShareInit == \E w1 \in {1, 2}, w2 \in {1, 3}, rows \in {2, 3} : st = InitSt(ShareCase(w1, w2, rows))

\* several instances on nested lists (M1, run with 4 instances)
NextCase2(rows, shots) ==
    [NextCase(rows, shots) EXCEPT !.id = 20250000 + rows * 100 + shots,
        !.reqs = [a |-> RDef(PreM("next", "buyers"), Use("pre", "a", "uri"), "none", FALSE),
                  b |-> RDef(PreM("next", "sellers"), Use("pre", "b", "hdr"), "none", FALSE),
                  c |-> RDef(PreM("next", "glist"), Use("pre", "c", "body"), "none", FALSE)]]
NextBig2Init == \E rows \in {2, 3}, shots \in {7, 12} : st = InitSt(NextCase2(rows, shots))

-----------------------------------------------------------------------------
(* min_waiting_time ("the minimum scenario execution time") and pauses as LOWER bounds on the duration of a shot;        *)
(* a scenario whose request list is empty                                                                                *)
MwtItems == << <<ReqItem("a", 1, 0)>>,
               <<ReqItem("a", 2, 3), SleepItem(4)>>,
               <<ReqItem("a", 1, 30), ReqItem("b", 1, 0)>>,      \* the pauses alone exceed min_waiting_time
               <<ReqItem("a", 1, 5), ReqItem("b", 1, 0), ReqItem("a", 1, 0)>>,
               <<>> >>                                           \* no requests at all
MwtScripts == {Script("ok", 0), Script("status", 1), Script("transport", 1), Script("status", 2)}
MwtCase(k, mwt, sc, gun) ==
    [id |-> 24000000 + ((k * 100 + mwt) * 2 + (IF gun = "grpc" THEN 1 ELSE 0)) * 67 + ScriptCode(sc), fam |-> "mwt",
     reqs |-> IF gun = "grpc" THEN GFlows[1] ELSE Flows[1],
     scens |-> << [name |-> "s1", weight |-> 1, mwt |-> mwt, items |-> MwtItems[k]] >>,
     gun |-> gun, tmpl |-> "text", special |-> FALSE, rows |-> 3, idx |-> 7, shots |-> 3, script |-> sc]
MwtInit == \E k \in 1..Len(MwtItems), mwt \in {0, 25}, gun \in {"http", "grpc"} :
             \E sc \in (IF MwtItems[k] = <<>> THEN {Script("ok", 0)} ELSE MwtScripts) :
                (sc.kind = "transport" => gun = "http") /\ st = InitSt(MwtCase(k, mwt, sc, gun))
\* two scenarios with their own min_waiting_time, one of them without requests
Mwt2Case(m1, m2) ==
    [id |-> 24900000 + m1 * 100 + m2, fam |-> "mwt",
     reqs |-> Flows[1],
     scens |-> << [name |-> "s1", weight |-> 1, mwt |-> m1, items |-> <<>>],
                  [name |-> "s2", weight |-> 2, mwt |-> m2, items |-> <<ReqItem("b", 1, 2)>>] >>,
     gun |-> "http", tmpl |-> "text", special |-> FALSE, rows |-> 3, idx |-> 7, shots |-> 6, script |-> Script("ok", 0)]
Mwt2Init == \E m1 \in {0, 20}, m2 \in {0, 15} : st = InitSt(Mwt2Case(m1, m2))

\* weights with a large common divisor (the ring holds weight / gcd copies)
BigWeights == << <<12, 18>>, <<100, 150, 250>>, <<1000000, 1000000>>, <<96, 64>>, <<7, 7, 7>>, <<65536, 32768, 98304>>,
                 <<999999, 333333>>, <<0, 0, 0>> >>
BigRingCase(k) == [RingCase(BigWeights[k]) EXCEPT !.id = 20600000 + k]
BigRingInit == \E k \in 1..Len(BigWeights) : st = InitSt(BigRingCase(k))

GrpcSmallInit == \E f \in {1, 3}, nsi \in {2, 5} : \E sc \in GScripts(Len(NameSeqs[nsi]), 1) :
                    st = InitSt(GrpcCase(f, nsi, OneShape(Len(NameSeqs[nsi])), sc))
Growth == SrcInit \/ ShareInit \/ NextBig2Init \/ MwtInit \/ Mwt2Init \/ BigRingInit
InitQuick == FlowInit(0) \/ RingInit \/ IterInit \/ NextBigInit \/ FirstInit \/ TmplInit \/ GrpcInit(0) \/ MFailInit \/ Growth
InitThorough == FlowInit(1) \/ RingInit \/ IterInit \/ NextBigInit \/ FirstInit \/ TmplInit \/ GrpcInit(1) \/ MFailInit \/ Growth
InitFull  == FlowInit(2) \/ RingInit \/ IterInit
InitSmall == (\E nsi \in {2, 6} : \E shs \in [1..Len(NameSeqs[nsi]) -> {Shape(1, 0, 0), Shape(2, 3, 4)}] :
                \E f \in {1, 3} : \E sc \in ScriptsFor(StepsOf(shs)) : st = InitSt(FlowCase(f, nsi, shs, sc)))
             \/ (\E ws \in [1..2 -> {1, 2, 4}] : st = InitSt(RingCase(ws)))

\* M2: export the selected cases for the replay through the real code
GMod == IF "VERIF_GMOD" \in DOMAIN IOEnv THEN atoi(IOEnv.VERIF_GMOD) ELSE 1
SMod == IF "VERIF_SMOD" \in DOMAIN IOEnv THEN atoi(IOEnv.VERIF_SMOD) ELSE 1
RMod == IF "VERIF_RMOD" \in DOMAIN IOEnv THEN atoi(IOEnv.VERIF_RMOD) ELSE 1
\* (ids are <structure> * 67 + <script>: both parts are mixed so that every residue class is a fair sample)
Mix(id) == (id \div 67) * 5 + (id % 67)
Selected(c) == CASE c.fam = "flow" -> (Mix(c.id) % Mod) = (Sd % Mod)
                 [] c.fam = "grpc" -> (Mix(c.id) % GMod) = (Sd % GMod)
                 [] c.fam = "src"  -> (c.id % SMod) = (Sd % SMod)
                 [] c.fam = "ring" -> c.id >= 20600000 \/ (c.id % RMod) = (Sd % RMod)     \* (the big-weight rings always)
                 [] OTHER -> TRUE
Export == (Done(st) /\ Selected(st.cs)) => PrintT(<<"VERIF", ToJson(st.cs)>>)

=============================================================================
