------------------------------ MODULE ByteEdit ------------------------------
(***************************************************************************)
(* C13, byte level (thorough tier).  A VALID ammo file of NEntries entries *)
(* per format, and an edit alphabet over its STRUCTURAL bytes: delete /     *)
(* duplicate / flip (lowest bit) the byte of a given kind in entry k.  A    *)
(* case is one or two edits in different entries.  Where the module can     *)
(* compute it, the expectation is a verdict class                           *)
(*     error(at k)   the run fails at entry k: entries 1..k-1 delivered     *)
(*     ok            the run succeeds, every entry is delivered             *)
(*     skipped(K)    continue-on-error: the run succeeds, entries K invalid *)
(* and `unknown` otherwise.  For EVERY case: the outcome alphabet is        *)
(* {ok, error} (no panic, no hang, Run returns) and the entries in front of *)
(* the first edit are delivered first and unchanged.                        *)
(* TLC -simulate samples the cases (PrintT), `vdrive malformed` applies     *)
(* the edits to the rendered file and runs the real providers,              *)
(* TraceByteEdit.tla compares with Expect.                                  *)
(***************************************************************************)
EXTENDS Naturals, Sequences, FiniteSets, TLC

CONSTANTS NEntries,   \* entries of the valid file
          Variant     \* "ok" | "lax" (negative control: a deleted header colon is "ok")

VARIABLES cs, phase
vars == <<cs, phase>>

Targets == { <<"uri", "stream">>, <<"uripost", "stream">>, <<"raw", "stream">>, <<"jsonline", "stream">>,
             <<"grpcjson", "stream">>, <<"grpcjson", "continue">> }

\* structural bytes of ONE entry, per format (the driver locates them in the rendered entry)
HdrKinds  == {"hdr_open", "hdr_colon", "hdr_close", "hdr_nl"}          \* [X-Seq: id]\n
JsonKinds == {"obj_open", "obj_close", "quote", "colon", "comma", "line_nl"}
Kinds(f) == CASE f = "uri"     -> HdrKinds \cup {"uri_sp", "line_nl"}
              [] f = "uripost" -> HdrKinds \cup {"size_digit", "size_sp", "line_nl", "body_nl"}
              [] f = "raw"     -> {"size_digit", "size_sp", "line_nl", "body_nl"}
              [] OTHER         -> JsonKinds
Ops == {"delete", "duplicate", "flip"}

\* separators without which the construct cannot be recognised
Mandatory(f) == IF f \in {"uri", "uripost"} THEN {"hdr_colon", "hdr_close"}
                ELSE IF f = "raw" THEN {} ELSE JsonKinds \ {"line_nl"}

\* verdict of ONE edit in streaming mode: "error" | "ok" | "unknown"
V(f, kind, op) ==
    CASE kind = "hdr_colon" /\ op = "delete"    -> IF Variant = "lax" THEN "ok" ELSE "error"
      [] kind = "hdr_colon" /\ op = "flip"      -> "error"      \* ':' -> ';'
      [] kind = "hdr_colon" /\ op = "duplicate" -> "ok"         \* the value starts with ':'
      [] kind = "hdr_close" /\ op = "delete"    -> "error"
      [] kind = "hdr_close" /\ op = "flip"      -> "error"      \* ']' -> '\'
      [] kind = "hdr_close" /\ op = "duplicate" -> "ok"         \* the value ends with ']'
      [] kind = "hdr_nl" /\ op = "duplicate"    -> "ok"         \* a blank line
      [] f = "uri" /\ kind = "line_nl" /\ op = "duplicate" -> "ok"
      \* `}}`: the streaming decoder hands out the complete object first and fails on the second brace
      [] f = "jsonline" /\ kind = "obj_close" /\ op = "duplicate" -> "unknown"
      [] f \in {"jsonline", "grpcjson"} /\ kind \in JsonKinds \ {"line_nl"} -> "error"   \* any edit breaks the JSON value
      [] f = "jsonline" /\ kind = "line_nl" /\ op \in {"delete", "duplicate"} -> "ok"     \* the decoder does not need newlines
      [] OTHER -> "unknown"

Edit(k, kind, op) == [k |-> k, kind |-> kind, op |-> op]
NoEdit == [k |-> 0, kind |-> "-", op |-> "-"]

CasesOf(t) ==
    { [format |-> t[1], mode |-> t[2], e1 |-> Edit(k1, kd1, o1), e2 |-> NoEdit] :
        k1 \in 1..NEntries, kd1 \in Kinds(t[1]), o1 \in Ops }
    \cup
    UNION { { [format |-> t[1], mode |-> t[2], e1 |-> Edit(k1, kd1, o1), e2 |-> Edit(k2, kd2, o2)] :
                k2 \in (k1 + 1)..NEntries, kd1 \in Kinds(t[1]), o1 \in Ops, kd2 \in Kinds(t[1]), o2 \in Ops }
            : k1 \in 1..NEntries }
\* (an operator with a parameter: TLC evaluates zero-arity constant definitions eagerly, the trace spec never needs this set)
Cases(dummy) == UNION { CasesOf(t) : t \in Targets }

CaseOK(c) == /\ c.e1.kind \in Kinds(c.format)
             /\ (c.e2.k # 0 => c.e2.kind \in Kinds(c.format) /\ c.e1.k < c.e2.k)

IsCase(c) ==
    /\ <<c.format, c.mode>> \in Targets
    /\ c.e1.k \in 1..NEntries /\ c.e1.op \in Ops
    /\ (c.e2.k = 0 \/ (c.e2.k \in 1..NEntries /\ c.e2.op \in Ops))
    /\ CaseOK(c)

\* verdict of an edit in the case's mode: continue-on-error turns a grpc/json decode error into a skipped entry
VM(c, e) == LET v == V(c.format, e.kind, e.op) IN
            IF v = "error" /\ c.mode = "continue" THEN "skip" ELSE v

Exp(kind, at) == [kind |-> kind, at |-> at]
\* the expectation for a case: edits are met in file order
Expect(c) ==
    LET v1 == VM(c, c.e1)
        v2 == IF c.e2.k = 0 THEN "ok" ELSE VM(c, c.e2) IN
    CASE v1 = "error"                   -> Exp("error", <<c.e1.k>>)
      [] v1 = "unknown"                 -> Exp("unknown", <<>>)
      [] v1 = "ok"   /\ v2 = "error"    -> Exp("error", <<c.e2.k>>)
      [] v1 = "ok"   /\ v2 = "ok"       -> Exp("ok", <<>>)
      [] v1 = "ok"   /\ v2 = "skip"     -> Exp("skipped", <<c.e2.k>>)
      [] v1 = "skip" /\ v2 = "ok"       -> Exp("skipped", <<c.e1.k>>)
      [] v1 = "skip" /\ v2 = "skip"     -> Exp("skipped", <<c.e1.k, c.e2.k>>)
      [] OTHER                          -> Exp("unknown", <<>>)

\* entries in front of the first edit: delivered first, unchanged, whatever happens later
IntactPrefix(c) == c.e1.k - 1

-----------------------------------------------------------------------------
Init == cs \in Cases(0) /\ phase = "picked"
Next == phase = "picked" /\ phase' = "classified" /\ UNCHANGED cs
Spec == Init /\ [][Next]_vars
Done == phase = "classified"

TypeOK == IsCase(cs) /\ Expect(cs).kind \in {"error", "ok", "skipped", "unknown"}
\* an error is expected at the FIRST edit that is one: everything in front of it is harmless
ErrorAtFirst ==
    Expect(cs).kind = "error" =>
        \/ (Expect(cs).at = <<cs.e1.k>> /\ VM(cs, cs.e1) = "error")
        \/ (Expect(cs).at = <<cs.e2.k>> /\ VM(cs, cs.e1) = "ok" /\ VM(cs, cs.e2) = "error")
\* entries are only skipped where continue-on-error is requested, and only by the reader that honours it
SkipOnlyContinue == Expect(cs).kind = "skipped" => (cs.mode = "continue" /\ cs.format = "grpcjson")
\* deleting a separator the construct cannot be recognised without is never harmless
SeparatorsMandatory ==
    \A e \in {cs.e1, cs.e2} : (e.k # 0 /\ e.kind \in Mandatory(cs.format) /\ e.op = "delete") => VM(cs, e) # "ok"
\* the prefix rule never reaches past the first edit
PrefixInFront == IntactPrefix(cs) < cs.e1.k /\ (Expect(cs).kind = "error" => Expect(cs).at[1] > IntactPrefix(cs))
=============================================================================
