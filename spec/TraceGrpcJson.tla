---------------------------- MODULE TraceGrpcJson ----------------------------
(***************************************************************************)
(* C20, JSON -> protobuf mapping.  `vdrive grpcjson` rendered every case   *)
(* of GrpcJsonMC!Cases as a grpc/json line (kind json) and as a gRPC       *)
(* scenario call (kind scn), shot the files through the real engine,       *)
(* provider and gun, and logged one line per (kind, case):                 *)
(*   Case{kind, id, msg, w, recv, leaves, ok, fail}                        *)
(* w: the written payload (abstract, as generated), recv: calls of that    *)
(* case the server received, leaves: what it decoded ([p, v]; v mapped     *)
(* back to the value id by the canonical-text table), ok / fail: samples.  *)
(* Every line must agree with GrpcJson!Expect: the call is sent iff the    *)
(* payload fits the input type, the server decodes exactly the expected    *)
(* leaves, one ok sample / one failed sample.  Disagreeing lines are       *)
(* printed (VERIF-MISMATCH) -- a run must end without error.               *)
(***************************************************************************)
EXTENDS GrpcJson, Json, IOUtils

VARIABLE l
Trace == ndJsonDeserialize(IOEnv.VERIF_TRACE)
Ev == Trace[l]
Mark == TLCSet(1, IF TLCGet(1) > l + 1 THEN TLCGet(1) ELSE l + 1)
TraceInit == l = 1 /\ TLCSet(1, 1)

Obs(e) == {[p |-> y.p, v |-> y.v] : y \in Rng(e.leaves)}
Agrees(e) == LET r == Expect(e.msg, e.w) IN
                /\ e.recv = (IF r.ok THEN 1 ELSE 0)
                /\ r.ok => Obs(e) = r.leaves
                /\ e.ok = (IF r.ok THEN 1 ELSE 0)
                /\ e.fail = (IF r.ok THEN 0 ELSE 1)
\* a case that disagrees is REPORTED (its line number is printed) and the walk goes on: one pass names every
\* disagreeing case; the check turns every reported line into a violation
TCase == Ev.ev = "Case" /\ (IF Agrees(Ev) THEN TRUE ELSE PrintT(<<"VERIF-MISMATCH", l>>))
TRunEnd == Ev.ev = "RunEnd" /\ Ev.err = ""
TRun == Ev.ev = "Run"
TraceNext == /\ l <= Len(Trace)
             /\ (TCase \/ TRun \/ TRunEnd)
             /\ l' = l + 1
             /\ Mark
Accepted == PrintT(<<"VERIF-HWM", TLCGet(1)>>) /\ TLCGet(1) = Len(Trace) + 1
=============================================================================
