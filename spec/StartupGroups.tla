---------------------------- MODULE StartupGroups ----------------------------
(***************************************************************************)
(* C12: composites NESTED in a startup (or rps) profile.  The complete     *)
(* small space of groupings of once(n) and token-less items - a hold       *)
(* (const 0 for d) and a const whose ops * d stays below 1 - with the      *)
(* token-less item trailing, leading or inside a group, groups of depth 2, *)
(* one or two groups in the profile, parts before and after them.  One     *)
(* state per profile.                                                      *)
(*                                                                         *)
(* HoldHonoured ties StartupMath's flattening (what TracePool.tla checks   *)
(* the recorded token instants against) to the property's wording: every   *)
(* item of the profile starts exactly when everything WRITTEN before it    *)
(* is over, token-less items of groups included - "never more instances    *)
(* than the profile has released by that moment".  The duration of what is *)
(* written is computed on the configuration itself (WrittenDur), not on the  *)
(* flattened parts.  Negative control (GroupDropsTail <- TRUE: a group is  *)
(* over with its last token): HoldHonoured MUST fail.                      *)
(*                                                                         *)
(* M2: Export prints every profile in the shape the driver logs (`sdesc`); *)
(* `vdrive pool -groups` renders each one as a real nested config / real   *)
(* nested schedule.NewComposite, runs the real engine; TracePool.tla       *)
(* compares the number and the instants of the tokens (PartsOK).           *)
(***************************************************************************)
EXTENDS StartupMath, Sequences, TLC, Json

VARIABLE c

TickNs == 3000000                                  \* 3 ms: above the scheduler's noise, a run stays short
Leaf(ctor, fm, times, ticks) ==
  [ctor |-> ctor, from_m |-> fm, to_m |-> fm, step |-> 0, times |-> times, ifrom |-> 0, ito |-> 0,
   dur |-> FromInt(ticks * TickNs)]
Once(n)  == Leaf("once", 0, n, 0)
Hold(k)  == Leaf("const", 0, 0, k)                 \* const ops: 0 for k ticks
Weak(k)  == Leaf("const", 400, 0, k)               \* const ops: 0.4 for k ticks: 0.0012 k tokens, i.e. none
Comp(ks) == [ctor |-> "composite", from_m |-> 0, to_m |-> 0, step |-> 0, times |-> 0, ifrom |-> 0, ito |-> 0,
             dur |-> <<>>, kids |-> ks]

Leaves == {Once(1), Once(2), Hold(1), Hold(2), Weak(1)}
Few    == {Once(1), Hold(1)}
Groups == {Comp(<<a>>) : a \in Leaves} \cup {Comp(<<a, b>>) : a \in Leaves, b \in Leaves}
          \cup {Comp(<<a, Comp(<<b, d>>)>>) : a \in Few, b \in Few, d \in Few}
          \cup {Comp(<<Comp(<<a, b>>), d>>) : a \in Few, b \in Few, d \in Few}
Pairs  == {Comp(<<Once(1), Hold(1)>>), Comp(<<Hold(2), Once(1)>>), Comp(<<Weak(1)>>)}
Cases  == {<<g, Once(1)>> : g \in Groups} \cup {<<Once(1), g>> : g \in Groups}
          \cup {<<Once(1), g, Once(2)>> : g \in Groups}
          \cup {<<g, h, Once(1)>> : g \in Pairs, h \in Pairs}

Init == c \in Cases
Next == UNCHANGED c
Spec == Init /\ [][Next]_c

\* how long what is WRITTEN lasts
RECURSIVE WrittenDur(_), WrittenSum(_, _)
WrittenDur(it) == CASE it.ctor = "composite" -> WrittenSum(it.kids, 1)
                  [] it.ctor = "once" -> <<>>
                  [] OTHER -> it.dur
WrittenSum(desc, j) == IF j > Len(desc) THEN <<>> ELSE Add(WrittenDur(desc[j]), WrittenSum(desc, j + 1))

Before(i) == SubSeq(c, 1, i - 1)
HoldHonoured == \A i \in 1..(Len(c) + 1) : Cmp(SumDur(DescParts(Before(i), 1), 1), WrittenSum(Before(i), 1)) = 0
\* nothing of a group is lost or invented: the tokens are those written
RECURSIVE Written(_, _)
Written(desc, j) == IF j > Len(desc) THEN 0
                    ELSE (CASE desc[j].ctor = "once" -> desc[j].times
                            [] desc[j].ctor = "composite" -> Written(desc[j].kids, 1)
                            [] OTHER -> 0) + Written(desc, j + 1)
TokensAsWritten == CountLo(c) = Written(c, 1) /\ CountHi(c) = Written(c, 1)

Export == PrintT(<<"VERIF", ToJson([desc |-> c, tokens |-> Written(c, 1)])>>)

NegTrue == TRUE
=============================================================================
