--------------------------- MODULE SamplePoolGen -----------------------------
(***************************************************************************)
(* M2 generator for the pool part of C10: the plans of the pool runs, as   *)
(* NDJSON lines [id, c] with c = [kind |-> "poolplan", shots |-> <<...>>]  *)
(* - ALL sequences of length PlanLen over the shot kinds of the config     *)
(* (so every kind is followed by every kind: the object a shot leaves in   *)
(* the pool is what the next shot is likely to get).                       *)
(***************************************************************************)
EXTENDS SamplePoolMC, SequencesExt, Json, IOUtils

CONSTANT PlanLen
Plans == {[kind |-> "poolplan", shots |-> f] : f \in [1..PlanLen -> PoolKinds]}
PlanSeq == SetToSeq(Plans)
ASSUME /\ ndJsonSerialize(IOEnv.VERIF_OUT, [i \in 1..Len(PlanSeq) |-> [id |-> i, c |-> PlanSeq[i]]])
       /\ PrintT(<<"VERIF", "plans", Len(PlanSeq)>>)
=============================================================================
