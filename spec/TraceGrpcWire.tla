---------------------------- MODULE TraceGrpcWire ----------------------------
(***************************************************************************)
(* C20 trace specification.  `vdrive grpcwire` rendered the TLC-generated  *)
(* case space into ammo files, ran each run on the real engine with the    *)
(* providers and guns built by the registered factories and logged:        *)
(*   Run{kind,shared,inst,entries}  the file AS WRITTEN (canonical form)   *)
(*   NewGun{gun} Bind{gun,inst,ok}  gun factory decorator                  *)
(*   ShootBegin{gun,gid,ammo} ShootEnd{gun,gid}                            *)
(*   Recv{method,fields,md}         the recording target (reflection on)   *)
(*   Sample{gid,tag,code}           the aggregator decorator               *)
(*   RunEnd{err}                                                           *)
(* Every line must be a step of GrpcWire: a Recv must be explained by a    *)
(* gun that is in Shoot on a good step which the received call Fits        *)
(* (method, message = payload, metadata attached); a Sample must be the    *)
(* one sample of the current step of the gun shooting on that goroutine,   *)
(* failed iff the step was never sent; at RunEnd of a grpc/json run every  *)
(* entry was shot exactly once.  Which gun a token-less call belongs to is *)
(* not observable, so the search may branch; acceptance is a high-water    *)
(* mark over all branches (POSTCONDITION).                                 *)
(***************************************************************************)
EXTENDS GrpcWire, Json, IOUtils

VARIABLE l

Trace == ndJsonDeserialize(IOEnv.VERIF_TRACE)
Ev == Trace[l]
tvars == <<vars, l>>

FSet(s) == {[f |-> x.f, pre |-> x.pre, tok |-> x.tok] : x \in Rng(s)}
MSet(s) == {[k |-> x.k, pre |-> x.pre, tok |-> x.tok] : x \in Rng(s)}
WFSet(s) == {[f |-> x.f, pre |-> x.pre, tok |-> x.tok, dv |-> x.dv] : x \in Rng(s)}
WMSet(s) == {[k |-> x.k, pre |-> x.pre, tok |-> x.tok, vf |-> x.vf] : x \in Rng(s)}
StepOf(s) == [def |-> s.def, call |-> s.call, bad |-> s.bad, tag |-> s.tag, sleep |-> s.sleep, ans |-> s.ans, size |-> s.size, fields |-> WFSet(s.fields), md |-> WMSet(s.md)]
FileOf(es) == [i \in 1..Len(es) |-> [name |-> es[i].name, steps |-> [j \in 1..Len(es[i].steps) |-> StepOf(es[i].steps[j])]]]

Mark == TLCSet(1, IF TLCGet(1) > l + 1 THEN TLCGet(1) ELSE l + 1)

TraceInit == l = 1 /\ TLCSet(1, 1) /\ InitWith("json", <<>>, 1)

Fresh(k, f, n) ==
    /\ kind' = k /\ file' = f /\ ninst' = n
    /\ gst' = [g \in Guns |-> [st |-> "none", inst |-> -1]]
    /\ sh' = [g \in Guns |-> Idle]
    /\ started' = [i \in DOMAIN f |-> 0]
    /\ done' = [i \in DOMAIN f |-> 0]
    /\ stopped' = {}
    \* the template store is not observable in a trace (only its effect on what is received):
    \* kept empty, SendAct leaves it alone
    /\ shared' = [x \in {} |-> "T"]
    /\ cache' = [g \in Guns |-> [x \in {} |-> "none"]]
    /\ nx' = 0 /\ recvlog' = {}
    \* the timeout is not modelled in ticks here (clk stays 0): a call that failed on a deadline is a failed
    \* sample of a good step, which has no action
    /\ rcfg' = [shared |-> Ev.shared, refl |-> Ev.refl, T |-> 0]
    /\ conn' = [g \in Guns |-> "none"] /\ clk' = [g \in Guns |-> 0]
    /\ dirty' = [g \in Guns |-> FALSE] /\ scratch' = [g \in Guns |-> {}]
    /\ nsample' = [i \in DOMAIN f |-> [ok |-> 0, fail |-> 0]]

TRun == Ev.ev = "Run" /\ AllIdle /\ Fresh(Ev.kind, FileOf(Ev.entries), Ev.inst)
TNewGun == Ev.ev = "NewGun" /\ Ev.gun \in Guns /\ NewGun(Ev.gun)
TBind == Ev.ev = "Bind" /\ Ev.ok /\ Ev.gun \in Guns /\ Bind(Ev.gun, Ev.inst)
\* grpc/json: the entry of that name not yet delivered (undecodable lines share the name "!invalid": the first one)
Cand == {i \in DOMAIN file : file[i].name = Ev.ammo /\ (kind = "json" => started[i] = 0)}
TShootBegin == /\ Ev.ev = "ShootBegin" /\ Ev.gun \in Guns /\ Cand # {}
               /\ IF kind = "json" THEN ShootBegin(Ev.gun, CHOOSE i \in Cand : \A j \in Cand : i <= j, Ev.gid)
                                    ELSE \E idx \in Cand : ShootBegin(Ev.gun, idx, Ev.gid)
ObsRec == [method |-> Ev.method, fields |-> FSet(Ev.fields), md |-> MSet(Ev.md)]
TRecv == /\ Ev.ev = "Recv"
         /\ \E g \in Guns : sh[g].ph = "call" /\ Fits(CurStep(g), ObsRec) /\ SendAct(g, ObsRec, shared, cache, 0, Ev.srv, scratch)
TSample == /\ Ev.ev = "Sample"
           /\ \E g \in Guns : /\ sh[g].ph \in {"call", "sample"} /\ sh[g].gid = Ev.gid /\ Sample(g, Ev.tag, Ev.code = 200)
                              \* an answered call's sample carries the answer
                              /\ sh[g].ph = "sample" => Ev.code = StatusCode(CurStep(g).ans)
TShootEnd == Ev.ev = "ShootEnd" /\ Ev.gun \in Guns /\ sh[Ev.gun].gid = Ev.gid /\ ShootEnd(Ev.gun)
TRunEnd == /\ Ev.ev = "RunEnd" /\ Ev.err = "" /\ AllIdle
           /\ kind = "json" => RunComplete
           /\ UNCHANGED vars

\* the provider wrapper's events belong to C11 (ammo-object ownership): no meaning here
TOther == Ev.ev \in {"Acquire", "Release"} /\ UNCHANGED vars

TraceNext == /\ l <= Len(Trace)
             /\ (TRun \/ TNewGun \/ TBind \/ TShootBegin \/ TRecv \/ TSample \/ TShootEnd \/ TRunEnd \/ TOther)
             /\ l' = l + 1
             /\ Mark

\* acceptance: some branch of the search followed the trace to its end
Accepted == PrintT(<<"VERIF-HWM", TLCGet(1)>>) /\ TLCGet(1) = Len(Trace) + 1
=============================================================================
