------------------------------ MODULE Shutdown ------------------------------
(***************************************************************************)
(* C06, process level: who waits for whom when pandora stops.              *)
(*                                                                         *)
(*   main       cli/cli.go ReadConfigAndRunEngine + awaitPandoraTermination*)
(*              (signal path, error path, normal end) and the process exit *)
(*   engineRun  cli.runEngine / engine.Engine.Run   (returns ctx.Err() as  *)
(*              soon as the context is done - it does NOT wait)            *)
(*   poolRun    instancePool.Run (same: returns at ctx.Done())             *)
(*   poolAwait  the await goroutine (awaitRun): all instances finished ->  *)
(*              runCancel -> aggregator awaited -> wait group Done         *)
(*   instances  R goroutines, M reports each; an instance that is shooting *)
(*              when the run context is cancelled still reports that shot; *)
(*              a blocking Report (phout, log) on a full queue parks the   *)
(*              instance ("blocked") until the aggregator takes a sample - *)
(*              for ever once the aggregator has left its drain loop       *)
(*   aggregator the Run loop of Aggregator.tla on counters; a write to a   *)
(*              slow sink is two steps (FlushBegin / FlushEnd): while it   *)
(*              lasts the Run goroutine does nothing else (back-pressure:  *)
(*              the queue fills up) and the last line on disk may be torn  *)
(*   Exit       os.Exit / return of main / death by signal: freezes every  *)
(*              other process                                              *)
(*                                                                         *)
(* Contexts: root (cancelled by gracefulShutdown) > engine (also cancelled *)
(* when Engine.Run returns) > pool (also when pool.Run returns) > run      *)
(* (also by runCancel).  Instances and the aggregator run on `run`:        *)
(* `rdone` is "run context done".                                          *)
(*                                                                         *)
(* Signals, as cli.go treats them:                                         *)
(*   SIGINT / SIGTERM after signal.Notify  -> Signal1: log, cancel the     *)
(*        root context, wait for Engine.Run's result and then for          *)
(*        Engine.Wait() under the interrupt timeout (30 s / 3 s)           *)
(*   a SECOND SIGINT/SIGTERM while waiting -> "Another signal received",   *)
(*        log.Fatal = exit at once                            (forced)     *)
(*   the interrupt timeout, the 3 s timer of the error path   (forced)     *)
(*   SIGINT / SIGTERM BEFORE signal.Notify is installed (main is between   *)
(*        `go runEngine` and awaitPandoraTermination): default action, the *)
(*        process dies on the spot                     (forced, "early")   *)
(*   SIGHUP, SIGQUIT (and SIGKILL): never passed to signal.Notify: default *)
(*        action at any moment                      (forced, "untrapped")  *)
(* THE rule (ExitComplete): result data may be missing at exit ONLY after  *)
(* one of these four forced causes; every other exit - normal end, failed  *)
(* run, one SIGINT/SIGTERM at any moment, also a first signal that arrives *)
(* while the tasks of a failed run are awaited - leaves a flushed, closed, *)
(* complete result.  A forced exit still invents nothing (ForcedBounded).  *)
(*                                                                         *)
(* WaitOnSignal = FALSE is the code as found (after a signal, main takes   *)
(* Engine.Run's immediate ctx.Err() from `errs` and calls log.Fatal ->     *)
(* os.Exit, racing the aggregator's drain/flush/close);  TRUE is the fix   *)
(* (main waits for Engine.Wait(), bounded by the interrupt timeout).       *)
(* In the ERROR path (the engine failed on its own, main awaits the        *)
(* started tasks) signals are not read at all: a first signal there must   *)
(* not end the process either.                                             *)
(***************************************************************************)
EXTENDS Phout

CONSTANTS R, M, Q, Mode, WaitOnSignal, MaxSignals, MayFail,
          ErrWaitSignalExits,  \* TRUE: a signal that arrives while main awaits the tasks of a FAILED run exits at once
                               \* (seeded regression C06-6: the shared helper treats it as "another signal")
          Untrapped,           \* TRUE: SIGHUP / SIGQUIT / SIGKILL may arrive (default action at any moment)
          SlowSink,            \* TRUE: a write to the sink may take time (FlushBegin .. FlushEnd) or never end
          Timeouts,            \* TRUE: the interrupt timeout / the 3 s timer of the error path exist (FALSE: negative control)
          Exempt,              \* causes of an exit that are allowed to lose data: {"second", "timeout", "early", "untrapped"};
                               \* a smaller set is a negative control (that cause really does lose data)
          Hang,                \* TRUE: a shot may hang (a server that does not answer, a gun that does not watch its context):
                               \* the instance never finishes, Engine.Wait() never returns, the exit is a timer's
          PatientTimers,       \* TRUE: the timers (3 s / 30 s) are long against every step the program takes by itself: they
                               \* fire only when nothing but a hung shot / a blocked sink / a parked Report is left to wait for
          AggStop              \* what stops the aggregator: "run" = its context IS the run context (as coded: a stop from
                               \* outside makes it drain, flush and close AT ONCE); "instances" = a context of its own that
                               \* is cancelled only in checkAllInstancesAreFinished (negative control, seeded change C06-12)

VARIABLES mpc,      \* main: "start" (signal.Notify not yet called) | "await" | "sigwait" | "sigjoin" | "errwait" | "exited"
          sigs,     \* SIGINT/SIGTERM delivered so far
          root,     \* root context cancelled (gracefulShutdown called)
          epc, errv,\* Engine.Run: "run" | "ret" (blocked in errs <- v) | "sent";  v: "none"|"nil"|"ctx"|"err"
          ppc, pres,\* pool.Run:   "run" | "ret";  result "none"|"nil"|"ctx"|"err"
          wpc,      \* await goroutine: "await" | "cancelled" (runCancel called) | "done" (wg.Done)
          failed,   \* the one component error of this run was raised
          rdone,    \* run context done
          ipc, made, late,   \* instances: "run"|"blocked"|"hung"|"fin", reports made, made its in-flight report after rdone
          nq, nb, nd, dropped, apc, closed, result,   \* aggregator (counters), as in Aggregator.tla
          flushing, \* the Run goroutine is inside a write to the sink: part of it is on disk, the last line may be torn
          stopCount,\* reports that had returned when the run context became done
          lateLost, \* reports made after the stop that arrived after the drain loop had ended
          exited, forced,
          cause     \* why the exit was forced: "" | "second" | "timeout" | "early" | "untrapped"

vars == <<mpc, sigs, root, epc, errv, ppc, pres, wpc, failed, rdone, ipc, made, late,
          nq, nb, nd, dropped, apc, closed, result, flushing, stopCount, lateLost, exited, forced, cause>>

I == 1..R
RECURSIVE Sum(_, _)
Sum(f, S) == IF S = {} THEN 0 ELSE LET x == CHOOSE y \in S : TRUE IN f[x] + Sum(f, S \ {x})
Total == Sum(made, I)

Init == /\ mpc = "start" /\ sigs = 0 /\ root = FALSE
        /\ epc = "run" /\ errv = "none" /\ ppc = "run" /\ pres = "none"
        /\ wpc = "await" /\ failed = FALSE /\ rdone = FALSE
        /\ ipc = [i \in I |-> "run"] /\ made = [i \in I |-> 0] /\ late = [i \in I |-> FALSE]
        /\ nq = 0 /\ nb = 0 /\ nd = 0 /\ dropped = 0 /\ apc = "loop" /\ closed = FALSE /\ result = -1
        /\ flushing = FALSE
        /\ stopCount = -1 /\ lateLost = 0 /\ exited = FALSE /\ forced = FALSE /\ cause = ""

\* the run context becomes done (first cause wins): remember how many reports had returned
Stop == /\ rdone' = TRUE
        /\ stopCount' = IF rdone THEN stopCount ELSE Total

mainV == <<mpc, sigs, root, exited, forced, cause>>
engV  == <<epc, errv>>
poolV == <<ppc, pres>>
instV == <<ipc, made, late>>
aggV  == <<nq, nb, nd, dropped, apc, closed, result, flushing>>

\* the process ends without waiting for anybody
Die(why) == /\ mpc' = "exited" /\ exited' = TRUE /\ forced' = TRUE /\ cause' = why

(* ------------------------------------------------------------------ main *)
\* awaitPandoraTermination installs the handler (the engine goroutine was started just before)
Notify == /\ ~exited /\ mpc = "start"
          /\ mpc' = "await"
          /\ UNCHANGED <<sigs, root, exited, forced, cause, engV, poolV, wpc, failed, rdone, stopCount, instV, aggV, lateLost>>
\* SIGINT/SIGTERM before that: nobody is notified, the runtime's default action kills the process
EarlySignal == /\ ~exited /\ mpc = "start" /\ sigs = 0 /\ MaxSignals >= 1
               /\ sigs' = 1 /\ Die("early")
               /\ UNCHANGED <<root, engV, poolV, wpc, failed, rdone, stopCount, instV, aggV, lateLost>>
\* SIGHUP / SIGQUIT / SIGKILL: not in signal.Notify's list - default action, whenever
UntrappedSignal == /\ ~exited /\ Untrapped
                   /\ Die("untrapped")
                   /\ UNCHANGED <<sigs, root, engV, poolV, wpc, failed, rdone, stopCount, instV, aggV, lateLost>>
\* first SIGINT/SIGTERM: the handler logs and calls gracefulShutdown() = cancel of the root context
Signal1 == /\ ~exited /\ mpc = "await" /\ sigs = 0 /\ MaxSignals >= 1
           /\ sigs' = 1 /\ mpc' = "sigwait" /\ root' = TRUE /\ Stop
           /\ UNCHANGED <<exited, forced, cause, engV, poolV, wpc, failed, instV, aggV, lateLost>>
\* main receives Engine.Run's result
RecvErr == /\ ~exited /\ epc = "ret" /\ mpc \in {"await", "sigwait"}
           /\ epc' = "sent"
           /\ \/ /\ mpc = "await" /\ errv = "nil"              \* normal end: main returns
                 /\ mpc' = "exited" /\ exited' = TRUE /\ UNCHANGED <<root, rdone, stopCount>>
              \/ /\ mpc = "await" /\ errv # "nil"              \* error path: cancel, then pandora.Wait()
                 /\ mpc' = "errwait" /\ root' = TRUE /\ Stop /\ UNCHANGED exited
              \/ /\ mpc = "sigwait"                            \* "Engine interrupted"
                 /\ IF WaitOnSignal THEN mpc' = "sigjoin" /\ UNCHANGED exited
                                    ELSE mpc' = "exited" /\ exited' = TRUE
                 /\ UNCHANGED <<root, rdone, stopCount>>
           /\ UNCHANGED <<sigs, forced, cause, errv, poolV, wpc, failed, instV, aggV, lateLost>>
\* Engine.Wait() returned
Joined == /\ ~exited /\ mpc \in {"sigjoin", "errwait"} /\ wpc = "done"
          /\ mpc' = "exited" /\ exited' = TRUE
          /\ UNCHANGED <<sigs, root, forced, cause, engV, poolV, wpc, failed, rdone, stopCount, instV, aggV, lateLost>>
\* a second SIGINT/SIGTERM while main waits after the first: "Another signal received. Quiting."
SecondSignal == /\ ~exited /\ mpc \in {"sigwait", "sigjoin"} /\ sigs < MaxSignals
                /\ sigs' = sigs + 1 /\ Die("second")
                /\ UNCHANGED <<root, engV, poolV, wpc, failed, rdone, stopCount, instV, aggV, lateLost>>
\* (InterruptTimeout / TasksTimeout: defined below, after System - with PatientTimers they refer to it)
\* error path of awaitPandoraTermination: the engine failed on its own, main has cancelled and is in
\* pandora.Wait() under a 3 s timer.  A FIRST signal that arrives now only lands in the `sigs` channel: nobody
\* reads it, the flush of the other tasks completes.  (Signal first, engine error afterwards is Signal1 ->
\* RecvErr -> "sigjoin"; a second signal there is SecondSignal.)
SignalWhileAwaitingTasks ==
    /\ ~exited /\ mpc = "errwait" /\ sigs < MaxSignals
    /\ sigs' = sigs + 1
    /\ IF ErrWaitSignalExits THEN mpc' = "exited" /\ exited' = TRUE ELSE UNCHANGED <<mpc, exited>>
    /\ UNCHANGED <<root, forced, cause, engV, poolV, wpc, failed, rdone, stopCount, instV, aggV, lateLost>>

(* ------------------------------------------------------------------ Engine.Run, pool.Run *)
EngineReturn ==
    /\ ~exited /\ epc = "run"
    /\ \/ /\ ppc = "ret" /\ pres = "nil" /\ errv' = "nil"                \* pool awaited, success
       \/ /\ ppc = "ret" /\ pres # "nil" /\ ~root /\ errv' = "err"       \* "pool run failed"
       \/ /\ root /\ errv' = "ctx"                                       \* ctx.Done(): return at once
    /\ epc' = "ret" /\ Stop                                              \* defer cancel()
    /\ UNCHANGED <<mainV, poolV, wpc, failed, instV, aggV, lateLost>>
PoolReturn ==
    /\ ~exited /\ ppc = "run"
    /\ \/ /\ (root \/ epc # "run") /\ pres' = "ctx"                      \* ctx.Done(): return at once
       \/ /\ wpc = "done" /\ pres' = "nil"                               \* awaitErr closed
    /\ ppc' = "ret" /\ Stop                                              \* defer cancel()
    /\ UNCHANGED <<mainV, engV, wpc, failed, instV, aggV, lateLost>>

(* ------------------------------------------------------------------ await goroutine *)
\* one component error: delivered to pool.Run (rendezvous on awaitErr) or suppressed after run cancel
FailDelivered == /\ ~exited /\ MayFail /\ ~failed /\ wpc # "done" /\ ppc = "run" /\ ~rdone
                 /\ failed' = TRUE /\ ppc' = "ret" /\ pres' = "err" /\ Stop
                 /\ UNCHANGED <<mainV, engV, wpc, instV, aggV, lateLost>>
FailSuppressed == /\ ~exited /\ MayFail /\ ~failed /\ wpc # "done" /\ rdone
                  /\ failed' = TRUE
                  /\ UNCHANGED <<mainV, engV, poolV, wpc, rdone, stopCount, instV, aggV, lateLost>>
AllFinished == /\ ~exited /\ wpc = "await" /\ \A i \in I : ipc[i] = "fin"
               /\ wpc' = "cancelled" /\ Stop                             \* runCancel()
               /\ UNCHANGED <<mainV, engV, poolV, failed, instV, aggV, lateLost>>
AwaitDone == /\ ~exited /\ wpc = "cancelled" /\ apc = "done"
             /\ wpc' = "done"
             /\ UNCHANGED <<mainV, engV, poolV, failed, rdone, stopCount, instV, aggV, lateLost>>

(* ------------------------------------------------------------------ instances *)
\* the sample of instance i goes into the queue (or is dropped): the Report call returns
Enqueue(i) ==
    /\ late' = [late EXCEPT ![i] = rdone]
    /\ made' = [made EXCEPT ![i] = @ + 1]
    /\ \/ /\ nq < Q /\ nq' = nq + 1
          /\ lateLost' = IF apc \in {"loop", "drain"} THEN lateLost ELSE lateLost + 1
          /\ UNCHANGED dropped
       \/ /\ Mode = "drop" /\ nq >= Q /\ UNCHANGED nq
          /\ IF result = -1 THEN dropped' = dropped + 1 /\ UNCHANGED lateLost
                            ELSE lateLost' = lateLost + 1 /\ UNCHANGED dropped
Report(i) ==
    /\ ~exited /\ ipc[i] = "run" /\ made[i] < M
    /\ ~rdone \/ ~late[i]                       \* after the stop: at most the shot in flight
    /\ Enqueue(i)
    /\ UNCHANGED <<mainV, engV, poolV, wpc, failed, rdone, stopCount, ipc, nb, nd, apc, closed, result, flushing>>
\* blocking Report on a full queue: the instance is parked in the channel send
ReportBlocks(i) ==
    /\ ~exited /\ Mode = "block" /\ ipc[i] = "run" /\ made[i] < M /\ nq >= Q
    /\ ~rdone \/ ~late[i]
    /\ ipc' = [ipc EXCEPT ![i] = "blocked"]
    /\ UNCHANGED <<mainV, engV, poolV, wpc, failed, rdone, stopCount, made, late, aggV, lateLost>>
Unblock(i) ==
    /\ ~exited /\ ipc[i] = "blocked" /\ nq < Q
    /\ Enqueue(i)
    /\ ipc' = [ipc EXCEPT ![i] = "run"]
    /\ UNCHANGED <<mainV, engV, poolV, wpc, failed, rdone, stopCount, nb, nd, apc, closed, result, flushing>>
Finish(i) == /\ ~exited /\ ipc[i] = "run" /\ (made[i] = M \/ rdone)
             /\ ipc' = [ipc EXCEPT ![i] = "fin"]
             /\ UNCHANGED <<mainV, engV, poolV, wpc, failed, rdone, stopCount, made, late, aggV, lateLost>>

\* a shot that does not come back (not within the timers): the instance neither reports nor finishes any more -
\* also not when the run context is cancelled (the gun does not watch it)
Hangs(i) == /\ ~exited /\ Hang /\ ipc[i] = "run" /\ made[i] < M
            /\ ipc' = [ipc EXCEPT ![i] = "hung"]
            /\ UNCHANGED <<mainV, engV, poolV, wpc, failed, rdone, stopCount, made, late, aggV, lateLost>>

(* ------------------------------------------------------------------ aggregator (Aggregator.tla on counters) *)
\* while a write to the sink lasts the Run goroutine does nothing else
aggFrame == ~exited /\ UNCHANGED <<mainV, engV, poolV, wpc, failed, rdone, stopCount, instV, lateLost>>
Dequeue    == ~flushing /\ apc \in {"loop", "drain"} /\ nq > 0 /\ nq' = nq - 1 /\ nb' = nb + 1
              /\ UNCHANGED <<nd, dropped, apc, closed, result, flushing>> /\ aggFrame
Flush      == ~flushing /\ apc \in {"loop", "drain"} /\ nb > 0 /\ nd' = nd + nb /\ nb' = 0
              /\ UNCHANGED <<nq, dropped, apc, closed, result, flushing>> /\ aggFrame
\* the aggregator's context: the run context itself - or (negative control) one that ends only with the instances
AggCtxDone == IF AggStop = "run" THEN rdone ELSE wpc # "await"
SeeDone    == ~flushing /\ apc = "loop" /\ AggCtxDone /\ apc' = "drain"
              /\ UNCHANGED <<nq, nb, nd, dropped, closed, result, flushing>> /\ aggFrame
DrainEnd   == ~flushing /\ apc = "drain" /\ nq = 0 /\ apc' = "flush"
              /\ UNCHANGED <<nq, nb, nd, dropped, closed, result, flushing>> /\ aggFrame
FinalFlush == ~flushing /\ apc = "flush" /\ nd' = nd + nb /\ nb' = 0 /\ apc' = "close"
              /\ UNCHANGED <<nq, dropped, closed, result, flushing>> /\ aggFrame
\* a slow sink: some whole lines and a piece of the next are on disk, the rest follows - or never does
FlushBegin == /\ SlowSink /\ ~flushing /\ apc \in {"loop", "drain", "flush"} /\ nb > 0
              /\ \E k \in 0..(nb - 1) : nd' = nd + k /\ nb' = nb - k
              /\ flushing' = TRUE
              /\ UNCHANGED <<nq, dropped, apc, closed, result>> /\ aggFrame
FlushEnd   == /\ flushing /\ nd' = nd + nb /\ nb' = 0 /\ flushing' = FALSE
              /\ apc' = IF apc = "flush" THEN "close" ELSE apc
              /\ UNCHANGED <<nq, dropped, closed, result>> /\ aggFrame
Close      == ~flushing /\ apc = "close" /\ closed' = TRUE /\ apc' = "ret"
              /\ UNCHANGED <<nq, nb, nd, dropped, result, flushing>> /\ aggFrame
Return     == ~flushing /\ apc = "ret" /\ result' = dropped /\ apc' = "done"
              /\ UNCHANGED <<nq, nb, nd, dropped, closed, flushing>> /\ aggFrame
AggStep == Dequeue \/ Flush \/ SeeDone \/ DrainEnd \/ FinalFlush \/ FlushBegin \/ FlushEnd \/ Close \/ Return

\* everything the program does by itself is weakly fair; signals, failures and the END of a slow write are not
\* (a sink may block for ever); the timers are
System == \/ Notify \/ RecvErr \/ Joined \/ EngineReturn \/ PoolReturn \/ AllFinished \/ AwaitDone
          \/ (\E i \in I : Report(i) \/ ReportBlocks(i) \/ Unblock(i) \/ Finish(i))
          \/ Dequeue \/ Flush \/ SeeDone \/ DrainEnd \/ FinalFlush \/ Close \/ Return
\* the timers of main (cli.go): with PatientTimers they fire only when the program has nothing left to do by itself
\* "Interrupt timeout exceeded" (30 s after SIGINT, 3 s after SIGTERM)
InterruptTimeout == /\ ~exited /\ Timeouts /\ mpc \in {"sigwait", "sigjoin"}
                    /\ PatientTimers => ~ENABLED System
                    /\ Die("timeout")
                    /\ UNCHANGED <<sigs, root, engV, poolV, wpc, failed, rdone, stopCount, instV, aggV, lateLost>>
\* "Engine tasks timeout exceeded." (time.AfterFunc(3 s) of the error path)
TasksTimeout == /\ ~exited /\ Timeouts /\ mpc = "errwait"
                /\ PatientTimers => ~ENABLED System
                /\ Die("timeout")
                /\ UNCHANGED <<sigs, root, engV, poolV, wpc, failed, rdone, stopCount, instV, aggV, lateLost>>

\* Exit freezes everything: every action is guarded by ~exited (kept inside the actions so that TLC's
\* coverage reports them separately)
Next == \/ Notify \/ EarlySignal \/ UntrappedSignal
        \/ Signal1 \/ RecvErr \/ Joined \/ SecondSignal \/ InterruptTimeout \/ TasksTimeout \/ SignalWhileAwaitingTasks
        \/ EngineReturn \/ PoolReturn
        \/ FailDelivered \/ FailSuppressed \/ AllFinished \/ AwaitDone
        \/ \E i \in I : Report(i)
        \/ \E i \in I : ReportBlocks(i)
        \/ \E i \in I : Unblock(i)
        \/ \E i \in I : Finish(i)
        \/ \E i \in I : Hangs(i)
        \/ Dequeue \/ Flush \/ SeeDone \/ DrainEnd \/ FinalFlush \/ FlushBegin \/ FlushEnd \/ Close \/ Return

Spec == Init /\ [][Next]_vars

LiveSpec == /\ Init /\ [][Next]_vars
            /\ WF_vars(Notify) /\ WF_vars(RecvErr) /\ WF_vars(Joined) /\ WF_vars(EngineReturn) /\ WF_vars(PoolReturn)
            /\ WF_vars(AllFinished) /\ WF_vars(AwaitDone)
            /\ \A i \in I : WF_vars(Finish(i)) /\ WF_vars(Unblock(i)) /\ WF_vars(Report(i) \/ ReportBlocks(i))
            /\ WF_vars(Dequeue) /\ WF_vars(SeeDone) /\ WF_vars(DrainEnd) /\ WF_vars(FinalFlush) /\ WF_vars(Close) /\ WF_vars(Return)
            /\ WF_vars(InterruptTimeout) /\ WF_vars(TasksTimeout)

(* ------------------------------------------------------------------ properties *)
TypeOK == /\ mpc \in {"start", "await", "sigwait", "sigjoin", "errwait", "exited"}
          /\ nq \in 0..Q /\ nb >= 0 /\ nd >= 0 /\ result \in -1..(R * M)
          /\ exited = (mpc = "exited")
          /\ cause \in {"", "second", "timeout", "early", "untrapped"}
          /\ forced = (cause # "")
          /\ \A i \in I : ipc[i] \in {"run", "blocked", "hung", "fin"}

\* THE property: an exit leaves a flushed, closed result with a whole last line in which
\* lines + counted drops = reports made until the stop (+ the in-flight ones that still made it)
\* - unless it was forced by one of the exempt causes
ExitComplete ==
    (exited /\ cause \notin Exempt) =>
        /\ apc = "done" /\ closed /\ nb = 0 /\ ~flushing
        /\ CompleteCounts(nd, result, Total - lateLost)
        /\ CompleteBetween(nd, result, stopCount, Total)
\* ... and of the exempt causes a TIMER does not excuse everything: when the process gives up waiting for a hung
\* shot (or a parked Report) while the sink works, the aggregator - stopped by the run cancel itself, not by the end of
\* the instances - has long drained, flushed and closed: everything reported before the stop is in the result.
\* Only a write that does not end (flushing) excuses a timer exit with data still in memory.
TimeoutExitFlushed ==
    (exited /\ cause = "timeout" /\ PatientTimers /\ ~flushing) =>
        /\ apc = "done" /\ closed /\ nb = 0
        /\ CompleteBetween(nd, result, stopCount, Total)
\* such an exit is reachable with a hung shot and reports made before the stop (the rule is not vacuous)
HangTimeoutReachable == ~(exited /\ cause = "timeout" /\ (\E i \in I : ipc[i] = "hung") /\ stopCount > 0 /\ nd = stopCount)
\* a forced exit may cut the result anywhere, but it invents nothing: what is on disk (and counted as dropped, if
\* the aggregator got that far) are reports that were made
ForcedBounded == exited => nd + nb + nq + dropped <= Total /\ nd + (IF result >= 0 THEN result ELSE 0) <= Total
\* a run that ends by itself (no signal, no failure) loses nothing at all
NormalEndExact == (exited /\ ~forced /\ sigs = 0 /\ ~failed) => CompleteCounts(nd, result, Total) /\ lateLost = 0
\* after the stop every instance reports at most the shot it has in flight
LateBounded == lateLost <= R /\ (stopCount >= 0 => Total - stopCount <= R)
\* engine guarantee used by Aggregator.tla: without an external stop the aggregator is cancelled
\* only after the last report
CancelAfterLastReport == (rdone /\ ~root /\ ppc = "run" /\ epc = "run") => \A i \in I : ipc[i] = "fin"
\* back-pressure never loses what a blocking aggregator accepted: a parked instance has not reported yet
BlockedIsNotReported == \A i \in I : ipc[i] = "blocked" => (Mode = "block" /\ made[i] < M)
\* some run does exit unforced after a signal (the invariant is not vacuous)
SignalExitReachable == ~(exited /\ ~forced /\ sigs = 1 /\ Total = R * M /\ nd = R * M)
\* ... also one whose instance was parked in a blocking Report during a slow write when the signal came
BackPressureExitReachable == ~(exited /\ ~forced /\ sigs = 1 /\ nd = R * M /\ lateLost = 0 /\ stopCount < R * M)
\* once pandora was told to stop (or its run has failed) the process ends - thanks to the timers also when a sink
\* blocks for ever or an instance is parked for ever in a blocking Report after the aggregator has returned
EventuallyExits == (mpc \in {"sigwait", "sigjoin", "errwait"}) ~> exited
=============================================================================
