------------------------------ MODULE Shutdown ------------------------------
(***************************************************************************)
(* C06, process level: who waits for whom when pandora stops.              *)
(*                                                                         *)
(*   main       cli/cli.go ReadConfigAndRunEngine + awaitPandoraTermination*)
(*              (signal path, error path, normal end) and the process exit *)
(*   engineRun  cli.runEngine / engine.Engine.Run   (returns ctx.Err() as  *)
(*              soon as the context is done - it does NOT wait)            *)
(*   poolRun    instancePool.Run (same: returns at ctx.Done())             *)
(*   poolAwait  the await goroutine (awaitRun): all instances finished ->  *)
(*              runCancel -> aggregator awaited -> wait group Done         *)
(*   instances  R goroutines, M reports each; an instance that is shooting *)
(*              when the run context is cancelled still reports that shot  *)
(*   aggregator the Run loop of Aggregator.tla on counters                 *)
(*   Exit       os.Exit / return of main: freezes every other process      *)
(*                                                                         *)
(* Contexts: root (cancelled by gracefulShutdown) > engine (also cancelled *)
(* when Engine.Run returns) > pool (also when pool.Run returns) > run      *)
(* (also by runCancel).  Instances and the aggregator run on `run`:        *)
(* `rdone` is "run context done".                                          *)
(*                                                                         *)
(* WaitOnSignal = FALSE is the code as found (after a signal, main takes   *)
(* Engine.Run's immediate ctx.Err() from `errs` and calls log.Fatal ->     *)
(* os.Exit, racing the aggregator's drain/flush/close);  TRUE is the fix   *)
(* (main waits for Engine.Wait(), bounded by the interrupt timeout).       *)
(* A second signal and the timeouts are *forced* exits: by design they do  *)
(* not wait, the invariant exempts them.  In the ERROR path (the engine    *)
(* failed on its own, main awaits the started tasks) signals are not read  *)
(* at all: a first signal there must not end the process either.           *)
(***************************************************************************)
EXTENDS Phout

CONSTANTS R, M, Q, Mode, WaitOnSignal, MaxSignals, MayFail,
          ErrWaitSignalExits   \* TRUE: a signal that arrives while main awaits the tasks of a FAILED run exits at once
                               \* (seeded regression C06-6: the shared helper treats it as "another signal")

VARIABLES mpc,      \* main: "await" | "sigwait" | "sigjoin" | "errwait" | "exited"
          sigs,     \* signals delivered so far
          root,     \* root context cancelled (gracefulShutdown called)
          epc, errv,\* Engine.Run: "run" | "ret" (blocked in errs <- v) | "sent";  v: "none"|"nil"|"ctx"|"err"
          ppc, pres,\* pool.Run:   "run" | "ret";  result "none"|"nil"|"ctx"|"err"
          wpc,      \* await goroutine: "await" | "cancelled" (runCancel called) | "done" (wg.Done)
          failed,   \* the one component error of this run was raised
          rdone,    \* run context done
          ipc, made, late,   \* instances: "run"|"fin", reports made, made its in-flight report after rdone
          nq, nb, nd, dropped, apc, closed, result,   \* aggregator (counters), as in Aggregator.tla
          stopCount,\* reports that had returned when the run context became done
          lateLost, \* reports made after the stop that arrived after the drain loop had ended
          exited, forced

vars == <<mpc, sigs, root, epc, errv, ppc, pres, wpc, failed, rdone, ipc, made, late,
          nq, nb, nd, dropped, apc, closed, result, stopCount, lateLost, exited, forced>>

I == 1..R
RECURSIVE Sum(_, _)
Sum(f, S) == IF S = {} THEN 0 ELSE LET x == CHOOSE y \in S : TRUE IN f[x] + Sum(f, S \ {x})
Total == Sum(made, I)

Init == /\ mpc = "await" /\ sigs = 0 /\ root = FALSE
        /\ epc = "run" /\ errv = "none" /\ ppc = "run" /\ pres = "none"
        /\ wpc = "await" /\ failed = FALSE /\ rdone = FALSE
        /\ ipc = [i \in I |-> "run"] /\ made = [i \in I |-> 0] /\ late = [i \in I |-> FALSE]
        /\ nq = 0 /\ nb = 0 /\ nd = 0 /\ dropped = 0 /\ apc = "loop" /\ closed = FALSE /\ result = -1
        /\ stopCount = -1 /\ lateLost = 0 /\ exited = FALSE /\ forced = FALSE

\* the run context becomes done (first cause wins): remember how many reports had returned
Stop == /\ rdone' = TRUE
        /\ stopCount' = IF rdone THEN stopCount ELSE Total

mainV == <<mpc, sigs, root, exited, forced>>
engV  == <<epc, errv>>
poolV == <<ppc, pres>>
instV == <<ipc, made, late>>
aggV  == <<nq, nb, nd, dropped, apc, closed, result>>

(* ------------------------------------------------------------------ main *)
\* first SIGINT/SIGTERM: the handler logs and calls gracefulShutdown() = cancel of the root context
Signal1 == /\ ~exited /\ mpc = "await" /\ sigs = 0 /\ MaxSignals >= 1
           /\ sigs' = 1 /\ mpc' = "sigwait" /\ root' = TRUE /\ Stop
           /\ UNCHANGED <<exited, forced, engV, poolV, wpc, failed, instV, aggV, lateLost>>
\* main receives Engine.Run's result
RecvErr == /\ ~exited /\ epc = "ret" /\ mpc \in {"await", "sigwait"}
           /\ epc' = "sent"
           /\ \/ /\ mpc = "await" /\ errv = "nil"              \* normal end: main returns
                 /\ mpc' = "exited" /\ exited' = TRUE /\ UNCHANGED <<root, rdone, stopCount>>
              \/ /\ mpc = "await" /\ errv # "nil"              \* error path: cancel, then pandora.Wait()
                 /\ mpc' = "errwait" /\ root' = TRUE /\ Stop /\ UNCHANGED exited
              \/ /\ mpc = "sigwait"                            \* "Engine interrupted"
                 /\ IF WaitOnSignal THEN mpc' = "sigjoin" /\ UNCHANGED exited
                                    ELSE mpc' = "exited" /\ exited' = TRUE
                 /\ UNCHANGED <<root, rdone, stopCount>>
           /\ UNCHANGED <<sigs, forced, errv, poolV, wpc, failed, instV, aggV, lateLost>>
\* Engine.Wait() returned
Joined == /\ ~exited /\ mpc \in {"sigjoin", "errwait"} /\ wpc = "done"
          /\ mpc' = "exited" /\ exited' = TRUE
          /\ UNCHANGED <<sigs, root, forced, engV, poolV, wpc, failed, rdone, stopCount, instV, aggV, lateLost>>
\* second signal, interrupt timeout, await timeout: exit at once (by design)
Forced == /\ ~exited /\ mpc \in {"sigwait", "sigjoin", "errwait"}
          /\ \/ mpc = "errwait" /\ UNCHANGED sigs
             \/ mpc # "errwait" /\ sigs < MaxSignals /\ sigs' = sigs + 1
             \/ mpc # "errwait" /\ UNCHANGED sigs
          /\ mpc' = "exited" /\ exited' = TRUE /\ forced' = TRUE
          /\ UNCHANGED <<root, engV, poolV, wpc, failed, rdone, stopCount, instV, aggV, lateLost>>

\* error path of awaitPandoraTermination: the engine failed on its own, main has cancelled and is in
\* pandora.Wait() under a 3 s timer.  A FIRST signal that arrives now only lands in the `sigs` channel: nobody
\* reads it, the flush of the other tasks completes.  (Signal first, engine error afterwards is Signal1 ->
\* RecvErr -> "sigjoin"; a second signal there is Forced.)
SignalWhileAwaitingTasks ==
    /\ ~exited /\ mpc = "errwait" /\ sigs < MaxSignals
    /\ sigs' = sigs + 1
    /\ IF ErrWaitSignalExits THEN mpc' = "exited" /\ exited' = TRUE ELSE UNCHANGED <<mpc, exited>>
    /\ UNCHANGED <<root, forced, engV, poolV, wpc, failed, rdone, stopCount, instV, aggV, lateLost>>

(* ------------------------------------------------------------------ Engine.Run, pool.Run *)
EngineReturn ==
    /\ ~exited /\ epc = "run"
    /\ \/ /\ ppc = "ret" /\ pres = "nil" /\ errv' = "nil"                \* pool awaited, success
       \/ /\ ppc = "ret" /\ pres # "nil" /\ ~root /\ errv' = "err"       \* "pool run failed"
       \/ /\ root /\ errv' = "ctx"                                       \* ctx.Done(): return at once
    /\ epc' = "ret" /\ Stop                                              \* defer cancel()
    /\ UNCHANGED <<mainV, poolV, wpc, failed, instV, aggV, lateLost>>
PoolReturn ==
    /\ ~exited /\ ppc = "run"
    /\ \/ /\ (root \/ epc # "run") /\ pres' = "ctx"                      \* ctx.Done(): return at once
       \/ /\ wpc = "done" /\ pres' = "nil"                               \* awaitErr closed
    /\ ppc' = "ret" /\ Stop                                              \* defer cancel()
    /\ UNCHANGED <<mainV, engV, wpc, failed, instV, aggV, lateLost>>

(* ------------------------------------------------------------------ await goroutine *)
\* one component error: delivered to pool.Run (rendezvous on awaitErr) or suppressed after run cancel
FailDelivered == /\ ~exited /\ MayFail /\ ~failed /\ wpc # "done" /\ ppc = "run" /\ ~rdone
                 /\ failed' = TRUE /\ ppc' = "ret" /\ pres' = "err" /\ Stop
                 /\ UNCHANGED <<mainV, engV, wpc, instV, aggV, lateLost>>
FailSuppressed == /\ ~exited /\ MayFail /\ ~failed /\ wpc # "done" /\ rdone
                  /\ failed' = TRUE
                  /\ UNCHANGED <<mainV, engV, poolV, wpc, rdone, stopCount, instV, aggV, lateLost>>
AllFinished == /\ ~exited /\ wpc = "await" /\ \A i \in I : ipc[i] = "fin"
               /\ wpc' = "cancelled" /\ Stop                             \* runCancel()
               /\ UNCHANGED <<mainV, engV, poolV, failed, instV, aggV, lateLost>>
AwaitDone == /\ ~exited /\ wpc = "cancelled" /\ apc = "done"
             /\ wpc' = "done"
             /\ UNCHANGED <<mainV, engV, poolV, failed, rdone, stopCount, instV, aggV, lateLost>>

(* ------------------------------------------------------------------ instances *)
Report(i) ==
    /\ ~exited /\ ipc[i] = "run" /\ made[i] < M
    /\ ~rdone \/ ~late[i]                       \* after the stop: at most the shot in flight
    /\ late' = [late EXCEPT ![i] = rdone]
    /\ made' = [made EXCEPT ![i] = @ + 1]
    /\ \/ /\ nq < Q /\ nq' = nq + 1
          /\ lateLost' = IF apc \in {"loop", "drain"} THEN lateLost ELSE lateLost + 1
          /\ UNCHANGED dropped
       \/ /\ Mode = "drop" /\ nq >= Q /\ UNCHANGED nq
          /\ IF result = -1 THEN dropped' = dropped + 1 /\ UNCHANGED lateLost
                            ELSE lateLost' = lateLost + 1 /\ UNCHANGED dropped
    /\ UNCHANGED <<mainV, engV, poolV, wpc, failed, rdone, stopCount, ipc, nb, nd, apc, closed, result>>
Finish(i) == /\ ~exited /\ ipc[i] = "run" /\ (made[i] = M \/ rdone)
             /\ ipc' = [ipc EXCEPT ![i] = "fin"]
             /\ UNCHANGED <<mainV, engV, poolV, wpc, failed, rdone, stopCount, made, late, aggV, lateLost>>

(* ------------------------------------------------------------------ aggregator (Aggregator.tla on counters) *)
aggFrame == ~exited /\ UNCHANGED <<mainV, engV, poolV, wpc, failed, rdone, stopCount, instV, lateLost>>
Dequeue    == apc \in {"loop", "drain"} /\ nq > 0 /\ nq' = nq - 1 /\ nb' = nb + 1
              /\ UNCHANGED <<nd, dropped, apc, closed, result>> /\ aggFrame
Flush      == apc \in {"loop", "drain"} /\ nb > 0 /\ nd' = nd + nb /\ nb' = 0
              /\ UNCHANGED <<nq, dropped, apc, closed, result>> /\ aggFrame
SeeDone    == apc = "loop" /\ rdone /\ apc' = "drain"
              /\ UNCHANGED <<nq, nb, nd, dropped, closed, result>> /\ aggFrame
DrainEnd   == apc = "drain" /\ nq = 0 /\ apc' = "flush"
              /\ UNCHANGED <<nq, nb, nd, dropped, closed, result>> /\ aggFrame
FinalFlush == apc = "flush" /\ nd' = nd + nb /\ nb' = 0 /\ apc' = "close"
              /\ UNCHANGED <<nq, dropped, closed, result>> /\ aggFrame
Close      == apc = "close" /\ closed' = TRUE /\ apc' = "ret"
              /\ UNCHANGED <<nq, nb, nd, dropped, result>> /\ aggFrame
Return     == apc = "ret" /\ result' = dropped /\ apc' = "done"
              /\ UNCHANGED <<nq, nb, nd, dropped, closed>> /\ aggFrame
AggStep == Dequeue \/ Flush \/ SeeDone \/ DrainEnd \/ FinalFlush \/ Close \/ Return

\* Exit freezes everything: every action is guarded by ~exited (kept inside the actions so that TLC's
\* coverage reports them separately)
Next == \/ Signal1 \/ RecvErr \/ Joined \/ Forced \/ SignalWhileAwaitingTasks
        \/ EngineReturn \/ PoolReturn
        \/ FailDelivered \/ FailSuppressed \/ AllFinished \/ AwaitDone
        \/ \E i \in I : Report(i)
        \/ \E i \in I : Finish(i)
        \/ Dequeue \/ Flush \/ SeeDone \/ DrainEnd \/ FinalFlush \/ Close \/ Return

Spec == Init /\ [][Next]_vars

(* ------------------------------------------------------------------ properties *)
TypeOK == /\ mpc \in {"await", "sigwait", "sigjoin", "errwait", "exited"}
          /\ nq \in 0..Q /\ nb >= 0 /\ nd >= 0 /\ result \in -1..(R * M)
          /\ exited = (mpc = "exited")

\* THE property: an exit that is not forced leaves a flushed, closed result in which
\* lines + counted drops = reports made until the stop (+ the in-flight ones that still made it)
ExitComplete ==
    (exited /\ ~forced) =>
        /\ apc = "done" /\ closed /\ nb = 0
        /\ CompleteCounts(nd, result, Total - lateLost)
        /\ CompleteBetween(nd, result, stopCount, Total)
\* a run that ends by itself (no signal, no failure) loses nothing at all
NormalEndExact == (exited /\ sigs = 0 /\ ~failed) => CompleteCounts(nd, result, Total) /\ lateLost = 0
\* after the stop every instance reports at most the shot it has in flight
LateBounded == lateLost <= R /\ (stopCount >= 0 => Total - stopCount <= R)
\* engine guarantee used by Aggregator.tla: without an external stop the aggregator is cancelled
\* only after the last report
CancelAfterLastReport == (rdone /\ ~root /\ ppc = "run" /\ epc = "run") => \A i \in I : ipc[i] = "fin"
\* some run does exit unforced after a signal (the invariant is not vacuous)
SignalExitReachable == ~(exited /\ ~forced /\ sigs = 1 /\ Total = R * M /\ nd = R * M)
=============================================================================
