---------------------------- MODULE AmmoFormats ----------------------------
(***************************************************************************)
(* C07 / C14 -- the HTTP ammo formats of pandora (uri, uripost, raw,       *)
(* http/json) as reader state machines, and what a provider delivers.      *)
(*                                                                         *)
(* An abstract ammo FILE is a sequence of items                            *)
(*     Entry(e) | Header(key, val) | Blank                                 *)
(* where e = [method, uri, host, headers, body, tag] (all strings; body is *)
(* the hex of the body bytes; headers a sequence of <<key, value>>).       *)
(* How the items are laid out in bytes (leading / trailing blanks and tabs,*)
(* LF or CRLF, blank line after a body, final newline, json style) is the  *)
(* LAYOUT; it is not an argument of Expected -- part 3 of this module      *)
(* shows on a symbol-level model of the line / size-prefix grammar that    *)
(* every permitted layout of a file is read back as the same items.        *)
(*                                                                         *)
(* Part 1: the reader (one action per decision of decoders/*.go Scan):     *)
(*         ReadHeader (Set semantics), ReadBlank, ReadEntry, EOFWrap       *)
(*         (pass+1, accumulated in-file headers forgotten).                *)
(* Part 2: Expected / ExpectedSel -- what Provider.Acquire hands out for   *)
(*         (file, limit, passes, chosencases) and how Run ends; ONE        *)
(*         function for the streaming and for the preloaded provider.      *)
(* Part 3: symbol-level grammar: Render / Tokenize.                        *)
(***************************************************************************)
EXTENDS Integers, Sequences, FiniteSets, TLC

CONSTANTS ResetAcc,     \* TRUE: in-file headers are forgotten at each new pass (the documented behaviour)
          SetSem,       \* TRUE: a later [K: v] replaces an earlier one (Set); FALSE: first one wins (wrong)
          LimitDelivered \* TRUE: limit counts delivered entries; FALSE: entries scanned before the filter (wrong)

Formats == {"uri", "uripost", "raw", "json"}
HasHeaders(fmt) == fmt \in {"uri", "uripost"}      \* formats with in-file [Header: value] lines

Range(s) == {s[i] : i \in DOMAIN s}
Min(a, b) == IF a <= b THEN a ELSE b

\* HTTP header names are case-insensitive; the code canonicalises (textproto).  Only the names of the
\* alphabets below occur non-canonically.
CanonTable == ("a" :> "A") @@ ("host" :> "Host") @@ ("x-b" :> "X-B") @@ ("content-length" :> "Content-Length")
Canon(k) == IF k \in DOMAIN CanonTable THEN CanonTable[k] ELSE k

EntryItem(e)        == [k |-> "E", e |-> e]
HeaderItem(key, val) == [k |-> "H", key |-> key, val |-> val]
BlankItem           == [k |-> "B"]

EntryPositions(items) == {i \in DOMAIN items : items[i].k = "E"}
NumEntries(items)     == Cardinality(EntryPositions(items))

----------------------------------------------------------------------------
(* Part 1 -- the reader *)

\* acc: set of <<canonical key, value>>, at most one pair per key
SetHdr(acc, key, val) ==
    IF SetSem \/ ~(\E p \in acc : p[1] = Canon(key))
    THEN {p \in acc : p[1] # Canon(key)} \cup {<<Canon(key), val>>}
    ELSE acc
HostOf(S)   == IF \E p \in S : p[1] = "Host" THEN (CHOOSE p \in S : p[1] = "Host")[2] ELSE ""
NonHost(S)  == {p \in S : p[1] # "Host"}
CanonPairs(seq) == {<<Canon(seq[i][1]), seq[i][2]>> : i \in DOMAIN seq}

\* the request an entry stands for, given the in-file headers accumulated before it
Eff(fmt, e, acc) ==
    IF HasHeaders(fmt)
    THEN [method |-> e.method, uri |-> e.uri, host |-> HostOf(acc), headers |-> NonHost(acc),
          body |-> e.body, tag |-> e.tag]
    ELSE \* raw: the request's own header block; json: "headers" object, a Host key in it is ignored
         [method |-> e.method, uri |-> e.uri, host |-> e.host, headers |-> NonHost(CanonPairs(e.headers)),
          body |-> e.body, tag |-> e.tag]

St0 == [pos |-> 1, pass |-> 0, acc |-> {}, out |-> <<>>]

AtHeader(items, st) == st.pos <= Len(items) /\ items[st.pos].k = "H"
AtBlank(items, st)  == st.pos <= Len(items) /\ items[st.pos].k = "B"
AtEntry(items, st)  == st.pos <= Len(items) /\ items[st.pos].k = "E"
AtEOF(items, st)    == st.pos = Len(items) + 1

DoReadHeader(fmt, items, st) == [st EXCEPT !.pos = @ + 1, !.acc = SetHdr(@, items[st.pos].key, items[st.pos].val)]
DoReadBlank(fmt, items, st)  == [st EXCEPT !.pos = @ + 1]
DoReadEntry(fmt, items, st)  == [st EXCEPT !.pos = @ + 1, !.out = Append(@, Eff(fmt, items[st.pos].e, st.acc))]
DoEOFWrap(fmt, items, st)    == [st EXCEPT !.pos = 1, !.pass = @ + 1, !.acc = IF ResetAcc THEN {} ELSE @]

Step(fmt, items, st) ==
    CASE AtHeader(items, st) -> DoReadHeader(fmt, items, st)
      [] AtBlank(items, st)  -> DoReadBlank(fmt, items, st)
      [] AtEntry(items, st)  -> DoReadEntry(fmt, items, st)
      [] AtEOF(items, st)    -> DoEOFWrap(fmt, items, st)

\* run the reader until it has handed out n entries (the file has at least one entry)
RECURSIVE RunReader(_, _, _, _)
RunReader(fmt, items, st, n) ==
    IF Len(st.out) >= n THEN st.out ELSE RunReader(fmt, items, Step(fmt, items, st), n)

----------------------------------------------------------------------------
(* Part 2 -- what the provider delivers *)

\* C07: the first n deliveries of an unbounded provider (no limit, no passes, no filter)
Expected(fmt, items, n) == RunReader(fmt, items, St0, n)

Chosen(r, chosen) == chosen = {} \/ r.tag \in chosen
Sel(seq, chosen)  == SelectSeq(seq, LAMBDA r : Chosen(r, chosen))

CeilDiv(a, b) == (a + b - 1) \div b

\* C14: limit counts DELIVERED entries, passes counts FILE passes, chosen = set of listed tags ({} = no
\* filter).  take = how many deliveries the observer consumes at most before it cancels the provider.
\* Result: the delivered sequence, whether the consumer saw the end of ammo (Acquire -> ok=false) and how
\* Run ended: "nil" (ammo consumed), "error" (nothing to deliver: no chosen ammo in the file),
\* "cancel" (unbounded, cut by the observer).
ExpectedSel(fmt, items, limit, passes, chosen, take) ==
    LET E     == NumEntries(items)
        one   == Sel(RunReader(fmt, items, St0, E), chosen)      \* the deliveries of one file pass
        m     == Len(one)
    IN  IF m = 0 THEN [deliv |-> <<>>, ended |-> TRUE, outcome |-> "error"]
        ELSE IF ~LimitDelivered /\ limit > 0        \* wrong variant (negative control)
        THEN [deliv |-> Sel(RunReader(fmt, items, St0, limit), chosen), ended |-> TRUE, outcome |-> "nil"]
        ELSE LET total == IF passes > 0 THEN passes * m ELSE -1
                 cap   == IF limit > 0 THEN (IF total >= 0 THEN Min(limit, total) ELSE limit) ELSE total
                 ends  == cap >= 0 /\ cap < take          \* the observer gets to see the end of ammo
                 n     == IF ends THEN cap ELSE take
                 all   == Sel(RunReader(fmt, items, St0, CeilDiv(n, m) * E), chosen)
             IN  [deliv   |-> SubSeq(all, 1, n),
                  ended   |-> ends,
                  outcome |-> IF ends THEN "nil" ELSE "cancel"]

\* how many deliveries the observer asks for: one more than a bounded provider may hand out,
\* two passes and one extra entry of an unbounded one
TakeFor(fmt, items, limit, passes, chosen) ==
    LET m     == Len(Sel(RunReader(fmt, items, St0, NumEntries(items)), chosen))
        total == IF passes > 0 THEN passes * m ELSE -1
        cap   == IF limit > 0 THEN (IF total >= 0 THEN Min(limit, total) ELSE limit) ELSE total
    IN  IF m = 0 THEN 1 ELSE IF cap >= 0 THEN cap + 1 ELSE 2 * m + 1

----------------------------------------------------------------------------
(* Declarative characterisation (the theorems TLC checks against the reader, see AmmoFormatsMC):   *)
(* order = file order, cyclic; headers apply to later entries only, last one of a name wins, and  *)
(* nothing is carried over from the previous pass.                                                 *)

RECURSIVE PosSeq(_, _)
PosSeq(items, i) == IF i > Len(items) THEN <<>>
                    ELSE (IF items[i].k = "E" THEN <<i>> ELSE <<>>) \o PosSeq(items, i + 1)

\* in-file headers in force at position p: for every name the LAST header line before p in the file
HdrsBefore(items, p) ==
    LET hs == {i \in 1..(p - 1) : items[i].k = "H"}
        last(i) == \A j \in hs : (j > i => Canon(items[j].key) # Canon(items[i].key))
    IN  {<<Canon(items[i].key), items[i].val>> : i \in {i \in hs : last(i)}}

DeclAt(fmt, items, n) ==
    LET ps == PosSeq(items, 1)
        p  == ps[((n - 1) % Len(ps)) + 1]
    IN  Eff(fmt, items[p].e, IF HasHeaders(fmt) THEN HdrsBefore(items, p) ELSE {})

Decl(fmt, items, n) == [i \in 1..n |-> DeclAt(fmt, items, i)]

----------------------------------------------------------------------------
(* Part 3 -- symbol-level grammar of the line-oriented, size-prefixed formats (uri, uripost, raw). *)
(* A rendered file is a sequence of symbols: "NL" "CR" "SP" "TAB" "LB" ("[") and opaque payload    *)
(* symbols <<"U", i>> (the text of item i: uri and tag, or 'key: value]' of a header, or the size  *)
(* field) -- bodies are sequences of symbols that may contain NL, CR, SP and LB.                   *)
(* Render lays an item sequence out under a layout; Tokenize is the reader's grammar:              *)
(*   line = symbols up to NL or end of file; trim SP/TAB/CR at both ends; empty -> Blank;          *)
(*   first symbol LB -> Header; else Entry, whose size field says how many symbols of body follow. *)
(* EofLine = FALSE is the wrong variant "a last line without NL is not a line" (negative control; *)
(* it is what bufio.Reader.ReadString + `if err != nil` does).                                     *)

CONSTANT EofLine

NL == <<"NL", 0, 0>>  CR == <<"CR", 0, 0>>  SP == <<"SP", 0, 0>>  TAB == <<"TAB", 0, 0>>  LB == <<"LB", 0, 0>>
WS == {SP, TAB, CR}
IsWS(x) == x \in WS

RECURSIVE TrimL(_)
TrimL(s) == IF s # <<>> /\ IsWS(Head(s)) THEN TrimL(Tail(s)) ELSE s
RECURSIVE TrimR(_)
TrimR(s) == IF s # <<>> /\ IsWS(s[Len(s)]) THEN TrimR(SubSeq(s, 1, Len(s) - 1)) ELSE s
Trim(s) == TrimR(TrimL(s))

\* abstract item at symbol level: [k |-> "E", id |-> i, body |-> symbols] | [k |-> "H", id |-> i] | [k |-> "B"]
EolSyms(lay) == IF lay.crlf THEN <<CR, NL>> ELSE <<NL>>
LeadSyms(lay) == IF lay.ws THEN <<SP, TAB>> ELSE <<>>
TrailSyms(lay) == IF lay.ws THEN <<TAB, SP>> ELSE <<>>

\* nf = "this is the last item and the file has no final newline": its last LAYOUT terminator is left out
\* (never a byte of a body)
RenderItem(sized, it, lay, nf) ==
    LET eol  == EolSyms(lay)
        fin  == IF nf THEN <<>> ELSE eol
    IN  CASE it.k = "B" -> LeadSyms(lay) \o fin
          [] it.k = "H" -> LeadSyms(lay) \o <<LB, <<"H", it.id, 0>>>> \o TrailSyms(lay) \o fin
          [] it.k = "E" ->
               LET line == LeadSyms(lay) \o <<(<<"E", it.id, Len(it.body)>>)>> \o TrailSyms(lay)
               IN  IF ~sized THEN line \o fin
                   ELSE IF lay.sep THEN line \o eol \o it.body \o fin          \* blank line after the body
                   ELSE IF it.body = <<>> THEN line \o fin
                   ELSE line \o eol \o it.body

RECURSIVE RenderAll(_, _, _)
RenderAll(sized, items, lay) ==
    IF items = <<>> THEN <<>>
    ELSE RenderItem(sized, Head(items), lay, Len(items) = 1 /\ ~lay.final) \o RenderAll(sized, Tail(items), lay)

Render(sized, items, lay) == RenderAll(sized, items, lay)

\* index of the first NL at or after i, 0 if none
RECURSIVE FindNL(_, _)
FindNL(s, i) == IF i > Len(s) THEN 0 ELSE IF s[i] = NL THEN i ELSE FindNL(s, i + 1)

RECURSIVE Tokenize(_, _, _)
Tokenize(sized, s, i) ==
    IF i > Len(s) THEN <<>>
    ELSE LET nl   == FindNL(s, i)
             stop == IF nl = 0 THEN Len(s) ELSE nl - 1
             line == Trim(SubSeq(s, i, stop))
             nxt  == IF nl = 0 THEN Len(s) + 1 ELSE nl + 1
         IN  IF nl = 0 /\ ~EofLine THEN <<>>                      \* wrong variant: data before EOF dropped
             ELSE IF line = <<>> THEN <<[k |-> "B"]>> \o Tokenize(sized, s, nxt)
             ELSE IF line[1] = LB THEN <<[k |-> "H", id |-> line[2][2]]>> \o Tokenize(sized, s, nxt)
             ELSE LET sz == IF sized THEN line[1][3] ELSE 0
                  IN  <<[k |-> "E", id |-> line[1][2], body |-> SubSeq(s, nxt, nxt + sz - 1)]>>
                      \o Tokenize(sized, s, nxt + sz)

NonBlank(items) == SelectSeq(items, LAMBDA it : it.k # "B")
\* the layout theorem: whatever the layout, the reader sees the same entries and headers in the same order
LayoutInvisible(sized, items, lay) == NonBlank(Tokenize(sized, Render(sized, items, lay), 1)) = NonBlank(items)

=============================================================================
