-------------------------- MODULE ConfigDecodePairs --------------------------
(***************************************************************************)
(* C17 growth: TWO mutations of the configuration at once.                 *)
(* ConfigDecode.tla decides one mutation at a time.  Decoding is meant to  *)
(* be compositional: a configuration carrying two independent mutations is *)
(* accepted iff BOTH are acceptable, and every leaf that neither mutation  *)
(* touches decodes to what it decodes to without them.  (What can break    *)
(* this: state kept between sections or fields - "this section contains a  *)
(* placeholder, so be lenient with its types / skip its validation", an    *)
(* error that hides another section's error handling, ...)                 *)
(*                                                                         *)
(* Pairs are drawn from ConfigDecode's mutation alphabet (base `full`):    *)
(*  near  (quick tier): a SET env placeholder on one leaf of a component   *)
(*        (or of log / monitoring) x every wrong-typed value, every value  *)
(*        class of every constraint and an unknown key inside the same     *)
(*        component;                                                       *)
(*  broad (thorough tier): every Stride-th single mutation x every other   *)
(*        one of the same variant (unknown int|null, wrongtype, range,     *)
(*        absent, nullval, misspell, dropcomp, nullcomp, ph env set|unset).*)
(* Two mutations are paired only if the paths they touch are not nested in *)
(* each other and at most one of them uses the placeholder variable.       *)
(***************************************************************************)
EXTENDS ConfigDecode, Json, IOUtils, SequencesExt

CONSTANTS PairMode,   \* "near" | "broad"
          Stride,     \* broad: every Stride-th single mutation enters the alphabet
          Compose     \* "both" is right; "first": only the first mutation is judged (wrong)

ReflPointsIO == ndJsonDeserialize(IOEnv.VERIF_POINTS)

Touch(c) == IF c.kind = "unknown" THEN c.p \o <<"zzz_unknown_key">> ELSE c.p
Indep(a, b) == ~IsPrefix(Touch(a), Touch(b)) /\ ~IsPrefix(Touch(b), Touch(a))
UsesVar(c) == c.kind \in {"ph", "emb", "emblist", "phnokey", "phadv"}

\* unknown keys with a number, and (inside `pools`) without a value.  Outside `pools` a null-valued unknown key is dropped by
\* viper before pandora sees it (known finding of C17, decided by the single-mutation cases): not paired.
PairableUnknown(c) == c.kind = "unknown" /\ (c.src = "int" \/ (c.src = "null" /\ Len(c.p) > 0 /\ c.p[1] = "pools"))
Full(V) == {c \in CasesOf(V) : c.base = "full"}
\* component roots: every plugin map, plus the two plain sections
Roots(V) == {SubSeq(V.types[i].p, 1, Len(V.types[i].p) - 1) : i \in 1..Len(V.types)} \cup {<<"log">>, <<"monitoring">>}
NearPairs(V) ==
    LET F == Full(V)
        phs == {c \in F : c.kind = "ph" /\ c.src = "env" /\ c.set}
        others == {c \in F : \/ c.kind \in {"wrongtype", "range"} \/ PairableUnknown(c)}
        ForRoot(q) == LET inq == {c \in phs : IsPrefix(q, c.p)}
                      IN IF inq = {} THEN {}
                         ELSE LET f == CHOOSE c \in inq : \A d \in inq : c.i <= d.i
                              IN {<<f, m>> : m \in {m \in others : IsPrefix(q, m.p) /\ Indep(f, m)}}
    IN UNION {ForRoot(q) : q \in Roots(V)}

BroadKinds == {"wrongtype", "range", "absent", "nullval", "misspell", "dropcomp", "nullcomp"}
\* a single mutation that is itself a known finding of C17 (answlog.filter left out: the grpc guns' registered default differs
\* from the documented one) is decided by the single-mutation cases and not paired
KnownSingle(c) == c.kind \in {"absent", "nullval"} /\ Len(c.p) >= 2 /\ SubSeq(c.p, Len(c.p) - 1, Len(c.p)) = <<"answlog", "filter">>
Alphabet(V) == LET all == SetToSeq({c \in Full(V) \ {k \in Full(V) : KnownSingle(k)} : \/ c.kind \in BroadKinds
                                                     \/ PairableUnknown(c)
                                                     \/ (c.kind = "ph" /\ c.src = "env")})
               IN {all[i] : i \in {j \in 1..Len(all) : j % Stride = 0}}
BroadPairs(V) == LET Al == SetToSeq(Alphabet(V)) IN
                 {<<Al[i], Al[j]>> : <<i, j>> \in {ij \in (1..Len(Al)) \X (1..Len(Al)) :
                                                   /\ ij[1] < ij[2] /\ Indep(Al[ij[1]], Al[ij[2]])
                                                   /\ ~(UsesVar(Al[ij[1]]) /\ UsesVar(Al[ij[2]]))}}
PairsOf(V) == IF PairMode = "near" THEN NearPairs(V) ELSE BroadPairs(V)
AllPairs == UNION {PairsOf(Variants[i]) : i \in 1..Len(Variants)}

---------------------------------------------------------------------------
(* what the model says about a pair *)
NoneOf(V) == MkCase(V, "full", "none", <<>>, 0, "", TRUE)
PairOutcome(p) == IF Compose = "both"
                  THEN (IF Outcome(p[1]) = "error" \/ Outcome(p[2]) = "error" THEN "error" ELSE "ok")
                  ELSE Outcome(p[1])
PairValue(p, vv, V, j) == LET b == ValueOf(NoneOf(V), vv, V, j)
                              v1 == ValueOf(p[1], vv, V, j)
                          IN IF v1 # b THEN v1 ELSE ValueOf(p[2], vv, V, j)
Merged(p) == [set |-> Delta(p[1]).set \o Delta(p[2]).set, del |-> Delta(p[1]).del \o Delta(p[2]).del]
VarCase(p) == IF UsesVar(p[1]) THEN p[1] ELSE p[2]
PairLine(p) == [c |-> [kind |-> "pair", v |-> p[1].v, c1 |-> p[1], c2 |-> p[2]], delta |-> Merged(p),
                phval |-> PhValue(VarCase(p)), phset |-> UsesVar(VarCase(p)) /\ VarCase(p).set, adv |-> NoAdv]
PairSeq == SetToSeq(AllPairs)
ExportedPairs == ndJsonSerialize(IOEnv.VERIF_OUT_PAIRS, [i \in 1..Len(PairSeq) |-> PairLine(PairSeq[i])])
Report == PrintT(<<"VERIF", ToJson([pairs |-> Len(PairSeq)])>>)

---------------------------------------------------------------------------
VARIABLES pr, pvia, perr
pvars == <<pr, pvia, perr, cs, via, stage, err>>
PInit == /\ pr \in AllPairs /\ pvia \in {"decode", "cli"} /\ perr = (PairOutcome(pr) = "error")
         /\ cs = NoCase /\ via = "cli" /\ stage = 0 /\ err = FALSE
PNext == UNCHANGED pvars
GenInit == /\ pr = <<NoCase, NoCase>> /\ pvia = "cli" /\ perr = FALSE /\ cs = NoCase /\ via = "cli" /\ stage = 0 /\ err = FALSE

\* THE PROPERTY for pairs
PV == Variants[VarByName(pr[1].v)]
\* accepted iff both mutations are acceptable on their own
BothJudged == perr <=> (Outcome(pr[1]) = "error" \/ Outcome(pr[2]) = "error")
\* every leaf neither mutation touches keeps the value it has without them
OthersUnchanged == ~perr => \A j \in 1..Len(PV.leaves) :
                      (~IsPrefix(Touch(pr[1]), PV.leaves[j].p) /\ ~IsPrefix(Touch(pr[2]), PV.leaves[j].p)
                       /\ ~(pr[1].kind = "misspell") /\ ~(pr[2].kind = "misspell"))
                      => PairValue(pr, pvia, PV, j) = ValueOf(NoneOf(PV), pvia, PV, j)
=============================================================================
