------------------------------ MODULE GrpcWire ------------------------------
(***************************************************************************)
(* C20 -- gRPC wire fidelity.                                              *)
(*                                                                         *)
(* An ammo file is a sequence of ENTRIES.  A grpc/json entry is one call;  *)
(* a gRPC scenario is a sequence of calls (steps) whose payload and        *)
(* metadata are templates rendered with the variables of that shot.  A     *)
(* step as WRITTEN is                                                      *)
(*   [def, call, bad, tag, fields : set of [f, pre, tok],                  *)
(*                         md     : set of [k, pre, tok]]                  *)
(* every value being split in a constant prefix and a token; tok = ""      *)
(* means "the token this step execution draws" (template).                 *)
(*                                                                         *)
(* The module follows components/guns/grpc/core.go (shoot) and             *)
(* components/guns/grpc/scenario/core.go (shoot / shootStep) +             *)
(* templater_text.go (Apply):                                              *)
(*   NewGun, Bind      engine.newInstance: factory product, Bind(deps)     *)
(*   ShootBegin        instance goroutine hands an acquired ammo to Shoot  *)
(*   SendAct           stub.InvokeRpc reaches the server                   *)
(*   Sample            the deferred Aggr.Report of the step                *)
(*   ShootEnd          Shoot returns                                       *)
(* A step with an unknown method or a payload that does not fit the input  *)
(* type never reaches InvokeRpc: one failed sample, (scenario: the rest of *)
(* THIS scenario execution is skipped), the gun goes on with the next      *)
(* ammo.                                                                   *)
(*                                                                         *)
(* Negative controls (CONSTANTS, all FALSE for the real design):           *)
(*   InPlace     the templater stores rendered metadata in the shared step *)
(*               map (the pre-fix templater_text.go)                       *)
(*   AbortOnBad  a failed step stops the instance (neighbours are lost)    *)
(*   DropMd      the gun forgets one metadata key                          *)
(*   SharedDialsReflect  the shared client pool is dialled at the          *)
(*               reflection address (matters when reflection is served on  *)
(*               another port by another server)                           *)
(*   ScenarioDeadline    one deadline for the whole scenario instead of    *)
(*               one per call: think time between steps eats the budget    *)
(*                                                                         *)
(*   DirtyAfterFail      the gun's render buffer keeps the partial output  *)
(*               of a template that failed DURING execution: the next      *)
(*               render on the same gun starts with garbage                *)
(*   KeepDefaults  fields written with their default value are put on the  *)
(*               wire as if they were set                                  *)
(*   LeakMd      rendered metadata goes into ONE per-gun map that is never *)
(*               cleared: keys of earlier steps travel with later calls    *)
(*   LastWins    outgoing metadata is kept in a map keyed by the WIRE key: *)
(*               of several written entries with one wire key only one     *)
(*               value travels                                             *)
(*                                                                         *)
(*   RetryUnavailable  the transport repeats a call the target answered    *)
(*               with UNAVAILABLE (a retry policy in the dial options)     *)
(*   ChopLong    the provider hands a long line to the decoder in pieces   *)
(*               (a reader with a fixed buffer): the entry is never sent   *)
(*                                                                         *)
(* Size.  A step carries `size`: "small", or the class of a LONG entry --  *)
(* "k4f" / "k4m" (a string field / a metadata value of more than 4 KiB:    *)
(* longer than any default I/O buffer), "k64f" (a field of more than       *)
(* 64 KiB: longer than the line scanner's default token limit, legal when  *)
(* the provider's maxammosize is raised above it).  The statement knows no *)
(* length: a long entry is an entry -- received exactly once, message and  *)
(* metadata equal to what was written (the long value included: it is part *)
(* of the value's constant prefix), one sample.                            *)
(*                                                                         *)
(* Answers.  A step carries `ans`: the status the TARGET answers this call *)
(* with ("OK" or a gRPC status name).  Whatever the answer, the server     *)
(* receives the call exactly ONCE per execution of the step (ReceivedOnce) *)
(* and the step's one sample carries that answer: 200 for OK, otherwise    *)
(* the failed code of the answered status (StatusCode).  An error answer   *)
(* does not end a scenario execution (modelled, not judged).               *)
(*                                                                         *)
(* Metadata keys (the rule).  gRPC metadata keys are case-insensitive      *)
(* ASCII and travel in lower case: a key written "AUTH" or "Auth" arrives  *)
(* as "auth" (WireKey).  Entries whose keys differ only in case are ONE    *)
(* key with several values: all values arrive (in no prescribed order).    *)
(* A key ending in "-bin" carries arbitrary bytes (base64 on the wire,     *)
(* decoded by the server: the value arrives as written); any other key     *)
(* carries printable ASCII only.  An entry with an illegal key or a        *)
(* non-ASCII value under a non-bin key cannot be attached: the call is     *)
(* never sent and the step gets its one failed sample (Bad = "badmd").     *)
(*                                                                         *)
(* Run configuration rcfg = [shared, refl, T]: shared-client on/off,       *)
(* reflection served by a SEPARATE server (reflect_port), per-call timeout *)
(* T in abstract ticks (0 = none).  conn[g] is where gun g's calls go:     *)
(* always the target -- the reflection endpoint is for reflection only.    *)
(* "within the configured timeout" is per call: clk[g] is the time charged *)
(* against the deadline of the call in progress; a step's sleep (think     *)
(* time after the call) is not charged.                                    *)
(***************************************************************************)
EXTENDS Integers, Sequences, FiniteSets, TLC

CONSTANTS MaxGuns,      \* gun identities 1..MaxGuns (one warm-up gun + one per instance)
          MaxShots,     \* bound on scenario shots per run (design level only)
          KeepLog,      \* keep the log of received calls (design level); the trace spec checks on the fly
          InPlace, AbortOnBad, DropMd, SharedDialsReflect, ScenarioDeadline, DirtyAfterFail, LeakMd, KeepDefaults, LastWins, RetryUnavailable, ChopLong

VARIABLES kind,     \* "json" | "scn"
          file,     \* sequence of entries [name, steps]
          ninst,    \* instances of the pool
          gst,      \* gun -> [st : none|new|bound, inst]
          sh,       \* gun -> shooting state [idx, step, ph : idle|call|sample|end, gid, failed]
          started,  \* entry index -> number of Shoot calls it was handed to
          done,     \* entry index -> number of Shoot calls that returned
          stopped,  \* guns whose instance gave up (AbortOnBad only)
          shared,   \* <<def, key>> -> "T" (the template as written) or a rendered literal
          cache,    \* gun -> <<def, key>> -> "none" | what the gun's templater parsed
          nx,       \* tokens drawn so far
          recvlog,  \* set of [idx, step, rec] (KeepLog)
          nsample,  \* entry index -> [ok, fail] samples reported
          rcfg,     \* [shared, refl, T]
          conn,     \* gun -> "none" | "target" | "reflect": the server its stub is connected to
          clk,      \* gun -> time charged against the deadline in force
          dirty,    \* gun -> its render buffer holds leftovers of a failed render (DirtyAfterFail only)
          scratch   \* gun -> metadata left in its per-gun map by earlier steps (LeakMd only)

xvars == <<rcfg, conn, clk>>
gvars == <<dirty, scratch>>
vars == <<kind, file, ninst, gst, sh, started, done, stopped, shared, cache, nx, recvlog, nsample, xvars, gvars>>

Guns == 1..MaxGuns
Rng(s) == {s[i] : i \in DOMAIN s}
Idle == [idx |-> 0, step |-> 0, ph |-> "idle", gid |-> 0, failed |-> FALSE]

(************************ the example service ******************************)
Svc == "target.TargetService."
Methods == {"Hello", "Auth", "List", "Order", "Stats", "Reset"}
FStr(f) == [f |-> f, t |-> "str"]
FInt(f) == [f |-> f, t |-> "int"]
InputType(m) == CASE m = "Hello" -> <<FStr("name")>>
                  [] m = "Auth"  -> <<FStr("login"), FStr("pass")>>
                  [] m = "List"  -> <<FStr("token"), FInt("user_id")>>
                  [] m = "Order" -> <<FStr("token"), FInt("user_id"), FInt("item_id")>>
                  [] OTHER       -> <<>>
MdKeys == {"a", "b", "auth"}

(************************ what a written step means *************************)
\* the written metadata keys of the case space and the key they travel under
WireKey(k) == CASE k \in {"a", "A"} -> "a"
                [] k \in {"b", "B"} -> "b"
                [] k \in {"auth", "AUTH", "Auth"} -> "auth"
                [] k \in {"x-bin", "X-Bin"} -> "x-bin"
                [] OTHER -> k
IsBinKey(k) == WireKey(k) = "x-bin"
LegalKey(k) == k \notin {"a b", "nonascii-key"}            \* a blank in the key / (symbolic name of) a key with a non-ASCII letter
\* vf: "ascii" | "utf8" (the value contains non-ASCII characters)
MdLegal(m) == LegalKey(m.k) /\ (m.vf = "utf8" => IsBinKey(m.k))
\* why a step is never sent: as declared (unknown method, ill-typed payload, ...) or metadata that cannot be attached
Bad(s) == IF s.bad # "none" THEN s.bad ELSE IF \E m \in s.md : ~MdLegal(m) THEN "badmd" ELSE "none"
\* the sample code of an answered status (components/guns/grpc/core.go ConvertGrpcStatus; docs: grpc-generator.md)
StatusCode(a) == CASE a = "OK" -> 200
                   [] a = "CANCELLED" -> 499          [] a = "UNKNOWN" -> 500
                   [] a = "INVALID_ARGUMENT" -> 400   [] a = "DEADLINE_EXCEEDED" -> 504
                   [] a = "NOT_FOUND" -> 404          [] a = "ALREADY_EXISTS" -> 409
                   [] a = "PERMISSION_DENIED" -> 403  [] a = "RESOURCE_EXHAUSTED" -> 429
                   [] a = "FAILED_PRECONDITION" -> 400 [] a = "ABORTED" -> 409
                   [] a = "OUT_OF_RANGE" -> 400       [] a = "UNIMPLEMENTED" -> 501
                   [] a = "INTERNAL" -> 500           [] a = "UNAVAILABLE" -> 503
                   [] a = "DATA_LOSS" -> 500          [] a = "UNAUTHENTICATED" -> 401
Statuses == {"OK", "CANCELLED", "UNKNOWN", "INVALID_ARGUMENT", "DEADLINE_EXCEEDED", "NOT_FOUND", "ALREADY_EXISTS", "PERMISSION_DENIED",
             "RESOURCE_EXHAUSTED", "FAILED_PRECONDITION", "ABORTED", "OUT_OF_RANGE", "UNIMPLEMENTED", "INTERNAL", "UNAVAILABLE", "DATA_LOSS",
             "UNAUTHENTICATED"}
\* a rendered metadata entry as the server sees it
Wire(m) == [k |-> WireKey(m.k), pre |-> m.pre, tok |-> m.tok]
Render(x, t) == [x EXCEPT !.tok = IF x.tok = "" THEN t ELSE x.tok]
RenderSet(S, t) == {Render(x, t) : x \in S}
\* a field written with its DEFAULT value ("" / 0; dv) is not part of a proto3 message: the message equals the payload
\* "interpreted against the input type" when exactly the non-default fields arrive
RenderFields(S, t) == {[f |-> x.f, pre |-> x.pre, tok |-> IF x.tok = "" THEN t ELSE x.tok] : x \in {y \in S : ~y.dv}}
\* rec = [method, fields, md] as received: exactly the named method, the message equal to the
\* payload (every written field with its value, nothing else), the entry's metadata attached
Fits(step, rec) ==
    /\ Bad(step) = "none"
    /\ rec.method = step.call
    /\ \E t \in {x.tok : x \in rec.fields \cup rec.md} \cup {"-"} :
          /\ rec.fields = RenderFields(step.fields, t)
          /\ {Wire(m) : m \in RenderSet(step.md, t)} = rec.md   \* exactly the step's metadata under its wire keys (grpc's own entries are not in rec)

AllSteps(f) == UNION {Rng(f[i].steps) : i \in DOMAIN f}
\* the keys of the shared template store: (call definition, metadata key)
Keys(f) == UNION {{<<s.def, m.k>> : m \in s.md} : s \in AllSteps(f)}

DefaultCfg == [shared |-> FALSE, refl |-> FALSE, T |-> 0]
InitCfg(k, f, n, c) ==
    /\ rcfg = c
    /\ conn = [g \in Guns |-> "none"]
    /\ clk = [g \in Guns |-> 0]
    /\ dirty = [g \in Guns |-> FALSE]
    /\ scratch = [g \in Guns |-> {}]
    /\ kind = k /\ file = f /\ ninst = n
    /\ gst = [g \in Guns |-> [st |-> "none", inst |-> -1]]
    /\ sh = [g \in Guns |-> Idle]
    /\ started = [i \in DOMAIN f |-> 0]
    /\ done = [i \in DOMAIN f |-> 0]
    /\ stopped = {}
    /\ shared = [x \in Keys(f) |-> "T"]
    /\ cache = [g \in Guns |-> [x \in Keys(f) |-> "none"]]
    /\ nx = 0
    /\ recvlog = {}
    /\ nsample = [i \in DOMAIN f |-> [ok |-> 0, fail |-> 0]]
InitWith(k, f, n) == InitCfg(k, f, n, DefaultCfg)

(******************************* actions ***********************************)
NewGun(g) ==
    /\ gst[g].st = "none"
    /\ gst' = [gst EXCEPT ![g].st = "new"]
    /\ UNCHANGED <<kind, file, ninst, sh, started, done, stopped, shared, cache, nx, recvlog, nsample, xvars, gvars>>

Bind(g, i) ==
    /\ gst[g].st = "new"
    /\ i \in 0..(ninst - 1)
    /\ \A h \in Guns : gst[h].st = "bound" => gst[h].inst # i
    /\ gst' = [gst EXCEPT ![g] = [st |-> "bound", inst |-> i]]
    \* Bind takes a stub of the shared pool (prepareClientPool: makeConnect) or dials its own (makeConnect)
    /\ conn' = [conn EXCEPT ![g] = IF rcfg.shared /\ rcfg.refl /\ SharedDialsReflect THEN "reflect" ELSE "target"]
    /\ UNCHANGED <<kind, file, ninst, sh, started, done, stopped, shared, cache, nx, recvlog, nsample, rcfg, clk, gvars>>

ShootBegin(g, idx, gid) ==
    /\ gst[g].st = "bound" /\ sh[g].ph = "idle" /\ g \notin stopped
    /\ idx \in DOMAIN file
    /\ kind = "json" => started[idx] = 0          \* passes: 1 -- every entry is delivered once
    /\ \A h \in Guns : sh[h].ph # "idle" => sh[h].gid # gid \/ gid = 0
    /\ sh' = [sh EXCEPT ![g] = [idx |-> idx, step |-> 1, ph |-> "call", gid |-> gid, failed |-> FALSE]]
    /\ started' = [started EXCEPT ![idx] = @ + 1]
    /\ clk' = [clk EXCEPT ![g] = 0]
    /\ UNCHANGED <<kind, file, ninst, gst, done, stopped, shared, cache, nx, recvlog, nsample, rcfg, conn, gvars>>

CurStep(g) == file[sh[g].idx].steps[sh[g].step]

\* the call reaches the server carrying rec; newShared/newCache: effect on the template store
\* srv: the server that received it -- the one the gun's stub is connected to
SendAct(g, rec, newShared, newCache, drawn, srv, newScratch) ==
    /\ sh[g].ph = "call"
    /\ Bad(CurStep(g)) = "none"
    /\ ~(DirtyAfterFail /\ dirty[g])                  \* (negative control) a garbage-prefixed payload is never sent
    /\ ~(ChopLong /\ CurStep(g).size # "small")       \* (negative control) the pieces of a long line are no entry
    /\ srv = conn[g]
    /\ rcfg.T = 0 \/ clk[g] < rcfg.T                   \* the call starts with budget left
    /\ sh' = [sh EXCEPT ![g].ph = "sample"]
    /\ recvlog' = IF KeepLog THEN recvlog \cup {[idx |-> sh[g].idx, step |-> sh[g].step, rec |-> rec, srv |-> srv,
                                                  n |-> Cardinality({r \in recvlog : r.idx = sh[g].idx /\ r.step = sh[g].step})]} ELSE recvlog
    /\ shared' = newShared /\ cache' = newCache /\ nx' = nx + drawn
    /\ scratch' = newScratch
    /\ UNCHANGED <<kind, file, ninst, gst, started, done, stopped, nsample, xvars, dirty>>

\* the deferred Report of the current step
Sample(g, tag, ok) ==
    /\ tag = CurStep(g).tag \/ CurStep(g).tag = "*"     \* "*": an undecodable line has no tag of its own
    /\ \/ /\ sh[g].ph = "call" /\ ~ok                                   \* never sent: failed sample
          /\ \/ Bad(CurStep(g)) # "none"
             \/ ScenarioDeadline /\ rcfg.T > 0 /\ clk[g] >= rcfg.T      \* (negative control) deadline used up by think time
             \/ DirtyAfterFail /\ dirty[g]                             \* (negative control) leftovers of a failed render
             \/ ChopLong /\ CurStep(g).size # "small"                  \* (negative control) a long line decoded in pieces
          \* metadata that cannot be attached fails inside InvokeRpc like an error answer: the scenario goes on with
          \* its next step; every other never-sent step ends this execution (modelled, not judged)
          /\ sh' = [sh EXCEPT ![g] = IF Bad(CurStep(g)) = "badmd" /\ sh[g].step < Len(file[sh[g].idx].steps)
                                     THEN [@ EXCEPT !.step = @ + 1, !.ph = "call", !.failed = TRUE]
                                     ELSE [@ EXCEPT !.ph = "end", !.failed = TRUE]]
       \/ /\ sh[g].ph = "sample" /\ ok = (CurStep(g).ans = "OK")          \* answered by the target: ok iff the answer is OK
          /\ sh' = [sh EXCEPT ![g] = IF sh[g].step < Len(file[sh[g].idx].steps)
                                     THEN [@ EXCEPT !.step = @ + 1, !.ph = "call", !.failed = @ \/ ~ok]
                                     ELSE [@ EXCEPT !.ph = "end", !.failed = @ \/ ~ok]]
    /\ nsample' = [nsample EXCEPT ![sh[g].idx] = IF ok THEN [@ EXCEPT !.ok = @ + 1] ELSE [@ EXCEPT !.fail = @ + 1]]
    \* per-call deadline: the next call starts a fresh one; the step's sleep is not charged to anything
    /\ clk' = [clk EXCEPT ![g] = IF ScenarioDeadline /\ ok THEN @ + CurStep(g).sleep ELSE 0]
    \* a template that fails during execution has already written part of its output
    /\ dirty' = [dirty EXCEPT ![g] = DirtyAfterFail /\ ~ok /\ CurStep(g).bad = "tmplfail"]
    /\ UNCHANGED <<kind, file, ninst, gst, started, done, stopped, shared, cache, nx, recvlog, rcfg, conn, scratch>>

ShootEnd(g) ==
    /\ sh[g].ph = "end"
    /\ done' = [done EXCEPT ![sh[g].idx] = @ + 1]
    /\ stopped' = IF AbortOnBad /\ sh[g].failed THEN stopped \cup {g} ELSE stopped
    /\ sh' = [sh EXCEPT ![g] = Idle]
    /\ UNCHANGED <<kind, file, ninst, gst, started, shared, cache, nx, recvlog, nsample, xvars, gvars>>

\* (negative control) the transport sends the call again after an UNAVAILABLE answer
Resend(g) ==
    /\ RetryUnavailable /\ KeepLog
    /\ sh[g].ph = "sample" /\ CurStep(g).ans = "UNAVAILABLE"
    /\ Cardinality({r \in recvlog : r.idx = sh[g].idx /\ r.step = sh[g].step}) < 2 * (done[sh[g].idx] + 1)
    /\ \E r \in recvlog : /\ r.idx = sh[g].idx /\ r.step = sh[g].step
                          /\ recvlog' = recvlog \cup {[r EXCEPT !.n = Cardinality({q \in recvlog : q.idx = r.idx /\ q.step = r.step})]}
    /\ UNCHANGED <<kind, file, ninst, gst, sh, started, done, stopped, shared, cache, nx, nsample, xvars, gvars>>

(*********** what the modelled gun puts on the wire (design level) **********)
Tok(n) == "t" \o ToString(n)   \* the n-th value of the variable source (opaque)
\* templater.Apply for metadata key m of call definition d by gun g drawing token t
Src(g, d, m)    == IF cache[g][<<d, m.k>>] = "none" THEN shared[<<d, m.k>>] ELSE cache[g][<<d, m.k>>]
MdVal(g, d, m, t) == IF m.tok # "" THEN m.tok ELSE IF Src(g, d, m) = "T" THEN t ELSE Src(g, d, m)
ModelSend(g) ==
    LET s  == CurStep(g)
        t  == Tok(nx)
        templ == {m \in s.md : m.tok = ""}
        mdAll == {[m EXCEPT !.tok = MdVal(g, s.def, m, t)] : m \in s.md}
        own   == IF DropMd THEN {m \in mdAll : m.k # "a"} ELSE mdAll
        kept  == IF LastWins THEN {CHOOSE m \in own : WireKey(m.k) = w : w \in {WireKey(m.k) : m \in own}} ELSE own
        mdw   == IF LeakMd THEN kept \cup {m \in scratch[g] : \A o \in kept : o.k # m.k} ELSE kept
        md    == {Wire(m) : m \in mdw}
        rec   == [method |-> s.call, md |-> md,
                  fields |-> IF KeepDefaults THEN {[f |-> x.f, pre |-> x.pre, tok |-> IF x.tok = "" THEN t ELSE x.tok] : x \in s.fields}
                             ELSE RenderFields(s.fields, t)]
        nc    == [cache EXCEPT ![g] = [x \in DOMAIN @ |->
                     IF \E m \in templ : x = <<s.def, m.k>> THEN
                        (IF @[x] = "none" THEN shared[x] ELSE @[x]) ELSE @[x]]]
        ns    == IF InPlace
                 THEN [x \in DOMAIN shared |-> IF \E m \in templ : x = <<s.def, m.k>>
                                               THEN MdVal(g, s.def, CHOOSE m \in templ : x = <<s.def, m.k>>, t)
                                               ELSE shared[x]]
                 ELSE shared
    IN SendAct(g, rec, ns, nc, IF kind = "scn" THEN 1 ELSE 0, conn[g], IF LeakMd THEN [scratch EXCEPT ![g] = mdw] ELSE scratch)

RECURSIVE SumTo(_, _)
SumTo(f, n) == IF n = 0 THEN 0 ELSE f[n] + SumTo(f, n - 1)
Shots == SumTo(started, Len(file))

Next ==
    \/ \E g \in Guns : NewGun(g)
    \/ \E g \in Guns, i \in 0..(ninst - 1) : Bind(g, i)
    \/ \E g \in Guns, idx \in DOMAIN file : (kind = "scn" => Shots < MaxShots) /\ ShootBegin(g, idx, 0)
    \/ \E g \in Guns : ModelSend(g)
    \/ \E g \in Guns : sh[g].ph \in {"call", "sample"} /\ Sample(g, CurStep(g).tag, sh[g].ph = "sample" /\ CurStep(g).ans = "OK")
    \/ \E g \in Guns : ShootEnd(g)
    \/ \E g \in Guns : Resend(g)

(****************************** properties *********************************)
TypeOK ==
    /\ kind \in {"json", "scn"}
    /\ \A g \in Guns : gst[g].st \in {"none", "new", "bound"} /\ sh[g].ph \in {"idle", "call", "sample", "end"}

\* a gun belongs to one instance, an instance has one gun
Ownership == \A g, h \in Guns : gst[g].st = "bound" /\ gst[h].st = "bound" /\ g # h => gst[g].inst # gst[h].inst

\* the server saw exactly the named method, the message equal to the payload, the metadata attached
Fidelity == \A r \in recvlog : Fits(file[r.idx].steps[r.step], r.rec)

\* calls go to the target; the reflection endpoint serves reflection only
TargetReceivesAll == \A r \in recvlog : r.srv = "target"

\* a bad step is never sent; every executed step reports exactly one sample of the right outcome
BadNeverSent == \A r \in recvlog : Bad(file[r.idx].steps[r.step]) = "none"

\* shared definitions (the metadata templates of the step) are never altered
SharedUnaltered == \A x \in DOMAIN shared : shared[x] = "T"

AllIdle == \A g \in Guns : sh[g].ph = "idle"
\* expected outcome of one execution of entry i: samples up to and including the first bad step
Aborts(st) == Bad(st) \notin {"none", "badmd"}
FirstBad(e) == IF \E j \in DOMAIN e.steps : Aborts(e.steps[j])
               THEN CHOOSE j \in DOMAIN e.steps : Aborts(e.steps[j]) /\ \A jj \in 1..(j - 1) : ~Aborts(e.steps[jj])
               ELSE 0
Executed(e) == IF FirstBad(e) = 0 THEN DOMAIN e.steps ELSE 1..FirstBad(e)
ExpOk(e)   == Cardinality({j \in Executed(e) : Bad(e.steps[j]) = "none" /\ e.steps[j].ans = "OK"})
ExpFail(e) == Cardinality({j \in Executed(e) : Bad(e.steps[j]) # "none" \/ e.steps[j].ans # "OK"})
\* whatever the target answers, it receives every executed good step exactly once per execution
ExpSent(e) == Cardinality({j \in Executed(e) : Bad(e.steps[j]) = "none"})
ReceivedOnce == (KeepLog /\ AllIdle) => \A i \in DOMAIN file : Cardinality({r \in recvlog : r.idx = i}) = done[i] * ExpSent(file[i])
\* once nothing is in flight, every finished execution reported exactly the samples of its steps
SamplesExact == AllIdle => \A i \in DOMAIN file : /\ nsample[i].ok = done[i] * ExpOk(file[i])
                                                   /\ nsample[i].fail = done[i] * ExpFail(file[i])
\* grpc/json, passes: 1 -- when the pool has drained the file (every instance is up, nothing in
\* flight, no gun can be handed another entry) every entry was shot exactly once, whatever its
\* neighbours were: a bad entry does not take good ones with it
Bound == {g \in Guns : gst[g].st = "bound"}
Drained == /\ AllIdle /\ Cardinality(Bound) = ninst
           /\ \A b \in Bound : \A i \in DOMAIN file : b \in stopped \/ started[i] # 0
RunComplete == \A i \in DOMAIN file : started[i] = 1 /\ done[i] = 1
NeighboursUnaffected == (kind = "json" /\ Drained) => RunComplete
=============================================================================
