----------------------------- MODULE GrpcWireMC -----------------------------
(* Model-checking instance of GrpcWire: (1) a small catalogue of entry classes for the exhaustive
   run over files x instances x interleavings; (2) the GENERATOR of the complete abstract case
   space (methods x field subsets x metadata subsets x bad entries; runs = kind x shared-client x
   instances x file order) that `vdrive grpcwire` renders and runs through the real code. *)
EXTENDS GrpcWire, Json, SequencesExt, IOUtils

CONSTANTS MaxInst, MaxFile, Kinds, Full, Cfgs, CatSel

(******************************* catalogue *********************************)
F(f, d, t) == [f |-> f, pre |-> IF f \in {"user_id", "item_id"} THEN "" ELSE d \o "." \o f, tok |-> t, dv |-> FALSE]
M(k, d, t) == [k |-> k, pre |-> d \o "." \o k, tok |-> t, vf |-> "ascii"]
Step(d, call, bad, tag, fs, ks, t) ==
    [def |-> d, call |-> Svc \o call, bad |-> bad, tag |-> tag, sleep |-> 0, ans |-> "OK", size |-> "small",
     fields |-> {F(f, d, t) : f \in fs}, md |-> {M(k, d, t) : k \in ks}]

J1 == [name |-> "e1", steps |-> <<Step("e1", "Hello", "none", "e1", {"name"}, {"a"}, "5001")>>]
J2 == [name |-> "e2", steps |-> <<Step("e2", "Stats", "none", "e2", {}, {}, "5002")>>]
J3 == [name |-> "e3", steps |-> <<Step("e3", "Nope3", "unknown", "e3", {}, {"b"}, "5003")>>]
J4 == [name |-> "e4", steps |-> <<Step("e4", "List", "illtyped", "e4", {"user_id"}, {"a"}, "5004")>>]
TailStep(s) == Step("ct", "Hello", "none", s \o ".ct", {"name"}, {"auth"}, "")
S1 == [name |-> "s1", steps |-> <<Step("c1", "Order", "none", "s1.c1", {"token", "item_id"}, {"a", "b"}, ""), TailStep("s1")>>]
S2 == [name |-> "s2", steps |-> <<Step("c2", "Nope2", "unknown", "s2.c2", {}, {"a"}, ""), TailStep("s2")>>]
S3 == [name |-> "s3", steps |-> <<Step("c3", "Auth", "illtyped", "s3.c3", {"login"}, {}, ""), TailStep("s3")>>]

\* an undecodable line (continue-on-error): no call, no tag of its own
\* a field written with its default value: List{token, user_id = 0}
J6 == [name |-> "e6", steps |-> <<[Step("e6", "List", "none", "e6", {"token", "user_id"}, {}, "5006")
                                   EXCEPT !.fields = {IF x.f = "user_id" THEN [x EXCEPT !.dv = TRUE] ELSE x : x \in @}]>>]
J5 == [name |-> "!invalid", steps |-> <<[Step("e5", "?", "undecodable", "*", {}, {}, "5005") EXCEPT !.call = "?"]>>]
\* think time between the steps: 2 + 2 ticks against a per-call timeout of 3
Slp(st, n) == [st EXCEPT !.sleep = n]
S4 == [name |-> "s4", steps |-> <<Slp(Step("c4", "Hello", "none", "s4.c4", {"name"}, {}, ""), 2), Slp(TailStep("s4"), 2),
                                  [TailStep("s4") EXCEPT !.tag = "s4.ct2"]>>]
\* a template that fails DURING execution (after writing part of its output): nothing is sent, one failed sample
S5 == [name |-> "s5", steps |-> <<Step("c5", "Hello", "tmplfail", "s5.c5", {"name"}, {"b"}, ""), TailStep("s5")>>]
\* metadata keys in other cases, several entries under ONE wire key, a binary value, metadata that cannot be attached
Utf8(st, ks) == [st EXCEPT !.md = {IF m.k \in ks THEN [m EXCEPT !.vf = "utf8"] ELSE m : m \in @}]
J7 == [name |-> "e7", steps |-> <<Step("e7", "Hello", "none", "e7", {"name"}, {"auth", "AUTH", "b"}, "5007")>>]
J8 == [name |-> "e8", steps |-> <<Utf8(Step("e8", "Hello", "none", "e8", {"name"}, {"X-Bin", "A"}, "5008"), {"X-Bin"})>>]
J9 == [name |-> "e9", steps |-> <<Utf8(Step("e9", "Hello", "none", "e9", {"name"}, {"a", "b"}, "5009"), {"b"})>>]      \* non-ASCII under a non-bin key
J10 == [name |-> "e10", steps |-> <<Step("e10", "Hello", "none", "e10", {"name"}, {"a b", "auth"}, "5010")>>]             \* illegal key
S6 == [name |-> "s6", steps |-> <<Step("c6", "Hello", "none", "s6.c6", {"name"}, {"auth", "Auth", "AUTH"}, ""), TailStep("s6")>>]
S7 == [name |-> "s7", steps |-> <<Utf8(Step("c7", "Hello", "none", "s7.c7", {"name"}, {"x-bin", "B"}, ""), {"x-bin"}), TailStep("s7")>>]
S8 == [name |-> "s8", steps |-> <<Step("c8", "Hello", "none", "s8.c8", {"name"}, {"nonascii-key"}, ""), TailStep("s8")>>]
\* the target answers with an error status
Ans(st, a) == [st EXCEPT !.ans = a]
J11 == [name |-> "e11", steps |-> <<Ans(Step("e11", "Hello", "none", "e11", {"name"}, {"a"}, "5011"), "UNAVAILABLE")>>]
S9 == [name |-> "s9", steps |-> <<Ans(Step("c9", "Hello", "none", "s9.c9", {"name"}, {"b"}, ""), "UNAVAILABLE"), TailStep("s9")>>]
\* a LONG entry: a string field of more than 4 KiB
J12 == [name |-> "e12", steps |-> <<[Step("e12", "Hello", "none", "e12", {"name"}, {"a"}, "5012") EXCEPT !.size = "k4f"]>>]
MainCat == [json |-> {J1, J2, J3, J4, J5, J6}, scn |-> {S1, S2, S3, S4, S5}]
\* (the second catalogue: metadata forms and error answers; J8 / J10 / S7 are covered by the generated case space)
MdCat   == [json |-> {J7, J9, J11, J12}, scn |-> {S6, S8, S9}]
Cat(k) == CatSel[k]
Files(k) == UNION {[1..n -> Cat(k)] : n \in 1..MaxFile}

Init == \E k \in Kinds : \E f \in Files(k) : \E n \in 1..MaxInst : \E c \in Cfgs : InitCfg(k, f, n, c)
PlainCfg == {DefaultCfg}
TwoCfgs == {DefaultCfg, [shared |-> TRUE, refl |-> TRUE, T |-> 3]}
HardCfg == {[shared |-> TRUE, refl |-> TRUE, T |-> 3]}
Spec == Init /\ [][Next]_vars

JsonOnly == {"json"}
ScnOnly  == {"scn"}
Both     == {"json", "scn"}

(******************************* generator *********************************)
FieldSubsets(m) == {SelectSeq(InputType(m), LAMBDA x : x \in S) : S \in SUBSET Rng(InputType(m))}
\* written metadata: a sequence of [k (the key AS WRITTEN), vf (ascii | utf8 value)]
AllKeys == <<"a", "A", "b", "B", "auth", "Auth", "AUTH", "x-bin", "X-Bin", "payload", "a b", "nonascii-key">>
MdSeqU(S, U) == LET sel == SelectSeq(AllKeys, LAMBDA k : k \in S)
                IN [i \in 1..Len(sel) |-> [k |-> sel[i], vf |-> IF sel[i] \in U THEN "utf8" ELSE "ascii"]]
MdSeq(S) == MdSeqU(S, {})
Abs(m, fs, mds, bad, st, nu) == [call |-> m, fields |-> fs, md |-> MdSeq(mds), bad |-> bad, style |-> st, num |-> nu, dflt |-> {}, ans |-> "OK", size |-> "small"]
\* what the SPECIFICATION says about an entry: declared bad, or metadata that cannot be attached (GrpcWire!Bad)
AbsBad(a) == IF a.bad # "none" THEN a.bad ELSE IF \E i \in DOMAIN a.md : ~MdLegal(a.md[i]) THEN "badmd" ELSE "none"
\* metadata key forms: other cases, several entries under one wire key, binary values, entries that cannot be attached
MdForm(m, S, U) == [Abs(m, InputType(m), {}, "none", "rot", "rot") EXCEPT !.md = MdSeqU(S, U)]
MdForms == {MdForm("Hello", {"A"}, {}), MdForm("Hello", {"Auth", "b"}, {}), MdForm("Hello", {"auth", "AUTH"}, {}),
            MdForm("Stats", {"a", "A", "B"}, {}), MdForm("Order", {"auth", "Auth", "AUTH"}, {}),
            MdForm("Hello", {"x-bin"}, {"x-bin"}), MdForm("Auth", {"X-Bin", "a"}, {"X-Bin"}), MdForm("Hello", {"x-bin", "X-Bin"}, {"X-Bin"}),
            MdForm("Hello", {"a"}, {"a"}), MdForm("Hello", {"a b"}, {}), MdForm("List", {"nonascii-key", "b"}, {}),
            MdForm("Hello", {"auth", "AUTH", "b"}, {"b"})}
Styles == IF Full THEN {"proto", "camel"} ELSE {"rot"}
Nums   == IF Full THEN {"number", "string"} ELSE {"rot"}
GoodAbs == {Abs(m, fs, mds, "none", st, nu) : m \in Methods, fs \in UNION {FieldSubsets(mm) : mm \in Methods},
                                             mds \in SUBSET MdKeys, st \in Styles, nu \in Nums}
\* a metadata entry may have any name -- also the ones the implementation uses internally ("payload")
NameClash == {Abs(m, InputType(m), mds, "none", "rot", "rot") : m \in Methods, mds \in {{"payload"}, {"a", "payload"}}}
\* fields written with their DEFAULT value ("" / 0): every non-empty subset D of the fields of Auth, List, Order
Defaults == {[Abs(m, InputType(m), mds, "none", "rot", "rot") EXCEPT !.dflt = D] :
                m \in {"Auth", "List", "Order"}, mds \in {{}, {"a"}},
                D \in UNION {SUBSET {InputType(mm)[i].f : i \in DOMAIN InputType(mm)} : mm \in {"Auth", "List", "Order"}}}
DefaultSet == {a \in Defaults : a.dflt # {} /\ a.dflt \subseteq {InputType(a.call)[i].f : i \in DOMAIN InputType(a.call)}}
\* a payload naming a field the method does not have (the other ill-typed entries rotate through three mechanisms)
UnknownField == {Abs(m, InputType(m), {}, "illtyped", "unknownfield", "rot") : m \in Methods}
\* the target answers the entry with an error status: every status (the recording target finds the entry by the name in its
\* string fields / metadata values, so these entries carry one)
Answered == {[Abs("Hello", InputType("Hello"), mds, "none", "rot", "rot") EXCEPT !.ans = a] : a \in Statuses \ {"OK"}, mds \in {{"a"}}}
            \cup {[Abs("Order", InputType("Order"), {"auth", "b"}, "none", "rot", "rot") EXCEPT !.ans = a] : a \in {"UNAVAILABLE", "RESOURCE_EXHAUSTED", "ABORTED"}}
            \cup {[Abs("Stats", <<>>, {"a"}, "none", "rot", "rot") EXCEPT !.ans = "UNAVAILABLE"]}
\* LONG entries (GrpcWire: Size): a string field / a metadata value of more than 4 KiB, a field of more than 64 KiB (only in
\* files read with maxammosize raised above it: Fit); with and without further fields / metadata; one answered with an error
Sized(a, z) == [a EXCEPT !.size = z]
Long == {Sized(Abs("Hello", InputType("Hello"), mds, "none", "rot", "rot"), z) : mds \in {{}, {"a"}}, z \in {"k4f", "k64f"}}
        \cup {Sized(Abs("Hello", InputType("Hello"), {"a", "b"}, "none", "rot", "rot"), "k4m"),
              Sized(Abs("Stats", <<>>, {"auth"}, "none", "rot", "rot"), "k4m"),
              Sized(Abs("Order", InputType("Order"), {"auth", "b"}, "none", "rot", "rot"), "k4f"),
              Sized(Abs("Auth", InputType("Auth"), {}, "none", "rot", "rot"), "k64f"),
              Sized([Abs("Hello", InputType("Hello"), {"b"}, "none", "rot", "rot") EXCEPT !.ans = "NOT_FOUND"], "k4f")}
GoodSet == {a \in GoodAbs : a.fields \in FieldSubsets(a.call)} \cup NameClash \cup DefaultSet \cup {a \in MdForms : AbsBad(a) = "none"} \cup Answered
           \cup Long
BadSet  == {Abs("Hello", <<>>, mds, "unknown", "rot", "rot") : mds \in {{}, {"a"}, {"a", "b", "auth"}}}
           \cup {a \in {Abs(m, fs, mds, "illtyped", "rot", "rot") : m \in Methods,
                        fs \in UNION {FieldSubsets(mm) : mm \in Methods}, mds \in {{}, {"b"}}} :
                 a.fields \in FieldSubsets(a.call)}
\* lines that are not a grpc/json entry at all (continue-on-error: skipped with a failed sample, never sent);
\* md carries the KIND of garbage for the renderer
\* scenario calls whose payload / metadata template fails during execution (style carries the variant)
TmplFail == {Abs("Hello", <<FStr("name")>>, {"a"}, "tmplfail", v, "rot") : v \in {"payload", "metadata"}}
Undecodable == {Abs("Hello", <<>>, {}, "undecodable", g, "rot") : g \in {"truncated", "notjson", "array", "payloadstring"}}
GoodSeq == SetToSeq(GoodSet)
BadSeq  == SetToSeq(BadSet \cup Undecodable \cup TmplFail \cup UnknownField \cup {a \in MdForms : AbsBad(a) # "none"})
\* bad entries interleaved with good ones: one bad entry after every K good ones, the rest of the good at the end
K == Len(GoodSeq) \div Len(BadSeq)
RECURSIVE Weave(_)
Weave(j) == IF j > Len(BadSeq) THEN SubSeq(GoodSeq, (j - 1) * K + 1, Len(GoodSeq))
            ELSE SubSeq(GoodSeq, (j - 1) * K + 1, j * K) \o <<BadSeq[j]>> \o Weave(j + 1)
Woven == Weave(1)
N == Len(Woven)
Rot(a, i) == IF a.bad \in {"undecodable", "tmplfail"} \/ a.style = "unknownfield" THEN a ELSE
             [a EXCEPT !.style = IF @ = "rot" THEN (IF i % 2 = 0 THEN "camel" ELSE "proto") ELSE @,
                       !.num   = IF @ = "rot" THEN (IF (i \div 2) % 2 = 0 THEN "number" ELSE "string") ELSE @]
WithDv(a) == [a EXCEPT !.fields = [j \in DOMAIN @ |-> @[j] @@ [dv |-> @[j].f \in a.dflt]]]
Entry(i) == [id |-> i] @@ Rot(WithDv(Woven[i]), i)
\* the expected observable of every entry, computed here: is the call received, how many ok / failed samples
Expect(a) == [received |-> AbsBad(a) = "none", ok_samples |-> IF AbsBad(a) = "none" /\ a.ans = "OK" THEN 1 ELSE 0,
              failed_samples |-> IF AbsBad(a) = "none" /\ a.ans = "OK" THEN 0 ELSE 1]
EntriesOut == [i \in 1..N |-> Entry(i) @@ [expect |-> Expect(Woven[i])]]
\* every scenario is <entry, tail>; the tail call carries a templated payload field and all three
\* templated metadata keys, so every scenario shot of every instance renders the SAME shared step
IsTail(a) == a.call = "Hello" /\ Len(a.fields) = 1 /\ a.md = MdSeq({"a", "b", "auth"}) /\ a.bad = "none" /\ a.size = "small" /\ a.ans = "OK"
TailId == CHOOSE i \in 1..N : IsTail(Woven[i]) /\ \A j \in 1..(i - 1) : ~IsTail(Woven[j])
\* VERIF_SEED rotates the file: a different neighbourhood for every entry, another first/last entry
Shift == (atoi(IOEnv.VERIF_SEED) * 37) % N
Fwd == [i \in 1..N |-> ((i - 1 + Shift) % N) + 1]
Rev == [i \in 1..N |-> ((N - i + Shift) % N) + 1]
BadIdx == SelectSeq(Fwd, LAMBDA i : AbsBad(Woven[i]) # "none")
BadFirst == BadIdx \o SelectSeq(Fwd, LAMBDA i : AbsBad(Woven[i]) = "none")
\* undecodable lines exist in files only (scenario definitions have no lines)
Scn(o) == SelectSeq(o, LAMBDA i : Woven[i].bad # "undecodable")
\* templates exist in scenarios only
Jsn(o) == SelectSeq(o, LAMBDA i : Woven[i].bad # "tmplfail")
\* an entry of more than 64 KiB is an entry of files read with maxammosize (mx, bytes; 0 = the default) raised above it
MaxAmmoBig == 262144
Fit(o, mx) == SelectSeq(o, LAMBDA i : Woven[i].size # "k64f" \/ mx > 0)
\* the second tail: Hello{name} WITHOUT metadata -- scenarios alternate between the two tails, so that consecutive
\* calls of one gun have different, also disjoint and empty, metadata key sets
IsTail0(a) == a.call = "Hello" /\ Len(a.fields) = 1 /\ a.md = <<>> /\ a.bad = "none" /\ a.size = "small" /\ a.ans = "OK"
Tail0Id == CHOOSE i \in 1..N : IsTail0(Woven[i]) /\ \A j \in 1..(i - 1) : ~IsTail0(Woven[j])
\* a run: kind, shared-client (with `clients` pooled clients), instances, file order, extra scenario shots,
\* refl: reflection served on ANOTHER port by ANOTHER server (reflect_port), timeout (ms, 0 = the 120 s default
\* of the driver), sleeps: think time (ms) after step 1 and step 2 of the <entry, tail, tail> scenarios
Run(k, s, c, n, o, x, r) == [kind |-> k, shared |-> s, clients |-> c, inst |-> n, order |-> o, extra |-> x, refl |-> r,
                             timeout |-> 0, sleeps |-> <<>>, maxammo |-> 0]
JRun(s, c, n, o, r, mx) == [Run("json", s, c, n, Fit(Jsn(o), mx), 0, r) EXCEPT !.maxammo = mx]
\* "within the configured timeout" is per call: timeout T, think time 0.6 T + 0.6 T between three fast calls
SlowT == 1000
SlowRun == [Run("scn", FALSE, 1, 4, SubSeq(Scn(SelectSeq(Fwd, LAMBDA i : AbsBad(Woven[i]) = "none")), 1, 4), 0, FALSE)
            EXCEPT !.timeout = SlowT, !.sleeps = <<(SlowT * 6) \div 10, (SlowT * 6) \div 10>>]
Runs == <<JRun(FALSE, 1, 1, Fwd, FALSE, 0), JRun(TRUE, 1, 2, Rev, TRUE, MaxAmmoBig), JRun(FALSE, 1, 3, BadFirst, TRUE, 0),
          JRun(TRUE, 3, 1, BadFirst, TRUE, MaxAmmoBig), JRun(FALSE, 1, 2, Fwd, FALSE, MaxAmmoBig), JRun(TRUE, 2, 3, Rev, FALSE, 0),
          Run("scn", FALSE, 1, 1, Scn(Fwd), 0, TRUE), Run("scn", FALSE, 1, 2, Scn(Rev), 40, FALSE), Run("scn", FALSE, 1, 3, Scn(BadFirst), N, FALSE),
          SlowRun>>
CaseDoc == [entries |-> EntriesOut, tail |-> TailId, tail0 |-> Tail0Id, runs |-> Runs]

GenInit == InitWith("json", <<>>, 1) /\ PrintT(<<"VERIF", ToJson(CaseDoc)>>)
GenNext == UNCHANGED vars
=============================================================================
