----------------------------- MODULE PhoutCases -----------------------------
(***************************************************************************)
(* C06, M2 (spec -> code): the finite abstract case space of the phout     *)
(* line format, with the expected columns COMPUTED BY TLC (PhoutLine).     *)
(* The driver `vdrive aggcases` renders every case through the real phout  *)
(* aggregator and records the columns of the line that came out; the check *)
(* compares the two abstract values for equality.                          *)
(* Per case one field position is "hot" (extreme value), all the others    *)
(* carry distinct small values 10+i, so a permutation of the columns, a    *)
(* sign / width / padding error shows in some case.                        *)
(***************************************************************************)
EXTENDS Phout, Json

MaxInt == 2147483647
Times == {<<1000000000, 0>>, <<1700000000, 7>>, <<1700000001, 45>>, <<1999999999, 100>>, <<MaxInt, 999>>}
Tags  == {"", "a", "case one", "a|b", "x#y"}
\* tags that carry a column / line delimiter, as atoms (Phout!TagText): every delimiter alone, leading, trailing, inside,
\* two in a row, all three
DelimTags == {<<"<TAB>">>, <<"a", "<TAB>", "b">>, <<"<LF>", "b">>, <<"a", "<CR>">>, <<"a", "<CR>", "<LF>">>,
              <<"x", "<TAB>", "y", "<LF>", "z", "<CR>", "w">>}
IdModes == {<<FALSE, 0>>, <<TRUE, 0>>, <<TRUE, 5>>, <<TRUE, MaxInt>>}
Hot == {-1, MaxInt, -MaxInt}
FieldVecs == {[i \in 1..NFields |-> 0]} \cup
             {[i \in 1..NFields |-> IF i = p THEN v ELSE 10 + i] : p \in 1..NFields, v \in Hot}

\* delimiter tags do not interact with the numeric columns: two field vectors suffice for them
CaseSet == {[s |-> [g |-> 1, i |-> 1, sec |-> t[1], ms |-> t[2], tag |-> tg, tagp |-> <<>>, id |-> m[2], f |-> fv], ids |-> m[1]] :
              t \in Times, tg \in Tags, m \in IdModes, fv \in FieldVecs}
           \cup
           {[s |-> [g |-> 1, i |-> 1, sec |-> t[1], ms |-> t[2], tag |-> "", tagp |-> tp, id |-> m[2], f |-> fv], ids |-> m[1]] :
              t \in Times, tp \in DelimTags, m \in IdModes,
              fv \in {[i \in 1..NFields |-> 0], [i \in 1..NFields |-> IF i = 1 THEN -1 ELSE 10 + i]}}
\* every case is one initial state; the invariant Export prints it with the expected columns
VARIABLE c
Init == c \in CaseSet
Next == UNCHANGED c
Export == /\ WellFormedSample(c.s)
          /\ PrintT(<<"VERIF", ToJson([ids |-> c.ids, s |-> c.s, expect |-> PhoutLine(c.s, c.ids)])>>)
=============================================================================
