--------------------------- MODULE TraceHttpWire ----------------------------
(***************************************************************************)
(* C09 conformance (M2).  One NDJSON line per TLC-generated case: the case *)
(* c exactly as generated (echoed by the driver) and obs, what the         *)
(* recording target saw when the REAL provider and the REAL http gun fired *)
(* the rendered entry.  Wire(c) is recomputed here from HttpWire; every    *)
(* clause of the acceptance relation is its own invariant so that a        *)
(* violation names the rule that broke.  Multi-entry file cases give one   *)
(* line per entry; the entry's case is EntryCase(file, k).                 *)
(***************************************************************************)
EXTENDS HttpWireMC, Json, IOUtils

VARIABLE l

Trace == ndJsonDeserialize(IOEnv.VERIF_TRACE)
Chunk == 8

\* a line of a multi-entry file case carries the file case and the index k of the entry it reports
IsFile(r) == "entries" \in DOMAIN r.c
CaseOf(r) == IF IsFile(r) THEN EntryCase(r.c, r.k) ELSE r.c

\* l = 0 is a dummy root so that TLC's workers share the lines (see TraceProfile)
TInit == l = 0 /\ C = [fmt |-> "none"]
TNext == /\ \/ l = 0 /\ l' \in {j \in 1..Len(Trace) : j % Chunk = 1}
            \/ l > 0 /\ l % Chunk # 0 /\ l < Len(Trace) /\ l' = l + 1
         /\ C' = CaseOf(Trace[l'])

R == Trace[IF l = 0 THEN 1 ELSE l]
O == R.obs

\* the driver ran a case of the generated space and could build provider and gun
\* (a file is played once: acq = number of its entries, every entry gets its own line)
WellFormed   == l = 0 \/ /\ R.err = ""
                          /\ IF IsFile(R) THEN /\ R.k \in DOMAIN R.c.entries
                                               /\ IF "n" \in DOMAIN R.c      \* re-used entries: n instances x rounds shots
                                                  THEN R.c \in ReuseFiles /\ R.acq = R.c.n * R.c.rounds
                                                  ELSE R.c \in Files /\ R.acq = Len(R.c.entries)
                                          ELSE C \in Cases /\ R.acq = 1
\* exactly one request reached a server
TArrived     == l = 0 \/ IF TunnelRefused(C) THEN TunnelRefusedOK(C, O, R.samples)
                         ELSE IF H2Mismatch(C) THEN H2MismatchOK(C, O, R.samples, R.panic)
                         ELSE Arrived(C, O) /\ R.panic = ""
\* HTTP/2.0 exactly when the http2 gun meets a target that offers it, HTTP/1.1 otherwise
TProto       == l = 0 \/ O.n = 0 \/ ProtoOK(C, O)
\* connect gun: every CONNECT names the gun's target, over TLS iff connect-ssl; other guns never send one
TConnect     == l = 0 \/ ConnectOK(C, O)
\* header/date middleware: exactly one stamped value, and its instant lies between the driver's clock readings
TDates       == l = 0 \/ O.n = 0 \/ DatesOK(C, O, R.t0, R.t1)
\* answlog / httptrace only observe
TSide        == l = 0 \/ SideOK(C, R.samples, R.answ)
\* ... the gun's target, with the scheme chosen by ssl
TSchemeTarget == l = 0 \/ O.n = 0 \/ SchemeTarget(C, O)
TMethod      == l = 0 \/ O.n = 0 \/ MethodKept(C, O)
TURI         == l = 0 \/ O.n = 0 \/ URIKept(C, O)
THost        == l = 0 \/ O.n = 0 \/ HostRule(C, O)
TBody        == l = 0 \/ O.n = 0 \/ BodyKept(C, O)
THeadersKept == l = 0 \/ O.n = 0 \/ HeadersKept(C, O)
TNoForeign   == l = 0 \/ O.n = 0 \/ NoForeign(C, O)
\* Content-Length / Transfer-Encoding exactly as the body demands (with or without side channels)
TFraming     == l = 0 \/ O.n = 0 \/ FramingOK(C, O)
\* TLS server name = the target's name as configured
TSNI         == l = 0 \/ O.n = 0 \/ SNIOK(C, O)
=============================================================================
