--------------------------- MODULE PluginRegistryMC ---------------------------
(* Model-checking instance of PluginRegistry + the case generator (M2): TLC enumerates the complete   *)
(* finite case space and writes it, one JSON object per line, to IOEnv.VERIF_OUT for `vdrive plugreg`. *)
EXTENDS PluginRegistry, Json, IOUtils, SequencesExt

GenInit == cs = (CHOOSE c \in Cases : TRUE) /\ st = St0 /\ k = 0 /\ phase = "done"
GenNext == UNCHANGED vars
\* evaluated once, in the initial state of the generator configuration
Exported == ndJsonSerialize(IOEnv.VERIF_OUT, SetToSeq(Cases))
=============================================================================
