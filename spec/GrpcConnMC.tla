----------------------------- MODULE GrpcConnMC -----------------------------
EXTENDS GrpcConn, Json

G2 == {1, 2}
G3 == {1, 2, 3}
Cfgs == {[shared |-> s, k |-> k, refl |-> r] : s \in BOOLEAN, k \in {1, 2}, r \in BOOLEAN}
Init == \E c \in Cfgs : InitWith(c)
Spec == Init /\ [][Next]_vars

(* the runs of the conformance driver (vdrive grpcconn) *)
R(m, s, k, n, e) == [mode |-> m, shared |-> s, clients |-> k, inst |-> n, entries |-> e,
                     timeout_ms |-> 0, slow_ms |-> 0, slow_every |-> 0]
Runs == <<R("conns", FALSE, 0, 1, 8), R("conns", FALSE, 0, 3, 18), R("conns", TRUE, 1, 3, 18), R("conns", TRUE, 2, 3, 18),
          R("conns", TRUE, 3, 2, 12),
          R("dead", FALSE, 0, 2, 4), R("dead", TRUE, 2, 2, 4),
          R("deadtarget", FALSE, 0, 2, 8), R("deadtarget", TRUE, 2, 3, 9),
          [R("timeout", FALSE, 0, 2, 10) EXCEPT !.timeout_ms = 1000, !.slow_ms = 2500, !.slow_every = 5],
          [R("timeout", TRUE, 1, 2, 10) EXCEPT !.timeout_ms = 1000, !.slow_ms = 2500, !.slow_every = 5],
          R("updown", FALSE, 0, 2, 40), R("updown", TRUE, 2, 3, 40)>>
GenInit == InitWith([shared |-> FALSE, k |-> 1, refl |-> TRUE]) /\ PrintT(<<"VERIF", ToJson([runs |-> Runs])>>)
GenNext == UNCHANGED vars
=============================================================================
