----------------------------- MODULE GrpcConnMC -----------------------------
EXTENDS GrpcConn, Json

G2 == {1, 2}
G3 == {1, 2, 3}
Sec(c, t, tt, n, m) == c @@ [tls |-> t, ttls |-> tt, needmd |-> n, rmd |-> m]
Plain(c) == Sec(c, FALSE, FALSE, FALSE, FALSE)
Base == {[shared |-> s, k |-> k, refl |-> r] : s \in BOOLEAN, k \in {1, 2}, r \in BOOLEAN}
One == [shared |-> FALSE, k |-> 1, refl |-> TRUE]
\* every pool shape in plaintext + TLS on both sides / on one side only / reflection credentials needed, sent, missing, superfluous
Cfgs == {Plain(c) : c \in Base}
        \cup {Sec(One, TRUE, TRUE, FALSE, FALSE), Sec([One EXCEPT !.shared = TRUE, !.k = 2], TRUE, TRUE, FALSE, FALSE),
              Sec(One, TRUE, FALSE, FALSE, FALSE), Sec(One, FALSE, TRUE, FALSE, FALSE),
              Sec(One, FALSE, FALSE, TRUE, TRUE), Sec(One, FALSE, FALSE, TRUE, FALSE), Sec(One, FALSE, FALSE, FALSE, TRUE),
              Sec([One EXCEPT !.shared = TRUE], TRUE, TRUE, TRUE, TRUE)}
Init == \E c \in Cfgs : InitWith(c)
Spec == Init /\ [][Next]_vars

(* the runs of the conformance driver (vdrive grpcconn) *)
CONSTANT Full
R(m, s, k, n, e) == [mode |-> m, shared |-> s, clients |-> k, inst |-> n, entries |-> e,
                     timeout_ms |-> 0, slow_ms |-> 0, slow_every |-> 0,
                     kind |-> "grpc", tls |-> FALSE, ttls |-> FALSE, needmd |-> FALSE, rmd |-> FALSE, authority |-> "",
                     notimeout |-> FALSE, delayed_ms |-> 0, delayed_every |-> 0]
Scn(r) == [r EXCEPT !.kind = "grpc/scenario"]
Tls(r, t, tt) == [r EXCEPT !.tls = t, !.ttls = tt]
SlowR(r, T, late, every) == [r EXCEPT !.timeout_ms = T, !.slow_ms = late, !.slow_every = every]
Runs1 == <<R("conns", FALSE, 0, 1, 8), R("conns", FALSE, 0, 3, 18), R("conns", TRUE, 1, 3, 18), R("conns", TRUE, 2, 3, 18),
           R("conns", TRUE, 3, 2, 12),
           R("dead", FALSE, 0, 2, 4), R("dead", TRUE, 2, 2, 4),
           R("deadtarget", FALSE, 0, 2, 8), R("deadtarget", TRUE, 2, 3, 9),
           SlowR(R("timeout", FALSE, 0, 2, 10), 1000, 2500, 5), SlowR(R("timeout", TRUE, 1, 2, 10), 1000, 2500, 5),
           R("updown", FALSE, 0, 2, 40), R("updown", TRUE, 2, 3, 40)>>
\* TLS on both sides (own clients / pooled clients), on one side only (the run must not start), reflection credentials needed and
\* sent (with dial_options.authority), needed and missing (no start), sent without need; more pooled clients than instances;
\* the gRPC scenario gun: own connections, late answers
Runs2 == <<Tls(R("conns", FALSE, 0, 2, 8), TRUE, TRUE), Tls(R("conns", TRUE, 2, 3, 9), TRUE, TRUE),
           Tls(R("conns", FALSE, 0, 2, 4), TRUE, FALSE), Tls(R("conns", TRUE, 1, 2, 4), FALSE, TRUE),
           [R("conns", FALSE, 0, 2, 8) EXCEPT !.needmd = TRUE, !.rmd = TRUE, !.authority = "verif.authority"],
           [R("conns", FALSE, 0, 2, 4) EXCEPT !.needmd = TRUE], [R("conns", TRUE, 2, 2, 8) EXCEPT !.rmd = TRUE],
           R("conns", TRUE, 4, 2, 12),
           Scn(R("conns", FALSE, 0, 3, 12)), SlowR(Scn(R("timeout", FALSE, 0, 2, 10)), 1000, 2500, 5)>>
\* thorough: answers late but WITHIN the timeout (T = 2 s: 1 s in time, 5 s late), no timeout configured (the default of 15 s
\* applies: an answer after 1.2 s is in time), the scenario gun against a dead target / through an outage, TLS + credentials
Runs3 == <<[SlowR(R("timeout", FALSE, 0, 2, 12), 2000, 5000, 5) EXCEPT !.delayed_ms = 1000, !.delayed_every = 3],
           [SlowR(Scn(R("timeout", FALSE, 0, 2, 12)), 2000, 5000, 5) EXCEPT !.delayed_ms = 1000, !.delayed_every = 3],
           [R("conns", FALSE, 0, 1, 4) EXCEPT !.notimeout = TRUE, !.delayed_ms = 1200, !.delayed_every = 2],
           [Scn(R("conns", FALSE, 0, 1, 4)) EXCEPT !.notimeout = TRUE, !.delayed_ms = 1200, !.delayed_every = 2],
           Scn(R("deadtarget", FALSE, 0, 2, 8)), Scn(R("updown", FALSE, 0, 2, 40)), Scn(R("dead", FALSE, 0, 2, 4)),
           [Tls(Scn(R("conns", FALSE, 0, 2, 8)), TRUE, TRUE) EXCEPT !.needmd = TRUE, !.rmd = TRUE],
           Tls(Scn(R("conns", FALSE, 0, 2, 4)), FALSE, TRUE)>>
Runs == IF Full THEN Runs1 \o Runs2 \o Runs3 ELSE Runs1 \o Runs2
GenInit == InitWith(Plain(One)) /\ PrintT(<<"VERIF", ToJson([runs |-> Runs])>>)
GenNext == UNCHANGED vars
=============================================================================
