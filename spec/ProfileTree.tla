---------------------------- MODULE ProfileTree ----------------------------
(***************************************************************************)
(* C01 / C02: what a COMPOSED load profile is (docs/eng/load-profile.md,   *)
(* `rps: [ {...}, {...} ]`, `step`, `instance_step`, nested lists).        *)
(*                                                                         *)
(* A profile tree node is a record                                         *)
(*   [k     : "once" | "const" | "line" | "step" | "istep" | "unl" | "list", *)
(*    from_m, to_m : milli-ops/s (const/line/step); whole instances (istep),*)
(*    step  : whole rps (step) / instances (istep),                        *)
(*    times : BigNat (once),  dur : ns as BigNat,  kids : sequence of nodes]*)
(*                                                                         *)
(* Flatten(node) is the succession of SIMPLE parts (ProfileMath records of *)
(* kind const / line / once, plus kind "unl") the node denotes; part j+1   *)
(* starts exactly where part j finishes, so the start offset of a part is  *)
(* the sum of the durations before it.  A list is the concatenation of its *)
(* members (an empty list: once(0)); step = one const part per level       *)
(* from, from+step, ... <= to; instance_step(from,to,step,d) = once(from)  *)
(* followed by [const(0 rps, d), once(step)] per further level.            *)
(*                                                                         *)
(* Token counts are BigNats throughout: a valid configuration can hold     *)
(* far more than 2^31 operations (const 1e6 rps for 1 h = 3.6e9).          *)
(* Wrap32 = TRUE is the negative control: sums taken modulo 2^32 with the  *)
(* upper half read as "unknown", as a 32-bit accumulator would.            *)
(***************************************************************************)
EXTENDS ProfileMath, Sequences

CONSTANT Wrap32

SimpleP(kind, from_m, to_m, timesB, dur) ==
    [kind |-> kind, from_m |-> from_m, to_m |-> to_m, step |-> 0,
     times |-> IF FitsInt(timesB) THEN ToInt(timesB) ELSE -1, timesB |-> timesB, dur |-> dur]

OnceP(nB)       == SimpleP("once", 0, 0, nB, <<>>)
ConstPT(r, dur) == SimpleP("const", r, r, <<>>, dur)

RECURSIVE Flatten(_), FlattenSeq(_, _), IStepTail(_, _, _)
IStepTail(levels, stepN, dur) ==
    IF levels <= 0 THEN <<>>
    ELSE <<ConstPT(0, dur), OnceP(FromInt(stepN))>> \o IStepTail(levels - 1, stepN, dur)

Flatten(nd) ==
    CASE nd.k = "once"  -> <<OnceP(nd.times)>>
      [] nd.k = "const" -> <<ConstPT(nd.from_m, nd.dur)>>
      [] nd.k = "line"  -> IF nd.from_m = nd.to_m THEN <<ConstPT(nd.from_m, nd.dur)>>
                           ELSE <<SimpleP("line", nd.from_m, nd.to_m, <<>>, nd.dur)>>
      [] nd.k = "unl"   -> <<SimpleP("unl", 0, 0, <<>>, nd.dur)>>
      [] nd.k = "step"  -> IF nd.from_m = nd.to_m THEN <<ConstPT(nd.from_m, nd.dur)>>
                           ELSE IF nd.to_m < nd.from_m THEN <<OnceP(<<>>)>>        \* no level at all: an empty composite
                           ELSE [j \in 1..((nd.to_m - nd.from_m) \div (1000 * nd.step) + 1) |->
                                    ConstPT(nd.from_m + (j-1) * 1000 * nd.step, nd.dur)]
      [] nd.k = "istep" -> <<OnceP(FromInt(nd.from_m))>> \o
                           IStepTail(IF nd.to_m < nd.from_m THEN 0 ELSE (nd.to_m - nd.from_m) \div nd.step, nd.step, nd.dur)
      [] nd.k = "list"  -> IF nd.kids = <<>> THEN <<OnceP(<<>>)>> ELSE FlattenSeq(nd.kids, 1)
FlattenSeq(kids, i) == IF i > Len(kids) THEN <<>> ELSE Flatten(kids[i]) \o FlattenSeq(kids, i + 1)

PDur(p) == IF p.kind = "once" THEN <<>> ELSE p.dur
RECURSIVE OffsetOf(_, _)
\* start offset of part j (relative to the profile's start) = finish of part j-1, exactly
OffsetOf(parts, j) == IF j <= 1 THEN <<>> ELSE Add(OffsetOf(parts, j - 1), PDur(parts[j - 1]))
TreeDur(parts) == OffsetOf(parts, Len(parts) + 1)

-----------------------------------------------------------------------------
(* counts as BigNats *)

DropLimbs(a, k) == IF Len(a) <= k THEN <<>> ELSE SubSeq(a, k + 1, Len(a))

\* Integral_0^t rps >= k with k a BigNat (ProfileMath.CumGErawC with FromInt(k) replaced)
CumB(cf, kB, t) ==
    IF cf.lin THEN Geq(Mul(cf.A, t), Mul(cf.C, kB))
    ELSE IF cf.inc THEN Geq(Add(Mul(cf.A, t), Mul(cf.B, Mul(t, t))), Mul(cf.C, kB))
                   ELSE Geq(Mul(cf.A, t), Add(Mul(cf.C, kB), Mul(cf.B, Mul(t, t))))

\* ProfileMath.CountOK for a BigNat count (const / line parts)
CountOKB(p, cB) ==
    LET cf == Coef(p)
    IN  /\ (cB = <<>> \/ CumB(cf, cB, p.dur) \/ CumB(cf, cB, Add(p.dur, Tau)))
        /\ ~CumB(cf, Add(cB, <<1>>), Sub(p.dur, Tau))

\* floor of the exact integral over the whole duration: (from_m + to_m) * dur / (2 * 10^12) -- division by a power of
\* the base is dropping limbs ( /2 = *5000 / 10^4 )
Center(p) == DropLimbs(Mul(Mul(Add(FromInt(p.from_m), FromInt(p.to_m)), p.dur), <<5000>>), 4)

\* the admissible counts of a part: ProfileMath's rule (rounding slack of Tau on the duration) around the centre
Cands(p) == LET c == Center(p)
            IN  {Add(c, FromInt(d)) : d \in 0..3} \cup {Sub(c, FromInt(d)) : d \in {d \in 1..3 : Geq(c, FromInt(d))}}
Admissible(p) == IF p.kind = "once" THEN {p.timesB} ELSE {c \in Cands(p) : CountOKB(p, c)}
MinOf(S) == CHOOSE c \in S : \A d \in S : Leq(c, d)
MaxOf(S) == CHOOSE c \in S : \A d \in S : Geq(c, d)

\* 32-bit accumulator (negative control only): modulo 2^32, upper half = negative = "unknown"
P32 == <<7296, 9496, 42>>      \* 4 294 967 296
P31 == <<3648, 4748, 21>>      \* 2 147 483 648
RECURSIVE Mod32(_)
Mod32(x) == IF Lt(x, P32) THEN x
            ELSE IF Len(x) > 3 THEN <<>>          \* (>= 10^12: any wrong value will do for a control; keeps the recursion short)
            ELSE Mod32(Sub(x, P32))
AddW(a, b) == IF Wrap32 THEN Mod32(Add(a, b)) ELSE Add(a, b)

\* sums of the smallest / largest admissible counts of parts lo..Len(parts); parts must not contain "unl" there
RECURSIVE SumLo(_, _), SumHi(_, _)
SumLo(parts, j) == IF j > Len(parts) THEN <<>> ELSE AddW(MinOf(Admissible(parts[j])), SumLo(parts, j + 1))
SumHi(parts, j) == IF j > Len(parts) THEN <<>> ELSE AddW(MaxOf(Admissible(parts[j])), SumHi(parts, j + 1))

HasUnl(parts)  == \E j \in 1..Len(parts) : parts[j].kind = "unl"
LastUnl(parts) == IF HasUnl(parts) THEN CHOOSE j \in 1..Len(parts) : parts[j].kind = "unl" /\ \A i \in (j+1)..Len(parts) : parts[i].kind # "unl"
                  ELSE 0
OracleOKParts(parts) == \A j \in 1..Len(parts) : parts[j].kind = "unl" \/ Admissible(parts[j]) # {}

=============================================================================
