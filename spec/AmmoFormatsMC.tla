--------------------------- MODULE AmmoFormatsMC ---------------------------
(***************************************************************************)
(* Model-checking instance of AmmoFormats (C07, C14):                      *)
(*  - the small alphabets (entry pools per format with concrete strings,   *)
(*    header lines, layouts) and the complete set of abstract files of     *)
(*    <= MaxItems items,                                                   *)
(*  - the design-level specification Spec: the reader state machine run    *)
(*    over EVERY such file, checked against the declarative                *)
(*    characterisation (Decl) and the C14 theorems,                        *)
(*  - the symbol-level layout theorem (LSpec),                             *)
(*  - the exporter of the exhaustive case files for the conformance driver *)
(*    (`vdrive ammofmt`): every file x layout (C07) and every file x       *)
(*    chosen x limit x passes x preload (C14).                             *)
(***************************************************************************)
EXTENDS AmmoFormats, Json, IOUtils, SequencesExt

CONSTANTS MaxItems,     \* files of 1..MaxItems items
          MaxSelItems,  \* C14 files of 1..MaxSelItems items
          SelHardLayout, \* C14 matrix also under the layout furthest from the plain one (thorough)
          Quick          \* quick tier: crlf and ws vary together, limits {0,2,5}, one chosencases setting matching nothing

VARIABLES fmt, items, st
vars == <<fmt, items, st>>

----------------------------------------------------------------------------
(* alphabets: bodies are hex strings of the body bytes.  Macros expanded by the driver (the TLA+ strings stay  *)
(* short and free of control characters): {TAB} a tab, {Ln} n bytes of URL-safe text (long request lines and  *)
(* header values: beyond the 4096-byte buffers of the readers), body {Bn} / {Tn} n binary / text bytes.       *)

E(method, uri, host, headers, body, tag) ==
    [method |-> method, uri |-> uri, host |-> host, headers |-> headers, body |-> body, tag |-> tag]

UriPool == { E("GET", "/", "", <<>>, "", ""),
             E("GET", "/a?x=1&y=2", "", <<>>, "", "t1"),
             E("GET", "/p%2Fq?q=%20z&j=%7B%22k%22%3A1%7D&ids={L5000}", "", <<>>, "", "t  2{TAB}z") }

\* bodies: empty; text; "[A: 9]\n3 /z\nxyz\n" (looks like a header line and an entry); 00 ff CR LF "["
UriPostPool == { E("POST", "/", "", <<>>, "", ""),
                 E("POST", "/a?x=1&ids={L5000}", "", <<>>, "616263", "t1"),
                 E("POST", "/b", "", <<>>, "5b413a20395d0a33202f7a0a78797a0a", "t  2{TAB}z"),
                 E("POST", "/c;v=1/(d)?e=a+b&u=/p?q", "", <<>>, "{B4097}", " lead  {L4200}") }

\* raw: the entry is a whole HTTP request; Content-Length is an ordinary header of the entry
RawPool == { E("GET", "/", "h1", <<>>, "", ""),
             E("POST", "/a?x=1&y=2&ids={L5000}", "h2:8080", <<<<"Content-Length", "3">>, <<"X-B", "v 1: [x]{L4200}">>>>, "616263", "t1"),
             \* body "5 t\nGET / HTTP/1.1\r\n\r\n" looks like a size line and a request
             E("PUT", "/b", "h1", <<<<"A", "1">>, <<"content-length", "22">>>>, "3520740a474554202f20485454502f312e310d0a0d0a", "t  2{TAB}z"),
             E("PURGE", "/c;v=1/(d)?e=a+b&u=/p?q", "h1", <<<<"Content-Length", "4097">>>>, "{B4097}", " lead  {L4200}") }

\* json: body is text; "[1,2]\n{\"k\":\"v\"}" ; u-umlaut CR LF "["
JsonPool == { E("GET", "/", "h1", <<>>, "", ""),
              E("POST", "/a?x=1&y=2&ids={L5000}", "h2:8080", <<<<"X-B", "v 1: [x]{L4200}">>, <<"a", "2">>>>, "616263", "t1"),
              E("PUT", "/b", "h1", <<<<"A", "1">>, <<"Host", "ignored.example">>>>, "5b312c325d0a7b226b223a2276227d", "t  2{TAB}z"),
              E("PURGE", "/c;v=1/(d)?e=a+b&u=/p?q", "h1", <<>>, "{T4097}", " t1{TAB} ") }

Pool(f) == CASE f = "uri" -> UriPool [] f = "uripost" -> UriPostPool [] f = "raw" -> RawPool [] f = "json" -> JsonPool

HeaderLines == { HeaderItem("A", "v 1: [x]{L4200}"), HeaderItem("a", "2"), HeaderItem("Host", "h.example:8080"), HeaderItem("X-B", "") }

Kinds(f) == {EntryItem(e) : e \in Pool(f)} \cup {BlankItem} \cup (IF HasHeaders(f) THEN HeaderLines ELSE {})

FilesOver(K, n) == {s \in UNION {[1..m -> K] : m \in 1..n} : NumEntries(s) >= 1}
Files(f, n) == FilesOver(Kinds(f), n)

\* C14 works on tagged entries: three entries (tags "", t1, "t 2"), one header line where the format has
\* them, blank
SelPool(f) == CASE f = "uri" -> UriPool
                [] f = "uripost" -> {e \in UriPostPool : e.uri # "/c"}
                [] f = "raw" -> {e \in RawPool : e.uri # "/c"}
                [] f = "json" -> {e \in JsonPool : e.uri # "/c"}
SelKinds(f) == {EntryItem(e) : e \in SelPool(f)} \cup {BlankItem}
               \cup (IF HasHeaders(f) THEN {HeaderItem("A", "v 1: [x]{L4200}")} ELSE {})
SelFiles(f, n) == FilesOver(SelKinds(f), n)

\* chosencases settings: none, one tag, two tags (one with a space), the empty tag, a tag matching nothing
ChosenSets == { <<>>, <<"t1">>, <<"t1", "t  2{TAB}z">>, <<"">>, <<"t">> } \cup (IF Quick THEN {} ELSE { <<"zz">> })
Limits  == IF Quick THEN {0, 2, 5} ELSE {0, 1, 2, 5}
Passes  == {0, 1, 2}

----------------------------------------------------------------------------
(* design level: the reader over every file *)

Want == 2 * NumEntries(items) + 1

Init == /\ fmt \in Formats
        /\ items \in Files(fmt, MaxItems)
        /\ st = St0

More == Len(st.out) < Want /\ UNCHANGED <<fmt, items>>
ReadHeader == More /\ AtHeader(items, st) /\ st' = DoReadHeader(fmt, items, st)
ReadBlank  == More /\ AtBlank(items, st)  /\ st' = DoReadBlank(fmt, items, st)
ReadEntry  == More /\ AtEntry(items, st)  /\ st' = DoReadEntry(fmt, items, st)
EOFWrap    == More /\ AtEOF(items, st)    /\ st' = DoEOFWrap(fmt, items, st)

Next == ReadHeader \/ ReadBlank \/ ReadEntry \/ EOFWrap

Spec == Init /\ [][Next]_vars

\* the reader hands out exactly what the declarative reading of the file says: file order, cyclic,
\* each entry with the LAST header line of every name that precedes it in the file -- nothing from the
\* previous pass, nothing from later lines
ReaderIsDecl == st.out = Decl(fmt, items, Len(st.out))

\* entries are neither dropped, duplicated nor merged: after p complete passes exactly p*E are out
PassAccounting ==
    LET n == NumEntries(items)
    IN  /\ st.pass * n <= Len(st.out)
        /\ Len(st.out) <= (st.pass + 1) * n
        /\ (st.pos = 1 => Len(st.out) = st.pass * n)

StepIsAction == [][st' = Step(fmt, items, st)]_vars

\* C14 theorems about ExpectedSel, evaluated once per file (in its initial state)
SelTheorems ==
    st = St0 /\ Len(items) <= MaxSelItems =>
    \A chs \in ChosenSets, lim \in Limits, pas \in Passes :
        LET ch  == Range(chs)
            n   == NumEntries(items)
            x   == ExpectedSel(fmt, items, lim, pas, ch, TakeFor(fmt, items, lim, pas, ch))
            m   == Cardinality({i \in 1..n : Chosen(DeclAt(fmt, items, i), ch)})
            ref == Sel(Decl(fmt, items, (Len(x.deliv) + 1) * n), ch)     \* the declarative cyclic sequence, filtered
        IN  /\ \A i \in DOMAIN x.deliv : Chosen(x.deliv[i], ch)                      \* only listed tags
            /\ x.deliv = SubSeq(ref, 1, Len(x.deliv))                                 \* all of them, file order, cyclic
            /\ (m = 0 <=> x.outcome = "error")
            /\ (m > 0 /\ lim > 0 => Len(x.deliv) <= lim)                              \* limit counts delivered entries
            /\ (m > 0 /\ pas > 0 => Len(x.deliv) <= pas * m)                          \* passes counts file passes
            /\ (m > 0 /\ (lim > 0 \/ pas > 0) =>
                    /\ x.outcome = "nil" /\ x.ended
                    /\ Len(x.deliv) = (IF lim > 0 /\ pas > 0 THEN Min(lim, pas * m) ELSE IF lim > 0 THEN lim ELSE pas * m))
            /\ (m > 0 /\ lim = 0 /\ pas = 0 => x.outcome = "cancel" /\ ~x.ended /\ Len(x.deliv) = 2 * m + 1)

----------------------------------------------------------------------------
(* symbol-level layout theorem: fmt = "sized" | "lines", items = symbol-level file, st = layout *)

D1 == <<"D", 1, 0>>
SymBodies == { <<>>, <<D1>>, <<NL, LB, D1>>, <<LB, D1, NL>>, <<SP, CR, NL>> }
SymKinds(sized) == {[k |-> "E", id |-> 1, body |-> b] : b \in (IF sized THEN SymBodies ELSE {<<>>})}
                   \cup {[k |-> "H", id |-> 2], [k |-> "B"]}
Layouts == [crlf : BOOLEAN, ws : BOOLEAN, sep : BOOLEAN, final : BOOLEAN]

LInit == /\ fmt \in {"sized", "lines"}
         /\ items \in UNION {[1..m -> SymKinds(fmt = "sized")] : m \in 1..MaxItems}
         /\ st \in Layouts
LNext == FALSE /\ UNCHANGED vars
LSpec == LInit /\ [][LNext]_vars

LayoutTheorem == LayoutInvisible(fmt = "sized", items, st)

----------------------------------------------------------------------------
(* case export for the conformance driver *)

JsonStyles == {"line", "pretty", "array", "arraypretty"}
CW == IF Quick THEN {<<FALSE, FALSE>>, <<TRUE, TRUE>>} ELSE BOOLEAN \X BOOLEAN     \* (crlf, ws)
LayFor(f) == IF f = "json" THEN {[crlf |-> cw[1], ws |-> cw[2], sep |-> TRUE, final |-> fn, style |-> s] :
                                    cw \in CW, fn \in BOOLEAN, s \in JsonStyles}
             ELSE IF f = "uri" THEN {[crlf |-> cw[1], ws |-> cw[2], sep |-> TRUE, final |-> fn, style |-> "text"] :
                                    cw \in CW, fn \in BOOLEAN}
             ELSE {[crlf |-> cw[1], ws |-> cw[2], sep |-> s, final |-> fn, style |-> "text"] :
                                    cw \in CW, s \in BOOLEAN, fn \in BOOLEAN}

\* rep: how the optional list settings that mean "none" are WRITTEN in the config -- key absent, `key: null`, `key: []`
\* -- for chosencases (when chosen = <<>>), headers and uris.  It is not an argument of ExpectedSel: all three
\* representations mean "no filter / no extra headers / read the file" (docs: the options are optional lists).
ConfR(lim, pas, pre, chs, take, rep) ==
    [limit |-> lim, passes |-> pas, preload |-> pre, chosen |-> chs, take |-> take, rep |-> rep]
Conf(lim, pas, pre, chs, take) == ConfR(lim, pas, pre, chs, take, "absent")
AllReps == {"absent", "null", "empty"}
RepsFor(chs) == IF chs = <<>> THEN (IF Quick THEN {"absent", "empty"} ELSE AllReps)
                ELSE (IF Quick THEN {"absent"} ELSE {"absent", "empty"})

\* decoding is the same preloaded (LoadAmmo reads the whole file before the first request is built, so an entry that
\* shares state with later lines shows deterministically): half of the layouts of every file are read with preload
C07Cases(f) == { [fmt |-> f, items |-> fl, lay |-> l,
                  conf |-> Conf(0, 0, l.crlf # l.final, <<>>, 2 * NumEntries(fl) + 1)] : fl \in Files(f, MaxItems), l \in LayFor(f) }

\* thorough: two-item files with a DIFFERENT layout per item (same final / style, which belong to the file)
C07Mixed(f) == IF Quick THEN {} ELSE
    UNION { { [fmt |-> f, items |-> fl, lay |-> l1, lays |-> <<l1, l2>>,
               conf |-> Conf(0, 0, FALSE, <<>>, 2 * NumEntries(fl) + 1)] :
               fl \in {x \in Files(f, 2) : Len(x) = 2},
               l2 \in {y \in LayFor(f) : y.final = l1.final /\ y.style = l1.style /\ y # l1} } : l1 \in LayFor(f) }

PlainLay(f, s) == [crlf |-> FALSE, ws |-> FALSE, sep |-> TRUE, final |-> TRUE, style |-> s]
\* the layout furthest from the plain one: CRLF, blanks and tabs around every line, no blank line after bodies,
\* no final newline (what LoadAmmo's single unbounded pass has to cope with at the end of the file)
HardLay(f, s)  == [crlf |-> TRUE, ws |-> TRUE, sep |-> (f \in {"uri", "json"}), final |-> FALSE, style |-> s]
C14Lays(f) == LET L(s) == IF SelHardLayout THEN {PlainLay(f, s), HardLay(f, s)} ELSE {PlainLay(f, s)}
              IN  IF f = "json" THEN L("line") \cup L("array") \cup (IF SelHardLayout THEN {HardLay(f, "pretty")} ELSE {})
                  ELSE L("text")

C14Cases(f) == { c \in { [fmt |-> f, items |-> fl, lay |-> l,
                           conf |-> ConfR(lim, pas, pre, chs, TakeFor(f, fl, lim, pas, Range(chs)), rep)] :
                           fl \in SelFiles(f, MaxSelItems), l \in C14Lays(f), lim \in Limits, pas \in Passes,
                           pre \in BOOLEAN, chs \in ChosenSets, rep \in AllReps } : c.conf.rep \in RepsFor(c.conf.chosen) }

\* files WITHOUT ammo: the empty file, blank lines only, header lines only.  Nothing to deliver: Run ends with an error
\* (ErrNoAmmo, what the decoders return when a pass ends with no ammo read; a constructor that refuses the file -- http/json
\* on a file without any JSON value -- is the same class), whatever limit / passes / preload.
ZeroKinds(f) == {BlankItem} \cup (IF HasHeaders(f) THEN {HeaderItem("A", "v 1")} ELSE {})
ZeroFiles(f) == {<<>>} \cup UNION {[1..m -> ZeroKinds(f)] : m \in 1..2}
C14Zero(f) == { [fmt |-> f, items |-> fl, lay |-> l, conf |-> ConfR(lim, pas, pre, chs, 1, rep)] :
                  fl \in ZeroFiles(f), l \in C14Lays(f), lim \in {0, 2}, pas \in Passes, pre \in BOOLEAN,
                  chs \in {<<>>, <<"t1">>}, rep \in {"absent", "empty"} }

\* Entries on both sides of every allocation threshold of the decoders -- bufio.Reader's 4096-byte buffer (smaller reads
\* are copied out of it, larger ones go straight to the destination), 64 KiB (bufio.Scanner's limit, a natural "large"
\* mark), readSized's maxPreallocSize = 1 MiB (1048576 is the last pre-allocated size, above it the read is
\* incremental) -- with DIFFERENT contents, two or three alive at once: every ordered pair of sizes, and the pairs
\* beyond 1 MiB also with a small entry in between; plain and hostile layout, streaming and preloaded.
BigSizes == {"5000", "60000", "70000", "1048576", "1048577", "1572864"}
Huge     == {"1048577", "1572864"}
BigE(f, n) ==
    LET b == (IF f = "json" THEN "{T" ELSE "{B") \o n \o "}"
    IN  CASE f = "uripost" -> E("POST", "/big?n=" \o n, "", <<>>, b, "big  " \o n)
          [] f = "raw"     -> E("POST", "/big?n=" \o n, "h1", <<<<"Content-Length", n>>>>, b, "big  " \o n)
          [] f = "json"    -> E("POST", "/big?n=" \o n, "h1", <<<<"X-B", "v 1">>>>, b, "big  " \o n)
SmallOf(f) == CHOOSE e \in Pool(f) : e.body = "616263"
BigFiles(f) == {<<EntryItem(BigE(f, a)), EntryItem(BigE(f, b))>> : a \in BigSizes, b \in BigSizes}
               \cup {<<EntryItem(BigE(f, a)), EntryItem(SmallOf(f)), EntryItem(BigE(f, b))>> : a \in Huge, b \in Huge}
C07Big(f) == IF f = "uri" THEN {} ELSE
    LET plain == IF f = "json" THEN PlainLay(f, "line") ELSE PlainLay(f, "text")
        hard  == IF f = "json" THEN HardLay(f, "array") ELSE HardLay(f, "text")
        Lays(pre) == IF Quick THEN {IF pre THEN hard ELSE plain} ELSE {plain, hard}
    IN  UNION { { [fmt |-> f, items |-> fl, lay |-> l, conf |-> Conf(0, 0, pre, <<>>, 2 * Len(fl) + 1)] :
                    fl \in BigFiles(f), l \in Lays(pre) } : pre \in BOOLEAN }

ExportSet(S, path) == ndJsonSerialize(path, SetToSeq(S))

ExportC07 == \A f \in Formats : ExportSet(C07Cases(f) \cup C07Mixed(f) \cup C07Big(f), IOEnv.VERIF_OUT \o "." \o f)
ExportC14 == \A f \in Formats : ExportSet(C14Cases(f) \cup C14Zero(f), IOEnv.VERIF_OUT \o "." \o f)

\* export configs: a single dummy state; the export happens while TLC evaluates the invariant on it
XInit == fmt = "x" /\ items = <<>> /\ st = 0
XNext == FALSE /\ UNCHANGED vars
DoExportC07 == ExportC07
DoExportC14 == ExportC14
=============================================================================
