------------------------- MODULE TraceAmmoProvider -------------------------
(***************************************************************************)
(* C08 conformance.  One NDJSON line per cell of the matrix: what the REAL  *)
(* provider (built by config.Decode through the registered constructor) did *)
(* when consumed by nc goroutines, and what a real engine.Engine run over   *)
(* the same provider config did.  Every line is compared with what          *)
(* AmmoProvider.tla says about that cell (Expected, Stop, Cap, Hist); the   *)
(* set of lines must be exactly the matrix of the configuration.            *)
(***************************************************************************)
EXTENDS AmmoProviderMC

CONSTANT TraceCells     \* the table this tier must cover exactly (besides the random cells, id >= RandBase)
VARIABLE l

Trace == ndJsonDeserialize(IOEnv.VERIF_TRACE)
Chunk == 16

\* the state machine's variables are not used here: one fixed value
TInit == /\ l = 0 /\ c = 0 /\ pc = "" /\ pos = 0 /\ ammoNum = 0 /\ passNum = 0 /\ nload = 0 /\ inner = 0
         /\ sink = 0 /\ sinkClosed = FALSE /\ res = "" /\ cancelled = FALSE /\ ucancel = FALSE
         /\ delivered = 0 /\ drained = 0 /\ nrun = 0 /\ neof = 0 /\ idle = 0 /\ aftc = 0 /\ skips = 0
TNext == /\ \/ l = 0 /\ l' \in {j \in 1..Len(Trace) : j % Chunk = 1}
            \/ l > 0 /\ l % Chunk # 0 /\ l < Len(Trace) /\ l' = l + 1
         /\ UNCHANGED vars

O  == Trace[IF l = 0 THEN 1 ELSE l]
OC == [kind |-> O.kind, preload |-> O.preload, limit |-> O.limit, passes |-> O.passes, w |-> O.w, nc |-> O.nc,
       cut |-> O.cut]
\* the run is cancelled by the driver (cut reached, or before Run for cut = -1) in unbounded cells and in cut cells
CutCell == O.cut # 0 \/ ~Bounded(OC)
Want    == IF CutCell THEN Stop(OC) ELSE Expected(OC)

\* lines of cells that were not run (skipped after confirmed blocked cells of the same group) decide nothing
\* ... and so do the control cells whose file holds an entry over the provider's size limit (RejectOK speaks about them)
\* ... and the runs with an injected file fault (FaultOK speaks about them)
Off == l = 0 \/ O.skipped \/ O.reject \/ O.fault # ""

\* the recorded lines are exactly the cells of the matrix, once each
\* ... once per file system the driver ran on (mem = afero.MemMapFs, os = afero.OsFs with real files)
FsModes   == {"mem", "os"}
Complete  == l # 0 \/ (/\ Cardinality({<<Trace[i].id, Trace[i].fs>> : i \in 1..Len(Trace)}) = Len(Trace)
                       /\ \A f \in FsModes :
                            Cardinality({i \in 1..Len(Trace) : Trace[i].id < RandBase /\ Trace[i].fs = f})
                              = Cardinality(TraceCells))
InMatrix  == l = 0 \/ (/\ O.fs \in FsModes \cup {"fault"} /\ (O.fault # "" <=> O.fs = "fault")
                       /\ O.id >= RandBase \/ (OC \in TraceCells /\ O.id = IdOf(OC)))
\* the registered constructor accepted the config
Built     == Off \/ O.build_err = ""
\* exactly min over the non-zero bounds (or exactly the cut) was handed to the consumers
Delivered == Off \/ O.count = Want
\* ... and it was the file / ring in cyclic order
Order     == Off \/ O.hist = Hist(OC, O.count)
\* Run came back (not blocked, not spinning) after the bound was reached / after the cancel
Returned  == Off \/ O.run_ret
\* reaching a bound is not an error and needs no cancel; after a cancel nil or the context error
RunResult == Off \/ ~O.run_ret \/ IF CutCell THEN O.run_class \in {"nil", "ctx"}
                                    ELSE O.run_class = "nil" /\ ~O.cancelled
\* every consumer observed ok=false; after a cut the sink is closed once the buffered rest is drained,
\* and even then the bounds are not exceeded
EndOfAmmo == Off \/ IF CutCell THEN O.eof_after /\ (Bounded(OC) => O.count + O.drained <= Expected(OC))
                                 ELSE O.eofs = O.nc
\* a real engine run over the same provider config ends successfully, having shot exactly the ammo
EngineOK  == Off \/ ~O.eng \/ (/\ O.eng_ret /\ O.eng_class = "nil" /\ O.eng_wait
                                 /\ O.eng_shots = IF Bounded(OC) THEN Expected(OC) ELSE Cap(OC))
\* the ammo file is released at the end of every run: the number of descriptors the driver process holds does not
\* grow with the number of cells it has run (one-sided; FdSlack covers the runtime's own descriptors and the
\* few goroutines abandoned after blocked cells)
\* every entry looked the same (everything a gun sees of it) each time it was delivered: what is re-created after a
\* rewind (scanners, readers, decoders, header accumulators, pooled ammo) behaves on pass >= 2 as on pass 1
Stable    == Off \/ O.variants = 0
\* control: an entry over the (not raised) size limit is a clean failure, never a hang: Run returns, the sink is
\* closed, every consumer sees ok=false; either the bounds were reached in front of that entry (over_at entries precede
\* it in the first pass) and the run ended normally, or exactly those over_at entries were delivered and Run returned an
\* error (at the boundary Want = over_at both are accepted: grpc/json reads the next line before it looks at the limit)
RejectOK  == l = 0 \/ O.skipped \/ ~O.reject \/
             (/\ O.run_ret /\ O.cons_done /\ O.eofs = O.nc /\ ~O.cancelled /\ O.variants = 0
              /\ \/ O.run_class = "err" /\ O.count = O.over_at /\ Want >= O.over_at
                 \/ O.run_class = "nil" /\ O.count = Want /\ Want <= O.over_at)
\* WORK.  The provider touches its file no more than delivering needs: the number of rewinds (Seek to the start) is at
\* most the number of passes over the file that the items it produced span, + 1 where a provider legitimately peeks
\* (http/json looks at the first token and seeks back when it is constructed), + 1 for the rewind a provider may do
\* at the end of a pass before it learns that nothing more is wanted.  Produced = what was taken + what was still in the
\* sink after the cancel + the one item in the provider's hand; never more than the bound.  After the limit no further
\* pass over the file is made - that is the "never spins" of the statement, observed as work instead of time.
CeilDiv(a, b) == (a + b - 1) \div b
Peek(k)     == IF k \in {"jsonline", "jsonarray"} THEN 1 ELSE 0
RealCap(k)  == IF k \in HttpKinds THEN 0 ELSE IF k \in ScnKinds THEN 100 ELSE IF k = "grpcjson" THEN 128 ELSE 8192
Produced    == LET got == O.count + (IF O.drained > 0 THEN O.drained ELSE 0) + 1
               IN IF Bounded(OC) THEN Min({Expected(OC), got}) ELSE got
EngProduced == IF Bounded(OC) THEN Expected(OC) ELSE O.eng_shots + O.nc + RealCap(O.kind) + 1
Work      == Off \/ ~O.run_ret \/
             (/\ O.rewinds <= CeilDiv(Produced, Entries(OC)) + Peek(O.kind)
              /\ O.opens <= 2)
EngWork   == Off \/ ~O.eng \/ ~O.eng_ret \/ ~O.eng_wait \/
             (/\ O.eng_rewinds <= CeilDiv(EngProduced, Entries(OC)) + Peek(O.kind)
              /\ O.eng_opens <= 2)
\* FAULTS.  Whatever fails underneath (Close, the k-th Read, a rewind, Stat): either the constructor refuses, or Run
\* returns, the sink is closed and every consumer observes ok=false (nobody stays blocked in Acquire - the hang rule),
\* nothing beyond the bounds was delivered, and if less than the wanted amount was delivered Run says so with an error.
FaultOK   == l = 0 \/ O.skipped \/ O.fault = "" \/ O.build_err # "" \/
             (/\ O.run_ret /\ O.cons_done
              /\ O.run_class \in {"nil", "err"} \cup (IF CutCell THEN {"ctx"} ELSE {})
              /\ IF O.cancelled THEN O.eof_after ELSE O.eofs = O.nc
              /\ O.count <= Want
              /\ Bounded(OC) => O.count + (IF O.drained > 0 THEN O.drained ELSE 0) <= Expected(OC)
              /\ O.count = Want \/ O.run_class = "err"
              /\ O.unknown = 0 /\ O.variants = 0)
\* A SOURCE THAT CANNOT SEEK (fault "noseek": every Seek to the start fails, as on a FIFO or a pipe).  AmmoProvider's
\* NoNeedlessRewind: a provider that does not peek never repositions its file unless an entry of a further pass is
\* wanted.  So when the bounds lie inside the first pass the run is what it is on a regular file: exactly the wanted
\* items, Run returns nil, and the failing Seek was never attempted.
NoSeekOK  == l = 0 \/ O.skipped \/ O.fault # "noseek" \/ O.build_err # "" \/ CutCell
             \/ O.kind \notin NoPeekKinds \/ Expected(OC) > Entries(OC) \/
             (/\ O.run_ret /\ O.run_class = "nil" /\ ~O.cancelled /\ O.count = Want /\ O.eofs = O.nc
              /\ O.faults_hit = 0)
FdSlack   == 16
NoFdLeak  == Off \/ O.fds0 < 0 \/ O.fds <= O.fds0 + FdSlack
=============================================================================
