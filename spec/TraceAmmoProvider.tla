------------------------- MODULE TraceAmmoProvider -------------------------
(***************************************************************************)
(* C08 conformance.  One NDJSON line per cell of the matrix: what the REAL  *)
(* provider (built by config.Decode through the registered constructor) did *)
(* when consumed by nc goroutines, and what a real engine.Engine run over   *)
(* the same provider config did.  Every line is compared with what          *)
(* AmmoProvider.tla says about that cell (Expected, Stop, Cap, Hist); the   *)
(* set of lines must be exactly the matrix of the configuration.            *)
(***************************************************************************)
EXTENDS AmmoProviderMC

CONSTANT TraceCells     \* the table this tier must cover exactly (besides the random cells, id >= RandBase)
VARIABLE l

Trace == ndJsonDeserialize(IOEnv.VERIF_TRACE)
Chunk == 16

\* the state machine's variables are not used here: one fixed value
TInit == /\ l = 0 /\ c = 0 /\ pc = "" /\ pos = 0 /\ ammoNum = 0 /\ passNum = 0 /\ nload = 0 /\ inner = 0
         /\ sink = 0 /\ sinkClosed = FALSE /\ res = "" /\ cancelled = FALSE /\ ucancel = FALSE
         /\ delivered = 0 /\ drained = 0 /\ nrun = 0 /\ neof = 0 /\ idle = 0 /\ aftc = 0 /\ skips = 0
TNext == /\ \/ l = 0 /\ l' \in {j \in 1..Len(Trace) : j % Chunk = 1}
            \/ l > 0 /\ l % Chunk # 0 /\ l < Len(Trace) /\ l' = l + 1
         /\ UNCHANGED vars

O  == Trace[IF l = 0 THEN 1 ELSE l]
OC == [kind |-> O.kind, preload |-> O.preload, limit |-> O.limit, passes |-> O.passes, w |-> O.w, nc |-> O.nc,
       cut |-> O.cut]
\* the run is cancelled by the driver (cut reached, or before Run for cut = -1) in unbounded cells and in cut cells
CutCell == O.cut # 0 \/ ~Bounded(OC)
Want    == IF CutCell THEN Stop(OC) ELSE Expected(OC)

\* lines of cells that were not run (skipped after confirmed blocked cells of the same group) decide nothing
\* ... and so do the control cells whose file holds an entry over the provider's size limit (RejectOK speaks about them)
Off == l = 0 \/ O.skipped \/ O.reject

\* the recorded lines are exactly the cells of the matrix, once each
\* ... once per file system the driver ran on (mem = afero.MemMapFs, os = afero.OsFs with real files)
FsModes   == {"mem", "os"}
Complete  == l # 0 \/ (/\ Cardinality({<<Trace[i].id, Trace[i].fs>> : i \in 1..Len(Trace)}) = Len(Trace)
                       /\ \A f \in FsModes :
                            Cardinality({i \in 1..Len(Trace) : Trace[i].id < RandBase /\ Trace[i].fs = f})
                              = Cardinality(TraceCells))
InMatrix  == l = 0 \/ (/\ O.fs \in FsModes
                       /\ O.id >= RandBase \/ (OC \in TraceCells /\ O.id = IdOf(OC)))
\* the registered constructor accepted the config
Built     == Off \/ O.build_err = ""
\* exactly min over the non-zero bounds (or exactly the cut) was handed to the consumers
Delivered == Off \/ O.count = Want
\* ... and it was the file / ring in cyclic order
Order     == Off \/ O.hist = Hist(OC, O.count)
\* Run came back (not blocked, not spinning) after the bound was reached / after the cancel
Returned  == Off \/ O.run_ret
\* reaching a bound is not an error and needs no cancel; after a cancel nil or the context error
RunResult == Off \/ ~O.run_ret \/ IF CutCell THEN O.run_class \in {"nil", "ctx"}
                                    ELSE O.run_class = "nil" /\ ~O.cancelled
\* every consumer observed ok=false; after a cut the sink is closed once the buffered rest is drained,
\* and even then the bounds are not exceeded
EndOfAmmo == Off \/ IF CutCell THEN O.eof_after /\ (Bounded(OC) => O.count + O.drained <= Expected(OC))
                                 ELSE O.eofs = O.nc
\* a real engine run over the same provider config ends successfully, having shot exactly the ammo
EngineOK  == Off \/ ~O.eng \/ (/\ O.eng_ret /\ O.eng_class = "nil" /\ O.eng_wait
                                 /\ O.eng_shots = IF Bounded(OC) THEN Expected(OC) ELSE Cap(OC))
\* the ammo file is released at the end of every run: the number of descriptors the driver process holds does not
\* grow with the number of cells it has run (one-sided; FdSlack covers the runtime's own descriptors and the
\* few goroutines abandoned after blocked cells)
\* every entry looked the same (everything a gun sees of it) each time it was delivered: what is re-created after a
\* rewind (scanners, readers, decoders, header accumulators, pooled ammo) behaves on pass >= 2 as on pass 1
Stable    == Off \/ O.variants = 0
\* control: an entry over the (not raised) size limit is a clean failure, never a hang: Run returns, the sink is
\* closed, every consumer sees ok=false; either the bounds were reached in front of that entry (over_at entries precede
\* it in the first pass) and the run ended normally, or exactly those over_at entries were delivered and Run returned an
\* error (at the boundary Want = over_at both are accepted: grpc/json reads the next line before it looks at the limit)
RejectOK  == l = 0 \/ O.skipped \/ ~O.reject \/
             (/\ O.run_ret /\ O.cons_done /\ O.eofs = O.nc /\ ~O.cancelled /\ O.variants = 0
              /\ \/ O.run_class = "err" /\ O.count = O.over_at /\ Want >= O.over_at
                 \/ O.run_class = "nil" /\ O.count = Want /\ Want <= O.over_at)
FdSlack   == 16
NoFdLeak  == Off \/ O.fds0 < 0 \/ O.fds <= O.fds0 + FdSlack
=============================================================================
