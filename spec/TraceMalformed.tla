--------------------------- MODULE TraceMalformed ---------------------------
(***************************************************************************)
(* C13 trace specification.  One NDJSON line per executed case:            *)
(*   M2 lines  {k:"case", c:{kind,format,mode,np,cls,nt}, evs:[{ev,arg}]}  *)
(*       the case is one TLC enumerated (Malformed!Cases), rendered to     *)
(*       bytes / a scenario description by the driver and run through the  *)
(*       REAL providers; evs is what was observed, in order.  The line is  *)
(*       accepted iff evs is a complete behaviour of the reader machine of *)
(*       Malformed for that case (silent Load/Skip steps filled in).  The  *)
(*       alphabet has no Panic / Crash / Hang event, so an observation     *)
(*       containing one is rejected.                                       *)
(*   M1 lines  {k:"fuzz", format, mode, intact, same, res}                 *)
(*       byte-level mutation of a valid file: the spec contributes only    *)
(*       the outcome alphabet {ok, error} and the prefix rule (the         *)
(*       `intact` entries that lie wholly before the first mutated byte    *)
(*       are delivered first and unchanged: same >= intact) for streaming  *)
(*       readers.                                                          *)
(* The walk over the lines is chunked (TLC workers check in parallel) and  *)
(* run with -continue: every offending line is reported.                   *)
(***************************************************************************)
EXTENDS Malformed, Json, IOUtils

VARIABLE l

Trace == ndJsonDeserialize(IOEnv.VERIF_TRACE)
Chunk == 16

TInit == l = 0 /\ cs = [kind |-> "none"] /\ st = Start(cs)
TNext == /\ \/ l = 0 /\ l' \in {j \in 1..Len(Trace) : j % Chunk = 1}
            \/ l > 0 /\ l % Chunk # 0 /\ l < Len(Trace) /\ l' = l + 1
         /\ UNCHANGED <<cs, st>>

R == Trace[IF l = 0 THEN 1 ELSE l]

CaseOf(r) == [kind |-> r.c.kind, format |-> r.c.format, mode |-> r.c.mode, np |-> r.c.np, cls |-> r.c.cls, nt |-> r.c.nt, arg |-> r.c.arg]

\* set-of-states simulation of the reader machine over the observed events.  The acceptor does not need the
\* history variable `out` (the events ARE the deliveries), so it is dropped from the simulated states: long
\* observations stay cheap.
Norm(s) == [s EXCEPT !.out = <<>>]

RECURSIVE SilentClosure(_, _)
SilentClosure(c, S) ==
    LET T == S \cup { Norm(x.s) : x \in { y \in UNION { Succ(c, s) : s \in S } : Silent(y.e) } }
    IN IF T = S THEN S ELSE SilentClosure(c, T)

StepOn(c, S, e) ==
    { Norm(x.s) : x \in { y \in UNION { Succ(c, s) : s \in SilentClosure(c, S) } : y.e = [ev |-> e.ev, arg |-> e.arg] } }

RECURSIVE RunOn(_, _, _, _)
RunOn(c, S, evs, i) == IF i > Len(evs) \/ S = {} THEN S ELSE RunOn(c, StepOn(c, S, evs[i]), evs, i + 1)

Accepts(c, evs) == \E s \in RunOn(c, {Start(c)}, evs, 1) : s.res # "run"

\* the line is a case the specification enumerates
KnownCase == (l > 0 /\ R.k = "case") => IsCase(CaseOf(R))
\* the observation is a complete behaviour of the reader machine (no Panic / Crash / Hang in the alphabet)
Accepted  == (l > 0 /\ R.k = "case") => Accepts(CaseOf(R), R.evs)

\* byte-level fuzz: outcome alphabet and prefix rule only
FuzzOutcome == (l > 0 /\ R.k = "fuzz") => R.res \in {"ok", "error"}
FuzzPrefix  == (l > 0 /\ R.k = "fuzz" /\ ~WholeFile(R.format, R.mode)) => R.same >= R.intact

=============================================================================
