---------------------------- MODULE AggregatorMC ----------------------------
(* Model-checking instance of Aggregator: nothing but the constants (see spec/cfg/Aggregator_*.cfg). *)
EXTENDS Aggregator
=============================================================================
