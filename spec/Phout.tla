------------------------------- MODULE Phout --------------------------------
(***************************************************************************)
(* C06, data part: what a result line IS, and what "complete" means.       *)
(* Pure operators only (no variables, no constants) - shared by the design *)
(* modules Aggregator.tla / Shutdown.tla and by the trace specifications   *)
(* TraceAggregator.tla / TraceShutdown.tla, so that the design-level       *)
(* invariants and the verdicts on real executions use ONE definition.      *)
(*                                                                         *)
(* Abstract sample (what a gun reports):                                   *)
(*   [sec |-> unix seconds, ms |-> 0..999, tag |-> STRING, id |-> Nat,     *)
(*    f |-> <<f1..f10>>]   with the ten fields in the documented order     *)
(*   (core/aggregator/netsample/sample.go, Yandex.Tank phout):             *)
(*   1 interval_real(rtt us) 2 connect_time 3 send_time 4 latency          *)
(*   5 receive_time 6 interval_event 7 size_out 8 size_in 9 net_code       *)
(*   10 proto_code                                                         *)
(***************************************************************************)
EXTENDS Integers, Sequences, FiniteSets, TLC

FieldNames == <<"interval_real", "connect_time", "send_time", "latency", "receive_time",
                "interval_event", "size_out", "size_in", "net_code", "proto_code">>
NFields == 10

\* decimal rendering of an integer: TLC's ToString is canonical ("-5", "0", "2147483647")
Dec(n) == ToString(n)

\* milliseconds are always three digits
Pad3(ms) == IF ms < 10 THEN "00" \o Dec(ms) ELSE IF ms < 100 THEN "0" \o Dec(ms) ELSE Dec(ms)

(***************************************************************************)
(* The tag.  A provider hands over whatever the ammo source carries: the   *)
(* uri / uripost / raw formats keep everything after the first blank of    *)
(* the line (a TAB inside the tag survives), http/json and grpc/json ammo  *)
(* and scenario names are arbitrary JSON / config strings (TAB, LF, CR).   *)
(* TAB separates the columns and LF the lines of phout, so neither may     *)
(* reach the tag column: each TAB, LF, CR is written as one blank.         *)
(* Strings are opaque to TLC, so a tag that contains such characters       *)
(* travels as `tagp`, a sequence of atoms: plain text pieces and the       *)
(* symbolic atoms "<TAB>" "<LF>" "<CR>" (the driver renders them to the    *)
(* real characters; this module says what must come out).                  *)
(***************************************************************************)
Delimiters == {"<TAB>", "<LF>", "<CR>"}
TagAtomText(a) == IF a \in Delimiters THEN " " ELSE a
RECURSIVE TagAtomsText(_)
TagAtomsText(as) == IF as = <<>> THEN "" ELSE TagAtomText(Head(as)) \o TagAtomsText(Tail(as))
TagText(s) == IF "tagp" \in DOMAIN s /\ s.tagp # <<>> THEN TagAtomsText(s.tagp) ELSE s.tag

\* the tag column: the tag itself, plus "#<ammo id>" when ids are enabled
TagCol(s, ids) == IF ids THEN TagText(s) \o "#" \o Dec(s.id) ELSE TagText(s)

(***************************************************************************)
(* PhoutLine: the columns of the line a sample must produce, as the tuple  *)
(*   <<seconds, 3-digit ms, tag[#id], f1, ..., f10>>  (all as text).       *)
(* The harness splits a real output line syntactically                     *)
(*   digits "." 3 digits TAB tag TAB int ... TAB int  (10 ints) -> 13 strings *)
(* and TLC compares for equality.                                          *)
(***************************************************************************)
PhoutLine(s, ids) == <<Dec(s.sec), Pad3(s.ms), TagCol(s, ids)>> \o [i \in 1..NFields |-> Dec(s.f[i])]

WellFormedSample(s) == /\ s.sec >= 0 /\ s.ms \in 0..999 /\ s.id >= 0 /\ Len(s.f) = NFields

(***************************************************************************)
(* Completeness.  `expected` : sequence of the lines the reports must      *)
(* produce (in report order, duplicates possible), `written` : sequence of *)
(* lines found in the sink.                                                *)
(***************************************************************************)
RECURSIVE SeqOfSet(_)
SeqOfSet(S) == IF S = {} THEN <<>> ELSE LET x == CHOOSE y \in S : TRUE IN <<x>> \o SeqOfSet(S \ {x})

Count(seq, x) == Cardinality({i \in DOMAIN seq : seq[i] = x})

\* written is a sub-multiset of expected (nothing invented, nothing duplicated)
SubMultiset(written, expected) == \A i \in DOMAIN written : Count(written, written[i]) <= Count(expected, written[i])

\* written is a permutation of expected minus `dropped` elements
PermutationUpToDrops(written, expected, dropped) ==
    /\ SubMultiset(written, expected)
    /\ Len(written) + dropped = Len(expected)

\* the final predicate of a finished aggregator / an exited process, on counts
CompleteCounts(lines, dropped, reported) == lines + dropped = reported

\* one-sided version when reports may still be in flight at the stop instant:
\* everything whose Report() had returned before the stop is accounted for, nothing is invented
CompleteBetween(lines, dropped, returnedBeforeStop, enteredAtExit) ==
    /\ lines + dropped >= returnedBeforeStop
    /\ lines + dropped <= enteredAtExit
=============================================================================
