-------------------------- MODULE TraceAggregator --------------------------
(***************************************************************************)
(* C06 trace specification (M1): executions of the REAL phout and          *)
(* jsonlines aggregators recorded by `vdrive agg` are checked, step by     *)
(* step, against the definitions of spec/Phout.tla that the design module  *)
(* Aggregator.tla uses for its invariants:                                 *)
(*   - every line that reaches the sink is PhoutLine(s) (resp. decodes to  *)
(*     s) for a reported sample s that has not been written yet            *)
(*     (well-formed, nothing invented, exactly once);                      *)
(*   - nothing reaches the sink after Close; no partial last line;         *)
(*   - at Run return: sink closed, |written| + dropped = |reported|, i.e.  *)
(*     PermutationUpToDrops(written, expected, dropped); the blocking      *)
(*     aggregator drops nothing; the only error is the drop error;         *)
(*   - the destination's final content is what the sink received.          *)
(* The queue, the buffer and the loop position of Aggregator.tla are not   *)
(* observable without hooks; what is observable of its actions is:         *)
(*   Report(g) ~ "Report" / bulk "Reports", Cancel ~ "Cancel", Tick/Spill/FinalFlush ~ the  *)
(*   "Line" events, Close ~ "SinkClosed", Return ~ "RunEnd".               *)
(* Events of one run are contiguous (the check groups them by run).        *)
(***************************************************************************)
EXTENDS Phout, Json, IOUtils

VARIABLES l,         \* next line of the trace
          kind, ids, mode, \* of the current run (mode "cancel": an engine run cancelled from outside mid-run)
          before,    \* mode "cancel": Report calls that had returned when the run was cancelled
          pending,   \* bag (expected line -> count) of reports not yet seen in the sink
                     \* (phout: column tuples; jsonlines: samples)
          nrep, nmatched, nwritten, cancelled, closed, ended, bad,
          fault,     \* what the sink of this run is told to do ("": work; "err" | "partial" | "short" | "close")
          faulted    \* the sink HAS failed (the aggregator was handed an error / a short count)

vars == <<l, kind, ids, mode, before, pending, nrep, nmatched, nwritten, cancelled, closed, ended, bad, fault, faulted>>

Trace == ndJsonDeserialize(IOEnv.VERIF_TRACE)
Ev == Trace[l]

Flag(cond, name) == IF cond THEN {} ELSE {name}

\* runs that are stopped from outside mid-run (user cancel, forwarded provider failure): reports of shots in
\* flight at the stop may be lost (PoolAgg.tla: late)
\* ("hang": cancelled from outside while every instance is inside a shot that does not come back, TracePoolAgg.tla)
StopModes == {"cancel", "provfail", "hang"}

\* the abstract sample of a logged report
Abs(s) == [sec |-> s.sec, ms |-> s.ms, tag |-> s.tag, tagp |-> (IF "tagp" \in DOMAIN s THEN s.tagp ELSE <<>>), id |-> s.id, f |-> s.f]
\* kinds without a result file: "log" writes every sample through to the logger (the entry is the line),
\* "discard" throws every sample away, "test" (aggregator.NewTest) keeps every sample in memory (read when Run
\* has returned: "StdDrained")
NoFile == {"log", "discard", "test"}
LogEntry(s) == "Sample reported: S" \o ToString(s.g) \o "-" \o ToString(s.i)
Expect(s) == IF kind = "phout" THEN PhoutLine(Abs(s), ids) ELSE IF kind = "log" THEN LogEntry(s) ELSE s

\* bags as functions; an entry may go down to 0
AddN(bag, x, n) == IF x \in DOMAIN bag THEN [bag EXCEPT ![x] = @ + n] ELSE bag @@ (x :> n)
Has(bag, x) == x \in DOMAIN bag /\ bag[x] > 0

Init == /\ l = 1 /\ kind = "" /\ ids = FALSE /\ mode = "" /\ before = -1 /\ pending = <<>> /\ nrep = 0 /\ nmatched = 0 /\ nwritten = 0
        /\ cancelled = FALSE /\ closed = FALSE /\ ended = TRUE /\ bad = {} /\ fault = "" /\ faulted = FALSE

Run == /\ Ev.ev = "Run"
       /\ kind' = Ev.kind /\ ids' = Ev.ids /\ mode' = Ev.mode /\ before' = -1 /\ pending' = <<>> /\ nrep' = 0 /\ nmatched' = 0 /\ nwritten' = 0
       /\ cancelled' = FALSE /\ closed' = FALSE /\ ended' = FALSE
       /\ fault' = Ev.fault /\ faulted' = FALSE
       /\ bad' = bad \cup Flag(ended, "PreviousRunNotEnded")

\* one report, or (mode "dropstress") n reports of the same sample by one goroutine
Report == /\ Ev.ev \in {"Report", "Reports"}
          /\ LET n == IF Ev.ev = "Report" THEN 1 ELSE Ev.n IN
             /\ pending' = AddN(pending, Expect(Ev.s), n)
             /\ nrep' = nrep + n
          /\ bad' = bad \cup Flag(WellFormedSample(Abs(Ev.s)), "DriverSampleOutsideDomain")
                        \cup Flag(~cancelled \/ mode \in StopModes, "DriverReportAfterCancel")
          /\ UNCHANGED <<kind, ids, mode, before, nmatched, nwritten, cancelled, closed, ended, fault, faulted>>

\* a complete line reached the sink
Written(x) == /\ LET m == Has(pending, x) IN
                 /\ pending' = IF m THEN [pending EXCEPT ![x] = @ - 1] ELSE pending
                 /\ nmatched' = IF m THEN nmatched + 1 ELSE nmatched
                 /\ bad' = bad \cup Flag(m, "LineIsNoUnwrittenReport")   \* malformed, invented or duplicated
                               \cup Flag(~closed, "WriteAfterClose")
                               \cup Flag(~ended, "WriteAfterReturn")
              /\ nwritten' = nwritten + 1
              /\ UNCHANGED <<kind, ids, mode, before, nrep, cancelled, closed, ended, fault, faulted>>
Line  == Ev.ev = "Line" /\ Written(Ev.c)
LogLine == Ev.ev = "LogLine" /\ Ev.level = "info" /\ Written(Ev.msg)
JLine == Ev.ev = "JLine" /\ Written(Ev.s)

BadLine == /\ Ev.ev \in {"BadLine", "WriteAfterClose", "ReportBlocked"}
           /\ bad' = bad \cup (IF Ev.ev = "BadLine" THEN {"MalformedLine"}
                              ELSE IF Ev.ev = "ReportBlocked" THEN {"ReportBlockedWithRoomInTheQueue"} ELSE {"WriteAfterClose"})
           /\ nwritten' = nwritten + (IF Ev.ev = "BadLine" THEN 1 ELSE 0)
           /\ UNCHANGED <<kind, ids, mode, before, pending, nrep, nmatched, cancelled, closed, ended, fault, faulted>>

\* the sink fails (Aggregator!WriteFails / a failing Close): logged by the sink before its call returns
SinkFault == /\ Ev.ev = "SinkFault"
             /\ faulted' = TRUE
             /\ bad' = bad \cup Flag(fault = Ev.how, "DriverFaultNotPlanned")
                           \cup Flag(~ended, "WriteAfterReturn")
             /\ UNCHANGED <<kind, ids, mode, before, pending, nrep, nmatched, nwritten, cancelled, closed, ended, fault>>

Cancel == /\ Ev.ev = "Cancel"
          /\ cancelled' = TRUE
          /\ before' = IF mode \in {"cancel", "hang"} THEN Ev.returned_before ELSE before
          /\ UNCHANGED <<kind, ids, mode, pending, nrep, nmatched, nwritten, closed, ended, bad, fault, faulted>>

SinkClosed == /\ Ev.ev = "SinkClosed"
              /\ closed' = TRUE
              \* a sink that refused bytes mid-line keeps that torn line; otherwise the last line is complete
              /\ bad' = bad \cup Flag(Ev.partial = 0 \/ faulted, "PartialLastLine") \cup Flag(~closed, "ClosedTwice")
              /\ UNCHANGED <<kind, ids, mode, before, pending, nrep, nmatched, nwritten, cancelled, ended, fault, faulted>>

\* aggregators made by the registered factories write to a file of the recording fs: the destination is created and
\* truncated, never opened for append (Sink.tla: Open); a standard stream is not closed - the driver closes its end
\* of the pipe when Run has returned and logs what was left of a last line
Open == /\ Ev.ev = "Open"
        /\ bad' = bad \cup Flag(Ev.create /\ Ev.trunc, "NotCreatedOrNotTruncated") \cup Flag(~Ev.append, "OpenedForAppend")
                      \cup Flag(~closed /\ nwritten = 0, "OpenedAfterWriteOrClose")
        /\ UNCHANGED <<kind, ids, mode, before, pending, nrep, nmatched, nwritten, cancelled, closed, ended, fault, faulted>>
StdDrained == /\ Ev.ev = "StdDrained"
              /\ closed' = TRUE
              /\ bad' = bad \cup Flag(Ev.partial = 0, "PartialLastLine") \cup Flag(~closed, "ClosedTwice")
              /\ UNCHANGED <<kind, ids, mode, before, pending, nrep, nmatched, nwritten, cancelled, ended, fault, faulted>>

EngineEnd == /\ Ev.ev = "EngineEnd"
             /\ bad' = bad \cup Flag(~Ev.timeout, "EngineDidNotStop")
                           \cup Flag(mode \in StopModes \/ Ev.err = "<nil>", "EngineRunFailed")
             /\ UNCHANGED <<kind, ids, mode, before, pending, nrep, nmatched, nwritten, cancelled, closed, ended, fault, faulted>>

\* Aggregator.Run returned: THE property (Aggregator!CompleteAtReturn on what is observable)
RunEnd == /\ Ev.ev = "RunEnd"
          /\ ended' = TRUE
          /\ bad' = bad \cup Flag(~Ev.timeout, "RunDidNotReturn")
                        \cup Flag(closed \/ kind \in NoFile, "NotClosedAtReturn")
                        \cup Flag(kind = "discard" => nwritten = 0 /\ Ev.dropped = 0, "DiscardWroteOrCounted")
                        \cup (IF faulted
                              \* Aggregator!NoSilentLoss: the sink failed => Run's result says so; nothing is invented
                              THEN Flag(Ev.err # "", "SinkFailureNotReported")
                                   \cup Flag(nwritten + Ev.dropped <= nrep, "MoreLinesPlusDropsThanReports")
                              ELSE IF mode \in StopModes
                              \* cancelled mid-run: shots in flight may report after the drain (Shutdown.tla: lateLost)
                              THEN Flag(before >= 0 /\ CompleteBetween(nwritten, Ev.dropped, before, nrep),
                                        "ReportsMadeBeforeTheCancelMissing")
                              ELSE IF kind = "discard" THEN {}
                              ELSE Flag(CompleteCounts(nwritten, Ev.dropped, nrep), "LinesPlusDropsIsNotReports")
                                   \cup Flag(nrep - nmatched = Ev.dropped, "UnwrittenIsNotDropped"))
                        \cup Flag(kind \in {"phout", "log", "test"} => Ev.dropped = 0, "BlockingAggregatorDropped")
                        \* the only errors: the drop error, and the sink's own error when (and only when) it failed
                        \cup Flag(Ev.err = "" \/ faulted, "UnexpectedRunError")
          /\ UNCHANGED <<kind, ids, mode, before, pending, nrep, nmatched, nwritten, cancelled, closed, fault, faulted>>

\* discard: every borrowed sample was given back exactly once
Returned == /\ Ev.ev = "Returned"
            /\ bad' = bad \cup Flag(Ev.n = nrep, "BorrowedSampleNotReturnedOnce")
            /\ UNCHANGED <<kind, ids, mode, before, pending, nrep, nmatched, nwritten, cancelled, closed, ended, fault, faulted>>

\* what the destination file finally holds is what the sink received
Content == /\ Ev.ev = "Content"
           /\ bad' = bad \cup Flag(Ev.lines = nwritten /\ (Ev.partial = 0 \/ faulted), "ContentMismatch")
           /\ UNCHANGED <<kind, ids, mode, before, pending, nrep, nmatched, nwritten, cancelled, closed, ended, fault, faulted>>

Next == /\ l <= Len(Trace)
        /\ l' = l + 1
        /\ (Run \/ Report \/ Line \/ JLine \/ LogLine \/ Returned \/ BadLine \/ Cancel \/ SinkFault \/ SinkClosed \/ Open \/ StdDrained \/ EngineEnd \/ RunEnd \/ Content)

Accepted == l <= Len(Trace) => ENABLED Next
NoViolation == bad = {}
=============================================================================
