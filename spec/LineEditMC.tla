---------------------------- MODULE LineEditMC ----------------------------
EXTENDS LineEdit, Json
Export == Done => PrintT(<<"VERIF", ToJson([c |-> cs, exp |-> Expect(cs)])>>)
=============================================================================
