------------------------------ MODULE PoolAgg -------------------------------
(***************************************************************************)
(* Growth of C06 (DESIGN section 9, item 1): the engine's pool life cycle  *)
(* composed with the aggregator at the grain of Aggregator.tla, instead of *)
(* the atomic abstractions each side used for the other                    *)
(* (Aggregator.tla: "Cancel only after the last report";                   *)
(*  PoolRun.tla: the aggregator is a component that returns a value).      *)
(*                                                                         *)
(* From core/engine/engine.go (the part of PoolRun.tla that decides WHEN   *)
(* the aggregator's context is done):                                      *)
(*   instances   instance.Run: check ctx / schedule -> shoot (= Report) -> *)
(*               ... -> send the run result on runRes                      *)
(*   awaitRun    select over runRes / providerErr / aggregatorErr;         *)
(*               checkAllInstancesAreFinished: awaited = started ->        *)
(*               runCancel()  (the ONLY cancel of the run context that the *)
(*               pool issues by itself); onErrAwaited (forward to pool.Run *)
(*               or suppress once the pool context is done); at the end    *)
(*               close(awaitErr) and onWaitDone -> Engine.Wait returns     *)
(*   pool.Run    select "ctx.Done / awaitErr"; deferred cancel of the pool *)
(*               context, the PARENT of the run context                    *)
(*   provider    may fail at any moment of the run (C05 plan               *)
(*               prov-mid-run) ; user cancel at any moment (C05 cancel     *)
(*               plans)                                                    *)
(* From Aggregator.tla: Report (blocking / dropping), Dequeue, Tick, Spill,*)
(* SeeDone, DrainOne, DrainEnd, FinalFlush, Close, Return on exact         *)
(* sequences.  The aggregator and the instances run on the SAME run        *)
(* context: `runDone`.                                                     *)
(*                                                                         *)
(* Instance start is staged (start-up schedule once(N0), pause, the rest):  *)
(* an instance that finds the provider out of ammo while the start-up has  *)
(* not finished makes the await loop call instanceStartCancel(); the       *)
(* shared RPS schedule running dry calls cancelStart() from its finish     *)
(* callback.  Both stop the START context only - a child of the run        *)
(* context - and must not touch the run context on which the aggregator    *)
(* and the other instances (possibly in the middle of a shot) run.         *)
(* Simplifications (stated): one pool; instance creation cannot fail (that *)
(* is PoolRun.tla's subject); context propagation has no lag.              *)
(*                                                                         *)
(* Bug = "early": checkAllInstancesAreFinished cancels the run context at  *)
(* the FIRST awaited instance result, i.e. the aggregator is cancelled     *)
(* together with the (other) instances - negative control.                 *)
(* Bug = "ooaRunCancel": the out-of-ammo-during-start-up branch calls      *)
(* runCancel() instead of instanceStartCancel() (seeded regression C06-8). *)
(***************************************************************************)
EXTENDS Phout

CONSTANTS N,             \* instances the start-up schedule would start: 1..N
          N0,            \* of those, started at once (first stage: `once(N0)`); the others follow after a pause
          A,             \* ammo the provider has
          T,             \* tokens of the shared RPS schedule (T < A: the schedule runs dry first)
          Q, Mode,       \* queue capacity; "block" | "drop"
          MayProvFail,   \* the provider may fail at any moment
          MayUserCancel, \* the caller may cancel the context given to Engine.Run at any moment
          Bug            \* "none" | "early" | "ooaRunCancel"

VARIABLES ipc, made,         \* instances: "none" (not started) | "check" | "shoot" | "res" | "done"; reports made
          ires,              \* run result of an instance: "" | "nil" | "ctx" | "ooa"
          resCh,             \* run results sent and not yet awaited (set of instance ids)
          started, stpc,     \* startInstances: instances started so far; "run" | "ret" (result sent) | "seen"
          startCancelled,    \* instanceStartCancel() / cancelStart() of the shared schedule's finish callback
          ammo, tokens,
          awaited, provSeen, aggSeen, awpc,  \* await goroutine: "loop" | "done"
          runCancelled,      \* runCancel() was called
          poolPc, poolRet,   \* pool.Run: "select" | "ret";  "none" | "nil" | "ctx" | "err"
          userCancel,
          prov, provCh,      \* provider: "run" | "failed" | "ended";  result channel "empty" | "nil" | "err" | "taken"
          waited,            \* onWaitDone called: Engine.Wait returns
          queue, buf, disk, dropped, lost, apc, closed, result,     \* Aggregator.tla
          cause,             \* ghost: why the run context became done first: "none" | "self" | "ext"
          late,              \* ghost: samples whose Report call happened while the run context was done
          uncounted          \* ghost: drops that happened after Run had returned its drop error

vars == <<ipc, made, ires, resCh, started, stpc, startCancelled, ammo, tokens,
          awaited, provSeen, aggSeen, awpc, runCancelled, poolPc, poolRet, userCancel,
          prov, provCh, waited, queue, buf, disk, dropped, lost, apc, closed, result, cause, late, uncounted>>

I == 1..N
\* the run context: child of the pool context (done when pool.Run returned), child of the engine context
RunDone == runCancelled \/ poolPc = "ret" \/ userCancel
\* the instance start context: child of the run context
StartDone == startCancelled \/ RunDone
Reported == {s \in I \X (1..A) : s[2] <= made[s[1]]}
Rng(s) == {s[i] : i \in DOMAIN s}

Init == /\ ipc = [i \in I |-> IF i <= N0 THEN "check" ELSE "none"] /\ made = [i \in I |-> 0]
        /\ ires = [i \in I |-> ""] /\ resCh = {}
        /\ started = N0 /\ stpc = "run" /\ startCancelled = FALSE /\ ammo = A /\ tokens = T
        /\ awaited = 0 /\ provSeen = FALSE /\ aggSeen = FALSE /\ awpc = "loop"
        /\ runCancelled = FALSE /\ poolPc = "select" /\ poolRet = "none" /\ userCancel = FALSE
        /\ prov = "run" /\ provCh = "empty" /\ waited = FALSE
        /\ queue = <<>> /\ buf = <<>> /\ disk = <<>> /\ dropped = 0 /\ lost = {} /\ apc = "loop"
        /\ closed = FALSE /\ result = -1
        /\ cause = "none" /\ late = {} /\ uncounted = 0

instV == <<ipc, made, ires, resCh, ammo, tokens>>
startV == <<started, stpc>>
awV   == <<awaited, provSeen, aggSeen, awpc, runCancelled>>
poolV == <<poolPc, poolRet>>
provV == <<prov, provCh>>
aggV  == <<queue, buf, disk, dropped, lost, apc, closed, result>>

\* ghost bookkeeping: the first cause that makes RunDone true
Cause(c) == cause' = IF RunDone THEN cause ELSE c

(* ------------------------------------------------------------------ instances *)
\* instance.Run: `for !waiter.IsFinished(ctx)` (context done / shared schedule dry: its finish callback cancels the
\* instance START), then Acquire (out of ammo), then the shot
Check(i) ==
    /\ ipc[i] = "check"
    /\ \/ /\ RunDone
          /\ ipc' = [ipc EXCEPT ![i] = "res"] /\ ires' = [ires EXCEPT ![i] = "ctx"]
          /\ UNCHANGED <<ammo, tokens, startCancelled>>
       \/ /\ ~RunDone /\ tokens = 0
          /\ ipc' = [ipc EXCEPT ![i] = "res"] /\ ires' = [ires EXCEPT ![i] = "nil"]
          /\ startCancelled' = TRUE /\ UNCHANGED <<ammo, tokens>>
       \/ /\ ~RunDone /\ tokens > 0 /\ (ammo = 0 \/ prov = "failed")
          /\ ipc' = [ipc EXCEPT ![i] = "res"] /\ ires' = [ires EXCEPT ![i] = "ooa"]
          /\ UNCHANGED <<ammo, tokens, startCancelled>>
       \/ /\ ~RunDone /\ tokens > 0 /\ ammo > 0 /\ prov # "failed"
          /\ ipc' = [ipc EXCEPT ![i] = "shoot"] /\ ammo' = ammo - 1 /\ tokens' = tokens - 1
          /\ UNCHANGED <<ires, startCancelled>>
    /\ UNCHANGED <<made, resCh, startV, awV, poolV, userCancel, provV, waited, aggV, cause, late, uncounted>>
\* gun.Shoot reports its sample; the context is NOT consulted between Check and the report
Shoot(i) ==
    /\ ipc[i] = "shoot"
    /\ LET s == <<i, made[i] + 1>> IN
       /\ \/ /\ Len(queue) < Q /\ queue' = Append(queue, s)
             /\ UNCHANGED <<dropped, lost, uncounted>>
          \/ /\ Mode = "drop" /\ Len(queue) >= Q /\ UNCHANGED queue
             /\ lost' = lost \cup {s}
             /\ IF result = -1 THEN dropped' = dropped + 1 /\ UNCHANGED uncounted
                               ELSE uncounted' = uncounted + 1 /\ UNCHANGED dropped
       /\ late' = IF RunDone THEN late \cup {s} ELSE late
    /\ made' = [made EXCEPT ![i] = @ + 1]
    /\ ipc' = [ipc EXCEPT ![i] = "check"]
    /\ UNCHANGED <<ires, resCh, ammo, tokens, startV, startCancelled, awV, poolV, userCancel, provV, waited,
                   buf, disk, apc, closed, result, cause>>
\* the instance goroutine sends its run result
SendRes(i) == /\ ipc[i] = "res"
              /\ ipc' = [ipc EXCEPT ![i] = "done"] /\ resCh' = resCh \cup {i}
              /\ UNCHANGED <<made, ires, ammo, tokens, startV, startCancelled, awV, poolV, userCancel, provV, waited,
                             aggV, cause, late, uncounted>>

(* ------------------------------------------------------------------ startInstances (staged start-up) *)
\* `for ; waiter.Wait(startCtx); started++`: the next stage of the start-up schedule starts one more instance
StartNext == /\ stpc = "run" /\ started < N /\ ~StartDone
             /\ started' = started + 1
             /\ ipc' = [ipc EXCEPT ![started + 1] = "check"]
             /\ UNCHANGED <<made, ires, resCh, ammo, tokens, stpc, startCancelled, awV, poolV, userCancel, provV, waited,
                            aggV, cause, late, uncounted>>
\* start-up schedule finished, or the start context is done: startRes <- {started, err}
StartEnd == /\ stpc = "run" /\ (started = N \/ StartDone)
            /\ stpc' = "ret"
            /\ UNCHANGED <<instV, started, startCancelled, awV, poolV, userCancel, provV, waited, aggV, cause, late, uncounted>>

(* ------------------------------------------------------------------ provider, user *)
ProvFail == /\ MayProvFail /\ prov = "run" /\ ~RunDone
            /\ prov' = "failed" /\ provCh' = "err"
            /\ UNCHANGED <<instV, startV, startCancelled, awV, poolV, userCancel, waited, aggV, cause, late, uncounted>>
ProvEnd  == /\ prov = "run" /\ RunDone
            /\ prov' = "ended" /\ provCh' = "nil"
            /\ UNCHANGED <<instV, startV, startCancelled, awV, poolV, userCancel, waited, aggV, cause, late, uncounted>>
UserCancel == /\ MayUserCancel /\ ~userCancel /\ ~waited
              /\ userCancel' = TRUE /\ Cause("ext")
              /\ UNCHANGED <<instV, startV, startCancelled, awV, poolV, provV, waited, aggV, late, uncounted>>

(* ------------------------------------------------------------------ await goroutine *)
\* onErrAwaited: rendezvous with pool.Run's select, or give up once the pool context is done
OnErr == \/ poolPc = "select" /\ poolPc' = "ret" /\ poolRet' = "err" /\ Cause("ext")      \* forwarded
         \/ (poolPc = "ret" \/ userCancel) /\ UNCHANGED <<poolV, cause>>                  \* suppressed

StartSeen == stpc = "seen"
\* checkAllInstancesAreFinished after the step that makes (startSeen', awaited'): hook AllInstancesFinished, runCancel()
AllFin(seen, aw) == seen /\ aw >= started

AwaitInstance ==
    /\ awpc = "loop" /\ resCh # {}
    /\ \E i \in resCh :
         /\ resCh' = resCh \ {i}
         /\ awaited' = awaited + 1
         \* out of ammo while the start-up schedule has not finished: cancel the instance START (only)
         /\ LET ooaStart == ires[i] = "ooa" /\ ~StartSeen IN
            /\ startCancelled' = IF ooaStart /\ Bug # "ooaRunCancel" THEN TRUE ELSE startCancelled
            /\ IF \/ AllFin(StartSeen, awaited + 1)
                  \/ (Bug = "early" /\ awaited = 0)
                  \/ (Bug = "ooaRunCancel" /\ ooaStart)      \* the seeded regression: runCancel() instead
               THEN runCancelled' = TRUE /\ Cause("self")
               ELSE UNCHANGED <<runCancelled, cause>>
    /\ UNCHANGED <<ipc, made, ires, ammo, tokens, startV, provSeen, aggSeen, awpc, poolV, userCancel, provV, waited,
                   aggV, late, uncounted>>
AwaitStart ==
    /\ awpc = "loop" /\ stpc = "ret"
    /\ stpc' = "seen"
    /\ IF AllFin(TRUE, awaited) /\ ~runCancelled
       THEN runCancelled' = TRUE /\ Cause("self")
       ELSE UNCHANGED <<runCancelled, cause>>
    /\ UNCHANGED <<instV, started, startCancelled, awaited, provSeen, aggSeen, awpc, poolV, userCancel, provV, waited,
                   aggV, late, uncounted>>
AwaitProvider ==
    /\ awpc = "loop" /\ ~provSeen /\ provCh \in {"nil", "err"}
    /\ provSeen' = TRUE /\ provCh' = "taken"
    /\ IF provCh = "err" THEN OnErr ELSE UNCHANGED <<poolV, cause>>
    /\ UNCHANGED <<instV, startV, startCancelled, awaited, aggSeen, awpc, runCancelled, userCancel, prov, waited,
                   aggV, late, uncounted>>
AwaitAggregator ==
    /\ awpc = "loop" /\ ~aggSeen /\ apc = "done"
    /\ aggSeen' = TRUE
    /\ IF result > 0 THEN OnErr ELSE UNCHANGED <<poolV, cause>>                          \* "N samples were dropped"
    /\ UNCHANGED <<instV, startV, startCancelled, awaited, provSeen, awpc, runCancelled, userCancel, provV, waited,
                   aggV, late, uncounted>>
\* toWait = 0: close(awaitErr), onWaitDone.  (With the regression the run results channel is never closed by
\* checkAllInstancesAreFinished's own runCancel; the loop still ends when all four sources are through.)
AwaitEnd ==
    /\ awpc = "loop" /\ provSeen /\ aggSeen /\ StartSeen /\ runCancelled /\ awaited >= started /\ resCh = {}
    /\ \A i \in I : ipc[i] \in {"none", "done"}
    /\ awpc' = "done" /\ waited' = TRUE
    /\ UNCHANGED <<instV, startV, startCancelled, awaited, provSeen, aggSeen, runCancelled, poolV, userCancel, provV,
                   aggV, cause, late, uncounted>>

(* ------------------------------------------------------------------ pool.Run *)
PoolReturn ==
    /\ poolPc = "select"
    /\ \/ userCancel /\ poolRet' = "ctx"
       \/ awpc = "done" /\ poolRet' = "nil"
    /\ poolPc' = "ret" /\ Cause("ext")
    /\ UNCHANGED <<instV, startV, startCancelled, awV, userCancel, provV, waited, aggV, late, uncounted>>

(* ------------------------------------------------------------------ aggregator (Aggregator.tla) *)
aggFrame == UNCHANGED <<instV, startV, startCancelled, awV, poolV, userCancel, provV, waited, cause, late, uncounted>>
Encode == queue # <<>> /\ buf' = Append(buf, Head(queue)) /\ queue' = Tail(queue)
Dequeue  == apc = "loop" /\ Encode /\ UNCHANGED <<disk, dropped, lost, apc, closed, result>> /\ aggFrame
Tick     == apc = "loop" /\ buf # <<>> /\ disk' = disk \o buf /\ buf' = <<>>
            /\ UNCHANGED <<queue, dropped, lost, apc, closed, result>> /\ aggFrame
Spill    == apc \in {"loop", "drain"} /\ buf # <<>> /\ disk' = Append(disk, Head(buf)) /\ buf' = Tail(buf)
            /\ UNCHANGED <<queue, dropped, lost, apc, closed, result>> /\ aggFrame
SeeDone  == apc = "loop" /\ RunDone /\ apc' = "drain"
            /\ UNCHANGED <<queue, buf, disk, dropped, lost, closed, result>> /\ aggFrame
DrainOne == apc = "drain" /\ Encode /\ UNCHANGED <<disk, dropped, lost, apc, closed, result>> /\ aggFrame
DrainEnd == apc = "drain" /\ queue = <<>> /\ apc' = "flush"
            /\ UNCHANGED <<queue, buf, disk, dropped, lost, closed, result>> /\ aggFrame
FinalFlush == apc = "flush" /\ disk' = disk \o buf /\ buf' = <<>> /\ apc' = "close"
              /\ UNCHANGED <<queue, dropped, lost, closed, result>> /\ aggFrame
Close    == apc = "close" /\ closed' = TRUE /\ apc' = "ret"
            /\ UNCHANGED <<queue, buf, disk, dropped, lost, result>> /\ aggFrame
Return   == apc = "ret" /\ result' = dropped /\ apc' = "done"
            /\ UNCHANGED <<queue, buf, disk, dropped, lost, closed>> /\ aggFrame
AggStep == Dequeue \/ Tick \/ Spill \/ SeeDone \/ DrainOne \/ DrainEnd \/ FinalFlush \/ Close \/ Return

Next == \/ \E i \in I : Check(i)
        \/ \E i \in I : Shoot(i)
        \/ \E i \in I : SendRes(i)
        \/ StartNext \/ StartEnd
        \/ ProvFail \/ ProvEnd \/ UserCancel
        \/ AwaitInstance \/ AwaitStart \/ AwaitProvider \/ AwaitAggregator \/ AwaitEnd
        \/ PoolReturn
        \/ Dequeue \/ Tick \/ Spill \/ SeeDone \/ DrainOne \/ DrainEnd \/ FinalFlush \/ Close \/ Return

Fair == /\ WF_vars(AggStep) /\ WF_vars(ProvEnd) /\ WF_vars(PoolReturn)
        /\ WF_vars(StartNext) /\ WF_vars(StartEnd) /\ WF_vars(AwaitStart)
        /\ WF_vars(AwaitInstance) /\ WF_vars(AwaitProvider) /\ WF_vars(AwaitAggregator) /\ WF_vars(AwaitEnd)
        /\ \A i \in I : WF_vars(Check(i)) /\ WF_vars(Shoot(i)) /\ WF_vars(SendRes(i))
Spec == Init /\ [][Next]_vars /\ Fair

(* ------------------------------------------------------------------ properties *)
TypeOK == /\ Len(queue) <= Q /\ awaited \in 0..N /\ started \in N0..N /\ result \in -1..A
          /\ cause \in {"none", "self", "ext"} /\ (cause = "none") = ~RunDone

\* the pool itself cancels the aggregator only after every instance result was awaited ...
AggCancelAfterAllAwaited == runCancelled => /\ StartSeen /\ awaited = started
                                            /\ \A i \in I : ipc[i] \in {"none", "done"}
\* out of ammo during the start-up (and the shared schedule running dry) stop the instance START only
StartCancelIsNotRunCancel == (startCancelled /\ ~runCancelled /\ poolPc = "select" /\ ~userCancel) => ~RunDone
\* ... hence, when nothing stops the run from outside, every report precedes the cancel
NoLateReportUnlessStopped == cause = "self" => late = {}
\* exactly which reports may be lost when the run is stopped from outside (provider failure forwarded,
\* user cancel): only reports of shots that were in flight when the run context became done - at most
\* one per instance - and of those only the ones that arrive after the drain loop has ended
LateBounded == /\ Cardinality(late) <= N
               /\ \A s, t \in late : s[1] = t[1] => s = t
\* every reported sample is in exactly one place
Conservation == /\ \A i, j \in DOMAIN (queue \o buf \o disk) : i # j => (queue \o buf \o disk)[i] # (queue \o buf \o disk)[j]
                /\ Rng(queue \o buf \o disk) \cap lost = {}
                /\ Rng(queue \o buf \o disk) \cup lost = Reported
\* THE composed property, at Engine.Wait return
CompleteAtWait ==
    waited =>
        /\ apc = "done" /\ closed /\ buf = <<>>                                      \* flushed and closed
        /\ \A i \in I : ipc[i] \in {"none", "done"}                                   \* nobody reports any more
        /\ Rng(queue) \subseteq late /\ uncounted <= Cardinality(late \cap lost)     \* what is lost was late
        /\ CompleteCounts(Len(disk), result, Cardinality(Reported) - Len(queue) - uncounted)
        /\ CompleteBetween(Len(disk), result, Cardinality(Reported \ late), Cardinality(Reported))
        /\ cause = "self" => /\ queue = <<>> /\ uncounted = 0
                             /\ PermutationUpToDrops(disk, SeqOfSet(Reported), result)
                             /\ CompleteCounts(Len(disk), result, Cardinality(Reported))
\* a run that nobody stops ends by itself and is then complete; a stopped one ends too
Terminates == <>waited
\* not vacuous: a stopped run that really loses a late report is reachable (negative control of the bound)
LateLossReachable == ~(waited /\ queue # <<>>)
=============================================================================
