------------------------------ MODULE PoolAgg -------------------------------
(***************************************************************************)
(* Growth of C06 (DESIGN section 9, item 1): the engine's pool life cycle  *)
(* composed with the aggregator at the grain of Aggregator.tla, instead of *)
(* the atomic abstractions each side used for the other                    *)
(* (Aggregator.tla: "Cancel only after the last report";                   *)
(*  PoolRun.tla: the aggregator is a component that returns a value).      *)
(*                                                                         *)
(* From core/engine/engine.go (the part of PoolRun.tla that decides WHEN   *)
(* the aggregator's context is done):                                      *)
(*   instances   instance.Run: check ctx / schedule -> shoot (= Report) -> *)
(*               ... -> send the run result on runRes                      *)
(*   awaitRun    select over runRes / providerErr / aggregatorErr;         *)
(*               checkAllInstancesAreFinished: awaited = started ->        *)
(*               runCancel()  (the ONLY cancel of the run context that the *)
(*               pool issues by itself); onErrAwaited (forward to pool.Run *)
(*               or suppress once the pool context is done); at the end    *)
(*               close(awaitErr) and onWaitDone -> Engine.Wait returns     *)
(*   pool.Run    select "ctx.Done / awaitErr"; deferred cancel of the pool *)
(*               context, the PARENT of the run context                    *)
(*   provider    may fail at any moment of the run (C05 plan               *)
(*               prov-mid-run) ; user cancel at any moment (C05 cancel     *)
(*               plans)                                                    *)
(* From Aggregator.tla: Report (blocking / dropping), Dequeue, Tick, Spill,*)
(* SeeDone, DrainOne, DrainEnd, FinalFlush, Close, Return on exact         *)
(* sequences.  The aggregator and the instances run on the SAME run        *)
(* context: `runDone`.                                                     *)
(*                                                                         *)
(* Simplifications (stated): one pool; all N instances are started before  *)
(* the first result is awaited (instance start and its failures are        *)
(* PoolRun.tla's subject); context propagation has no lag.                 *)
(*                                                                         *)
(* Bug = "early": checkAllInstancesAreFinished cancels the run context at  *)
(* the FIRST awaited instance result, i.e. the aggregator is cancelled     *)
(* together with the (other) instances - negative control.                 *)
(***************************************************************************)
EXTENDS Phout

CONSTANTS N,             \* instances 1..N
          M,             \* shots (= reports) an instance makes if nothing stops it
          Q, Mode,       \* queue capacity; "block" | "drop"
          MayProvFail,   \* the provider may fail at any moment
          MayUserCancel, \* the caller may cancel the context given to Engine.Run at any moment
          Bug            \* "none" | "early"

VARIABLES ipc, made,         \* instances: "check" | "shoot" | "res" | "done"; reports made
          resCh,             \* run results sent and not yet awaited (set of instance ids)
          awaited, provSeen, aggSeen, awpc,  \* await goroutine: "loop" | "done"
          runCancelled,      \* runCancel() was called
          poolPc, poolRet,   \* pool.Run: "select" | "ret";  "none" | "nil" | "ctx" | "err"
          userCancel,
          prov, provCh,      \* provider: "run" | "failed" | "ended";  result channel "empty" | "nil" | "err" | "taken"
          waited,            \* onWaitDone called: Engine.Wait returns
          queue, buf, disk, dropped, lost, apc, closed, result,     \* Aggregator.tla
          cause,             \* ghost: why the run context became done first: "none" | "self" | "ext"
          late,              \* ghost: samples whose Report call happened while the run context was done
          uncounted          \* ghost: drops that happened after Run had returned its drop error

vars == <<ipc, made, resCh, awaited, provSeen, aggSeen, awpc, runCancelled, poolPc, poolRet, userCancel,
          prov, provCh, waited, queue, buf, disk, dropped, lost, apc, closed, result, cause, late, uncounted>>

I == 1..N
\* the run context: child of the pool context (done when pool.Run returned), child of the engine context
RunDone == runCancelled \/ poolPc = "ret" \/ userCancel
Reported == {s \in I \X (1..M) : s[2] <= made[s[1]]}
Rng(s) == {s[i] : i \in DOMAIN s}

Init == /\ ipc = [i \in I |-> "check"] /\ made = [i \in I |-> 0] /\ resCh = {}
        /\ awaited = 0 /\ provSeen = FALSE /\ aggSeen = FALSE /\ awpc = "loop"
        /\ runCancelled = FALSE /\ poolPc = "select" /\ poolRet = "none" /\ userCancel = FALSE
        /\ prov = "run" /\ provCh = "empty" /\ waited = FALSE
        /\ queue = <<>> /\ buf = <<>> /\ disk = <<>> /\ dropped = 0 /\ lost = {} /\ apc = "loop"
        /\ closed = FALSE /\ result = -1
        /\ cause = "none" /\ late = {} /\ uncounted = 0

instV == <<ipc, made, resCh>>
awV   == <<awaited, provSeen, aggSeen, awpc, runCancelled>>
poolV == <<poolPc, poolRet>>
provV == <<prov, provCh>>
aggV  == <<queue, buf, disk, dropped, lost, apc, closed, result>>

\* ghost bookkeeping: the first cause that makes RunDone true
Cause(c) == cause' = IF RunDone THEN cause ELSE c

(* ------------------------------------------------------------------ instances *)
\* instance.Run: `for !waiter.IsFinished(ctx)`: context done, or schedule / ammo finished -> return
Check(i) == /\ ipc[i] = "check"
            /\ ipc' = [ipc EXCEPT ![i] = IF RunDone \/ made[i] = M \/ prov = "failed" THEN "res"
                                         ELSE "shoot"]
            /\ UNCHANGED <<made, resCh, awV, poolV, userCancel, provV, waited, aggV, cause, late, uncounted>>
\* gun.Shoot reports its sample; the context is NOT consulted between Check and the report
Shoot(i) ==
    /\ ipc[i] = "shoot"
    /\ LET s == <<i, made[i] + 1>> IN
       /\ \/ /\ Len(queue) < Q /\ queue' = Append(queue, s)
             /\ UNCHANGED <<dropped, lost, uncounted>>
          \/ /\ Mode = "drop" /\ Len(queue) >= Q /\ UNCHANGED queue
             /\ lost' = lost \cup {s}
             /\ IF result = -1 THEN dropped' = dropped + 1 /\ UNCHANGED uncounted
                               ELSE uncounted' = uncounted + 1 /\ UNCHANGED dropped
       /\ late' = IF RunDone THEN late \cup {s} ELSE late
    /\ made' = [made EXCEPT ![i] = @ + 1]
    /\ ipc' = [ipc EXCEPT ![i] = "check"]
    /\ UNCHANGED <<resCh, awV, poolV, userCancel, provV, waited, buf, disk, apc, closed, result, cause>>
\* the instance goroutine sends its run result
SendRes(i) == /\ ipc[i] = "res"
              /\ ipc' = [ipc EXCEPT ![i] = "done"] /\ resCh' = resCh \cup {i}
              /\ UNCHANGED <<made, awV, poolV, userCancel, provV, waited, aggV, cause, late, uncounted>>

(* ------------------------------------------------------------------ provider, user *)
ProvFail == /\ MayProvFail /\ prov = "run" /\ ~RunDone
            /\ prov' = "failed" /\ provCh' = "err"
            /\ UNCHANGED <<instV, awV, poolV, userCancel, waited, aggV, cause, late, uncounted>>
ProvEnd  == /\ prov = "run" /\ RunDone
            /\ prov' = "ended" /\ provCh' = "nil"
            /\ UNCHANGED <<instV, awV, poolV, userCancel, waited, aggV, cause, late, uncounted>>
UserCancel == /\ MayUserCancel /\ ~userCancel /\ ~waited
              /\ userCancel' = TRUE /\ Cause("ext")
              /\ UNCHANGED <<instV, awV, poolV, provV, waited, aggV, late, uncounted>>

(* ------------------------------------------------------------------ await goroutine *)
\* onErrAwaited: rendezvous with pool.Run's select, or give up once the pool context is done
OnErr == \/ poolPc = "select" /\ poolPc' = "ret" /\ poolRet' = "err" /\ Cause("ext")      \* forwarded
         \/ (poolPc = "ret" \/ userCancel) /\ UNCHANGED <<poolV, cause>>                  \* suppressed

AwaitInstance ==
    /\ awpc = "loop" /\ resCh # {}
    /\ \E i \in resCh : resCh' = resCh \ {i}
    /\ awaited' = awaited + 1
    \* checkAllInstancesAreFinished (hook AllInstancesFinished, then runCancel())
    /\ IF awaited + 1 = N \/ (Bug = "early" /\ awaited = 0)
       THEN runCancelled' = TRUE /\ Cause("self")
       ELSE UNCHANGED <<runCancelled, cause>>
    /\ UNCHANGED <<ipc, made, provSeen, aggSeen, awpc, poolV, userCancel, provV, waited, aggV, late, uncounted>>
AwaitProvider ==
    /\ awpc = "loop" /\ ~provSeen /\ provCh \in {"nil", "err"}
    /\ provSeen' = TRUE /\ provCh' = "taken"
    /\ IF provCh = "err" THEN OnErr ELSE UNCHANGED <<poolV, cause>>
    /\ UNCHANGED <<instV, awaited, aggSeen, awpc, runCancelled, userCancel, prov, waited, aggV, late, uncounted>>
AwaitAggregator ==
    /\ awpc = "loop" /\ ~aggSeen /\ apc = "done"
    /\ aggSeen' = TRUE
    /\ IF result > 0 THEN OnErr ELSE UNCHANGED <<poolV, cause>>                          \* "N samples were dropped"
    /\ UNCHANGED <<instV, awaited, provSeen, awpc, runCancelled, userCancel, provV, waited, aggV, late, uncounted>>
\* toWait = 0: close(awaitErr), onWaitDone
AwaitEnd ==
    /\ awpc = "loop" /\ provSeen /\ aggSeen /\ runCancelled /\ awaited = N
    /\ awpc' = "done" /\ waited' = TRUE
    /\ UNCHANGED <<instV, awaited, provSeen, aggSeen, runCancelled, poolV, userCancel, provV, aggV, cause, late, uncounted>>

(* ------------------------------------------------------------------ pool.Run *)
PoolReturn ==
    /\ poolPc = "select"
    /\ \/ userCancel /\ poolRet' = "ctx"
       \/ awpc = "done" /\ poolRet' = "nil"
    /\ poolPc' = "ret" /\ Cause("ext")
    /\ UNCHANGED <<instV, awV, userCancel, provV, waited, aggV, late, uncounted>>

(* ------------------------------------------------------------------ aggregator (Aggregator.tla) *)
aggFrame == UNCHANGED <<instV, awV, poolV, userCancel, provV, waited, cause, late, uncounted>>
Encode == queue # <<>> /\ buf' = Append(buf, Head(queue)) /\ queue' = Tail(queue)
Dequeue  == apc = "loop" /\ Encode /\ UNCHANGED <<disk, dropped, lost, apc, closed, result>> /\ aggFrame
Tick     == apc = "loop" /\ buf # <<>> /\ disk' = disk \o buf /\ buf' = <<>>
            /\ UNCHANGED <<queue, dropped, lost, apc, closed, result>> /\ aggFrame
Spill    == apc \in {"loop", "drain"} /\ buf # <<>> /\ disk' = Append(disk, Head(buf)) /\ buf' = Tail(buf)
            /\ UNCHANGED <<queue, dropped, lost, apc, closed, result>> /\ aggFrame
SeeDone  == apc = "loop" /\ RunDone /\ apc' = "drain"
            /\ UNCHANGED <<queue, buf, disk, dropped, lost, closed, result>> /\ aggFrame
DrainOne == apc = "drain" /\ Encode /\ UNCHANGED <<disk, dropped, lost, apc, closed, result>> /\ aggFrame
DrainEnd == apc = "drain" /\ queue = <<>> /\ apc' = "flush"
            /\ UNCHANGED <<queue, buf, disk, dropped, lost, closed, result>> /\ aggFrame
FinalFlush == apc = "flush" /\ disk' = disk \o buf /\ buf' = <<>> /\ apc' = "close"
              /\ UNCHANGED <<queue, dropped, lost, closed, result>> /\ aggFrame
Close    == apc = "close" /\ closed' = TRUE /\ apc' = "ret"
            /\ UNCHANGED <<queue, buf, disk, dropped, lost, result>> /\ aggFrame
Return   == apc = "ret" /\ result' = dropped /\ apc' = "done"
            /\ UNCHANGED <<queue, buf, disk, dropped, lost, closed>> /\ aggFrame
AggStep == Dequeue \/ Tick \/ Spill \/ SeeDone \/ DrainOne \/ DrainEnd \/ FinalFlush \/ Close \/ Return

Next == \/ \E i \in I : Check(i)
        \/ \E i \in I : Shoot(i)
        \/ \E i \in I : SendRes(i)
        \/ ProvFail \/ ProvEnd \/ UserCancel
        \/ AwaitInstance \/ AwaitProvider \/ AwaitAggregator \/ AwaitEnd
        \/ PoolReturn
        \/ Dequeue \/ Tick \/ Spill \/ SeeDone \/ DrainOne \/ DrainEnd \/ FinalFlush \/ Close \/ Return

Fair == /\ WF_vars(AggStep) /\ WF_vars(ProvEnd) /\ WF_vars(PoolReturn)
        /\ WF_vars(AwaitInstance) /\ WF_vars(AwaitProvider) /\ WF_vars(AwaitAggregator) /\ WF_vars(AwaitEnd)
        /\ \A i \in I : WF_vars(Check(i)) /\ WF_vars(Shoot(i)) /\ WF_vars(SendRes(i))
Spec == Init /\ [][Next]_vars /\ Fair

(* ------------------------------------------------------------------ properties *)
TypeOK == /\ Len(queue) <= Q /\ awaited \in 0..N /\ result \in -1..(N * M)
          /\ cause \in {"none", "self", "ext"} /\ (cause = "none") = ~RunDone

\* the pool itself cancels the aggregator only after every instance result was awaited ...
AggCancelAfterAllAwaited == runCancelled => awaited = N /\ \A i \in I : ipc[i] = "done"
\* ... hence, when nothing stops the run from outside, every report precedes the cancel
NoLateReportUnlessStopped == cause = "self" => late = {}
\* exactly which reports may be lost when the run is stopped from outside (provider failure forwarded,
\* user cancel): only reports of shots that were in flight when the run context became done - at most
\* one per instance - and of those only the ones that arrive after the drain loop has ended
LateBounded == /\ Cardinality(late) <= N
               /\ \A s, t \in late : s[1] = t[1] => s = t
\* every reported sample is in exactly one place
Conservation == /\ \A i, j \in DOMAIN (queue \o buf \o disk) : i # j => (queue \o buf \o disk)[i] # (queue \o buf \o disk)[j]
                /\ Rng(queue \o buf \o disk) \cap lost = {}
                /\ Rng(queue \o buf \o disk) \cup lost = Reported
\* THE composed property, at Engine.Wait return
CompleteAtWait ==
    waited =>
        /\ apc = "done" /\ closed /\ buf = <<>>                                      \* flushed and closed
        /\ \A i \in I : ipc[i] = "done"                                              \* nobody reports any more
        /\ Rng(queue) \subseteq late /\ uncounted <= Cardinality(late \cap lost)     \* what is lost was late
        /\ CompleteCounts(Len(disk), result, Cardinality(Reported) - Len(queue) - uncounted)
        /\ CompleteBetween(Len(disk), result, Cardinality(Reported \ late), Cardinality(Reported))
        /\ cause = "self" => /\ queue = <<>> /\ uncounted = 0
                             /\ PermutationUpToDrops(disk, SeqOfSet(Reported), result)
                             /\ CompleteCounts(Len(disk), result, Cardinality(Reported))
\* a run that nobody stops ends by itself and is then complete; a stopped one ends too
Terminates == <>waited
\* not vacuous: a stopped run that really loses a late report is reachable (negative control of the bound)
LateLossReachable == ~(waited /\ queue # <<>>)
=============================================================================
