------------------------------ MODULE Malformed ------------------------------
(***************************************************************************)
(* C13 - malformed ammo, scenario or config input is rejected, never       *)
(* crashes or hangs.                                                       *)
(*                                                                         *)
(* Two families of cases, one reader state machine.                        *)
(*                                                                         *)
(* (1) AMMO FILES.  The abstract file is                                   *)
(*        <well-formed prefix e1..e_np>  <ONE item of class cls>           *)
(*        <well-formed trailing entries t1..t_nt>                          *)
(*     for a format f and a provider mode m.  The reader consumes the      *)
(*     file item by item (one action per decision of the Go readers:       *)
(*     constructor-time whole-file decode for http/json arrays, preload    *)
(*     = LoadAmmo before the first delivery, streaming Scan otherwise) and *)
(*     emits the events  Deliver(id)  and  End(res),                       *)
(*     res \in {"accepted","rejected"}.                                    *)
(*                                                                         *)
(* (2) DESCRIPTIONS (scenario files in HCL/YAML, config values).  The      *)
(*     "file" is a scenario description / config with one defect of class  *)
(*     cls; the reader walks the stages construct -> run -> prepare ->     *)
(*     post (the life of a scenario ammo: provider constructor, Run +      *)
(*     Acquire, preprocessors of every step, postprocessors of every step) *)
(*     and emits Stage(name) events and End(res).                          *)
(*                                                                         *)
(* The event alphabet is {Deliver, Stage, End}.  There is NO Panic, Crash  *)
(* or Hang event: an observation that contains one is not a behaviour of   *)
(* this machine (TraceMalformed rejects it).                               *)
(*                                                                         *)
(* The machine is written functionally (Succ(c, s) = set of labelled       *)
(* successors) so that the design-level Next and the trace acceptor of     *)
(* TraceMalformed are the same relation.                                   *)
(***************************************************************************)
EXTENDS Naturals, Sequences, FiniteSets, TLC, CfgSchema

CONSTANTS MaxPrefix,      \* well-formed entries before the malformed item (0..MaxPrefix)
          MaxTrail,       \* well-formed entries after it (0..MaxTrail)
          Variant,        \* "ok" | negative controls: "swallow", "loseprefix", "spin", "noname", "freerewind"
          ReqTokens,      \* step tokens of enumerated scenario request lists (subset of AllReqTokens)
          MaxReqLen,      \* request lists of 0..MaxReqLen steps
          CfgTreeSyn,     \* syntaxes in which the configuration-tree cases (CfgSchema) are enumerated
          MaxPropLines,   \* property files of 0..MaxPropLines lines
          PropLayoutSet   \* layouts in which they are written (subset of PropLayouts)

VARIABLES cs,             \* the case (constant during a behaviour)
          st              \* reader state

vars == <<cs, st>>

-----------------------------------------------------------------------------
(* Formats, modes, classes *)

HttpFormats == {"uri", "uripost", "raw", "jsonline", "jsonarray"}
Formats     == HttpFormats \cup {"grpcjson"}

\* "continue" = the continue-on-error option of the provider config is set.  Only grpc/json honours it
\* (components/providers/grpc/grpcjson/provider.go); the http providers and the scenario providers carry the
\* option but never read it - for them rejection stays the only outcome.
Modes(f) == IF f = "grpcjson" THEN {"stream", "continue"} ELSE {"stream", "preload", "continue"}

SizeClasses   == {"truncated", "negsize", "absurdsize", "nonnumsize"}
\* boundary values of the size field (raw, uripost).  The readers allocate what the size says up to 1 MiB and
\* read larger entries incrementally, so both sides of that threshold are classes of their own:
\*   big_m1 / big_eq / big_p1 : a COMPLETE entry of 1 MiB-1 / 1 MiB / 1 MiB+1 bytes  (well-formed: delivered)
\*   trunc1                   : size = bytes left + 1                                  (rejected)
\*   mib_trunc                : size = 1 MiB exactly, a few bytes left                 (rejected)
\*   big_trunc1               : size = 1 MiB+1, 1 MiB left                             (rejected)
\*   big_trunc                : size = 2 MiB, 38 bytes left                            (rejected)
\*   size0                    : uripost entry with size 0 and no body                  (well-formed: delivered)
\* parameterised ammo classes (parameters in c.arg):
\*   cut  : the file ends at an exact cut point of the last entry (raw, uripost), arg = <<point, passes>>
\*   long : >= 300 well-formed grpc/json lines with undecodable lines at position 2 and at every multiple of
\*          `period`, several passes, continue-on-error; arg = <<lines, period, passes>>
\*   rerun: a representative item (arg[1] = class of the item) read with passes 2..3 and a limit:
\*          arg = <<item class, passes, limit>> (limit 0 = none).  The reader re-opens the file for every pass:
\*          pass k delivers what pass 1 delivered, the item is met (and the run fails) in pass 1 unless the limit
\*          stops the reader before it gets there; whole-file readers meet it while loading, whatever the limit.
\*   degen: the file consists of NOTHING BUT n copies of one degenerate item (a raw entry of size 0, blank lines, header
\*          lines without an entry, empty JSON objects), read by a streaming reader with passes = 0 (unlimited) while the
\*          consumers take `take` entries; arg = <<item kind, n, take>>.  Decided here: PROGRESS - a reader goes round
\*          the file again only after a pass that handed something out; a pass without ammo ends the run ("no ammo in
\*          file").  The driver counts the rewinds of the file (file operations, not time).
\*   bufline: grpc/json read with the max_ammo_size option (the line buffer of its scanner); the item is the FIRST line
\*          of the file.  arg = <<length of the line, option>>; the verdict is arithmetic: the line fits the buffer or not
\*          (a line the scanner cannot produce cannot be skipped either - the reader does not find the next one).
ParamAmmoClasses == {"cut", "long", "rerun", "degen", "bufline"}
BufLineArgs == { <<l, b>> : l \in {"short", "70k"}, b \in {"default", "tiny", "large", "neg"} }
LineLen(l)  == IF l = "short" THEN 100 ELSE 70000                      \* about; the margins are wide
BufLimit(b) == CASE b = "default" -> 65536 [] b = "tiny" -> 50 [] b = "large" -> 100000 [] OTHER -> 0
BufVerdict(a) == IF a[2] = "neg" THEN "either"                           \* a negative size: the statement does not say
                 ELSE IF LineLen(a[1]) < BufLimit(a[2]) THEN "deliver" ELSE "reject"
DegenKinds(f) == CASE f = "raw"      -> {"size0", "size0tag", "blank"}
                   [] f = "uripost"  -> {"blank", "hdronly"}
                   [] f = "uri"      -> {"blank", "hdronly"}
                   [] f = "jsonline" -> {"emptyobj", "blank"}
                   [] f = "grpcjson" -> {"emptyobj", "blank"}
                   [] OTHER          -> {}
DegenArgs(f) == { <<d, n, k>> : d \in DegenKinds(f), n \in 1..2, k \in {1, 3} }
\* what a reader may do with a degenerate item.  Blank lines and header lines are not entries: they are stepped over.
\* An entry that is complete but carries no request (size 0, {}) may be stepped over, rejected, or handed out as it is
\* (that the http provider hands out entries it cannot build a request from is finding #24, not judged again here).
DegenTreat(f, d) == IF d \in {"blank", "hdronly"} THEN (IF f = "grpcjson" THEN {"skip", "reject"} ELSE {"skip"})
                    ELSE {"skip", "reject", "handout"}
RerunBad(f) == CASE f = "uri" -> "hdr_nocolon" [] f = "uripost" -> "negsize" [] f = "raw" -> "nonnumsize" [] OTHER -> "badjson"
RerunArgs(f) == { <<b, p, l>> : b \in {"none", RerunBad(f)}, p \in 2..3, l \in {0, 1, 3, 5} }
CutPoints == {"sizeline_mid",      \* inside the size line itself
              "sizeline_nonl",     \* the whole size line, no newline, no body
              "sizeline",          \* size line + newline, ZERO body bytes
              "body1",             \* one body byte
              "bodym1",            \* all but the last body byte
              "body_nonl"}         \* the complete body without the trailing newline: a complete entry
CutArgs  == { <<p, k>> : p \in CutPoints, k \in 1..2 }
LongArgs == { <<400, 50, 2>>, <<300, 150, 3>>, <<300, 0, 2>> }
BigOkClasses  == {"big_m1", "big_eq", "big_p1"}
EofClasses    == {"trunc1", "mib_trunc", "big_trunc1", "big_trunc"}     \* the item is the end of the file
\* hdr_tail: well-formed header lines ([X-Seq: late], [Host: evil...]) followed by a broken one - a malformed tail that
\*           must not reach back into the entries already read;  hdr_late: the same header lines alone (legal, silent)
HeaderClasses == {"hdr_nocolon", "hdr_nobracket", "hdr_emptykey", "hdr_tail"}
\* field-level JSON classes: the line is valid JSON and an object, ONE field has a value of the wrong JSON type
\* (grpc/json: payload must be an object, metadata a map of strings, call and tag strings; http/json: headers a map of
\* strings, uri / method / host / body / tag strings)
GrpcFieldClasses == {"payload_scalar", "payload_array", "payload_string", "meta_list", "meta_nonstring", "meta_nested",
                     "call_number", "tag_object"}
HttpFieldClasses == {"hdr_list", "hdr_nonstring", "hdr_nested", "body_number", "body_object", "uri_number", "host_list",
                     "method_number", "tag_number"}
BaseJsonClasses  == {"badjson", "shape_array", "shape_type", "shape_scalar"}
JsonClasses   == BaseJsonClasses \cup GrpcFieldClasses \cup HttpFieldClasses
\* valid JSON objects the statement does not pin: a field given twice (with the same value), a field nobody knows, a
\* null payload / null headers, no call at all: an entry like any other, or an error - never a crash
EitherJsonClasses == {"dup_field", "extra_field", "field_null", "call_missing"}
FieldClasses  == {"nouri", "badurl", "badmethod"}
\* the FILE is well-formed, the `headers` option of the provider config is not (util.DecodeHTTPConfigHeaders)
CfgClasses    == {"cfghdr_nocolon", "cfghdr_nobracket", "cfghdr_emptykey"}
AmmoClasses   == {"none", "longline", "nullvalue", "badrequest"} \cup SizeClasses \cup HeaderClasses \cup JsonClasses \cup FieldClasses \cup CfgClasses
                 \cup EitherJsonClasses
                 \cup BigOkClasses \cup EofClasses \cup {"size0", "hdr_late"} \cup ParamAmmoClasses

Applies(f, c) ==
    CASE c = "none"          -> TRUE
      [] c \in SizeClasses \cup BigOkClasses \cup EofClasses -> f \in {"uripost", "raw"}
      [] c = "size0"         -> f = "uripost"
      [] c = "cut"           -> f \in {"uripost", "raw"}
      [] c = "long"          -> f = "grpcjson"
      [] c = "rerun"         -> TRUE
      [] c = "degen"         -> DegenKinds(f) # {}
      [] c = "bufline"       -> f = "grpcjson"
      [] c = "hdr_late"      -> f \in {"uri", "uripost"}
      [] c \in HeaderClasses -> f \in {"uri", "uripost"}
      [] c \in BaseJsonClasses  -> f \in {"jsonline", "jsonarray", "grpcjson"}
      [] c \in GrpcFieldClasses -> f = "grpcjson"
      [] c \in HttpFieldClasses -> f \in {"jsonline", "jsonarray"}
      [] c = "call_missing"     -> f = "grpcjson"
      [] c \in EitherJsonClasses \ {"call_missing"} -> f \in {"jsonline", "jsonarray", "grpcjson"}
      [] c = "nullvalue"     -> f \in {"jsonline", "jsonarray", "grpcjson"}
      [] c = "longline"      -> f # "jsonarray"
      [] c = "badrequest"    -> f = "raw"       \* right size, but the bytes are not an HTTP request
      [] c \in CfgClasses    -> f \in HttpFormats
      [] c = "nouri"         -> f = "uripost"   \* size line with a single field
      [] c = "badurl"        -> f \in {"uri", "uripost"}            \* url.Parse fails
      [] c = "badmethod"     -> f \in {"jsonline", "jsonarray"}     \* not an HTTP method token
      [] OTHER               -> FALSE

\* readers built on bufio.Scanner have a line limit (64 KiB unless max ammo size is raised); the
\* ReadString / json.Decoder based readers have none, so for them an over-long line is just an entry
HasLineLimit(f) == f \in {"uri", "grpcjson"}

\* what the reader does with the item of class c:
\*   "deliver" - it is an ordinary entry for this reader
\*   "reject"  - the reader must fail with an error
\*   "either"  - the statement does not say (a JSON null decodes to an empty entry); accept or reject
Verdict(f, c) ==
    CASE c = "none"      -> "deliver"
      [] c \in BigOkClasses \cup {"size0"} -> "deliver"
      [] c = "longline"  -> IF HasLineLimit(f) THEN "reject" ELSE "deliver"
      [] c = "nullvalue" -> "either"
      [] c \in EitherJsonClasses -> "either"
      [] c = "hdr_late"  -> "silent"       \* legal header lines: nothing is delivered for them, nothing fails
      [] OTHER           -> "reject"

\* verdict of a case (the parameterised classes look at c.arg)
\* ("mustskip": the undecodable lines of a long continue-on-error file are stepped over, one by one)
VerdictC(c) == IF c.cls = "degen" THEN "either" ELSE IF c.cls = "bufline" THEN BufVerdict(c.arg) ELSE
               IF c.cls = "cut" THEN (IF c.arg[1] = "body_nonl" THEN "deliver" ELSE "reject")
               ELSE IF c.cls = "long" THEN "mustskip"
               ELSE IF c.cls = "rerun" THEN Verdict(c.format, c.arg[1])
               ELSE Verdict(c.format, c.cls)
\* file passes requested from the provider
NPasses(c) == IF c.cls \in {"cut", "rerun"} THEN c.arg[2] ELSE IF c.cls = "long" THEN c.arg[3] ELSE 1
\* limit on the number of deliveries (0: none)
Limit(c) == IF c.cls = "rerun" THEN c.arg[3] ELSE 0

\* continue-on-error can step over an item only when the reader can find the next one:
\* a line that decodes badly, not a line the scanner could not even produce
Skippable(f, c) == f = "grpcjson" /\ c \in JsonClasses \cup EitherJsonClasses \cup {"long"}

\* whole-file readers decode everything before the first delivery
WholeFile(f, m) == f = "jsonarray" \/ m = "preload"
\* where the defect is met: before the first delivery (constructor / load), or at the item
AtLoad(c) == WholeFile(c.format, c.mode) \/ c.cls \in CfgClasses

-----------------------------------------------------------------------------
(* Descriptions *)

ScenarioTargets == {"http_hcl", "http_yaml", "grpc_hcl", "grpc_yaml"}
DescTargets     == ScenarioTargets \cup {"config"}

Stages == <<"construct", "run", "prepare", "post">>

\* class -> [targets, stage at which the defect is met, verdict]
DescTable == [
    d_none           |-> [t |-> DescTargets,     at |-> 0, v |-> "deliver"],
    leading_sleep    |-> [t |-> ScenarioTargets, at |-> 1, v |-> "reject"],
    unknown_request  |-> [t |-> ScenarioTargets, at |-> 1, v |-> "reject"],
    bad_count        |-> [t |-> ScenarioTargets, at |-> 1, v |-> "reject"],
    bad_bracket      |-> [t |-> ScenarioTargets, at |-> 1, v |-> "reject"],
    syntax           |-> [t |-> ScenarioTargets, at |-> 1, v |-> "reject"],
    wrongtype        |-> [t |-> ScenarioTargets, at |-> 1, v |-> "reject"],
    unknown_plugin   |-> [t |-> ScenarioTargets, at |-> 1, v |-> "reject"],
    missing_source   |-> [t |-> ScenarioTargets, at |-> 1, v |-> "reject"],
    bad_csv          |-> [t |-> ScenarioTargets, at |-> 1, v |-> "reject"],
    bad_json_source  |-> [t |-> ScenarioTargets, at |-> 1, v |-> "reject"],
    unknown_source   |-> [t |-> ScenarioTargets, at |-> 1, v |-> "reject"],
    no_scenarios     |-> [t |-> ScenarioTargets, at |-> 2, v |-> "reject"],
    null_source      |-> [t |-> {"http_yaml", "grpc_yaml"}, at |-> 1, v |-> "reject"],
    null_postproc    |-> [t |-> {"http_yaml", "grpc_yaml"}, at |-> 1, v |-> "reject"],
    null_preproc     |-> [t |-> {"grpc_yaml"}, at |-> 1, v |-> "reject"],
    empty_plugin     |-> [t |-> ScenarioTargets, at |-> 1, v |-> "reject"],
    bool_key         |-> [t |-> {"http_yaml", "grpc_yaml"}, at |-> 1, v |-> "reject"],
    neg_weight       |-> [t |-> ScenarioTargets, at |-> 1, v |-> "reject"],
    \* a weight that fits an int64 but makes the weighted ring absurd (2^62 next to 50: 2^61 + 25 ring entries)
    huge_weight      |-> [t |-> ScenarioTargets, at |-> 1, v |-> "reject"],
    var_randint_eq   |-> [t |-> ScenarioTargets, at |-> 1, v |-> "either"],
    var_randint_ovf  |-> [t |-> ScenarioTargets, at |-> 1, v |-> "either"],
    var_randint_nan  |-> [t |-> ScenarioTargets, at |-> 1, v |-> "reject"],
    var_randint_3    |-> [t |-> ScenarioTargets, at |-> 1, v |-> "reject"],
    var_randstr_neg  |-> [t |-> ScenarioTargets, at |-> 1, v |-> "either"],
    empty_csv_0      |-> [t |-> ScenarioTargets, at |-> 3, v |-> "reject"],
    empty_csv_next   |-> [t |-> ScenarioTargets, at |-> 3, v |-> "reject"],
    empty_csv_last   |-> [t |-> ScenarioTargets, at |-> 3, v |-> "reject"],
    empty_csv_rand   |-> [t |-> ScenarioTargets, at |-> 3, v |-> "reject"],
    empty_json_0     |-> [t |-> ScenarioTargets, at |-> 3, v |-> "reject"],
    empty_json_next  |-> [t |-> ScenarioTargets, at |-> 3, v |-> "reject"],
    empty_json_last  |-> [t |-> ScenarioTargets, at |-> 3, v |-> "reject"],
    empty_json_rand  |-> [t |-> ScenarioTargets, at |-> 3, v |-> "reject"],
    map_randint_eq   |-> [t |-> ScenarioTargets, at |-> 3, v |-> "either"],
    map_randint_ovf  |-> [t |-> ScenarioTargets, at |-> 3, v |-> "either"],
    map_randstr_neg  |-> [t |-> ScenarioTargets, at |-> 3, v |-> "either"],
    map_neg_index    |-> [t |-> ScenarioTargets, at |-> 0, v |-> "deliver"],
    map_empty_index  |-> [t |-> ScenarioTargets, at |-> 3, v |-> "reject"],
    map_unclosed     |-> [t |-> ScenarioTargets, at |-> 3, v |-> "reject"],
    map_huge_index   |-> [t |-> ScenarioTargets, at |-> 3, v |-> "reject"],
    map_bad_index    |-> [t |-> ScenarioTargets, at |-> 3, v |-> "reject"],
    xpath_ok         |-> [t |-> {"http_hcl", "http_yaml"}, at |-> 0, v |-> "deliver"],
    xpath_number     |-> [t |-> {"http_hcl", "http_yaml"}, at |-> 4, v |-> "reject"],
    xpath_string     |-> [t |-> {"http_hcl", "http_yaml"}, at |-> 4, v |-> "reject"],
    xpath_bool       |-> [t |-> {"http_hcl", "http_yaml"}, at |-> 4, v |-> "reject"],
    xpath_invalid    |-> [t |-> {"http_hcl", "http_yaml"}, at |-> 4, v |-> "reject"],
    \* syntax families (round 4 growth): grammar violations of the description text are rejected while it is read;
    \* legal layouts (CRLF, YAML aliases) are delivered; what the grammar allows but the statement does not pin, and
    \* malformed DATA files of the variable sources, are `lax`: an error at some stage or a normal run - never a crash
    hcl_unclosed_block       |-> [t |-> {"http_hcl", "grpc_hcl"}, at |-> 1, v |-> "reject"],
    hcl_extra_close          |-> [t |-> {"http_hcl", "grpc_hcl"}, at |-> 1, v |-> "reject"],
    hcl_unclosed_string      |-> [t |-> {"http_hcl", "grpc_hcl"}, at |-> 1, v |-> "reject"],
    hcl_unclosed_heredoc     |-> [t |-> {"http_hcl", "grpc_hcl"}, at |-> 1, v |-> "reject"],
    hcl_unclosed_template    |-> [t |-> {"http_hcl", "grpc_hcl"}, at |-> 1, v |-> "reject"],
    hcl_unclosed_list        |-> [t |-> {"http_hcl", "grpc_hcl"}, at |-> 1, v |-> "reject"],
    hcl_missing_eq           |-> [t |-> {"http_hcl", "grpc_hcl"}, at |-> 1, v |-> "reject"],
    hcl_bare_word            |-> [t |-> {"http_hcl", "grpc_hcl"}, at |-> 1, v |-> "reject"],
    hcl_unknown_function     |-> [t |-> {"http_hcl", "grpc_hcl"}, at |-> 1, v |-> "reject"],
    hcl_unknown_local        |-> [t |-> {"http_hcl", "grpc_hcl"}, at |-> 1, v |-> "reject"],
    hcl_unknown_root         |-> [t |-> {"http_hcl", "grpc_hcl"}, at |-> 1, v |-> "reject"],
    hcl_cyclic_local_used    |-> [t |-> {"http_hcl", "grpc_hcl"}, at |-> 1, v |-> "reject"],
    hcl_two_labels           |-> [t |-> {"http_hcl", "grpc_hcl"}, at |-> 1, v |-> "reject"],
    hcl_no_label             |-> [t |-> {"http_hcl", "grpc_hcl"}, at |-> 1, v |-> "reject"],
    hcl_label_unquoted_number |-> [t |-> {"http_hcl", "grpc_hcl"}, at |-> 1, v |-> "reject"],
    hcl_unknown_block        |-> [t |-> {"http_hcl", "grpc_hcl"}, at |-> 1, v |-> "reject"],
    hcl_unknown_attr         |-> [t |-> {"http_hcl", "grpc_hcl"}, at |-> 1, v |-> "reject"],
    hcl_dup_attr             |-> [t |-> {"http_hcl", "grpc_hcl"}, at |-> 1, v |-> "reject"],
    hcl_block_as_attr        |-> [t |-> {"http_hcl", "grpc_hcl"}, at |-> 1, v |-> "reject"],
    hcl_attr_as_block        |-> [t |-> {"http_hcl", "grpc_hcl"}, at |-> 1, v |-> "reject"],
    hcl_top_level_attr       |-> [t |-> {"http_hcl", "grpc_hcl"}, at |-> 1, v |-> "reject"],
    hcl_nul_outside          |-> [t |-> {"http_hcl", "grpc_hcl"}, at |-> 1, v |-> "reject"],
    hcl_json_text            |-> [t |-> {"http_hcl", "grpc_hcl"}, at |-> 1, v |-> "reject"],
    hcl_deep_unclosed        |-> [t |-> {"http_hcl", "grpc_hcl"}, at |-> 1, v |-> "reject"],
    hcl_empty_file           |-> [t |-> {"http_hcl", "grpc_hcl"}, at |-> 2, v |-> "reject"],
    hcl_only_comment         |-> [t |-> {"http_hcl", "grpc_hcl"}, at |-> 2, v |-> "reject"],
    hcl_crlf                 |-> [t |-> {"http_hcl", "grpc_hcl"}, at |-> 0, v |-> "deliver"],
    hcl_cyclic_locals        |-> [t |-> {"http_hcl", "grpc_hcl"}, at |-> 1, v |-> "lax"],
    hcl_self_local           |-> [t |-> {"http_hcl", "grpc_hcl"}, at |-> 1, v |-> "lax"],
    hcl_dup_request          |-> [t |-> {"http_hcl", "grpc_hcl"}, at |-> 1, v |-> "lax"],
    hcl_nul                  |-> [t |-> {"http_hcl", "grpc_hcl"}, at |-> 1, v |-> "lax"],
    hcl_bom                  |-> [t |-> {"http_hcl", "grpc_hcl"}, at |-> 1, v |-> "lax"],
    hcl_badutf8              |-> [t |-> {"http_hcl", "grpc_hcl"}, at |-> 1, v |-> "lax"],
    hcl_deep_list            |-> [t |-> {"http_hcl", "grpc_hcl"}, at |-> 1, v |-> "lax"],
    hcl_deep_parens          |-> [t |-> {"http_hcl", "grpc_hcl"}, at |-> 1, v |-> "lax"],
    hcl_unary_chain          |-> [t |-> {"http_hcl", "grpc_hcl"}, at |-> 1, v |-> "lax"],
    hcl_huge_weight          |-> [t |-> {"http_hcl", "grpc_hcl"}, at |-> 1, v |-> "lax"],
    hcl_float_weight         |-> [t |-> {"http_hcl", "grpc_hcl"}, at |-> 1, v |-> "lax"],
    hcl_string_weight        |-> [t |-> {"http_hcl", "grpc_hcl"}, at |-> 1, v |-> "lax"],
    hcl_long_string          |-> [t |-> {"http_hcl", "grpc_hcl"}, at |-> 1, v |-> "lax"],
    yaml_tab                 |-> [t |-> {"http_yaml", "grpc_yaml"}, at |-> 1, v |-> "reject"],
    yaml_bad_indent          |-> [t |-> {"http_yaml", "grpc_yaml"}, at |-> 1, v |-> "reject"],
    yaml_unclosed_quote      |-> [t |-> {"http_yaml", "grpc_yaml"}, at |-> 1, v |-> "reject"],
    yaml_unclosed_flow       |-> [t |-> {"http_yaml", "grpc_yaml"}, at |-> 1, v |-> "reject"],
    yaml_missing_colon       |-> [t |-> {"http_yaml", "grpc_yaml"}, at |-> 1, v |-> "reject"],
    yaml_alias_undefined     |-> [t |-> {"http_yaml", "grpc_yaml"}, at |-> 1, v |-> "reject"],
    yaml_nul                 |-> [t |-> {"http_yaml", "grpc_yaml"}, at |-> 1, v |-> "reject"],
    yaml_scalar_doc          |-> [t |-> {"http_yaml", "grpc_yaml"}, at |-> 1, v |-> "reject"],
    yaml_list_doc            |-> [t |-> {"http_yaml", "grpc_yaml"}, at |-> 1, v |-> "reject"],
    yaml_tag_bad             |-> [t |-> {"http_yaml", "grpc_yaml"}, at |-> 1, v |-> "reject"],
    yaml_unknown_key         |-> [t |-> {"http_yaml", "grpc_yaml"}, at |-> 1, v |-> "reject"],
    yaml_empty_file          |-> [t |-> {"http_yaml", "grpc_yaml"}, at |-> 2, v |-> "reject"],
    yaml_only_comment        |-> [t |-> {"http_yaml", "grpc_yaml"}, at |-> 2, v |-> "reject"],
    yaml_crlf                |-> [t |-> {"http_yaml", "grpc_yaml"}, at |-> 0, v |-> "deliver"],
    yaml_alias_ok            |-> [t |-> {"http_yaml", "grpc_yaml"}, at |-> 0, v |-> "deliver"],
    yaml_dup_key             |-> [t |-> {"http_yaml", "grpc_yaml"}, at |-> 1, v |-> "lax"],
    yaml_anchor_cycle        |-> [t |-> {"http_yaml", "grpc_yaml"}, at |-> 1, v |-> "lax"],
    yaml_laughs              |-> [t |-> {"http_yaml", "grpc_yaml"}, at |-> 1, v |-> "lax"],
    yaml_laughs_used         |-> [t |-> {"http_yaml", "grpc_yaml"}, at |-> 1, v |-> "lax"],
    yaml_bom                 |-> [t |-> {"http_yaml", "grpc_yaml"}, at |-> 1, v |-> "lax"],
    yaml_badutf8             |-> [t |-> {"http_yaml", "grpc_yaml"}, at |-> 1, v |-> "lax"],
    yaml_second_doc          |-> [t |-> {"http_yaml", "grpc_yaml"}, at |-> 1, v |-> "lax"],
    yaml_deep_flow           |-> [t |-> {"http_yaml", "grpc_yaml"}, at |-> 1, v |-> "lax"],
    csv_crlf                 |-> [t |-> ScenarioTargets, at |-> 0, v |-> "deliver"],
    csv_ragged_short         |-> [t |-> ScenarioTargets, at |-> 1, v |-> "lax"],
    csv_ragged_long          |-> [t |-> ScenarioTargets, at |-> 1, v |-> "lax"],
    csv_wrong_delim          |-> [t |-> ScenarioTargets, at |-> 1, v |-> "lax"],
    csv_bare_quote           |-> [t |-> ScenarioTargets, at |-> 1, v |-> "lax"],
    csv_quote_garbage        |-> [t |-> ScenarioTargets, at |-> 1, v |-> "lax"],
    csv_only_header          |-> [t |-> ScenarioTargets, at |-> 1, v |-> "lax"],
    csv_zero_bytes           |-> [t |-> ScenarioTargets, at |-> 1, v |-> "lax"],
    csv_blank_lines          |-> [t |-> ScenarioTargets, at |-> 1, v |-> "lax"],
    csv_cr_only              |-> [t |-> ScenarioTargets, at |-> 1, v |-> "lax"],
    csv_nul                  |-> [t |-> ScenarioTargets, at |-> 1, v |-> "lax"],
    csv_bom                  |-> [t |-> ScenarioTargets, at |-> 1, v |-> "lax"],
    csv_badutf8              |-> [t |-> ScenarioTargets, at |-> 1, v |-> "lax"],
    csv_huge_field           |-> [t |-> ScenarioTargets, at |-> 1, v |-> "lax"],
    csv_many_fields          |-> [t |-> ScenarioTargets, at |-> 1, v |-> "lax"],
    csv_binary               |-> [t |-> ScenarioTargets, at |-> 1, v |-> "lax"],
    csv_is_dir               |-> [t |-> ScenarioTargets, at |-> 1, v |-> "lax"],
    json_zero_bytes          |-> [t |-> ScenarioTargets, at |-> 1, v |-> "reject"],
    json_deep_unclosed       |-> [t |-> ScenarioTargets, at |-> 1, v |-> "reject"],
    json_nul                 |-> [t |-> ScenarioTargets, at |-> 1, v |-> "reject"],
    json_is_dir              |-> [t |-> ScenarioTargets, at |-> 1, v |-> "lax"],
    json_scalar              |-> [t |-> ScenarioTargets, at |-> 1, v |-> "lax"],
    json_string              |-> [t |-> ScenarioTargets, at |-> 1, v |-> "lax"],
    json_null                |-> [t |-> ScenarioTargets, at |-> 1, v |-> "lax"],
    json_list_scalars        |-> [t |-> ScenarioTargets, at |-> 1, v |-> "lax"],
    json_trailing_garbage    |-> [t |-> ScenarioTargets, at |-> 1, v |-> "lax"],
    json_two_values          |-> [t |-> ScenarioTargets, at |-> 1, v |-> "lax"],
    json_bom                 |-> [t |-> ScenarioTargets, at |-> 1, v |-> "lax"],
    json_deep                |-> [t |-> ScenarioTargets, at |-> 1, v |-> "lax"],
    json_dup_key             |-> [t |-> ScenarioTargets, at |-> 1, v |-> "lax"],
    json_huge_number         |-> [t |-> ScenarioTargets, at |-> 1, v |-> "lax"],
    json_huge_string         |-> [t |-> ScenarioTargets, at |-> 1, v |-> "lax"],
    prop_nokey       |-> [t |-> {"config"},      at |-> 1, v |-> "reject"],
    prop_nofile      |-> [t |-> {"config"},      at |-> 1, v |-> "reject"],
    prop_nosuchkey   |-> [t |-> {"config"},      at |-> 1, v |-> "reject"],
    prop_emptykey    |-> [t |-> {"config"},      at |-> 1, v |-> "reject"],
    prop_dir         |-> [t |-> {"config"},      at |-> 1, v |-> "reject"],
    unknown_tag      |-> [t |-> {"config"},      at |-> 0, v |-> "deliver"],
    env_unset        |-> [t |-> {"config"},      at |-> 1, v |-> "reject"],
    env_badint       |-> [t |-> {"config"},      at |-> 1, v |-> "reject"]
]
DescClasses == DOMAIN DescTable

\* a config value has a single stage
LastStage(t) == IF t = "config" THEN 1 ELSE IF t = "pool" THEN 2 ELSE IF t = "cfg" THEN 3 ELSE 4

-----------------------------------------------------------------------------
(* The case space *)

AmmoCases ==
    { [kind |-> "ammo", format |-> f, mode |-> m, np |-> np, cls |-> c, nt |-> nt, arg |-> <<>>] :
        f \in Formats, m \in Modes("uri") \cup Modes("grpcjson"), np \in 0..MaxPrefix,
        c \in AmmoClasses \ ParamAmmoClasses, nt \in 0..MaxTrail }
    \cup
    { [kind |-> "ammo", format |-> f, mode |-> m, np |-> np, cls |-> "cut", nt |-> 0, arg |-> a] :
        f \in {"uripost", "raw"}, m \in Modes("uri"), np \in 0..MaxPrefix, a \in CutArgs }
    \cup
    UNION { { [kind |-> "ammo", format |-> f, mode |-> m, np |-> np, cls |-> "rerun", nt |-> nt, arg |-> a] :
                m \in Modes(f) \ {"continue"}, np \in 0..2, nt \in 0..1, a \in RerunArgs(f) } : f \in Formats }
    \cup
    { [kind |-> "ammo", format |-> "grpcjson", mode |-> "continue", np |-> 0, cls |-> "long", nt |-> 0, arg |-> a] :
        a \in LongArgs }
    \cup
    { [kind |-> "ammo", format |-> "grpcjson", mode |-> m, np |-> 0, cls |-> "bufline", nt |-> nt, arg |-> a] :
        m \in Modes("grpcjson"), nt \in 0..MaxTrail, a \in BufLineArgs }
    \cup
    UNION { { [kind |-> "ammo", format |-> f, mode |-> "stream", np |-> 0, cls |-> "degen", nt |-> 0, arg |-> a] :
                a \in DegenArgs(f) } : f \in Formats }

AmmoCaseOK(c) ==
    /\ c.mode \in Modes(c.format)
    /\ Applies(c.format, c.cls)
    /\ (c.cls \in {"none", "hdr_late"} => c.np + c.nt > 0)   \* the file without entries is C08's subject
    /\ (c.cls \in EofClasses => c.nt = 0)
    /\ (c.cls = "cut"  => c.nt = 0 /\ c.arg \in CutArgs)
    /\ (c.cls = "rerun" => c.mode \in {"stream", "preload"} /\ c.arg \in RerunArgs(c.format))
    /\ (c.cls = "long" => c.np = 0 /\ c.nt = 0 /\ c.mode = "continue" /\ c.arg \in LongArgs)
    /\ (c.cls = "bufline" => c.np = 0 /\ c.arg \in BufLineArgs)
    /\ (c.cls = "degen" => c.np = 0 /\ c.nt = 0 /\ c.mode = "stream" /\ c.arg \in DegenArgs(c.format))
    /\ (c.cls \notin ParamAmmoClasses => c.arg = <<>>)

DescCases ==
    { [kind |-> "desc", format |-> t, mode |-> "-", np |-> 0, cls |-> c, nt |-> 0, arg |-> <<>>] :
        t \in DescTargets, c \in DescClasses }

DescCaseOK(c) == c.format \in DescTable[c.cls].t

(* Parameterised description families: the case carries its parameters in `arg`, the verdict is computed. *)

\* (a) scenario request lists.  arg = the list of step tokens; every request step is the self-contained
\*     `auth_req`.  convertScenarioToAmmo walks the list: a request step appends max(count,0) requests, a
\*     sleep step adds to the LAST appended request - so it needs one (what is IN FRONT of a sleep matters,
\*     not its position) -, a step that does not parse is an error.
AllReqTokens == {"R1", "Rdef", "Rsl", "R0", "Rneg", "Rbig", "Rbad", "Rhuge",
                 "S", "S0", "Sneg", "Sempty", "Sbad", "Shuge"}
SleepTokens  == {"S", "S0", "Sneg", "Sempty"}           \* sleep(100) sleep(0) sleep(-1) sleep()
BadTokens    == {"Rbad", "Rhuge", "Sbad", "Shuge"}      \* auth_req(x) auth_req(10^20) sleep(abc) sleep(10^20)
Unpinned     == {"Rneg", "Sneg"}                        \* negative count / negative sleep: the statement does not say
ReqCount(t)  == CASE t \in {"R1", "Rdef", "Rsl"} -> 1 [] t = "Rbig" -> 50 [] OTHER -> 0

RECURSIVE RLRejects(_, _, _)
RLRejects(l, i, n) ==
    IF i > Len(l) THEN FALSE
    ELSE IF l[i] \in BadTokens THEN TRUE
    ELSE IF l[i] \in SleepTokens THEN (IF n = 0 THEN TRUE ELSE RLRejects(l, i + 1, n))
    ELSE RLRejects(l, i + 1, n + ReqCount(l[i]))

ReqLists == UNION { [1..n -> ReqTokens] : n \in 0..MaxReqLen }
ReqListVerdict(l) == IF RLRejects(l, 1, 0) THEN "reject"
                     ELSE IF \E i \in 1..Len(l) : l[i] \in Unpinned THEN "either" ELSE "deliver"

\* (b) literal indexes into a data source of 1..3 rows, in a preprocessor mapping ("map") and as an argument of
\*     a template function ("func").  arg = <<rows, index token, where>>.  An index inside 0..rows-1 is
\*     well-formed; for everything else (negative, past the end, beyond int64) the statement only forbids the
\*     crash: a value (wrap-around) or an error.
IdxTokens == {"m2l1", "ml1", "ml", "m1", "z", "l1", "l", "2l1", "huge", "minint", "maxint"}
IndexArgs == { <<n, t, w>> : n \in 1..3, t \in IdxTokens, w \in {"map", "func"} }
IndexVerdict(a) == IF a[2] \in {"z", "l1"} THEN "deliver" ELSE "either"

\* (c) boundary arguments of the template functions, in a `variables` source ("var": evaluated by the
\*     constructor) and in a preprocessor mapping ("map": evaluated while shooting).
\*     arg = <<function, a, b, where>>; randInt(a, b), randString(a) (b = "-").  Never a crash; value or error.
NumTokens == {"minint", "m1", "z", "p1", "maxint"}
FuncArgs  == { <<"randInt", a, b, w>> : a \in NumTokens, b \in NumTokens, w \in {"var", "map"} }
             \cup { <<"randString", a, "-", w>> : a \in NumTokens \ {"maxint"}, w \in {"var", "map"} }

\* (d) POOL-level sections of a complete pandora configuration read the way the CLI reads it (viper, readConfig,
\*     DecodeAndValidate with every real plugin registered) and, if that succeeds, run by a real Engine.
\*     Two pools; the first is well-formed, the second (index 1, id "pool-1") carries the defect.  Stages:
\*     construct = readConfig returns, run = Engine.Run returns nil having shot.  at = where the defect is met
\*     (provider / gun / startup schedule are built while decoding; the rps schedule is built per instance by a
\*     factory, i.e. when the pool starts).  nm = how the error names the pool ("-": there is no pool to name).
PoolTable == [
    p_none                |-> [at |-> 0, v |-> "deliver", nm |-> "-"],
    p_ammo_wrongtype      |-> [at |-> 1, v |-> "reject",  nm |-> "pools[1]"],
    p_ammo_listvalue      |-> [at |-> 1, v |-> "reject",  nm |-> "pools[1]"],
    p_ammo_neg            |-> [at |-> 1, v |-> "reject",  nm |-> "pools[1]"],
    p_ammo_negsize        |-> [at |-> 1, v |-> "reject",  nm |-> "pools[1]"],
    p_ammo_unknown_type   |-> [at |-> 1, v |-> "reject",  nm |-> "pools[1]"],
    p_ammo_empty_type     |-> [at |-> 1, v |-> "reject",  nm |-> "pools[1]"],
    p_ammo_unknown_key    |-> [at |-> 1, v |-> "reject",  nm |-> "pools[1]"],
    p_ammo_scalar         |-> [at |-> 1, v |-> "reject",  nm |-> "pools[1]"],
    p_ammo_null           |-> [at |-> 1, v |-> "reject",  nm |-> "pools[1]"],
    p_ammo_missing        |-> [at |-> 1, v |-> "reject",  nm |-> "pools[1]"],
    p_ammo_nofile         |-> [at |-> 1, v |-> "reject",  nm |-> "pools[1]"],
    p_gun_unknown_type    |-> [at |-> 1, v |-> "reject",  nm |-> "pools[1]"],
    p_gun_wrongtype       |-> [at |-> 1, v |-> "reject",  nm |-> "pools[1]"],
    p_gun_unknown_key     |-> [at |-> 1, v |-> "reject",  nm |-> "pools[1]"],
    p_gun_scalar          |-> [at |-> 1, v |-> "reject",  nm |-> "pools[1]"],
    p_gun_badtarget       |-> [at |-> 1, v |-> "reject",  nm |-> "pools[1]"],
    p_startup_neg         |-> [at |-> 1, v |-> "reject",  nm |-> "pools[1]"],
    p_result_unknown_type |-> [at |-> 1, v |-> "reject",  nm |-> "pools[1]"],
    p_pool_scalar         |-> [at |-> 1, v |-> "reject",  nm |-> "pools[1]"],
    p_pool_null           |-> [at |-> 1, v |-> "reject",  nm |-> "pools[1]"],
    p_pool_list           |-> [at |-> 1, v |-> "reject",  nm |-> "pools[1]"],
    p_rps_neg             |-> [at |-> 2, v |-> "reject",  nm |-> "pool-1"],
    p_rps_wrongtype       |-> [at |-> 2, v |-> "reject",  nm |-> "pool-1"],
    p_rps_negduration     |-> [at |-> 2, v |-> "reject",  nm |-> "pool-1"],
    p_pools_scalar        |-> [at |-> 1, v |-> "reject",  nm |-> "-"],
    p_pools_map           |-> [at |-> 1, v |-> "reject",  nm |-> "-"],
    p_pools_missing       |-> [at |-> 1, v |-> "reject",  nm |-> "-"],
    p_pools_null          |-> [at |-> 1, v |-> "reject",  nm |-> "-"]
]
PoolClasses == DOMAIN PoolTable
PoolCases == { [kind |-> "desc", format |-> "pool", mode |-> "-", np |-> 0, cls |-> c, nt |-> 0, arg |-> <<>>] : c \in PoolClasses }
\* the name the rejection must carry ("-": none)
NameOf(c) == IF c.format = "pool" THEN PoolTable[c.cls].nm ELSE "-"

\* (f) PROPERTY FILES behind a `${property:file#key}` placeholder (target "config").  The file is a sequence of LINES
\*     over PropTokens, written in a layout; the placeholder asks for `req` ("key", or "" - the placeholder without a
\*     key).  An ENTRY is a line with a '=': its key is everything in front of the first '=', its value everything
\*     behind it.  The resolver answers with the value of the FIRST entry whose key is exactly the requested one;
\*     lines without '=' (a truncated entry `key`, blank lines) are not entries; a key is not trimmed and not
\*     un-commented; a byte order mark belongs to the first line.  A line longer than the reader's buffer ends the
\*     reading: what is in front of it resolves as always, what is behind it may or may not be found.
\*     arg = <<lines, req, layout>>.  Observed: Value(v) (what the config field was set to), then the stage.
PropTokens  == {"kv", "kv2", "bare", "blank", "comment", "eqonly", "emptyval", "other", "longer", "eqval", "spaced", "long"}
PropLayouts == {"lf", "crlf", "nofinalnl", "bom"}
PropReqs    == {"key", ""}
PropHasEq(t) == t \notin {"bare", "blank"}
PropKey(t) == CASE t \in {"kv", "kv2", "emptyval", "eqval"} -> "key"      \* key=v1  key=v2  key=  key=a=b
                [] t = "eqonly"  -> ""                                     \* =
                [] t = "other"   -> "other"                                \* other=x
                [] t = "longer"  -> "key2"                                 \* key2=wrong
                [] t = "spaced"  -> " key "                                \* " key = v3"
                [] t = "comment" -> "# key"                                \* "# key=commented"
                [] t = "long"    -> "zlong"                                \* zlong=<70 000 characters>
                [] OTHER         -> "-"
PropVal(t) == CASE t = "kv" -> "v1" [] t = "kv2" -> "v2" [] t = "eqval" -> "a=b" [] OTHER -> ""
PropMatches(l, i, req, lay) == PropHasEq(l[i]) /\ PropKey(l[i]) = req /\ ~(lay = "bom" /\ i = 1)
PropInfo(a) ==
    LET l == a[1]
        hits  == { i \in 1..Len(l) : PropMatches(l, i, a[2], a[3]) }
        longs == { i \in 1..Len(l) : l[i] = "long" }
        first == CHOOSE i \in hits : \A j \in hits : i <= j
    IN IF hits = {} THEN [v |-> "reject", val |-> ""]
       ELSE IF \E j \in longs : j < first THEN [v |-> "either", val |-> PropVal(l[first])]
       ELSE [v |-> "deliver", val |-> PropVal(l[first])]
PropLineSeqs == UNION { [1..n -> PropTokens] : n \in 0..MaxPropLines }
PropArgs  == { <<l, r, lay>> : l \in PropLineSeqs, r \in PropReqs, lay \in PropLayoutSet }
IsPropArg(a) == /\ Len(a) = 3 /\ Len(a[1]) <= MaxPropLines /\ \A i \in 1..Len(a[1]) : a[1][i] \in PropTokens
                /\ a[2] \in PropReqs /\ a[3] \in PropLayouts
PropCases == { [kind |-> "desc", format |-> "config", mode |-> "-", np |-> 0, cls |-> "propfile", nt |-> 0, arg |-> a] : a \in PropArgs }

\* (e) configuration files as text (CfgSchema.tla): target "cfg", stages parse -> construct -> run
CfgCases ==
    { [kind |-> "desc", format |-> "cfg", mode |-> "-", np |-> 0, cls |-> "tree", nt |-> 0, arg |-> a] :
        a \in { x \in CfgTreeArgs : x[1] \in CfgTreeSyn } }
    \cup
    { [kind |-> "desc", format |-> "cfg", mode |-> "-", np |-> 0, cls |-> "text", nt |-> 0, arg |-> a] : a \in CfgTextArgs }
CfgI(c) == CfgInfo(c.cls, c.arg)

ParamCases ==
    PoolCases \cup CfgCases \cup PropCases \cup
    { [kind |-> "desc", format |-> t, mode |-> "-", np |-> 0, cls |-> "tfunc", nt |-> 0, arg |-> a] :
        t \in ScenarioTargets, a \in FuncArgs }
    \cup
    { [kind |-> "desc", format |-> t, mode |-> "-", np |-> 0, cls |-> "reqlist", nt |-> 0, arg |-> l] :
        t \in ScenarioTargets, l \in ReqLists }
    \cup
    { [kind |-> "desc", format |-> t, mode |-> "-", np |-> 0, cls |-> "index", nt |-> 0, arg |-> a] :
        t \in ScenarioTargets, a \in IndexArgs }

\* [t, at, v] of any description case
DescInfo(c) ==
    CASE c.format = "pool" -> [t |-> {"pool"}, at |-> PoolTable[c.cls].at, v |-> PoolTable[c.cls].v]
      [] c.format = "cfg"  -> [t |-> {"cfg"}, at |-> CfgI(c).at, v |-> IF CfgI(c).v = "lax" THEN "either" ELSE CfgI(c).v]
      [] c.cls = "propfile" -> LET i == PropInfo(c.arg) IN [t |-> {"config"}, at |-> IF i.v = "deliver" THEN 0 ELSE 1, v |-> i.v]
      [] c.cls = "reqlist" -> LET v == ReqListVerdict(c.arg) IN
                              [t |-> ScenarioTargets, at |-> IF v = "deliver" THEN 0 ELSE 1, v |-> v]
      [] c.cls = "index"   -> LET v == IndexVerdict(c.arg) IN
                              [t |-> ScenarioTargets, at |-> IF v = "deliver" THEN 0 ELSE 3, v |-> v]
      [] c.cls = "tfunc"   -> [t |-> ScenarioTargets, at |-> IF c.arg[4] = "var" THEN 1 ELSE 3, v |-> "either"]
      [] OTHER             -> DescTable[c.cls]

Cases == {c \in AmmoCases : AmmoCaseOK(c)} \cup {c \in DescCases : DescCaseOK(c)} \cup ParamCases

\* membership in Cases, decided structurally (cheap: evaluated on every state and every trace line)
IsCase(c) ==
    /\ DOMAIN c = {"kind", "format", "mode", "np", "cls", "nt", "arg"}
    /\ IF c.kind = "ammo" THEN
           /\ c.format \in Formats /\ c.cls \in AmmoClasses /\ c.np \in 0..MaxPrefix /\ c.nt \in 0..MaxTrail
           /\ AmmoCaseOK(c)
       ELSE /\ c.kind = "desc" /\ c.mode = "-" /\ c.np = 0 /\ c.nt = 0
            /\ CASE c.format = "pool" -> c.cls \in PoolClasses /\ c.arg = <<>>
                 [] c.format = "cfg"  -> IsCfgCase(c.cls, c.arg) /\ (c.cls = "tree" => c.arg[1] \in CfgSyntaxes)
                 [] c.cls = "propfile" -> c.format = "config" /\ IsPropArg(c.arg)
                 [] c.cls = "reqlist" -> /\ c.format \in ScenarioTargets
                                         /\ Len(c.arg) <= MaxReqLen
                                         /\ \A i \in 1..Len(c.arg) : c.arg[i] \in ReqTokens
                 [] c.cls = "index"   -> c.format \in ScenarioTargets /\ c.arg \in IndexArgs
                 [] c.cls = "tfunc"   -> c.format \in ScenarioTargets /\ c.arg \in FuncArgs
                 [] OTHER             -> c.cls \in DescClasses /\ c.arg = <<>> /\ DescCaseOK(c)

\* ids of the entries of an ammo case, in file order; the item itself is "x" when it is delivered as an
\* ordinary entry (class none is rendered as one more well-formed entry)
PrefixIds(c) == [i \in 1..c.np |-> <<"e", i>>]
TrailIds(c)  == [i \in 1..c.nt |-> <<"t", i>>]
Id2Str(p) == IF p[1] = "e" THEN (IF p[2] = 1 THEN "e1" ELSE IF p[2] = 2 THEN "e2" ELSE "e3")
             ELSE (IF p[2] = 1 THEN "t1" ELSE "t2")
Strs(s) == [i \in 1..Len(s) |-> Id2Str(s[i])]
Prefix(c) == Strs(PrefixIds(c))
Trail(c)  == Strs(TrailIds(c))

\* the file as a sequence of items
\* (long files: nothing here builds the whole file per step - TLC re-evaluates operators on every reference)
IsBad(c, i) == c.arg[2] # 0 /\ (i = 2 \/ i % c.arg[2] = 0)
FileLen(c)  == IF c.cls = "long" THEN c.arg[1] ELSE IF c.cls = "degen" THEN c.arg[2] ELSE c.np + 1 + c.nt
IsItem(c, pos) == IF c.cls = "long" THEN IsBad(c, pos) ELSE pos = c.np + 1
ItemAt(c, pos) == IF IsItem(c, pos) THEN "x"
                  ELSE IF c.cls = "long" THEN ToString(pos)
                  ELSE (Prefix(c) \o <<"x">> \o Trail(c))[pos]
File(c) == [i \in 1..FileLen(c) |-> ItemAt(c, i)]
\* the well-formed entries in front of the first item
Lead(c) == IF c.cls = "long" THEN (IF c.arg[2] = 0 THEN File(c) ELSE <<"1">>) ELSE Prefix(c)

-----------------------------------------------------------------------------
(* Reader state machine.                                                   *)
(* s = [pos, out, res, loaded, spun]                                       *)
(*   pos    : next item (ammo) / next stage (desc), 1-based                *)
(*   out    : delivered ids so far                                         *)
(*   res    : "run" | "accepted" | "rejected"                              *)
(*   n      : steps taken (for the progress bound)                         *)
(*   loaded : whole-file readers: "no" before the decode-everything step,  *)
(*            then "with" / "without" the item in the loaded list          *)

Start(c) == [pos |-> 1, out |-> <<>>, res |-> "run", loaded |-> "no", n |-> 0, pass |-> 1, cnt |-> 0, pd |-> 0]

Ev(kind, arg) == [ev |-> kind, arg |-> arg]

\* may the reader step over the item instead of failing?
MaySkip(c) ==
    \/ c.mode = "continue" /\ Skippable(c.format, c.cls)
    \/ Variant = "swallow"                      \* negative control: errors swallowed everywhere

ItemVerdicts(c) ==
    LET v == VerdictC(c) IN
    (IF v = "either" THEN {"deliver", "reject"} ELSE IF v = "mustskip" THEN {"skip"} ELSE {v})
    \cup (IF (v = "reject" \/ c.cls \in EitherJsonClasses) /\ MaySkip(c) THEN {"skip"} ELSE {})

\* whole-file readers: one decode step over the complete file (s.loaded: "no" -> "with" / "without" the
\* item), then plain deliveries; streaming readers decide at the item
Deliver1(s, id) == [e |-> Ev("Deliver", id), s |-> [s EXCEPT !.pos = @ + 1, !.out = Append(@, id), !.cnt = @ + 1]]
SkipItem(s)     == [e |-> Ev("Skip", "x"), s |-> [s EXCEPT !.pos = @ + 1]]
Reject(s)       == [e |-> Ev("End", "rejected"),
                    s |-> [s EXCEPT !.res = "rejected", !.out = IF Variant = "loseprefix" THEN <<>> ELSE @]]

AmmoSucc(c, s) ==
    IF AtLoad(c) /\ s.loaded = "no" THEN
        { CASE v = "reject"  -> Reject(s)
            [] v = "deliver" -> [e |-> Ev("Load", "with"), s |-> [s EXCEPT !.loaded = "with"]]
            [] v \in {"skip", "silent"} -> [e |-> Ev("Load", "without"), s |-> [s EXCEPT !.loaded = "without"]]
          : v \in ItemVerdicts(c) }
    ELSE IF Limit(c) > 0 /\ s.cnt >= Limit(c) THEN
        \* the limit stops the reader before it looks at the next item
        { [e |-> Ev("End", "accepted"), s |-> [s EXCEPT !.res = "accepted"]] }
    ELSE IF s.pos > FileLen(c) THEN
        \* end of the file: the next pass reads it again from the start (in-file headers forgotten), the last ends the run
        IF s.pass < NPasses(c)
        THEN { [e |-> Ev("Rewind", "-"), s |-> [s EXCEPT !.pos = 1, !.pass = @ + 1]] }
        ELSE { [e |-> Ev("End", "accepted"), s |-> [s EXCEPT !.res = "accepted"]] }
    ELSE IF ~IsItem(c, s.pos) THEN
        { Deliver1(s, ItemAt(c, s.pos)) }
    ELSE IF s.loaded = "with" THEN { Deliver1(s, "x") }
    ELSE IF s.loaded = "without" THEN { SkipItem(s) }
    ELSE UNION {
          CASE v = "deliver" -> { Deliver1(s, "x") }
            [] v = "reject"  -> { Reject(s) }
            [] v = "silent"  -> { SkipItem(s) }
            \* continue-on-error: the bad item is handed out marked invalid (grpc/json: Invalidate()) or dropped
            [] v = "skip"    -> { [e |-> Ev("Deliver", "invalid"), s |-> [s EXCEPT !.pos = IF Variant = "spin" THEN @ ELSE @ + 1]],
                                  SkipItem(s) }
          : v \in ItemVerdicts(c) }

\* degenerate-only files, unlimited passes, `take` consumers (see ParamAmmoClasses).  pd = handed out in this pass.
\* Before the run ends the driver reports how often the file was rewound: Rewinds(k), k = passes the consumers saw
\* begin - 1, plus at most one rewind per entry the reader is ahead of them (the entry in its hand + what its sink
\* buffers: grpc 128, http none).
SinkBuffer(f) == IF f = "grpcjson" THEN 128 ELSE 0
DegenSucc(c, s) ==
    LET n     == c.arg[2]
        take  == c.arg[3]
        treat == DegenTreat(c.format, c.arg[1])
        acc   == [e |-> Ev("End", "accepted"), s |-> [s EXCEPT !.res = "accepted"]]
        ends  == IF s.cnt >= take THEN { acc }                               \* the consumers have what they wanted
                 ELSE IF s.pos > n THEN (IF s.pd = 0 /\ Variant # "freerewind" THEN { Reject(s) } ELSE {})   \* a pass without ammo
                 ELSE IF "reject" \in treat THEN { Reject(s) } ELSE {}
        goes  == IF s.cnt >= take THEN {}
                 ELSE IF s.pos > n
                      THEN (IF s.pd > 0 \/ Variant = "freerewind"
                              THEN { [e |-> Ev("Rewind", "-"), s |-> [s EXCEPT !.pos = 1, !.pass = @ + 1, !.pd = 0]] } ELSE {})
                 ELSE (IF "skip" \in treat THEN { SkipItem(s) } ELSE {})
                      \cup (IF "handout" \in treat
                              THEN { [e |-> Ev("Deliver", "d"), s |-> [s EXCEPT !.pos = @ + 1, !.cnt = @ + 1, !.pd = @ + 1, !.out = Append(@, "d")]] }
                              ELSE {})
    IN IF s.loaded = "counted" THEN ends
       ELSE goes \cup (IF ends # {} THEN { [e |-> Ev("Rewinds", ToString(k)), s |-> [s EXCEPT !.loaded = "counted"]] : k \in (s.pass - 1)..(s.pass + SinkBuffer(c.format)) }
                                    ELSE {})

DescSucc(c, s) ==
    LET d == DescInfo(c) IN
    IF s.pos > LastStage(c.format) THEN
        { [e |-> Ev("End", "accepted"), s |-> [s EXCEPT !.res = "accepted"]] }
    ELSE IF d.v = "lax" THEN
        \* not pinned by the statement: an error at the stage where the defect is met or at any later one, or none
        { [e |-> Ev("Stage", Stages[s.pos]), s |-> [s EXCEPT !.pos = @ + 1]] }
        \cup (IF s.pos >= d.at /\ Variant # "swallow" THEN { [e |-> Ev("End", "rejected"), s |-> [s EXCEPT !.res = "rejected"]] } ELSE {})
    ELSE IF s.pos # d.at THEN
        { [e |-> Ev("Stage", Stages[s.pos]), s |-> [s EXCEPT !.pos = @ + 1]] }
    ELSE
        \* a pool-level rejection names the pool first (Variant "noname": negative control)
        (IF d.v \in {"reject", "either"} /\ Variant # "swallow"
            THEN (IF NameOf(c) # "-" /\ s.loaded = "no" /\ Variant # "noname"
                  THEN { [e |-> Ev("Named", NameOf(c)), s |-> [s EXCEPT !.loaded = "named"]] }
                  ELSE { [e |-> Ev("End", "rejected"), s |-> [s EXCEPT !.res = "rejected"]] })
            ELSE {})
        \cup
        (IF d.v \in {"deliver", "either"} \/ Variant = "swallow"
            THEN { [e |-> Ev("Stage", Stages[s.pos]), s |-> [s EXCEPT !.pos = @ + 1]] } ELSE {})

\* configuration text (CfgSchema): parse -> construct -> run.  A `reject` case ends at the stage where the
\* defect is met; a `lax` case may end at that stage or at any later one, or be accepted (also without having
\* shot: an empty pool list is a configuration with nothing to do); a rejection inside the second pool names it
\* the way that stage names pools ("pools[1]" while decoding, "pool-1" once the engine runs it).
CfgSucc(c, s) ==
    LET i    == CfgI(c)
        nm   == CfgNameOf(i, s.pos)
        pass == [e |-> Ev("Stage", CfgStages[s.pos]), s |-> [s EXCEPT !.pos = @ + 1]]
        end  == [e |-> Ev("End", "rejected"), s |-> [s EXCEPT !.res = "rejected"]]
        name(x) == [e |-> Ev("Named", x), s |-> [s EXCEPT !.loaded = "named"]]
        mayReject == Variant # "swallow" /\ ((i.v = "reject" /\ s.pos = i.at) \/ (i.v = "lax" /\ s.pos >= i.at))
        mayPass   == i.v \in {"deliver", "lax"} \/ s.pos # i.at \/ Variant = "swallow"
    IN
    IF s.pos > 3 THEN { [e |-> Ev("End", "accepted"), s |-> [s EXCEPT !.res = "accepted"]] }
    ELSE (IF mayReject
            THEN (IF nm # "-" /\ s.loaded = "no" /\ Variant # "noname" THEN { name(nm) }
                  ELSE IF i.opt /\ s.loaded = "no" /\ s.pos = 2 THEN { name("pools[1]"), end }
                  ELSE { end })
            ELSE {})
         \cup (IF mayPass /\ s.loaded = "no" THEN { pass } ELSE {})
         \cup (IF i.v = "lax" /\ s.pos = 3 /\ s.loaded = "no"
                 THEN { [e |-> Ev("End", "accepted"), s |-> [s EXCEPT !.res = "accepted"]] } ELSE {})

\* property files: the value the field got is observed first, then the (single) stage of a config value
PropSucc(c, s) ==
    LET i == PropInfo(c.arg) IN
    IF s.pos > 1 THEN { [e |-> Ev("End", "accepted"), s |-> [s EXCEPT !.res = "accepted"]] }
    ELSE (IF i.v \in {"deliver", "either"} \/ Variant = "swallow"
            THEN (IF s.loaded = "no" THEN { [e |-> Ev("Value", i.val), s |-> [s EXCEPT !.loaded = "valued"]] }
                  ELSE { [e |-> Ev("Stage", Stages[1]), s |-> [s EXCEPT !.pos = @ + 1]] })
            ELSE {})
         \cup (IF i.v \in {"reject", "either"} /\ s.loaded = "no" /\ Variant # "swallow"
                 THEN { [e |-> Ev("End", "rejected"), s |-> [s EXCEPT !.res = "rejected"]] } ELSE {})

Succ(c, s) ==
    IF s.res # "run" THEN {}
    ELSE { [e |-> x.e, s |-> [x.s EXCEPT !.n = @ + 1]] :
             x \in (IF c.kind = "ammo" THEN (IF c.cls = "degen" THEN DegenSucc(c, s) ELSE AmmoSucc(c, s)) ELSE IF c.format = "cfg" THEN CfgSucc(c, s) ELSE IF c.cls = "propfile" THEN PropSucc(c, s) ELSE DescSucc(c, s)) }

\* events the implementation cannot show are silent for the acceptor
Silent(e) == e.ev \in {"Load", "Skip", "Rewind"}     \* (degen: the rewinds are reported as a count, Rewinds(k))

-----------------------------------------------------------------------------
(* Design-level behaviour *)

Init == cs \in Cases /\ st = Start(cs)
Next == /\ st.res = "run"
        /\ \E x \in Succ(cs, st) : st' = x.s
        /\ UNCHANGED cs
Spec == Init /\ [][Next]_vars

Done == st.res # "run"

-----------------------------------------------------------------------------
(* Properties *)

IsPrefixOf(a, b) == Len(a) <= Len(b) /\ \A i \in 1..Len(a) : a[i] = b[i]
Without(seq, x) == SelectSeq(seq, LAMBDA y : y # x)

WellFormed(c) == Without(File(c), "x")
RECURSIVE Rep(_, _)
Rep(seq, k) == IF k = 0 THEN <<>> ELSE seq \o Rep(seq, k - 1)
Take(seq, k) == IF k >= Len(seq) THEN seq ELSE SubSeq(seq, 1, k)
\* rerun: the item counts against the limit when it is an ordinary entry
Delivered(c) == IF VerdictC(c) = "deliver" THEN File(c) ELSE WellFormed(c)
Expected(c) == IF c.cls = "rerun"
               THEN (IF Limit(c) > 0 THEN Take(Rep(Delivered(c), NPasses(c)), Limit(c)) ELSE Rep(Delivered(c), NPasses(c)))
               ELSE Rep(WellFormed(c), NPasses(c))
\* the limit ends the run before the reader reaches the item
LimitCuts(c) == Limit(c) > 0 /\ ~AtLoad(c) /\ Limit(c) <= Len(Lead(c))
Clean(c, out) == IF c.cls = "rerun" THEN out ELSE Without(out, "x")

TypeOK ==
    /\ IsCase(cs)
    /\ st.res \in {"run", "accepted", "rejected"}
    /\ st.pos \in 1..(IF cs.kind = "ammo" THEN FileLen(cs) + 1 ELSE 5)

\* never alters how well-formed entries before it are delivered: whatever has been delivered so far,
\* minus the item itself, is an initial part of the well-formed entries in file order
\* (for the long files the check is made on the final state only - out only grows, so that implies the rest)
PrefixUnchanged ==
    (cs.kind = "ammo" /\ cs.cls # "degen" /\ (cs.cls # "long" \/ st.res # "run")) => IsPrefixOf(Clean(cs, st.out), Expected(cs))

\* an input that must be rejected is never accepted unless continue-on-error was requested and applies
NoSilentAccept ==
    (st.res = "accepted" /\ cs.kind = "ammo" /\ VerdictC(cs) = "reject")
        => ((cs.mode = "continue" /\ Skippable(cs.format, cs.cls)) \/ LimitCuts(cs))
NoSilentAcceptDesc ==
    (st.res = "accepted" /\ cs.kind = "desc") => DescInfo(cs).v # "reject"

\* a rejected pool configuration has named the pool it rejects
RejectedPoolIsNamed ==
    /\ (st.res = "rejected" /\ cs.kind = "desc" /\ NameOf(cs) # "-") => st.loaded = "named"
    /\ (st.res = "rejected" /\ cs.kind = "desc" /\ cs.format = "cfg" /\ CfgNameOf(CfgI(cs), st.pos) # "-") => st.loaded = "named"

\* a well-formed input is never rejected
NoFalseReject ==
    st.res = "rejected" =>
        IF cs.kind = "ammo" THEN VerdictC(cs) # "deliver" ELSE DescInfo(cs).v # "deliver"

\* streaming: when the reader fails at the item, everything before it has been delivered, unchanged
StreamDeliversPrefix ==
    (st.res = "rejected" /\ cs.kind = "ammo" /\ cs.cls # "degen") =>
        st.out = (IF AtLoad(cs) THEN <<>> ELSE Lead(cs))

\* accepted: every well-formed entry was delivered, in order
AcceptedDeliversAll ==
    /\ (st.res = "accepted" /\ cs.kind = "ammo" /\ cs.cls # "degen") => Clean(cs, st.out) = Expected(cs)
    /\ (st.res = "accepted" /\ cs.kind = "ammo" /\ cs.cls = "degen") => Len(st.out) = cs.arg[3]

\* degenerate-only files: every rewind of the file is paid for by an entry handed out in the pass before it
RewindsArePaidFor ==
    (cs.kind = "ammo" /\ cs.cls = "degen") => st.pass - 1 <= st.cnt

\* no hang / no spinning: every step consumes an item or ends the run, so the number of steps (st.n) of
\* any behaviour is bounded by the length of the input (+ load step + end step)
Progress == st.n <= (IF cs.kind = "ammo"
                       THEN (IF cs.cls = "degen" THEN (FileLen(cs) + 1) * (cs.arg[3] + 1) + 3 ELSE (FileLen(cs) + 1) * NPasses(cs) + 1)
                       ELSE LastStage(cs.format) + 2)

=============================================================================
