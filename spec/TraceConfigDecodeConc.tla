------------------------ MODULE TraceConfigDecodeConc ------------------------
(* Trace validation of overlapping decodes (`vdrive confdecode -mode conc`, built with the race detector).            *)
(* kind = "section": one plugin section of a variant of ConfigDecode.tla (prefix `pre`), decoded n times by goroutines  *)
(*   that decode OTHER sections at the same time, through config.DecodeAndValidate + the plugin hooks (`how` = decode)  *)
(*   or by calling the pool's rps factory decoded from the whole configuration (`how` = factory): nerr failed decodes,  *)
(*   vectors = the DISTINCT value vectors read back (canonical text of the schema leaves `leaf` of the variant).        *)
(* kind = "real": the real rps factories of two pools called concurrently: nerr, lefts = distinct Left() of products.   *)
(* kind = "race": data races reported by the race detector during the run.                                              *)
(* Expected values are the `f` values of the schema in ConfigDecode.tla.                                                *)
EXTENDS ConfigDecode, Json, IOUtils

VARIABLE l
NoPoints == <<>>
Trace == ndJsonDeserialize(IOEnv.VERIF_TRACE)
Row == Trace[IF l = 0 THEN 1 ELSE l]
TInit == l = 0 /\ cs = NoCase /\ via = "decode" /\ stage = 0 /\ err = FALSE
TNext == l < Len(Trace) /\ l' = l + 1 /\ UNCHANGED <<cs, via, stage, err>>

IsSection == l > 0 /\ Row.kind = "section"
Expected == LET V == Variants[VarByName(Row.v)] IN [i \in 1..Len(Row.leaf) |-> V.leaves[Row.leaf[i]].f]
\* every decode returned ok ...
AllOk == l > 0 /\ Row.kind \in {"section", "real"} => Row.nerr = 0 /\ Row.n > 0
\* ... and exactly its OWN section's values (OwnResult of ConfigDecodeConc on what was read back)
OwnResult == IsSection => /\ Len(Row.vectors) = 1
                          /\ \A k \in 1..Len(Row.vectors) : Row.vectors[k] = Expected
\* real schedule factories: every product of a pool is the same schedule
RealStable == l > 0 /\ Row.kind = "real" => Len(Row.lefts) = 1
NoRace == l > 0 /\ Row.kind = "race" => Row.n = 0
=============================================================================
