-------------------------------- MODULE Sink --------------------------------
(***************************************************************************)
(* Growth of C06: result destinations.  W aggregators (one per pool) write *)
(* their lines through a buffered writer into files:                       *)
(*   core/datasink/file.go   OpenSink = OpenFile(O_WRONLY|O_CREATE|O_TRUNC)*)
(*                           at the start of Aggregator.Run                *)
(*   netsample/phout.go      fs.Create(destination) (= O_RDWR|O_CREATE|    *)
(*                           O_TRUNC) when the aggregator is constructed   *)
(* A handle has its own offset (no O_APPEND); a bufio.Writer hands the     *)
(* bytes to the file in chunks that may end in the middle of a line; the   *)
(* handle is closed once, after the final flush.                           *)
(* A line of writer w is the two cells <<w, i, "body">>, <<w, i, "nl">>.   *)
(*                                                                         *)
(* SameFile = FALSE: every writer has its own file - the file ends up as   *)
(* exactly the writer's lines (created/truncated at open: nothing stale,   *)
(* nothing appended to old content).                                       *)
(* SameFile = TRUE: two pools configured with the same file name.  The     *)
(* model predicts what the code then does (negative controls = findings):  *)
(* private offsets overwrite each other's bytes; O_APPEND alone still      *)
(* tears lines at chunk boundaries; and a later open truncates what the    *)
(* other pool has already written.  OOAppend /\ WholeLines /\ ~LateOpen is   *)
(* what a repair has to establish.                                         *)
(***************************************************************************)
EXTENDS Integers, Sequences, FiniteSets

CONSTANTS W, L, SameFile, OAppend, WholeLines, LateOpen

VARIABLES file,   \* file[f]: sequence of cells; f = writer id, or 1 for everybody if SameFile
          st,     \* st[w]: "new" | "open" | "closed"
          off,    \* private offset of w's handle
          pos     \* cells of w's stream handed to the file so far (0..2L)

vars == <<file, st, off, pos>>
Wr == 1..W
F(w) == IF SameFile THEN 1 ELSE w
Stale == <<"stale">>
Cell(w, k) == <<w, (k + 1) \div 2, IF k % 2 = 1 THEN "body" ELSE "nl">>
Stream(w) == [k \in 1..(2 * L) |-> Cell(w, k)]

Init == /\ file = [f \in Wr |-> <<Stale, Stale>>]       \* content of an earlier run
        /\ st = [w \in Wr |-> "new"] /\ off = [w \in Wr |-> 0] /\ pos = [w \in Wr |-> 0]

\* O_CREATE|O_TRUNC: the file is emptied, whoever has written to it
Open(w) == /\ st[w] = "new"
           /\ LateOpen \/ \A v \in Wr : pos[v] = 0       \* ~LateOpen: every destination is opened before any write
           /\ file' = [file EXCEPT ![F(w)] = <<>>]
           /\ st' = [st EXCEPT ![w] = "open"]
           /\ UNCHANGED <<off, pos>>

\* write(2) of the next n cells of w's stream at the handle's offset (or at the end with O_APPEND)
Put(old, at, cells) ==
    LET n == Len(cells)
        len == IF at + n > Len(old) THEN at + n ELSE Len(old) IN
    [k \in 1..len |-> IF k > at /\ k <= at + n THEN cells[k - at]
                      ELSE IF k <= Len(old) THEN old[k] ELSE <<"hole">>]
Write(w, n) ==
    /\ st[w] = "open" /\ pos[w] + n <= 2 * L
    /\ WholeLines => (pos[w] % 2 = 0 /\ n % 2 = 0)        \* chunks consist of whole lines
    /\ LET cells == SubSeq(Stream(w), pos[w] + 1, pos[w] + n)
           at == IF OAppend THEN Len(file[F(w)]) ELSE off[w] IN
       /\ file' = [file EXCEPT ![F(w)] = Put(@, at, cells)]
       /\ off' = [off EXCEPT ![w] = at + n]
    /\ pos' = [pos EXCEPT ![w] = @ + n]
    /\ UNCHANGED st
\* final flush happened: everything was handed over; Close exactly once
Close(w) == /\ st[w] = "open" /\ pos[w] = 2 * L
            /\ st' = [st EXCEPT ![w] = "closed"]
            /\ UNCHANGED <<file, off, pos>>

Next == \E w \in Wr : Open(w) \/ Close(w) \/ \E n \in 1..3 : Write(w, n)
Spec == Init /\ [][Next]_vars

(* ------------------------------------------------------------------ properties *)
AllClosed == \A w \in Wr : st[w] = "closed"
Files == {F(w) : w \in Wr}
IsLineAt(s, k) == /\ k + 1 <= Len(s) /\ s[k][3] = "body" /\ s[k + 1][3] = "nl"
                  /\ s[k][1] = s[k + 1][1] /\ s[k][2] = s[k + 1][2]
\* the file is a sequence of whole lines
WellFormed(s) == Len(s) % 2 = 0 /\ \A j \in 0..((Len(s) \div 2) - 1) : IsLineAt(s, 2 * j + 1)
\* every line of every writer of that file exactly once
Once(f) == \A w \in {v \in Wr : F(v) = f} : \A i \in 1..L :
              Cardinality({k \in 1..Len(file[f]) : file[f][k] = <<w, i, "body">>}) = 1
\* THE property of a destination when every aggregator has finished
ResultFiles == AllClosed => \A f \in Files : /\ WellFormed(file[f])
                                             /\ Once(f)
                                             /\ Len(file[f]) = 2 * L * Cardinality({v \in Wr : F(v) = f})
\* nothing of an earlier run survives the open, nothing is ever appended to it
NoStale == \A w \in Wr : st[w] # "new" => \A k \in 1..Len(file[F(w)]) : file[F(w)][k] # Stale
\* never written after close
ClosedIsFinal == [][\A w \in Wr : st[w] = "closed" => pos'[w] = pos[w]]_vars
=============================================================================
