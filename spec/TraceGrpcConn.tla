---------------------------- MODULE TraceGrpcConn ----------------------------
(***************************************************************************)
(* C20 trace specification of the connection / life-cycle runs             *)
(* (`vdrive grpcconn`).  Events:                                           *)
(*   Run{mode,shared,clients,inst,entries,timeout,slow}                    *)
(*   NewGun{gun} Bind{gun} ShootBegin{gun,gid,ammo,tok} ShootEnd{gun,gid}  *)
(*   Sample{gid,code}                 aggregator decorator                 *)
(*   ConnBegin{srv,conn} ConnEnd{srv,conn} ReflCall{srv,conn}              *)
(*   Recv{srv,conn,toks}              the target's stats.Handler view      *)
(*   TargetStopping TargetDown TargetUp Recovered{ok}  (updown runs)       *)
(*   RunEnd{class}                    none | warmup | canceled | other     *)
(* Client identities are not observable, connections are: the trace drives *)
(* GrpcConn's phase / tgt / sh / gconn / shots / flips and keeps the       *)
(* server's connection log next to them.  Acquire / Release (C11) stutter. *)
(***************************************************************************)
EXTENDS GrpcConn, Json, IOUtils

VARIABLES l,
          run,      \* the Run header
          newguns,  \* guns the factory produced (the first one is the warm-up gun)
          bound,    \* guns that were bound
          conns,    \* connections the TARGET accepted in this run
          refl,     \* connections that carried a reflection stream
          cur,      \* gun -> token of the ammo it is shooting
          gid,      \* gun -> goroutine in Shoot
          ended,    \* shots that returned
          okAfterUp, shotsAfterDown, recovered,
          wentDown  \* the target's Stop has returned (TargetDown); the outage BEGINS with TargetStopping

tx == <<run, newguns, bound, conns, refl, cur, gid, ended, okAfterUp, shotsAfterDown, recovered, wentDown>>
Trace == ndJsonDeserialize(IOEnv.VERIF_TRACE)
Ev == Trace[l]
Mark == TLCSet(1, IF TLCGet(1) > l + 1 THEN TLCGet(1) ELSE l + 1)
Rng(s) == {s[i] : i \in DOMAIN s}

NoRun == [mode |-> "none", shared |-> FALSE, clients |-> 0, inst |-> 0, entries |-> 0, timeout |-> 0, slow |-> <<>>, authority |-> ""]
TraceInit == /\ l = 1 /\ TLCSet(1, 1) /\ InitWith([shared |-> FALSE, k |-> 1, refl |-> TRUE, tls |-> FALSE, ttls |-> FALSE, needmd |-> FALSE, rmd |-> FALSE])
             /\ run = NoRun /\ newguns = 0 /\ bound = {} /\ conns = {} /\ refl = {}
             /\ cur = [g \in Guns |-> ""] /\ gid = [g \in Guns |-> 0] /\ ended = 0
             /\ okAfterUp = 0 /\ shotsAfterDown = 0 /\ recovered = FALSE /\ wentDown = FALSE

Keep == UNCHANGED <<cfg, clients, rr, cof, live, nconn, owner, dead>>
AllIdle == \A g \in Guns : sh[g] = "idle"

TRun == /\ Ev.ev = "Run" /\ AllIdle
        /\ run' = [mode |-> Ev.mode, shared |-> Ev.shared, clients |-> Ev.clients, inst |-> Ev.inst, entries |-> Ev.entries,
                   timeout |-> Ev.timeout, slow |-> Ev.slow, authority |-> Ev.authority]
        /\ cfg' = [shared |-> Ev.shared, k |-> Ev.clients, refl |-> Ev.mode # "dead",
                   tls |-> Ev.tls, ttls |-> Ev.ttls, needmd |-> Ev.needmd, rmd |-> Ev.rmd]
        /\ phase' = "init" /\ tgt' = IF Ev.mode \in {"dead", "deadtarget"} THEN "down" ELSE "up"
        /\ sh' = [g \in Guns |-> "idle"] /\ gconn' = [g \in Guns |-> {}] /\ shots' = 0 /\ flips' = 0
        /\ newguns' = 0 /\ bound' = {} /\ conns' = {} /\ refl' = {}
        /\ cur' = [g \in Guns |-> ""] /\ gid' = [g \in Guns |-> 0] /\ ended' = 0
        /\ okAfterUp' = 0 /\ shotsAfterDown' = 0 /\ recovered' = FALSE /\ wentDown' = FALSE
        /\ UNCHANGED <<clients, rr, cof, live, nconn, owner, dead>>

Same == UNCHANGED <<cfg, phase, tgt, clients, rr, cof, live, nconn, owner, sh, gconn, dead, shots, flips>>

\* the first product of the factory is the warm-up gun; instance guns only after a successful warm-up
TNewGun == /\ Ev.ev = "NewGun" /\ newguns' = newguns + 1
           /\ newguns = 0 \/ phase = "warm"
           /\ Same /\ UNCHANGED <<run, bound, conns, refl, cur, gid, ended, okAfterUp, shotsAfterDown, recovered, wentDown>>
\* the reflection stream: WarmUp listing the methods (GrpcConn!WarmOK)
\* reflect_metadata travels with every reflection stream (and only if configured); dial_options.authority is what the server sees
TRefl == /\ Ev.ev = "ReflCall" /\ Ev.ok /\ phase \in {"init", "warm"} /\ newguns = 1 /\ bound = {}
         /\ Configured
         /\ Ev.reflmd = (IF cfg.rmd THEN "secret" ELSE "")
         /\ run.authority # "" => Ev.authority = run.authority
         /\ phase' = "warm" /\ refl' = refl \cup {Ev.conn}
         /\ UNCHANGED <<cfg, tgt, clients, rr, cof, live, nconn, owner, sh, gconn, dead, shots, flips>>
         /\ UNCHANGED <<run, newguns, bound, conns, cur, gid, ended, okAfterUp, shotsAfterDown, recovered, wentDown>>
\* a reflection stream without the credentials the endpoint needs is turned away: the warm-up does not succeed
TReflDenied == /\ Ev.ev = "ReflCall" /\ ~Ev.ok /\ cfg.needmd /\ ~cfg.rmd /\ phase = "init" /\ Ev.reflmd = ""
               /\ Same /\ UNCHANGED tx
TBind == /\ Ev.ev = "Bind" /\ Ev.ok /\ phase = "warm" /\ Ev.gun \in Guns /\ Ev.gun \notin bound
         /\ bound' = bound \cup {Ev.gun}
         /\ Same /\ UNCHANGED <<run, newguns, conns, refl, cur, gid, ended, okAfterUp, shotsAfterDown, recovered, wentDown>>
\* connections: the reflection server's are of no interest; the target's are counted
TConnBegin == /\ Ev.ev = "ConnBegin"
              /\ conns' = IF Ev.srv = "target" THEN conns \cup {Ev.conn} ELSE conns
              /\ Ev.srv = "target" => tgt = "up"
              /\ Same /\ UNCHANGED <<run, newguns, bound, refl, cur, gid, ended, okAfterUp, shotsAfterDown, recovered, wentDown>>
TStutter == Ev.ev \in {"ConnEnd", "Acquire", "Release"} /\ Same /\ UNCHANGED tx
TShootBegin == /\ Ev.ev = "ShootBegin" /\ Ev.gun \in bound /\ sh[Ev.gun] = "idle"
               /\ sh' = [sh EXCEPT ![Ev.gun] = "call"] /\ shots' = shots + 1
               /\ cur' = [cur EXCEPT ![Ev.gun] = Ev.tok] /\ gid' = [gid EXCEPT ![Ev.gun] = Ev.gid]
               /\ shotsAfterDown' = IF wentDown THEN shotsAfterDown + 1 ELSE shotsAfterDown
               /\ UNCHANGED <<cfg, phase, tgt, clients, rr, cof, live, nconn, owner, gconn, dead, flips>>
               /\ UNCHANGED <<run, newguns, bound, conns, refl, ended, okAfterUp, recovered, wentDown>>
\* the call of the gun shooting that token arrives at the TARGET, while it is up, on an accepted connection (Arrive)
TRecv == /\ Ev.ev = "Recv" /\ Ev.srv = "target" /\ tgt = "up" /\ Ev.conn \in conns /\ Ev.conn \notin refl
         /\ Len(Ev.toks) > 0
         /\ ~Ev.reflmd                                               \* reflect_metadata is for reflection only
         /\ run.authority # "" => Ev.authority = run.authority
         /\ \E g \in bound : /\ sh[g] = "call" /\ cur[g] = Ev.toks[1]
                             /\ sh' = [sh EXCEPT ![g] = "recv"]
                             /\ gconn' = [gconn EXCEPT ![g] = @ \cup {Ev.conn}]
         /\ UNCHANGED <<cfg, phase, tgt, clients, rr, cof, live, nconn, owner, dead, shots, flips>> /\ UNCHANGED tx
\* the one sample of the call (Done).  200 only for a call that arrived; a failure needs a reason:
\* the target is (or has been) away, or the target answers this call later than the per-call timeout
TSample == /\ Ev.ev = "Sample"
           /\ \E g \in bound :
                /\ gid[g] = Ev.gid /\ sh[g] \in {"call", "recv"}
                /\ IF Ev.code = 200
                   THEN sh[g] = "recv" /\ ~(run.timeout > 0 /\ Ev.tag \in Rng(run.slow))
                   ELSE \/ run.mode = "deadtarget" /\ sh[g] = "call"
                        \/ run.mode = "updown" /\ flips > 0
                        \/ run.timeout > 0 /\ Ev.tag \in Rng(run.slow) /\ Ev.code = 504 /\ sh[g] = "recv"
                /\ sh' = [sh EXCEPT ![g] = "done"]
                /\ okAfterUp' = IF Ev.code = 200 /\ wentDown /\ tgt = "up" THEN okAfterUp + 1 ELSE okAfterUp
           /\ UNCHANGED <<cfg, phase, tgt, clients, rr, cof, live, nconn, owner, gconn, dead, shots, flips>>
           /\ UNCHANGED <<run, newguns, bound, conns, refl, cur, gid, ended, shotsAfterDown, recovered, wentDown>>
TShootEnd == /\ Ev.ev = "ShootEnd" /\ Ev.gun \in bound /\ sh[Ev.gun] = "done" /\ gid[Ev.gun] = Ev.gid
             /\ sh' = [sh EXCEPT ![Ev.gun] = "idle"] /\ ended' = ended + 1
             /\ UNCHANGED <<cfg, phase, tgt, clients, rr, cof, live, nconn, owner, gconn, dead, shots, flips>>
             /\ UNCHANGED <<run, newguns, bound, conns, refl, cur, gid, okAfterUp, shotsAfterDown, recovered, wentDown>>
\* the outage BEGINS when the driver starts stopping the target (logged BEFORE Stop is called): from here on a call may
\* fail (its connection is being torn down) although calls in flight may still arrive until Stop has returned
TStopping == /\ Ev.ev = "TargetStopping" /\ run.mode = "updown" /\ tgt = "up" /\ flips = 0
             /\ flips' = flips + 1
             /\ UNCHANGED <<cfg, phase, tgt, clients, rr, cof, live, nconn, owner, sh, gconn, dead, shots>> /\ UNCHANGED tx
\* Stop has returned: nothing is received any more (GrpcConn!Down)
TDown == /\ Ev.ev = "TargetDown" /\ run.mode = "updown" /\ tgt = "up" /\ flips > 0
         /\ tgt' = "down" /\ wentDown' = TRUE
         /\ UNCHANGED <<cfg, phase, clients, rr, cof, live, nconn, owner, sh, gconn, dead, shots, flips>>
         /\ UNCHANGED <<run, newguns, bound, conns, refl, cur, gid, ended, okAfterUp, shotsAfterDown, recovered>>
TUp == /\ Ev.ev = "TargetUp" /\ tgt = "down"
       /\ tgt' = "up"
       /\ UNCHANGED <<cfg, phase, clients, rr, cof, live, nconn, owner, sh, gconn, dead, shots, flips>> /\ UNCHANGED tx
TRecovered == /\ Ev.ev = "Recovered" /\ Ev.ok /\ recovered' = TRUE
              /\ Same /\ UNCHANGED <<run, newguns, bound, conns, refl, cur, gid, ended, okAfterUp, shotsAfterDown, wentDown>>
\* how the run must end
TRunEnd == /\ Ev.ev = "RunEnd" /\ AllIdle
           /\ CASE ~Configured          -> Ev.class = "warmup" /\ bound = {} /\ shots = 0 /\ newguns = 1 /\ phase = "init"  \* WarmFail
                [] run.mode = "updown" -> /\ Ev.class = "canceled" /\ recovered
                                          /\ shotsAfterDown > 0 /\ okAfterUp > 0 /\ Cardinality(bound) = run.inst
                [] OTHER               -> Ev.class = "none" /\ ended = run.entries /\ Cardinality(bound) = run.inst
           /\ Same /\ UNCHANGED tx

TraceNext == /\ l <= Len(Trace)
             /\ (TRun \/ TNewGun \/ TRefl \/ TReflDenied \/ TBind \/ TConnBegin \/ TStutter \/ TShootBegin \/ TRecv \/ TSample \/ TShootEnd
                 \/ TStopping \/ TDown \/ TUp \/ TRecovered \/ TRunEnd)
             /\ l' = l + 1
             /\ Mark

Accepted == PrintT(<<"VERIF-HWM", TLCGet(1)>>) /\ TLCGet(1) = Len(Trace) + 1

(* the connection properties on the server's log *)
Per == 1 + flips                        \* a client reconnects once per outage
\* as many connections as clients: k with shared-client, one per instance gun otherwise
\* (the connection of the warm-up's reflection client is recognised only when its stream starts)
TConnCount == Cardinality(conns \ refl) <= Per * (IF run.shared THEN run.clients ELSE IF newguns > 0 THEN newguns - 1 ELSE 0)
                                             + (IF refl = {} THEN 1 ELSE 0)
\* a gun's calls stay on one connection (one more per outage)
TGunSticks == \A g \in Guns : Cardinality(gconn[g]) <= Per
\* without shared-client no two guns use one connection; with it all guns together use at most k
TOwnConn == IF run.shared THEN Cardinality(UNION {gconn[g] : g \in Guns}) <= Per * run.clients
            ELSE \A g, h \in Guns : g # h => gconn[g] \cap gconn[h] = {}
=============================================================================
