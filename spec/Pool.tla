-------------------------------- MODULE Pool --------------------------------
(***************************************************************************)
(* C03 (engine shot accounting) and C12 (instance startup profile):        *)
(* one instance pool of pandora's engine in NORMAL operation (no component *)
(* fails, nobody cancels the run; failures/cancel are PoolRun.tla, C05).   *)
(*                                                                         *)
(* Implementation-shaped: one action per decision / blocking point of      *)
(*   core/engine/engine.go   startInstances, awaitRun, checkAllInstances-  *)
(*                           AreFinished, buildNewInstanceSchedule         *)
(*   core/engine/instance.go instance.Run                                  *)
(*   core/coreutil/waiter.go Wait / IsFinished (token draw is atomic: C02) *)
(*   core/coreutil/schedule.go  callbackOnFinishSchedule                   *)
(*                                                                         *)
(* The configuration is a VARIABLE (chosen in Init from Configs, constant  *)
(* afterwards) so that TracePool.tla can re-use every action for a batch   *)
(* of recorded runs with different configurations.                         *)
(*                                                                         *)
(*   cfg.startup  token instants of the startup profile, in ticks          *)
(*                (<<0,0,0>> = once(3), <<0,1,2>> = const, <<0,0,1,1>> =   *)
(*                instance_step ...); Len = number of startup tokens       *)
(*   cfg.t        tokens of ONE RPS profile (shared: of the profile); -1 = *)
(*                unknown (the profile has an `unlimited` part): it hands  *)
(*                out at least cfg.tmin tokens and ends when it likes      *)
(*   cfg.a        ammo items the provider can deliver, -1 = unbounded      *)
(*   cfg.per      rps-per-instance: every instance owns a profile          *)
(*   cfg.discard  discard_overflow                                         *)
(*                                                                         *)
(* Instance ids are 1..MaxInst here (pandora's InstanceID + 1); schedule 0 *)
(* is the shared RPS profile, schedule i the own profile of instance i.    *)
(***************************************************************************)
EXTENDS Integers, Sequences, FiniteSets, TLC

CONSTANTS MaxInst,          \* upper bound on startup tokens
          Configs,          \* set of configuration records (design level)
          \* negative controls: deliberately wrong variants of the code (all FALSE = pandora)
          NegTokenFirst,    \* token drawn before the ammo is held
          NegReleaseEarly,  \* ammo released before the shot instead of after it
          NegNoLeftCheck,   \* loop does not test Left() = 0 before taking ammo
          NegLeftShort,     \* shared Left() reports one less (composite Left() defect, DESIGN 5 #2)
          NegEarlyStart,    \* starter does not wait for the startup token's instant
          NegCountDiscard,  \* Request counter also counts discarded shots
          UnlExtra,         \* a profile of unknown length hands out at most tmin + UnlExtra tokens (bound for TLC)
          NegCancelOnAnyEnd \* the await loop cancels instance start on ANY instance result, not only out-of-ammo

VARIABLES
  cfg,
  now,            \* clock in ticks; only the startup Waiter reads it
  \* ---- provider (core.Provider: queue of cfg.a items, closed on exhaustion)
  given,          \* items handed out so far; item ids are 1..given
  rel,            \* rel[x] = how often item x was released
  prov,           \* "run" | "done"   Provider.Run returned
  agg,            \* "run" | "done"   Aggregator.Run returned
  \* ---- RPS schedules
  drawn,          \* drawn[s] = tokens withdrawn from schedule s (0 = shared)
  closed,         \* closed[s]: a schedule of unknown length has reported its end (stable)
  \* ---- starter goroutine (startInstances)
  spc,            \* "draw" | "sleep" | "create" | "done"
  sk,             \* startup tokens withdrawn
  created,        \* `started` counter of startInstances
  ids,            \* ids handed to newInstance, in creation order
  \* ---- contexts
  startCancelled, \* instanceStartCancel() called
  runCancelled,   \* runCancel() called by checkAllInstancesAreFinished
  \* ---- instances
  ipc,            \* "none","new","check","acquire","wait","decide","shooting","release","exit","ended"
  held,           \* item the instance holds (0 = none)
  tok,            \* instance holds a withdrawn, not yet spent token
  why,            \* reason the loop ended: "" | "sched" | "ammo" | "ctx"
  \* ---- counters: engine Metrics and what the mocks count
  request, response, instStart, instFinish, fired, discarded,
  \* ---- await goroutine (awaitRun)
  runRes,         \* instance results not yet received: set of <<id, why>>
  provCh, aggCh, startCh,   \* "empty" | "full" | "taken"
  aw,             \* [toWait, started, awaited, closed]
  poolRet,        \* "none" | "nil"   instancePool.Run returned
  \* ---- ghosts
  badUse,         \* an item was used (shot) after its release / while not held
  ooaSeen,        \* some Acquire returned ok = false
  finSeen         \* the shared RPS profile reported its end (Left() = 0 or Next() !ok)

provVars  == <<given, rel, prov, agg>>
startVars == <<spc, sk, created, ids>>
ctxVars   == <<startCancelled, runCancelled>>
instVars  == <<ipc, held, tok, why>>
cntVars   == <<request, response, instStart, instFinish, fired, discarded>>
awVars    == <<runRes, provCh, aggCh, startCh, aw, poolRet>>
ghostVars == <<badUse, ooaSeen, finSeen>>
schedVars == <<drawn, closed>>
vars == <<cfg, now, provVars, schedVars, startVars, ctxVars, instVars, cntVars, awVars, ghostVars>>

Inst == 1..MaxInst
N    == Len(cfg.startup)
Min(a, b) == IF a <= b THEN a ELSE b
Max(a, b) == IF a >= b THEN a ELSE b

\* contexts: runCtx is a child of the pool context; startCtx a child of runCtx
RunDone   == runCancelled
StartDone == startCancelled \/ RunDone

Sid(i)    == IF cfg.per THEN i ELSE 0
Shared(s) == s = 0
Unknown   == cfg.t < 0
LeftOf(s) == LET l == cfg.t - drawn[s]
             IN  IF NegLeftShort /\ Shared(s) /\ l > 0 THEN l - 1 ELSE l
\* what Left() / Next() of schedule s can answer now.  Known length: exact.  Unknown length: Left() is
\* non-zero (-1, "unknown") while the schedule has not ended; it may end once it has handed out its
\* guaranteed tokens, and the end is stable.
LeftIs(s, zero) == IF Unknown
                   THEN IF zero THEN closed[s] \/ drawn[s] >= cfg.tmin - (IF NegLeftShort /\ Shared(s) THEN 1 ELSE 0)
                                ELSE ~closed[s]
                   ELSE zero = (LeftOf(s) = 0)
NextIs(s, ok)   == IF Unknown
                   THEN IF ok THEN ~closed[s] /\ drawn[s] < cfg.tmin + UnlExtra
                              ELSE closed[s] \/ drawn[s] >= cfg.tmin
                   ELSE ok = (drawn[s] < cfg.t)
HasAmmo   == cfg.a < 0 \/ given < cfg.a

InitFor(c) ==
  /\ cfg = c /\ now = 0
  /\ given = 0 /\ rel = <<>> /\ prov = "run" /\ agg = "run"
  /\ drawn = [s \in 0..MaxInst |-> 0] /\ closed = [s \in 0..MaxInst |-> FALSE]
  /\ spc = "draw" /\ sk = 0 /\ created = 0 /\ ids = <<>>
  /\ startCancelled = FALSE /\ runCancelled = FALSE
  /\ ipc = [i \in Inst |-> "none"] /\ held = [i \in Inst |-> 0] /\ tok = [i \in Inst |-> FALSE]
  /\ why = [i \in Inst |-> ""]
  /\ request = 0 /\ response = 0 /\ instStart = 0 /\ instFinish = 0 /\ fired = 0 /\ discarded = 0
  /\ runRes = {} /\ provCh = "empty" /\ aggCh = "empty" /\ startCh = "empty"
  /\ aw = [toWait |-> 4, started |-> -1, awaited |-> 0, closed |-> FALSE]
  /\ poolRet = "none"
  /\ badUse = FALSE /\ ooaSeen = FALSE /\ finSeen = FALSE

Init == \E c \in Configs : InitFor(c)

----------------------------------------------------------------------------
(* clock: only the starter's Waiter looks at it, so it only needs to move   *)
(* while the starter sleeps on a token that is still in the future (the     *)
(* slowest possible clock is the adversary of "never more than released").  *)
Tick == /\ spc = "sleep" /\ now < cfg.startup[sk]
        /\ now' = now + 1
        /\ UNCHANGED <<cfg, provVars, schedVars, startVars, ctxVars, instVars, cntVars, awVars, ghostVars>>

----------------------------------------------------------------------------
(* starter: waiter.Wait(startCtx) = { ctx check; Next(); sleep until the    *)
(* token's instant or ctx.Done }; first instance created synchronously.     *)

StartReturn == spc' = "done" /\ startCh' = "full"

\* Waiter.Wait: context check, then Next() on the startup schedule
S_Draw == /\ spc = "draw"
          /\ IF StartDone THEN StartReturn /\ sk' = sk
             ELSE IF sk < N THEN sk' = sk + 1 /\ spc' = "sleep" /\ startCh' = startCh
             ELSE StartReturn /\ sk' = sk
          /\ UNCHANGED <<cfg, now, provVars, schedVars, created, ids, ctxVars, instVars, cntVars,
                         runRes, provCh, aggCh, aw, poolRet, ghostVars>>

\* timer fired: never before the token's instant
S_Wake == /\ spc = "sleep"
          /\ NegEarlyStart \/ now >= cfg.startup[sk]
          /\ spc' = "create"
          /\ UNCHANGED <<cfg, now, provVars, schedVars, sk, created, ids, ctxVars, instVars, cntVars, awVars, ghostVars>>

\* select { case <-timer.C ; case <-ctx.Done() }: the withdrawn token makes no instance
S_SleepCancelled == /\ spc = "sleep" /\ StartDone
                    /\ StartReturn
                    /\ UNCHANGED <<cfg, now, provVars, schedVars, sk, created, ids, ctxVars, instVars, cntVars,
                                   runRes, provCh, aggCh, aw, poolRet, ghostVars>>

\* id := started; go run(id); started++   (the first one: newInstance on this goroutine)
CreateEffect(id) == /\ ipc[id] = "none"
                    /\ ipc' = [ipc EXCEPT ![id] = "new"]
                    /\ created' = created + 1
                    /\ ids' = Append(ids, id)
S_Create == /\ spc = "create"
            /\ CreateEffect(created + 1)
            /\ spc' = "draw"
            /\ UNCHANGED <<cfg, now, provVars, schedVars, sk, ctxVars, held, tok, why, cntVars, awVars, ghostVars>>

----------------------------------------------------------------------------
(* instance.Run                                                             *)

\* the shared RPS schedule is wrapped by callbackOnFinishSchedule: the first caller that
\* learns the end (Left() = 0 / Next() !ok) cancels the start context
OnFinish(s) == IF Shared(s) THEN startCancelled' = TRUE /\ finSeen' = TRUE
               ELSE UNCHANGED <<startCancelled, finSeen>>

LoopEnd(i, w) == ipc' = [ipc EXCEPT ![i] = "exit"] /\ why' = [why EXCEPT ![i] = w]

\* newInstance (schedule factory, gun factory, Bind) and the head of Run
I_New(i) == /\ ipc[i] = "new"
            /\ ipc' = [ipc EXCEPT ![i] = "check"]
            /\ instStart' = instStart + 1
            /\ UNCHANGED <<cfg, now, provVars, schedVars, startVars, ctxVars, held, tok, why,
                           request, response, instFinish, fired, discarded, awVars, ghostVars>>

\* for !waiter.IsFinished(ctx): ctx done, or Left() = 0
I_CheckZ(i, zero) ==
  /\ ipc[i] = "check"
  /\ IF RunDone
     THEN LoopEnd(i, "ctx") /\ UNCHANGED <<startCancelled, finSeen, closed>>
     ELSE /\ LeftIs(Sid(i), zero)
          /\ IF ~NegNoLeftCheck /\ zero
             THEN /\ LoopEnd(i, "sched") /\ OnFinish(Sid(i))
                  /\ closed' = IF Unknown THEN [closed EXCEPT ![Sid(i)] = TRUE] ELSE closed
             ELSE /\ ipc' = [ipc EXCEPT ![i] = IF NegTokenFirst THEN "wait" ELSE "acquire"]
                  /\ UNCHANGED <<why, startCancelled, finSeen, closed>>
  /\ UNCHANGED <<cfg, now, provVars, drawn, startVars, runCancelled, held, tok, cntVars, awVars, badUse, ooaSeen>>
I_Check(i) == \E zero \in BOOLEAN : I_CheckZ(i, zero)

\* provider.Acquire(): next item, or ok = false once the queue is closed and empty
I_Acquire(i) ==
  /\ ipc[i] = "acquire"
  /\ IF HasAmmo
     THEN /\ given' = given + 1 /\ rel' = Append(rel, 0)
          /\ held' = [held EXCEPT ![i] = given + 1]
          /\ ipc' = [ipc EXCEPT ![i] = IF NegTokenFirst THEN "decide" ELSE "wait"]
          /\ UNCHANGED <<why, ooaSeen>>
     ELSE /\ LoopEnd(i, "ammo") /\ ooaSeen' = TRUE
          /\ UNCHANGED <<given, rel, held>>
  /\ UNCHANGED <<cfg, now, prov, agg, schedVars, startVars, ctxVars, tok, cntVars, awVars, badUse, finSeen>>

\* waiter.Wait(ctx): ctx check, then Next() - the token is withdrawn here (atomic by C02)
I_WaitOk(i, ok) ==
  /\ ipc[i] = "wait"
  /\ LET s == Sid(i)
         miss == IF NegTokenFirst THEN "check" ELSE "release" IN
     IF RunDone
     THEN /\ ~ok
          /\ ipc' = [ipc EXCEPT ![i] = miss]
          /\ UNCHANGED <<drawn, closed, tok, startCancelled, finSeen>>
     ELSE /\ NextIs(s, ok)
          /\ IF ok
             THEN /\ drawn' = [drawn EXCEPT ![s] = @ + 1]
                  /\ tok' = [tok EXCEPT ![i] = TRUE]
                  /\ ipc' = [ipc EXCEPT ![i] = IF NegTokenFirst THEN "acquire" ELSE "decide"]
                  /\ UNCHANGED <<closed, startCancelled, finSeen>>
             ELSE /\ ipc' = [ipc EXCEPT ![i] = miss]
                  /\ OnFinish(s)
                  /\ closed' = IF Unknown THEN [closed EXCEPT ![s] = TRUE] ELSE closed
                  /\ UNCHANGED <<drawn, tok>>
  /\ UNCHANGED <<cfg, now, provVars, startVars, runCancelled, held, why, cntVars, awVars, badUse, ooaSeen>>
I_Wait(i) == \E ok \in BOOLEAN : I_WaitOk(i, ok)

\* !discardOverflow || !IsSlowDown: Request++, gun.Shoot begins
I_Fire(i) ==
  /\ ipc[i] = "decide"
  /\ request' = request + 1
  /\ ipc' = [ipc EXCEPT ![i] = "shooting"]
  /\ tok' = [tok EXCEPT ![i] = FALSE]
  /\ IF NegReleaseEarly THEN rel' = [rel EXCEPT ![held[i]] = @ + 1] ELSE rel' = rel
  /\ badUse' = (badUse \/ held[i] = 0 \/ (held[i] # 0 /\ rel[held[i]] # 0))
  /\ UNCHANGED <<cfg, now, given, prov, agg, schedVars, startVars, ctxVars, held, why,
                 response, instStart, instFinish, fired, discarded, awVars, ooaSeen, finSeen>>

\* discardOverflow && IsSlowDown: aggregator.Report(DiscardedShootSample()).  Whether a token is
\* more than 2 s late is timing (C04): nondeterministic here
I_Discard(i) ==
  /\ ipc[i] = "decide" /\ cfg.discard
  /\ discarded' = discarded + 1
  /\ request' = IF NegCountDiscard THEN request + 1 ELSE request
  /\ ipc' = [ipc EXCEPT ![i] = "release"]
  /\ tok' = [tok EXCEPT ![i] = FALSE]
  /\ UNCHANGED <<cfg, now, provVars, schedVars, startVars, ctxVars, held, why,
                 response, instStart, instFinish, fired, awVars, ghostVars>>

\* gun.Shoot returns (any number of other steps may lie in between: shot duration); Response++
I_ShootEnd(i) ==
  /\ ipc[i] = "shooting"
  /\ response' = response + 1 /\ fired' = fired + 1
  /\ badUse' = (badUse \/ held[i] = 0 \/ (held[i] # 0 /\ rel[held[i]] # 0))
  /\ ipc' = [ipc EXCEPT ![i] = IF NegReleaseEarly THEN "check" ELSE "release"]
  /\ held' = IF NegReleaseEarly THEN [held EXCEPT ![i] = 0] ELSE held
  /\ UNCHANGED <<cfg, now, provVars, schedVars, startVars, ctxVars, tok, why,
                 request, instStart, instFinish, discarded, awVars, ooaSeen, finSeen>>

\* deferred provider.Release(ammo)
I_Release(i) ==
  /\ ipc[i] = "release"
  /\ rel' = [rel EXCEPT ![held[i]] = @ + 1]
  /\ held' = [held EXCEPT ![i] = 0]
  /\ ipc' = [ipc EXCEPT ![i] = "check"]
  /\ UNCHANGED <<cfg, now, given, prov, agg, schedVars, startVars, ctxVars, tok, why, cntVars, awVars, ghostVars>>

\* deferred: InstanceFinish++; gun Close; runRes <- result
I_Exit(i) ==
  /\ ipc[i] = "exit"
  /\ instFinish' = instFinish + 1
  /\ runRes' = runRes \cup {<<i, why[i]>>}
  /\ ipc' = [ipc EXCEPT ![i] = "ended"]
  /\ UNCHANGED <<cfg, now, provVars, schedVars, startVars, ctxVars, held, tok, why,
                 request, response, instStart, fired, discarded, provCh, aggCh, startCh, aw, poolRet, ghostVars>>

----------------------------------------------------------------------------
(* provider / aggregator Run goroutines: return when the run context is     *)
(* cancelled (the provider also when it has delivered everything)           *)
P_Done == /\ prov = "run" /\ (RunDone \/ (cfg.a >= 0 /\ given = cfg.a))
          /\ prov' = "done" /\ provCh' = "full"
          /\ UNCHANGED <<cfg, now, given, rel, agg, schedVars, startVars, ctxVars, instVars, cntVars,
                         runRes, aggCh, startCh, aw, poolRet, ghostVars>>
G_Done == /\ agg = "run" /\ RunDone
          /\ agg' = "done" /\ aggCh' = "full"
          /\ UNCHANGED <<cfg, now, given, rel, prov, schedVars, startVars, ctxVars, instVars, cntVars,
                         runRes, provCh, startCh, aw, poolRet, ghostVars>>

----------------------------------------------------------------------------
(* await goroutine: for toWait > 0 { select over the four channels }        *)

\* checkAllInstancesAreFinished, inlined after the start result and every instance result
CheckAll(a) == IF ~a.closed /\ a.started >= 0 /\ a.awaited >= a.started
               THEN /\ aw' = [a EXCEPT !.toWait = @ - 1, !.closed = TRUE]
                    /\ runCancelled' = TRUE
               ELSE aw' = a /\ runCancelled' = runCancelled

AwaitProvider == /\ aw.toWait > 0 /\ provCh = "full"
                 /\ provCh' = "taken" /\ aw' = [aw EXCEPT !.toWait = @ - 1]
                 /\ UNCHANGED <<cfg, now, provVars, schedVars, startVars, ctxVars, instVars, cntVars,
                                runRes, aggCh, startCh, poolRet, ghostVars>>
AwaitAggregator == /\ aw.toWait > 0 /\ aggCh = "full"
                   /\ aggCh' = "taken" /\ aw' = [aw EXCEPT !.toWait = @ - 1]
                   /\ UNCHANGED <<cfg, now, provVars, schedVars, startVars, ctxVars, instVars, cntVars,
                                  runRes, provCh, startCh, poolRet, ghostVars>>
AwaitStart == /\ aw.toWait > 0 /\ startCh = "full"
              /\ startCh' = "taken"
              /\ CheckAll([aw EXCEPT !.toWait = @ - 1, !.started = created])
              /\ UNCHANGED <<cfg, now, provVars, schedVars, startVars, startCancelled, instVars, cntVars,
                             runRes, provCh, aggCh, poolRet, ghostVars>>
AwaitInstance == /\ aw.toWait > 0 /\ ~aw.closed
                 /\ \E r \in runRes :
                      /\ runRes' = runRes \ {r}
                      /\ startCancelled' = (startCancelled \/
                                            ((r[2] = "ammo" \/ NegCancelOnAnyEnd) /\ startCh # "taken"))
                      /\ CheckAll([aw EXCEPT !.awaited = @ + 1])
                 /\ UNCHANGED <<cfg, now, provVars, schedVars, startVars, instVars, cntVars,
                                provCh, aggCh, startCh, poolRet, ghostVars>>
\* close(awaitErr); instancePool.Run's select takes the closed channel: return nil
AwaitExit == /\ aw.toWait = 0 /\ poolRet = "none"
             /\ poolRet' = "nil"
             /\ UNCHANGED <<cfg, now, provVars, schedVars, startVars, ctxVars, instVars, cntVars,
                            runRes, provCh, aggCh, startCh, aw, ghostVars>>

Done == poolRet = "nil"
Terminated == Done /\ UNCHANGED vars

Next == \/ Tick \/ S_Draw \/ S_Wake \/ S_SleepCancelled \/ S_Create
        \/ \E i \in Inst : \/ I_New(i) \/ I_Check(i) \/ I_Acquire(i) \/ I_Wait(i) \/ I_Fire(i)
                           \/ I_Discard(i) \/ I_ShootEnd(i) \/ I_Release(i) \/ I_Exit(i)
        \/ P_Done \/ G_Done
        \/ AwaitProvider \/ AwaitAggregator \/ AwaitStart \/ AwaitInstance \/ AwaitExit
        \/ Terminated

Spec == Init /\ [][Next]_vars

----------------------------------------------------------------------------
(* Properties.  "At a normal end" = instancePool.Run returned nil.          *)

Items == 1..given
Acquired == given
Live(i) == ipc[i] \notin {"none", "ended"}

TypeOK == /\ given \in Nat /\ created \in 0..MaxInst /\ sk \in 0..N
          /\ \A i \in Inst : held[i] \in 0..given
          /\ aw.toWait \in 0..4

RECURSIVE SumDrawn(_)
SumDrawn(k) == IF k < 0 THEN 0 ELSE drawn[k] + SumDrawn(k - 1)

\* the tokens the statement speaks of: the shared profile, or one full profile per started instance
\* (no instance at all - an empty startup profile - fires nothing)
Tokens == IF Unknown THEN SumDrawn(MaxInst)          \* unknown length: whatever the profile handed out
          ELSE IF cfg.per THEN cfg.t * created ELSE IF created = 0 THEN 0 ELSE cfg.t
ExpectedShots == IF cfg.a < 0 THEN Tokens ELSE Min(Tokens, cfg.a)
Unfired == Acquired - fired - discarded

\* ---- C03
\* conservation at every step: a withdrawn token is in exactly one place
TokenConservation ==
  LET total == IF cfg.per THEN drawn[0] = 0 ELSE \A i \in Inst : drawn[i] = 0 IN
  /\ total
  /\ \A s \in 0..MaxInst : drawn[s] <= (IF Unknown THEN cfg.tmin + UnlExtra ELSE cfg.t)
  /\ fired + discarded + Cardinality({i \in Inst : tok[i] \/ ipc[i] = "shooting"})
       = SumDrawn(MaxInst)
\* the token is withdrawn only while the ammo is held
TokenOnlyWithAmmo == \A i \in Inst : (tok[i] \/ ipc[i] = "shooting") => held[i] # 0
\* no item is held by two instances, released twice, or used after its release
ItemDiscipline == /\ ~badUse
                  /\ \A x \in Items : rel[x] <= 1
                  /\ \A i, j \in Inst : i # j /\ held[i] # 0 => held[i] # held[j]
                  /\ \A i \in Inst : held[i] # 0 => rel[held[i]] = 0
CountersStep == /\ response = fired
                /\ request = fired + Cardinality({i \in Inst : ipc[i] = "shooting"})
Accounting  == Done => fired + discarded = ExpectedShots
ReleasedAll == Done => (\A x \in Items : rel[x] = 1) /\ (\A i \in Inst : held[i] = 0)
\* (finite profiles; with a part of unknown length every instance may be caught holding ammo at the end)
UnfiredBound == Done => IF Unknown THEN Unfired >= 0 /\ Unfired <= created
                        ELSE IF cfg.per THEN Unfired = 0 ELSE Unfired <= Max(created - 1, 0) /\ Unfired >= 0
\* a profile never reports its end before its guaranteed tokens are handed out
MinTokensServed == Unknown => \A s \in 0..MaxInst : closed[s] => drawn[s] >= cfg.tmin
CountersEnd == Done => /\ request = fired /\ response = fired
                       /\ instStart = created /\ instFinish = created

\* ---- C12
Released(t) == Cardinality({k \in 1..N : cfg.startup[k] <= t})
IdsConsecutive == \A k \in 1..Len(ids) : ids[k] = k           \* pandora ids 0,1,2,... in creation order
IdsDistinctSet == Len(ids) = created /\ {ids[k] : k \in 1..Len(ids)} = 1..created
NotBeforeProfile == created <= Released(now)
\* an instance stops only for one of its own reasons; the starter never stops one
KeepsRunning == \A i \in Inst :
                  /\ ipc[i] \in {"exit", "ended"} => why[i] \in {"sched", "ammo", "ctx"}
                  /\ why[i] = "sched" => (IF Unknown THEN closed[Sid(i)] ELSE LeftOf(Sid(i)) = 0) \/ NegLeftShort
                  /\ why[i] = "ammo"  => ~HasAmmo
                  /\ why[i] = "ctx"   => RunDone
AllEnded == Done => \A i \in Inst : ipc[i] \in {"none", "ended"}
\* every startup token becomes an instance unless a cut-short reason was observed
\* (creation errors and cancellation do not occur in normal operation)
AllTokensUnlessCut == Done => created = N \/ ooaSeen \/ finSeen
StartedOnlyFromTokens == created <= sk /\ sk <= N
=============================================================================
