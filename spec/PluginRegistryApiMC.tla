------------------------- MODULE PluginRegistryApiMC -------------------------
(* Model-checking instance of PluginRegistryApi + the case generator (M2): the complete case space and the probe lists  *)
(* are written for `vdrive plugreg -mode api`.                                                                        *)
EXTENDS PluginRegistryApi, Json, IOUtils, SequencesExt

GenInit == cs = <<>> /\ j = 0 /\ outs = <<>> /\ ms = S0 /\ pr = Probes(S0)
GenNext == UNCHANGED vars
Exported == /\ ndJsonSerialize(IOEnv.VERIF_OUT, SetToSeq({[ops |-> c] : c \in Cases}))
            /\ ndJsonSerialize(IOEnv.VERIF_OUT_PROBES, <<[types |-> ProbeTypes, names |-> ProbeNames, fts |-> ProbeFTs]>>)
=============================================================================
