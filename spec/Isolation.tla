------------------------------ MODULE Isolation ------------------------------
(***************************************************************************)
(* C11 -- instance isolation of the built-in components.                   *)
(*                                                                         *)
(* core/engine: startInstances -> newInstance(id): gun := NewGun();        *)
(* gun.Bind(aggregator, deps{InstanceID: id}); the instance goroutine then *)
(* loops Acquire -> Shoot(ammo) -> Release.  Nothing in the engine checks  *)
(* that a gun is not busy: non-overlap FOLLOWS from every instance owning  *)
(* its own gun and being sequential -- so that is how it is modelled, and  *)
(* NoOverlap is an invariant, not a guard.                                 *)
(*                                                                         *)
(* What the instances share: the provider, the aggregator, the scenario    *)
(* DEFINITION (cloned ammo shares steps, templates, metadata/header maps,  *)
(* iterators), the random sources.  A call renders the shared templates    *)
(* with the variables drawn for THIS shot; `defs` is the shared store,     *)
(* `view` what each gun's templater parsed from it (per-instance view).    *)
(*                                                                         *)
(* Actions: NewGun(c,g) Bind(c,i,g) ShootBegin(i,g,t) Draw(g,t)            *)
(*          RandEnter(g) RandExit(g) Send(g,p,m) ShootEnd(i,g)             *)
(* c = the goroutine that creates the instance (it calls the factory and   *)
(* then Bind); t = token carried by the ammo ("" = scenario: drawn later). *)
(*                                                                         *)
(* Samples (netsample): a *Sample comes out of ONE process-wide sync.Pool  *)
(* (SAcquire), belongs to the gun that acquired it until the gun hands it  *)
(* to the aggregator (SReport), and to the aggregator afterwards, which    *)
(* formats it in its own goroutine and puts it back into the pool          *)
(* (AggWrite).  After the hand-over the gun must neither write to it nor   *)
(* report it again.                                                        *)
(*   SAcquire(g,s) SMark(g) SReport(g) SFailAfter(g) AggWrite              *)
(*                                                                         *)
(* Schedules: with rps-per-instance every instance gets its OWN schedule   *)
(* object from the pool's NewRPSSchedule factory (sched[i], assigned in    *)
(* newInstance); a composite schedule's nested parts are created by the    *)
(* config decode of that product, so they belong to that instance too.     *)
(* left[s] = tokens the object still hands out (the profile has ProfileK); *)
(* an instance shoots once per token it draws from ITS schedule.  Without  *)
(* rps-per-instance there is one shared object by design.                  *)
(*                                                                         *)
(* Ammo objects: providers that recycle ammo (grpc/json, the generic       *)
(* AmmoQueue / DecodeProvider) hand out objects of ONE pool; the instance  *)
(* goroutine owns the object from Acquire until its ONE Release (deferred  *)
(* in instance.Run), whether the ammo is shot or -- discard_overflow, the  *)
(* instance >= 2 s behind its schedule -- discarded.                       *)
(*   AAcquire(i,a) ADiscard(i) ARelease(i)                                 *)
(*                                                                         *)
(* Variables of a shot.  A scenario step's postprocessors capture values   *)
(* of its response (var/header, var/jsonpath, var/xpath), later steps      *)
(* render them into their requests.  The storage belongs to ONE execution  *)
(* of the scenario (a map created in Shoot): vstore[g] is what gun g       *)
(* captured in the shot in progress, first[g] the token of that shot's     *)
(* first call.  A later call carries `prev` = what THIS shot captured.     *)
(*                                                                         *)
(* Negative controls (all FALSE for the real design):                      *)
(*   SharedVars  captured values are kept with the shared scenario         *)
(*               definition: one storage for all instances                 *)
(*   ShareGun    the factory hands out one gun object to every instance    *)
(*   InPlace     rendered values are stored in the shared definition       *)
(*   NoRandLock  the shared random source is entered without its lock      *)
(*   ShareNested the factory's products wrap the SAME nested schedule      *)
(*               objects (config decoded once for all products)            *)
(*   DoubleRelease the discard path gives the ammo back itself AND the     *)
(*               deferred Release runs: the object is in the pool twice    *)
(*   ReportEarly the gun reports the sample BEFORE the part of the step    *)
(*               that can still fail and, on failure, marks the sample and *)
(*               reports it again (write after hand-over, double release)  *)
(***************************************************************************)
EXTENDS Integers, Sequences, FiniteSets, TLC

CONSTANTS Insts, Guns, Toks, MaxShots, KeepLog, ShareGun, InPlace, NoRandLock,
          Samples,      \* sample objects of the shared pool ({} = samples not modelled)
          WithRand,     \* model the shared random source
          ReportEarly,
          Scheds,       \* schedule objects ({} = schedules not modelled)
          ProfileK,     \* tokens of the configured profile
          PerInstance,  \* rps-per-instance
          ShareNested,
          Ammos,        \* ammo objects of the provider's pool ({} = ammo objects not modelled)
          DoubleRelease,
          WithVars,     \* model the variables of a shot (vstore, first)
          SharedVars

VARIABLES pend,     \* set of <<creator, gun>>: product of the factory not yet bound
          made,     \* guns the factory produced
          owners,   \* gun -> set of instances it was bound to
          busy,     \* instance -> BOOLEAN: its goroutine is inside Shoot
          nShoot,   \* gun -> number of goroutines inside its Shoot
          shooter,  \* gun -> goroutine ids that ever called its Shoot
          cur,      \* gun -> token of the call in progress: its own draw ("" = not drawn yet, "-" = idle)
          used,     \* tokens drawn so far
          defs,     \* shared definitions: "T" (template as written) or a rendered literal
          view,     \* gun -> "none" | what its templater parsed from defs
          inCrit,   \* guns inside the shared random source
          sent,     \* log of calls [gun, cur, p, m] (KeepLog)
          shots,
          holders,  \* sample -> who holds a reference it may use: guns and/or "agg"
          inPool,   \* sample -> how many times it sits in the pool's free list
          sval,     \* sample -> content: [gun that wrote it, mark]
          aggq,     \* the aggregator's queue: <<[s, v]>> -- sample and its content AT HAND-OVER
          lines,    \* log of written lines [handed, written] (KeepLog)
          hs,       \* gun -> sample of its current step ("nil" = none)
          sph,      \* gun -> step phase w.r.t. its sample: none | acq | sent
          stale,    \* gun -> sample it already reported but still references (ReportEarly only)
          sched,    \* instance -> its schedule object (positive integers; 0 before newInstance)
          left,     \* schedule object -> tokens left
          took,     \* instance -> tokens it drew = shots it fired
          apool,    \* ammo object -> how many times it sits in the provider's pool / queue
          aholder,  \* ammo object -> instances that hold it (between Acquire and Release)
          ia,       \* instance -> the ammo object it acquired ("nil" = none)
          iph,      \* instance -> idle | have (acquired, not shot yet) | shot
          vstore,   \* gun -> the value the shot in progress captured from its first call ("-" = nothing yet)
          first     \* gun -> token of the first call of the shot in progress ("" = no call yet)

svars == <<holders, inPool, sval, aggq, lines, hs, sph, stale>>
schvars == <<sched, left, took>>
avars == <<apool, aholder, ia, iph>>
vvars == <<vstore, first>>
vars == <<pend, made, owners, busy, nShoot, shooter, cur, used, defs, view, inCrit, sent, shots, svars, schvars, avars, vvars>>

Init ==
    /\ pend = {} /\ made = {}
    /\ owners = [g \in Guns |-> {}]
    /\ busy = [i \in Insts |-> FALSE]
    /\ nShoot = [g \in Guns |-> 0]
    /\ shooter = [g \in Guns |-> {}]
    /\ cur = [g \in Guns |-> "-"]
    /\ used = {}
    /\ defs = "T"
    /\ view = [g \in Guns |-> "none"]
    /\ inCrit = {}
    /\ sent = {}
    /\ shots = 0
    /\ holders = [s \in Samples |-> {}]
    /\ inPool = [s \in Samples |-> 1]
    /\ sval = [s \in Samples |-> [gun |-> 0, mark |-> "-"]]
    /\ aggq = <<>> /\ lines = {}
    /\ hs = [g \in Guns |-> "nil"]
    /\ sph = [g \in Guns |-> "none"]
    /\ stale = [g \in Guns |-> "nil"]
    /\ sched = [i \in Insts |-> 0]
    /\ left = [s \in Scheds |-> ProfileK]
    /\ took = [i \in Insts |-> 0]
    /\ apool = [a \in Ammos |-> 1]
    /\ aholder = [a \in Ammos |-> {}]
    /\ ia = [i \in Insts |-> "nil"]
    /\ iph = [i \in Insts |-> "idle"]
    /\ vstore = [g \in Guns |-> "-"]
    /\ first = [g \in Guns |-> ""]

\* the registered factory builds a NEW gun for every call (ShareGun: a singleton)
NewGun(c, g) ==
    /\ IF ShareGun THEN (made = {} \/ g \in made) ELSE g \notin made
    /\ \A p \in pend : p[1] # c
    /\ made' = made \cup {g}
    /\ pend' = pend \cup {<<c, g>>}
    /\ UNCHANGED <<owners, busy, nShoot, shooter, cur, used, defs, view, inCrit, sent, shots, svars, schvars, avars, vvars>>

Bind(c, i, g) ==
    /\ <<c, g>> \in pend
    /\ \A h \in Guns : i \notin owners[h]             \* newInstance(id) is called once per id
    /\ owners' = [owners EXCEPT ![g] = @ \cup {i}]
    /\ pend' = pend \ {<<c, g>>}
    \* newInstance: sched := newSchedule().  Shared rps: the pool's one object.  rps-per-instance: a new product
    \* of the factory -- an object (with its own nested parts) nobody else has; ShareNested: every product
    \* wraps the nested objects of the first one, i.e. it IS the same token source.
    /\ IF Scheds = {} THEN sched' = sched
       ELSE \E s \in Scheds :
              /\ IF PerInstance /\ ~ShareNested THEN \A j \in Insts : sched[j] # s
                 ELSE s = CHOOSE x \in Scheds : \A y \in Scheds : x <= y
              /\ sched' = [sched EXCEPT ![i] = s]
    /\ UNCHANGED <<made, busy, nShoot, shooter, cur, used, defs, view, inCrit, sent, shots, svars, left, took, avars, vvars>>

\* the instance goroutine (sequential) hands an acquired ammo to ITS gun
ShootBegin(i, g, gid, t) ==
    /\ i \in owners[g] /\ ~busy[i]
    /\ Ammos = {} \/ iph[i] = "have"                 \* Acquire comes first
    /\ iph' = iph
    \* one shot per token the instance draws from ITS schedule
    /\ IF Scheds = {} THEN UNCHANGED <<left, took>>
       ELSE /\ left[sched[i]] > 0
            /\ left' = [left EXCEPT ![sched[i]] = @ - 1]
            /\ took' = [took EXCEPT ![i] = @ + 1]
    /\ busy' = [busy EXCEPT ![i] = TRUE]
    /\ nShoot' = [nShoot EXCEPT ![g] = @ + 1]
    /\ shooter' = [shooter EXCEPT ![g] = @ \cup {gid}]
    /\ cur' = [cur EXCEPT ![g] = t]
    /\ used' = IF t = "" THEN used ELSE used \cup {t}
    /\ shots' = shots + 1
    /\ UNCHANGED <<pend, made, owners, defs, view, inCrit, sent, svars, sched, apool, aholder, ia, vvars>>

\* scenario step: the preprocessor draws this call's variables (source[next] under the iterator lock)
Draw(g, t) ==
    /\ nShoot[g] > 0 /\ cur[g] = "" /\ t \notin used
    /\ Samples = {} \/ sph[g] = "acq"
    /\ cur' = [cur EXCEPT ![g] = t]
    /\ used' = used \cup {t}
    /\ UNCHANGED <<pend, made, owners, busy, nShoot, shooter, defs, view, inCrit, sent, shots, svars, schvars, avars, vvars>>

\* rand / randString: the shared *rand.Rand
RandEnter(g) ==
    /\ WithRand
    /\ nShoot[g] > 0 /\ g \notin inCrit
    /\ NoRandLock \/ inCrit = {}
    /\ inCrit' = inCrit \cup {g}
    /\ UNCHANGED <<pend, made, owners, busy, nShoot, shooter, cur, used, defs, view, sent, shots, svars, schvars, avars, vvars>>
RandExit(g) ==
    /\ g \in inCrit
    /\ inCrit' = inCrit \ {g}
    /\ UNCHANGED <<pend, made, owners, busy, nShoot, shooter, cur, used, defs, view, sent, shots, svars, schvars, avars, vvars>>

\* where gun g keeps what its shot captured: its own slot -- or (SharedVars) the one slot of the shared definition
Slot(g) == IF SharedVars THEN CHOOSE h \in Guns : \A k \in Guns : h <= k ELSE g
\* the call leaves gun g with token p in the payload and m in the templated header / metadata; a later call of the
\* shot also carries prev = the value captured from the shot's first call
Send(g, p, m, nd, nv, scenario, prev) ==
    /\ nShoot[g] > 0 /\ cur[g] \notin {"", "-"} /\ g \notin inCrit
    /\ sent' = IF KeepLog THEN sent \cup {[gun |-> g, cur |-> cur[g], p |-> p, m |-> m, own |-> first[g], prev |-> prev]} ELSE sent
    /\ defs' = nd /\ view' = nv
    /\ cur' = [cur EXCEPT ![g] = IF scenario THEN "" ELSE @]      \* the next step draws again
    /\ sph' = IF Samples = {} THEN sph ELSE [sph EXCEPT ![g] = "sent"]
    \* the first call's postprocessors capture its token (the response echoes it)
    /\ IF WithVars /\ scenario /\ first[g] = ""
       THEN first' = [first EXCEPT ![g] = cur[g]] /\ vstore' = [vstore EXCEPT ![Slot(g)] = cur[g]]
       ELSE UNCHANGED vvars
    /\ UNCHANGED <<pend, made, owners, busy, nShoot, shooter, used, inCrit, shots, holders, inPool, sval, aggq, lines, hs, stale, schvars, avars>>

ShootEnd(i, g) ==
    /\ i \in owners[g] /\ busy[i] /\ nShoot[g] > 0 /\ g \notin inCrit
    /\ sph[g] = "none" /\ stale[g] = "nil"
    /\ busy' = [busy EXCEPT ![i] = FALSE]
    /\ nShoot' = [nShoot EXCEPT ![g] = @ - 1]
    /\ cur' = [cur EXCEPT ![g] = "-"]
    /\ iph' = IF Ammos = {} THEN iph ELSE [iph EXCEPT ![i] = "shot"]
    /\ first' = [first EXCEPT ![g] = ""]                         \* the shot's variables die with the shot
    /\ vstore' = IF SharedVars THEN vstore ELSE [vstore EXCEPT ![g] = "-"]
    /\ UNCHANGED <<pend, made, owners, shooter, used, defs, view, inCrit, sent, shots, svars, schvars, apool, aholder, ia>>

(****************************** ammo objects *******************************)
ncore == <<pend, made, owners, busy, nShoot, shooter, cur, used, defs, view, inCrit, sent, shots, svars, schvars, vvars>>

\* provider.Acquire: any object the provider has ready
AAcquire(i, a) ==
    /\ \E g \in Guns : i \in owners[g]
    /\ iph[i] = "idle" /\ apool[a] > 0
    /\ apool' = [apool EXCEPT ![a] = @ - 1]
    /\ aholder' = [aholder EXCEPT ![a] = @ \cup {i}]
    /\ ia' = [ia EXCEPT ![i] = a]
    /\ iph' = [iph EXCEPT ![i] = "have"]
    /\ UNCHANGED ncore

GiveBack(i, n) ==
    /\ apool' = [apool EXCEPT ![ia[i]] = @ + n]
    /\ aholder' = [aholder EXCEPT ![ia[i]] = @ \ {i}]
    /\ ia' = [ia EXCEPT ![i] = "nil"]
    /\ iph' = [iph EXCEPT ![i] = "idle"]

\* discard_overflow and the instance is too late: no shot; the deferred Release gives the ammo back (once)
ADiscard(i) ==
    /\ iph[i] = "have" /\ ~busy[i]
    /\ GiveBack(i, IF DoubleRelease THEN 2 ELSE 1)
    /\ UNCHANGED ncore

\* the deferred Release after the shot
ARelease(i) ==
    /\ iph[i] = "shot" /\ ~busy[i]
    /\ GiveBack(i, 1)
    /\ UNCHANGED ncore

(****************************** samples ************************************)
core == <<pend, made, owners, busy, nShoot, shooter, cur, used, defs, view, inCrit, sent, shots, schvars, avars, vvars>>

\* netsample.Acquire at the start of a step: any sample the pool has
SAcquire(g, s) ==
    /\ nShoot[g] > 0 /\ cur[g] = "" /\ sph[g] = "none" /\ stale[g] = "nil"
    /\ inPool[s] > 0
    /\ inPool' = [inPool EXCEPT ![s] = @ - 1]
    /\ holders' = [holders EXCEPT ![s] = @ \cup {g}]
    /\ sval' = [sval EXCEPT ![s] = [gun |-> g, mark |-> "ok"]]        \* *s = Sample{tags: tag, ...}
    /\ hs' = [hs EXCEPT ![g] = s]
    /\ sph' = [sph EXCEPT ![g] = "acq"]
    /\ UNCHANGED <<core, aggq, lines, stale>>

\* the step failed (postprocessor, transport): the gun marks ITS sample (reportErr: AddTag, SetErr)
SMark(g) ==
    /\ sph[g] = "sent" /\ hs[g] # "nil" /\ sval[hs[g]].mark = "ok"
    /\ sval' = [sval EXCEPT ![hs[g]] = [gun |-> g, mark |-> "failed"]]
    /\ UNCHANGED <<core, holders, inPool, aggq, lines, hs, sph, stale>>

\* Aggregator.Report(sample): the sample now belongs to the aggregator
SReport(g) ==
    /\ sph[g] = "sent" /\ hs[g] # "nil"
    /\ aggq' = Append(aggq, [s |-> hs[g], v |-> sval[hs[g]]])
    /\ holders' = [holders EXCEPT ![hs[g]] = (@ \ {g}) \cup {"agg"}]
    /\ stale' = [stale EXCEPT ![g] = IF ReportEarly THEN hs[g] ELSE "nil"]
    /\ hs' = [hs EXCEPT ![g] = "nil"]
    /\ sph' = [sph EXCEPT ![g] = "none"]
    /\ UNCHANGED <<core, inPool, sval, lines>>

\* ReportEarly only: the step fails AFTER the hand-over; the gun writes to the sample it no longer
\* owns and reports it a second time -- or the rest of the step succeeds and the reference is dropped
SFailAfter(g) ==
    /\ ReportEarly /\ stale[g] # "nil"
    /\ \/ /\ sval' = [sval EXCEPT ![stale[g]] = [gun |-> g, mark |-> "failed"]]
          /\ aggq' = Append(aggq, [s |-> stale[g], v |-> sval'[stale[g]]])
       \/ UNCHANGED <<sval, aggq>>
    /\ stale' = [stale EXCEPT ![g] = "nil"]
    /\ UNCHANGED <<core, holders, inPool, lines, hs, sph>>

\* the aggregator goroutine formats the head of its queue (reading the object NOW) and releases it
AggWrite ==
    /\ aggq # <<>>
    /\ LET e == Head(aggq) IN
         /\ lines' = IF KeepLog THEN lines \cup {[handed |-> e.v, written |-> sval[e.s]]} ELSE lines
         /\ holders' = [holders EXCEPT ![e.s] = @ \ {"agg"}]
         /\ inPool' = [inPool EXCEPT ![e.s] = @ + 1]
    /\ aggq' = Tail(aggq)
    /\ UNCHANGED <<core, sval, hs, sph, stale>>

(* design level: what the modelled templater sends *)
Src(g) == IF view[g] = "none" THEN defs ELSE view[g]
MVal(g) == IF Src(g) = "T" THEN cur[g] ELSE Src(g)
ModelSend(g) == Send(g, cur[g], MVal(g), IF InPlace THEN MVal(g) ELSE defs, [view EXCEPT ![g] = Src(g)], TRUE,
                     IF first[g] = "" THEN "" ELSE vstore[Slot(g)])

Next ==
    \/ \E i \in Insts, g \in Guns : NewGun(i, g) \/ Bind(i, i, g) \/ ShootEnd(i, g)
    \/ \E i \in Insts, g \in Guns : shots < MaxShots /\ ShootBegin(i, g, i, "")
    \/ \E g \in Guns, t \in Toks : Draw(g, t)
    \/ \E g \in Guns : RandEnter(g) \/ RandExit(g) \/ ModelSend(g)
    \/ \E g \in Guns, s \in Samples : SAcquire(g, s)
    \/ \E g \in Guns : SMark(g) \/ SReport(g) \/ SFailAfter(g)
    \/ AggWrite
    \/ \E i \in Insts, a \in Ammos : AAcquire(i, a)
    \/ \E i \in Insts : ADiscard(i) \/ ARelease(i)

Spec == Init /\ [][Next]_vars

(****************************** properties *********************************)
TypeOK == /\ \A g \in Guns : nShoot[g] \in 0..Cardinality(Insts) /\ owners[g] \subseteq Insts
          /\ inCrit \subseteq Guns
\* a gun object is bound to exactly one instance; an instance has one gun
OneOwner == /\ \A g \in Guns : Cardinality(owners[g]) <= 1
            /\ \A g, h \in Guns : g # h => owners[g] \cap owners[h] = {}
\* a gun is never asked to fire two requests at the same time
NoOverlap == \A g \in Guns : nShoot[g] <= 1
\* only one goroutine -- the owning instance's -- ever calls a gun, and it calls no other gun
OneShooter == /\ \A g \in Guns : Cardinality(shooter[g]) <= 1
              /\ \A g, h \in Guns : g # h => shooter[g] \cap shooter[h] = {}
\* what leaves an instance for a call is a function of the definition and ITS OWN draw
ValueIsolation == \A r \in sent : r.p = r.cur /\ r.m = r.cur
\* no value is sent for two different calls
FreshValues == \A r, q \in sent : r # q => (r.m # q.m \/ (r.gun = q.gun /\ r.cur = q.cur))
\* shared definitions are never altered
SharedUnaltered == defs = "T"
\* what a later call of a shot carries from an earlier one is what THIS shot captured
VarIsolation == \A r \in sent : r.own # "" => r.prev = r.own
\* rps-per-instance: a schedule object (and its nested parts) belongs to exactly one instance
SchedOneOwner == PerInstance => \A i, j \in Insts : i # j /\ sched[i] # 0 => sched[i] # sched[j]
\* ... so that every instance shoots the FULL profile: when its schedule is drained it drew all ProfileK tokens
FullProfile == PerInstance => \A i \in Insts : (sched[i] # 0 /\ left[sched[i]] = 0) => took[i] = ProfileK
\* an ammo object is owned by ONE instance from Acquire until Release ...
AmmoOneHolder == \A a \in Ammos : Cardinality(aholder[a]) <= 1
\* ... and given back exactly once: it is never in the pool twice, never in the pool while somebody holds it
AmmoReleasedOnce == \A a \in Ammos : apool[a] <= 1 /\ (apool[a] = 1 => aholder[a] = {})
\* a sample has ONE owner: the gun from Acquire until Report, the aggregator afterwards
SampleOneHolder == \A s \in Samples : Cardinality(holders[s]) <= 1
\* it is released into the pool once, and nobody holds a released sample
NoDoubleRelease == \A s \in Samples : inPool[s] <= 1 /\ (inPool[s] = 1 => holders[s] = {})
\* no write after the hand-over: every line is the content the gun handed over
LinesAsHanded == \A x \in lines : x.handed = x.written
\* the shared random source is used by one goroutine at a time
RandMutex == Cardinality(inCrit) <= 1
=============================================================================
