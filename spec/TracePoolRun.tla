---------------------------- MODULE TracePoolRun ----------------------------
(***************************************************************************)
(* C05 trace specification (M1): every recorded run of the REAL engine     *)
(* under a fault plan must be a behaviour of PoolRun.tla.                  *)
(*                                                                         *)
(* The trace file holds many runs; a run starts with a "Plan" line and     *)
(* ends with "End".  Every initial state picks one run (so TLC's workers   *)
(* validate the runs independently); a run is ACCEPTED when its "End" line *)
(* is consumed, which prints <<"VERIF-ACC", run>>.                         *)
(*                                                                         *)
(* Logged events are bound to the action of PoolRun they witness:          *)
(*   hooks (await goroutine)  AwaitProvider/Aggregator/Start/Instance,     *)
(*                            ErrForwarded, ErrSuppressed,                 *)
(*                            AllInstancesFinished                         *)
(*   hooks (other goroutines) PoolReturn, WaitDone, EngineReturn           *)
(*   mocks                    ProvRunEnd, AggRunEnd, Bind, NewGunFail,     *)
(*                            NewSchedFail, Shoot, Close                   *)
(*   driver                   Cancel, RunReturn, WaitReturn, End, Release  *)
(*   mocks (blocked call)     Blocked                                      *)
(* Steps nobody can log (context reads inside Waiter, channel hand-overs,  *)
(* the pool goroutines' own selects) are silent steps which TLC            *)
(* interleaves freely; their results surface in later logged events.       *)
(* Every event that cancels a context is logged BEFORE the cancel happens, *)
(* so an observation "ctx done" always finds the cancel already consumed.  *)
(* A hang (RunHang / WaitHang line) matches no action: the run is rejected.*)
(***************************************************************************)
EXTENDS PoolRunMC, IOUtils

CONSTANTS Diag,       \* TRUE: print <<"VERIF-HW", run, l>> for every consumed line (diagnosis of a rejected run)
          PromptMs    \* one-sided guard band for "a cancelled Run returns promptly" on real runs

VARIABLES l, run, retLogged, fwdLogged, wdLogged, runLogged, engLogged

aux == <<retLogged, fwdLogged, wdLogged, runLogged, engLogged>>
tvars == <<vars, l, run, aux>>

Trace == ndJsonDeserialize(IOEnv.VERIF_TRACE)
Ev == Trace[l]
PlanById(id) == CHOOSE pl \in Plans : pl.id = id

TInit ==
  \E s \in {i \in 1..Len(Trace) : Trace[i].ev = "Plan"} :
    /\ l = s + 1 /\ run = Trace[s].run
    /\ InitFor(PlanById(Trace[s].plan))
    /\ retLogged = [p \in 1..Trace[s].n |-> FALSE]
    /\ fwdLogged = [p \in 1..Trace[s].n |-> FALSE]
    /\ wdLogged = [p \in 1..Trace[s].n |-> 0]
    /\ runLogged = FALSE /\ engLogged = FALSE

Have(e) == l <= Len(Trace) /\ Ev.run = run /\ Ev.ev = e

Consume == l' = l + 1 /\ run' = run /\ (Diag => PrintT(<<"VERIF-HW", run, l>>))

\* PoolReturn: cls = nil | ctx (the bare ctx.Err() of the pool's own select) | err with the cause class in c
PRet(e) == IF e.cls = "err" THEN Ret("err", e.c) ELSE Ret(e.cls, "")

(* ---- driver events ---- *)
TCancel == Have("Cancel") /\ UserCancel /\ Consume /\ UNCHANGED aux

\* The hook is written by Run's deferred function: AFTER the loop has decided what Run returns (a silent EngRecv /
\* EngCancel; a caller's cancel may land in between and must not change the result) and BEFORE the deferred cancel().
TEngineReturn ==
  /\ Have("EngineReturn") /\ engRet.k # "none" /\ ~engLogged
  /\ engLogged' = TRUE
  /\ Consume /\ UNCHANGED <<vars, retLogged, fwdLogged, wdLogged, runLogged>>

TRunReturn ==
  /\ Have("RunReturn") /\ ~runLogged
  /\ engRet = (IF Ev.cls = "err" THEN ERet("err", Ev.p, Ev.c) ELSE ERet(Ev.cls, 0, ""))
  /\ (Ev.flag => Ev.ms <= PromptMs)
  /\ runLogged' = TRUE
  /\ Consume /\ UNCHANGED <<vars, retLogged, fwdLogged, wdLogged, engLogged>>

TWaitReturn == Have("WaitReturn") /\ runLogged /\ WaitReturn /\ Consume /\ UNCHANGED aux

TEnd ==
  /\ Have("End") /\ Terminated /\ runLogged
  /\ Ev.n = 0 /\ ~Ev.flag            \* no mock Run / Shoot still active, no goroutine of the run alive
  /\ \A p \in Pools : retLogged[p] /\ wdLogged[p] = wdCount[p] /\ (fwdLogged[p] <=> fwd[p] # "none")
  /\ PrintT(<<"VERIF-ACC", run>>)
  /\ Consume /\ UNCHANGED <<vars, aux>>

\* a mock has entered the component call that does not return before Run has returned (plan field block)
TBlocked ==
  /\ Have("Blocked") /\ PP(Ev.p).block = Ev.cls
  /\ CASE Ev.cls \in {"newgun-warmup", "warmup"} -> poolPc[Ev.p] = "init"
       [] Ev.cls = "sched-shared" -> poolPc[Ev.p] = "async"
       [] Ev.cls \in {"newgun-first", "bind-first"} -> st[Ev.p].pc = "create"
       [] Ev.cls = "shoot" -> ipc[Ev.p][0] = "shoot" /\ ishots[Ev.p][0] = 0
       [] OTHER -> FALSE
  /\ Consume /\ UNCHANGED <<vars, aux>>

\* the driver lets those calls return: only after Engine.Run has returned
TRelease == Have("Release") /\ runLogged /\ Released /\ Consume /\ UNCHANGED <<vars, aux>>

(* ---- pool / engine hooks ---- *)
TPoolReturn ==
  /\ Have("PoolReturn") /\ ~retLogged[Ev.p]
  /\ retLogged' = [retLogged EXCEPT ![Ev.p] = TRUE]
  /\ \/ /\ poolPc[Ev.p] \in {"ret", "report", "done"} /\ poolRet[Ev.p] = PRet(Ev)
        /\ UNCHANGED vars
     \/ \* Run received the error and logged its return before the await goroutine logged ErrForwarded
        /\ poolPc[Ev.p] = "select" /\ aw[Ev.p].pc = "onerr" /\ Ev.cls = "err" /\ aw[Ev.p].pend = Ev.c
        /\ ForwardErr(Ev.p)
  /\ Consume /\ UNCHANGED <<fwdLogged, wdLogged, runLogged, engLogged>>

TWaitDone ==
  /\ Have("WaitDone") /\ wdLogged[Ev.p] < wdCount[Ev.p]
  /\ wdLogged' = [wdLogged EXCEPT ![Ev.p] = @ + 1]
  /\ Consume /\ UNCHANGED <<vars, retLogged, fwdLogged, runLogged, engLogged>>

(* ---- await goroutine hooks ---- *)
TAwaitProvider == Have("AwaitProvider") /\ provCh[Ev.p] = Ev.cls /\ AwaitProvider(Ev.p) /\ Consume /\ UNCHANGED aux
TAwaitAggregator == Have("AwaitAggregator") /\ aggCh[Ev.p] = Ev.cls /\ AwaitAggregator(Ev.p) /\ Consume /\ UNCHANGED aux
TAwaitStart == /\ Have("AwaitStart") /\ startCh[Ev.p].n = Ev.n /\ startCh[Ev.p].c = Ev.cls
               /\ AwaitStart(Ev.p) /\ Consume /\ UNCHANGED aux
TAwaitInstance == Have("AwaitInstance") /\ AwaitInstance(Ev.p, [id |-> Ev.n, c |-> Ev.cls]) /\ Consume /\ UNCHANGED aux
TAllFinished == Have("AllInstancesFinished") /\ aw[Ev.p].awaited = Ev.n /\ CheckAllFin(Ev.p) /\ Consume /\ UNCHANGED aux

TErrForwarded ==
  /\ Have("ErrForwarded") /\ ~fwdLogged[Ev.p]
  /\ fwdLogged' = [fwdLogged EXCEPT ![Ev.p] = TRUE]
  /\ \/ fwd[Ev.p] = "none" /\ aw[Ev.p].pend = Ev.cls /\ ForwardErr(Ev.p)
     \/ fwd[Ev.p] = Ev.cls /\ UNCHANGED vars
  /\ Consume /\ UNCHANGED <<retLogged, wdLogged, runLogged, engLogged>>

TErrSuppressed == Have("ErrSuppressed") /\ aw[Ev.p].pend = Ev.cls /\ SuppressErr(Ev.p) /\ Consume /\ UNCHANGED aux

(* ---- mock events ---- *)
TProvRunEnd == Have("ProvRunEnd") /\ ProvEnd(Ev.p, Ev.cls) /\ Consume /\ UNCHANGED aux
TAggRunEnd == Have("AggRunEnd") /\ AggEnd(Ev.p, Ev.cls) /\ Consume /\ UNCHANGED aux

Create(p, i, o) == IF i = 0 THEN StartFirstCreate(p, o) ELSE IF SplitCreate THEN InstBind(p, i, o) ELSE InstCreate(p, i, o)
\* a failing factory call: of the first instance (synchronous), of the only asynchronous one (MaxN = 2), or - with
\* racing asynchronous creations - of a silent GunCall that has already taken that call index
FailedCall(p, pos, calls, n) ==
  IF st[p].pc = "create" THEN calls = n /\ StartFirstCreate(p, pos)
  ELSE IF SplitCreate THEN calls > n /\ UNCHANGED vars
  ELSE calls = n /\ \E i \in Insts \ {0} : InstCreate(p, i, pos)

TBind == Have("Bind") /\ Create(Ev.p, Ev.n, Ev.cls) /\ Consume /\ UNCHANGED aux

TNewGunFail ==
  /\ Have("NewGunFail")
  /\ IF Ev.n = 0 THEN PP(Ev.p).gunFail = 0 /\ UNCHANGED vars      \* warm-up gun: PoolWarm (silent) fails
     ELSE PP(Ev.p).gunFail = Ev.n /\ FailedCall(Ev.p, "newgun", gunCalls[Ev.p], Ev.n)
  /\ Consume /\ UNCHANGED aux

TNewSchedFail ==
  /\ Have("NewSchedFail")
  /\ IF PP(Ev.p).shared THEN Ev.n = 0 /\ PP(Ev.p).schedFail = 0 /\ UNCHANGED vars   \* runAsync (silent) fails
     ELSE PP(Ev.p).schedFail = Ev.n /\ FailedCall(Ev.p, "sched", schedCalls[Ev.p], Ev.n)
  /\ Consume /\ UNCHANGED aux

TShoot == Have("Shoot") /\ ~PP(Ev.p).long /\ Panics(Ev.p, Ev.n) = Ev.flag /\ InstShoot(Ev.p, Ev.n) /\ Consume /\ UNCHANGED aux
TClose == Have("Close") /\ PP(Ev.p).closable /\ InstFinish(Ev.p, Ev.n) /\ Consume /\ UNCHANGED aux

\* lines that witness no step of the specification
TSkip == /\ l <= Len(Trace) /\ Ev.run = run /\ Ev.ev \in {"NewGunOk", "NewSchedOk", "WarmUp"}
         /\ Consume /\ UNCHANGED <<vars, aux>>

(* ---- silent steps ---- *)
\* The thousands of unlogged Acquire/Wait/Shoot rounds of a long pool's instance explain no logged line; only its two
\* ways out do: it sees the run ctx done (class ctx), or it is in Acquire when the provider closes the queue (class ooa).
LongSilent(p, i) == PP(p).long /\ (InstCheck(p, i) \/ (qClosed[p] /\ InstAcquire(p, i)))

TSilent ==
  /\ \/ EngRecv \/ EngCancel
     \/ (engLogged /\ EngDefer) \/ UserCancelDo
     \/ \E p \in Pools :
          \/ PoolStep(p) \/ ProvCloseQ(p)
          \/ StartFirstNone(p) \/ StartFirstGo(p) \/ StartLoop(p) \/ StartRet(p)
          \/ CheckAllNot(p) \/ CtxProp(p) \/ AwaitExit(p)
          \/ \E i \in Insts : (~PP(p).long /\ InstSilent(p, i)) \/ LongSilent(p, i) \/ GunCall(p, i)
                              \/ (~PP(p).closable /\ InstFinish(p, i))
  /\ UNCHANGED <<l, run, aux>>

TNext ==
  \/ TCancel \/ TEngineReturn \/ TRunReturn \/ TWaitReturn \/ TEnd \/ TBlocked \/ TRelease
  \/ TPoolReturn \/ TWaitDone
  \/ TAwaitProvider \/ TAwaitAggregator \/ TAwaitStart \/ TAwaitInstance \/ TAllFinished
  \/ TErrForwarded \/ TErrSuppressed
  \/ TProvRunEnd \/ TAggRunEnd \/ TBind \/ TNewGunFail \/ TNewSchedFail \/ TShoot \/ TClose
  \/ TSkip \/ TSilent
=============================================================================
