------------------------ MODULE TraceScenarioConfig ------------------------
(***************************************************************************)
(* C16 trace specification.  One NDJSON line per case of ScenarioConfig:   *)
(* the case key and, for each of the four renderings of the description    *)
(* (HCL plain, HCL through locals and collection functions, YAML plain,    *)
(* YAML through locals/anchors/merge keys), what the REAL front-ends made  *)
(* of it: the projected AmmoConfig (config.ReadAmmoConfig) and the         *)
(* projected ammo list of the provider built by the registered factory.    *)
(* The description is rebuilt here from the key (Build), its meaning is    *)
(* computed here (Decoded, Ammo); every rendering must yield exactly that. *)
(* Hence the two syntaxes agree with each other AND with the documented    *)
(* meaning.  The walk over the lines is chunked for TLC's workers.         *)
(***************************************************************************)
EXTENDS ScenarioConfig, Json, IOUtils

VARIABLE l

Trace == ndJsonDeserialize(IOEnv.VERIF_TRACE)
Chunk == 8

TInit == l = 0 /\ c = NoCase
TNext == \/ l = 0 /\ l' \in {j \in 1..Len(Trace) : j % Chunk = 1} /\ c' = Trace[l'].key
         \/ l > 0 /\ l % Chunk # 0 /\ l < Len(Trace) /\ l' = l + 1 /\ c' = Trace[l'].key

R == Trace[IF l = 0 THEN 1 ELSE l]
\* a rendering whose outcome equals that of an earlier style is logged as [same |-> style]
O(style) == IF "same" \in DOMAIN R.out[style] THEN R.out[R.out[style].same] ELSE R.out[style]

\* every rendering of a description of the case space is accepted by its front-end
Accepted(style) == l > 0 => O(style).err = ""
\* ... and means what the description means
CfgOK(style)    == l > 0 /\ O(style).err = "" => O(style).cfg = Decoded(D)
AmmoOK(style)   == l > 0 /\ O(style).err = "" => O(style).ammo = Ammo(D)

AcceptedHcl   == Accepted("hcl")
AcceptedHclL  == Accepted("hcll")
AcceptedYaml  == Accepted("yaml")
AcceptedYamlA == Accepted("yamla")
CfgHcl        == CfgOK("hcl")
CfgHclL       == CfgOK("hcll")
CfgYaml       == CfgOK("yaml")
CfgYamlA      == CfgOK("yamla")
AmmoHcl       == AmmoOK("hcl")
AmmoHclL      == AmmoOK("hcll")
AmmoYaml      == AmmoOK("yaml")
AmmoYamlA     == AmmoOK("yamla")
=============================================================================
