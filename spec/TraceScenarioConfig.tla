------------------------ MODULE TraceScenarioConfig ------------------------
(***************************************************************************)
(* C16 trace specification.  One NDJSON line per case of ScenarioConfig:   *)
(* the case key and, for each of the four renderings of the description    *)
(* (HCL plain, HCL through locals and collection functions, YAML plain,    *)
(* YAML through locals/anchors/merge keys), what the REAL front-ends made  *)
(* of it: the projected AmmoConfig (config.ReadAmmoConfig) and the         *)
(* projected ammo list of the provider built by the registered factory.    *)
(* The description is rebuilt here from the key (Build), its meaning is    *)
(* computed here (Decoded, Ammo); every rendering must yield exactly that. *)
(* Hence the two syntaxes agree with each other AND with the documented    *)
(* meaning.  The walk over the lines is chunked for TLC's workers.         *)
(***************************************************************************)
EXTENDS ScenarioConfig, Json, IOUtils

VARIABLES l,      \* the trace line being judged (0 = root)
          bad     \* names of the statements below that fail on line l (so that one run reports all of them)

Trace == ndJsonDeserialize(IOEnv.VERIF_TRACE)
Chunk == 8

\* the four main styles are rendered for every case; for a share of the cases also "hclf" (collection functions and
\* no locals block at all), "hclv" (locals spread over several blocks -- redefinitions, chains -- and no function),
\* "yml" (the YAML text under the extension .yml) and "json" (a JSON document under .json)
MainStyles == {"hcl", "hcll", "yaml", "yamla"}
AllStyles  == MainStyles \cup {"hclf", "hclv", "yml", "json"}
\* a rendering whose outcome equals that of an earlier style is logged as [same |-> style]
Out(row, style) == IF "same" \in DOMAIN row.out[style] THEN row.out[row.out[style].same] ELSE row.out[style]
\* every rendering of a description of the case space is accepted by its front-end, and means what the
\* description means: the projected AmmoConfig is Decoded(desc), the provider's ammo list is Ammo(desc)
FailingAt(row) ==
  LET d  == Build(row.key)
      dd == Decoded(d)
      aa == Ammo(d)
      ok(st) == Out(row, st).err = ""
      styles == DOMAIN row.out
  IN {<<"Missing", st>> : st \in MainStyles \ styles}
     \cup {<<"Unknown", st>> : st \in styles \ AllStyles}
     \cup {<<"Accepted", st>> : st \in {x \in styles : ~ok(x)}}
     \cup {<<"Cfg", st>> : st \in {x \in styles : ok(x) /\ Out(row, x).cfg # dd}}
     \cup {<<"Ammo", st>> : st \in {x \in styles : ok(x) /\ Out(row, x).ammo # aa}}

TInit == l = 0 /\ c = NoCase /\ bad = {}
Step(j) == l' = j /\ c' = Trace[j].key /\ bad' = FailingAt(Trace[j])
TNext == \/ l = 0 /\ \E j \in {i \in 1..Len(Trace) : i % Chunk = 1} : Step(j)
         \/ l > 0 /\ l % Chunk # 0 /\ l < Len(Trace) /\ Step(l + 1)

Accepted(style) == <<"Accepted", style>> \notin bad
CfgOK(style)    == <<"Cfg", style>> \notin bad
AmmoOK(style)   == <<"Ammo", style>> \notin bad

AcceptedHcl   == Accepted("hcl")
AcceptedHclL  == Accepted("hcll")
AcceptedYaml  == Accepted("yaml")
AcceptedYamlA == Accepted("yamla")
CfgHcl        == CfgOK("hcl")
CfgHclL       == CfgOK("hcll")
CfgYaml       == CfgOK("yaml")
CfgYamlA      == CfgOK("yamla")
AmmoHcl       == AmmoOK("hcl")
AmmoHclL      == AmmoOK("hcll")
AmmoYaml      == AmmoOK("yaml")
AmmoYamlA     == AmmoOK("yamla")
AcceptedHclF  == Accepted("hclf")
CfgHclF       == CfgOK("hclf")
AmmoHclF      == AmmoOK("hclf")
AcceptedHclV  == Accepted("hclv")
CfgHclV       == CfgOK("hclv")
AmmoHclV      == AmmoOK("hclv")
AcceptedYml   == Accepted("yml")
CfgYml        == CfgOK("yml")
AmmoYml       == AmmoOK("yml")
AcceptedJson  == Accepted("json")
CfgJson       == CfgOK("json")
AmmoJson      == AmmoOK("json")
\* the driver rendered all main styles and nothing unknown
Complete      == \A x \in bad : x[1] \notin {"Missing", "Unknown"}
=============================================================================
