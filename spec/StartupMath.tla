---------------------------- MODULE StartupMath ----------------------------
(***************************************************************************)
(* C12 (and the token count of the RPS profiles used by C03): what a       *)
(* schedule WRITTEN IN A CONFIG denotes, as a succession of simple         *)
(* ProfileMath parts.  Nothing here is taken from the implementation: the  *)
(* driver logs the configuration (constructor name + arguments), this      *)
(* module says how many tokens it hands out and when.                      *)
(*                                                                         *)
(* An item is [ctor, from_m, to_m, step, times, ifrom, ito, dur]:          *)
(*   once(times)                 `times` tokens at the start, duration 0   *)
(*   const(ops, dur)             ProfileMath const, ops in milli-ops/s     *)
(*   line(from, to, dur), step(from, to, step, dur)   ProfileMath          *)
(*   instance_step(ifrom, ito, step, dur)   docs/eng/startup.md: "creates  *)
(*       instances in periodic increments", from .. to: `ifrom` instances  *)
(*       at the start; then, every `dur`, `step` more - as long as the new *)
(*       level does not exceed `ito`.  So the level never exceeds          *)
(*       max(ifrom, ito): when (ito - ifrom) is not a multiple of step the *)
(*       last partial step is NOT taken (the RPS `step` profile reads its  *)
(*       from..to the same way), ito < ifrom or step > ito - ifrom gives   *)
(*       just the initial `ifrom`, ifrom = 0 starts with a pause.          *)
(*   a composite (list) is the concatenation of its items' parts, every    *)
(*   part starting where the previous one finished.                        *)
(*   composite(kids)             a composite written INSIDE a profile (a    *)
(*       list in the list, or `type: composite`): the same concatenation,  *)
(*       at every depth.  A group lasts as long as ALL its items last,     *)
(*       token-less ones (const 0 for d = a hold; a const whose ops * d    *)
(*       stays below 1) included, wherever they stand in the group: what   *)
(*       follows the group starts no earlier than the end of its last      *)
(*       item (spec/Schedule.tla's composite: a nested schedule's finish   *)
(*       instant is the start instant of the one after it).                *)
(***************************************************************************)
EXTENDS ProfileMath

OnceP(n) == [kind |-> "once", from_m |-> 0, to_m |-> 0, step |-> 0, times |-> n, dur |-> <<>>]
RateP(kind, it) == [kind |-> kind, from_m |-> it.from_m, to_m |-> it.to_m, step |-> it.step, times |-> 0, dur |-> it.dur]

\* number of increments of an instance_step profile
ISteps(it) == IF it.ito >= it.ifrom THEN (it.ito - it.ifrom) \div it.step ELSE 0

RECURSIVE Rep(_, _)
Rep(s, k) == IF k <= 0 THEN <<>> ELSE s \o Rep(s, k - 1)

\* How many tokens a part hands out: exactly `times` for once; for a rate part floor(Integral over the
\* duration) with the duration taken up to Tau (ProfileMath!CountOK: when the exact integral lies within
\* Tau of an integer the float code may round either way).  Lo..Hi is exactly {c : CountOK(p, c)}.
CMax == 4000
RECURSIVE MaxCum(_, _, _, _)
MaxCum(cf, t, lo, hi) ==          \* largest k in lo..hi with Integral_0^t >= k (holds for lo)
  IF lo >= hi THEN lo
  ELSE LET mid == (lo + hi + 1) \div 2
       IN  IF CumGErawC(cf, mid, t) THEN MaxCum(cf, t, mid, hi) ELSE MaxCum(cf, t, lo, mid - 1)
LOCAL MaxN(a, b) == IF a >= b THEN a ELSE b
PartLo(p) == IF p.kind = "once" THEN p.times ELSE MaxCum(Coef(p), Sub(p.dur, Tau), 0, CMax)
PartHi(p) == IF p.kind = "once" THEN p.times
             ELSE MaxN(MaxCum(Coef(p), p.dur, 0, CMax), MaxCum(Coef(p), Add(p.dur, Tau), 0, CMax))

\* CONSTANT-free switch for the negative control of the grouping rule (cfg/StartupGroups_neg_droptail.cfg): a group that ends
\* when its last TOKEN is handed out, i.e. whose trailing token-less items are dropped - what a composite that
\* "does not make the caller wait through the tail" would denote.  FALSE everywhere else.
GroupDropsTail == FALSE

\* a part that hands out no token whatever the rounding: a hold (const 0 for d), a const whose ops * d stays below 1
TokenLess(p) == p.kind # "once" /\ PartHi(p) = 0
RECURSIVE DropTail(_)
DropTail(ps) == IF ps # <<>> /\ TokenLess(ps[Len(ps)]) THEN DropTail(SubSeq(ps, 1, Len(ps) - 1)) ELSE ps

RECURSIVE ItemParts(_), DescParts(_, _)
ItemParts(it) ==
  CASE it.ctor = "once"  -> <<OnceP(it.times)>>
    [] it.ctor = "const" -> <<ConstP(it.from_m, it.dur)>>
    [] it.ctor = "line"  -> <<RateP("line", it)>>
    [] it.ctor = "step"  -> Parts(RateP("step", it))
    [] it.ctor = "instance_step" -> <<OnceP(it.ifrom)>> \o Rep(<<ConstP(0, it.dur), OnceP(it.step)>>, ISteps(it))
    [] it.ctor = "composite" -> IF GroupDropsTail THEN DropTail(DescParts(it.kids, 1)) ELSE DescParts(it.kids, 1)
    [] OTHER -> <<>>                      \* "unlimited": no guaranteed token, length unknown

DescParts(desc, j) == IF j > Len(desc) THEN <<>> ELSE ItemParts(desc[j]) \o DescParts(desc, j + 1)

RECURSIVE HasUnknown(_)
HasUnknown(desc) == \E j \in 1..Len(desc) : \/ desc[j].ctor = "unlimited"
                                            \/ desc[j].ctor = "composite" /\ HasUnknown(desc[j].kids)

RECURSIVE SumLo(_, _)
SumLo(parts, j) == IF j > Len(parts) THEN 0 ELSE PartLo(parts[j]) + SumLo(parts, j + 1)
RECURSIVE SumHi(_, _)
SumHi(parts, j) == IF j > Len(parts) THEN 0 ELSE PartHi(parts[j]) + SumHi(parts, j + 1)
CountLo(desc) == SumLo(DescParts(desc, 1), 1)
CountHi(desc) == SumHi(DescParts(desc, 1), 1)
=============================================================================
