-------------------------- MODULE SampleCodingGen ---------------------------
(***************************************************************************)
(* M2 generator for C10: writes the case space (the config's Catalogue) as *)
(* NDJSON lines [id, c] to IOEnv.VERIF_OUT.  TLC also renders the URI of   *)
(* the tag cases (PathOf(elems) \o query).                                 *)
(***************************************************************************)
EXTENDS SampleCodingMC, SequencesExt, Json, IOUtils

CaseSeq == SetToSeq(Catalogue)
ASSUME /\ ndJsonSerialize(IOEnv.VERIF_OUT, [i \in 1..Len(CaseSeq) |-> [id |-> i, c |-> CaseSeq[i]]])
       /\ PrintT(<<"VERIF", "cases", Len(CaseSeq)>>)
=============================================================================
