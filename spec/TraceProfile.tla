---------------------------- MODULE TraceProfile ----------------------------
(***************************************************************************)
(* C01 trace specification.  One NDJSON line per profile that the driver   *)
(* built with the REAL constructors / config decoding and drained with     *)
(* Start(t0); Next()...; the line carries the profile parameters and every *)
(* instant handed out (ns since t0, BigNat limbs).  Each line must be a    *)
(* realisation of ProfileMath's declarative meaning of that profile.       *)
(* The walk over the lines is chunked so TLC's workers check in parallel.  *)
(***************************************************************************)
EXTENDS ProfileMath, Json, IOUtils, TLC

VARIABLE l

Trace == ndJsonDeserialize(IOEnv.VERIF_TRACE)
Sd    == atoi(IOEnv.VERIF_SEED)
Chunk == 4

\* l = 0 is a dummy root: every real line is reached through Next, so that the invariants are
\* evaluated by TLC's worker threads (initial states are checked by one thread only)
Init == l = 0
Next == \/ l = 0 /\ l' \in {j \in 1..Len(Trace) : j % Chunk = 1}
        \/ l > 0 /\ l % Chunk # 0 /\ l < Len(Trace) /\ l' = l + 1

R == Trace[IF l = 0 THEN 1 ELSE l]
P == [kind |-> R.kind, from_m |-> R.from_m, to_m |-> R.to_m, step |-> R.step, times |-> R.times, dur |-> R.dur]

\* the driver could build and drain the profile; nothing was before the start
Built    == l = 0 \/ (R.err = "" /\ ~R.neg /\ R.n = Len(R.ts))
\* tokens are handed out in time order, within [start, start + duration]
Ordered  == l = 0 \/ (Monotone(R.ts) /\ Bounded(P, R.ts))
\* count and instants realise the configured curve
Ops      == l = 0 \/ OpsOK(P, R.ts, Sd)
\* an exhausted profile keeps reporting exactly start + duration
Finish   == l = 0 \/ (/\ Len(R.after) = 3
                      /\ \A i \in 1..3 : R.after[i] = TotalDur(P) /\ R.after_ok[i] = FALSE)
\* Left() before the start is the number of operations the profile then hands out, 0 at the end
LeftOK   == l = 0 \/ (R.left0 = R.n /\ R.left_end = 0)

=============================================================================
