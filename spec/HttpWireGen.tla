---------------------------- MODULE HttpWireGen -----------------------------
(***************************************************************************)
(* M2 generator for C09: writes the complete case space of HttpWire (for   *)
(* the constants of the config) as NDJSON lines [id, c] to                 *)
(* IOEnv.VERIF_OUT.  The driver renders c to an ammo file + provider/gun   *)
(* config, fires it through the real provider and gun, and records what    *)
(* the target saw; TraceHttpWire recomputes Wire(c) and decides.           *)
(***************************************************************************)
EXTENDS HttpWireMC, Json, IOUtils

CaseSeq == SetToSeq(Cases)
ASSUME /\ ndJsonSerialize(IOEnv.VERIF_OUT, [i \in 1..Len(CaseSeq) |-> [id |-> i, c |-> CaseSeq[i]]])
       /\ PrintT(<<"VERIF", "cases", Len(CaseSeq)>>)
\* TLC wants a behaviour specification: one dummy state
GenInit == C = CaseSeq[1]
GenNext == UNCHANGED C
=============================================================================
