---------------------------- MODULE HttpWireGen -----------------------------
(***************************************************************************)
(* M2 generator for C09: writes the complete case space of HttpWire (for   *)
(* the constants of the config) as NDJSON lines [id, c] to                 *)
(* IOEnv.VERIF_OUT.  The driver renders c to an ammo file + provider/gun   *)
(* config, fires it through the real provider and gun, and records what    *)
(* the target saw; TraceHttpWire recomputes Wire(c) and decides.           *)
(***************************************************************************)
EXTENDS HttpWireMC, Json, IOUtils

\* single-entry cases first, then the multi-entry files, then the re-used small files
CaseSeq == SetToSeq(Cases) \o SetToSeq(Files) \o SetToSeq(ReuseFiles)
ASSUME /\ ndJsonSerialize(IOEnv.VERIF_OUT, [i \in 1..Len(CaseSeq) |-> [id |-> i, c |-> CaseSeq[i]]])
       /\ PrintT(<<"VERIF", "cases", Len(CaseSeq)>>)
\* TLC wants a behaviour specification: one dummy state
GenInit == C = CHOOSE c \in Cases : TRUE
GenNext == UNCHANGED C
=============================================================================
