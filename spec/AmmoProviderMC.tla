--------------------------- MODULE AmmoProviderMC ---------------------------
(* Model-checking instance of AmmoProvider: the matrix, and the export of the complete case table (M2). *)
EXTENDS AmmoProvider, Json, IOUtils

HttpKM   == {<<k, p>> : k \in HttpKinds, p \in BOOLEAN}
OtherKM  == {<<k, FALSE>> : k \in ScnKinds \cup {"grpcjson", "json"}}
AllKM    == HttpKM \cup OtherKM
PreKM    == {<<k, TRUE>> : k \in HttpKinds}
ScnKM    == {<<k, FALSE>> : k \in ScnKinds}
GrpcKM   == {<<"grpcjson", FALSE>>}
ArrKM    == {<<"jsonarray", p>> : p \in BOOLEAN}
StreamKM == {<<k, FALSE>> : k \in HttpKinds}

\* weights of the file entries; for the scenario kinds they are the scenario weights (ring = w / gcd), for all other
\* kinds only the length matters.  Ring lengths 1, 2, 3.
W3       == {<<1>>, <<1, 1>>, <<1, 1, 1>>, <<3>>, <<2, 2>>, <<4, 2>>}
W2       == {<<1>>, <<1, 1>>, <<3>>, <<4, 2>>}
WMore    == W3 \cup {<<1, 2>>, <<6, 3, 3>>, <<1, 1, 1, 1>>}
\* "large" matrix: files longer than the scanners' and sinks' first buffers are not needed for the state machine
\* (it is parametric in E), but the real providers are run on them too
Ones(n)  == [i \in 1..n |-> 1]
WLarge   == {Ones(40), <<60, 40>>}
LLarge   == {0, 33, 100}
PLarge   == {0, 1, 3}
C13x     == {1, 3}
L04 == 0..4
L03 == 0..3
P03 == 0..3
P02 == 0..2
C13 == 1..3
C12 == 1..2
C1  == {1}
CutNone  == {0}
CutBoth  == {0, 1}
CutAll   == {0, 1, -1}
NoBugs   == {}
B_preload_err == {"preload_err"}
B_scn_err == {"scn_err"}
B_scn_noclose == {"scn_noclose"}
B_grpc_spin == {"grpc_spin"}
B_array_single == {"array_single"}
B_pass_off_by_one == {"pass_off_by_one"}
B_limit_gt == {"limit_gt"}
B_limit_err == {"limit_err"}
B_noclose_on_limit == {"noclose_on_limit"}
B_nodone_select == {"nodone_select"}
B_rewind_first == {"rewind_first"}

\* ---- M2: the complete case table with the expected observables, computed here ----
KindNo(k) == CHOOSE i \in 1..10 : <<"uri", "uris", "raw", "uripost", "jsonline", "jsonarray", "httpscn", "grpcscn",
                                    "grpcjson", "json">>[i] = k
WNo(w)    == CHOOSE i \in 1..11 : <<<<1>>, <<1, 1>>, <<1, 1, 1>>, <<3>>, <<2, 2>>, <<4, 2>>, <<1, 2>>, <<6, 3, 3>>,
                                    <<1, 1, 1, 1>>, Ones(40), <<60, 40>>>>[i] = w
IdOf(cc)   == (((((KindNo(cc.kind) * 2 + (IF cc.preload THEN 1 ELSE 0)) * 512 + cc.limit) * 8 + cc.passes) * 16
                 + WNo(cc.w)) * 4 + cc.nc) * 3 + cc.cut + 1
CaseBody(cc, id) ==
              [kind |-> cc.kind, preload |-> cc.preload, limit |-> cc.limit, passes |-> cc.passes, w |-> cc.w,
               nc |-> cc.nc, cut |-> cc.cut, id |-> id,
               entries |-> Entries(cc),
               bounded |-> Bounded(cc), expected |-> Expected(cc), cap |-> Cap(cc), stop |-> Stop(cc),
               hist |-> Hist(cc, IF cc.cut # 0 THEN Stop(cc) ELSE IF Bounded(cc) THEN Expected(cc) ELSE Cap(cc))]
CaseOf(cc) == CaseBody(cc, IdOf(cc))

\* ---- seeded random cells (M1, larger sizes): coordinates come from a file, everything else is computed here ----
RandBase  == 100000000      \* ids of random cells start here
RandRows  == ndJsonDeserialize(IOEnv.VERIF_CELLS)
RandCell(i) == LET r == RandRows[i] IN [kind |-> r.kind, preload |-> r.preload, limit |-> r.limit, passes |-> r.passes,
                                        w |-> r.w, nc |-> r.nc, cut |-> r.cut, id |-> r.id]
\* a requested cut that is no cut (>= Expected) is dropped here: the generator knows nothing about Expected
RandSet   == {cc \in {RandCell(i) : i \in 1..Len(RandRows)} : CellOK(cc)}
RandOK    == c.kind \in AllKinds /\ (c.preload => c.kind \in HttpKinds)

\* ---- the case tables of the two tiers: exhaustive small matrix + large files (+ the random cells) ----
SmallCells == CellsOf(AllKM, L04, P03, W3, C13, CutAll)
BigCells   == CellsOf(AllKM, L04, P03, WMore, C13, CutAll)
LargeCells == CellsOf(AllKM, LLarge, PLarge, WLarge, C13x, CutAll)
\* limit >> entries: many rewinds before the bound (work after the bound would show)
W33        == {<<1, 1, 1>>, <<4, 2>>}
L300       == {300}
P02x       == {0, 2}
C2         == {2}
DeepCells  == CellsOf(AllKM, L300, P02x, W33, C2, CutNone)
QuickTable    == SmallCells \cup LargeCells \cup DeepCells
ThoroughTable == BigCells \cup LargeCells \cup DeepCells
\* generator run: INIT Gen*Init, NEXT GenNext, INVARIANT GenOut - one printed line per cell
GenNext == UNCHANGED vars
GenQuickInit    == InitWith(QuickTable \cup RandSet)
GenThoroughInit == InitWith(ThoroughTable \cup RandSet)
GenOut  == PrintT(<<"VERIF", ToJson(IF "id" \in DOMAIN c THEN CaseBody(c, c.id) ELSE CaseOf(c))>>)
\* the closed form of Hist agrees with counting over the explicit ring (checked on every small cell)
HistAgrees == Entries(c) > 6 \/ \A n \in 0..(Cap(c) + 1) : Hist(c, n) = HistByRing(c, n)
=============================================================================
