---------------------------- MODULE PoolSchedMC ----------------------------
(* Model-checking instance of PoolSched: the two-part composites and small constants. *)
EXTENDS PoolSched

D(n) == [kind |-> "doat", n |-> n]
U    == [kind |-> "unl", n |-> 0]
\* [doAt(n1), doAt(n2)] with <= 3 tokens in all (empty parts: the retry paths), [doAt(n), unl], [unl, doAt(n)]
FiniteTrees == {<<D(n1), D(n2)>> : n1 \in 0..3, n2 \in 0..3} \ {<<D(n1), D(n2)>> : n1 \in {2, 3}, n2 \in {2, 3}}
UnlTail     == {<<D(n), U>> : n \in 0..3}
UnlHead     == {<<U, D(n)>> : n \in 0..2}
AllTrees    == FiniteTrees \cup UnlTail \cup UnlHead
AmmoSet     == {0, 1, 2, 3, 5}
\* negative control: the probe of DESIGN section 5 #2
BugTrees    == {<<D(1), U>>, <<D(3), U>>}
BugAmmo     == {5}
=============================================================================
