---------------------------- MODULE ByteEditMC ----------------------------
EXTENDS ByteEdit, Json
Export == Done => PrintT(<<"VERIF", ToJson([c |-> cs, n |-> NEntries, exp |-> Expect(cs)])>>)
=============================================================================
