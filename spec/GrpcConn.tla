------------------------------ MODULE GrpcConn ------------------------------
(***************************************************************************)
(* C20 -- connection and life-cycle part of the gRPC guns                  *)
(* (components/guns/grpc/core.go: WarmUp -> prepareMethodList +            *)
(* prepareClientPool, Bind, shoot; core/clientpool).                       *)
(*                                                                         *)
(*   WarmOK / WarmFail  the pool's warm-up gun dials the REFLECTION        *)
(*               address and lists the methods.  Unreachable => the run    *)
(*               fails at once: no instance is started, nothing is shot.   *)
(*               With shared-client the k pooled clients are dialled here. *)
(*   Bind(g)     the instance's gun takes a client: the next one of the    *)
(*               pool (round robin) or one it dials itself.  grpc.Dial     *)
(*               does not block: an unreachable TARGET is no error here.   *)
(*   Connect(c)  the target accepts a connection of client c (a client has *)
(*               ONE connection at a time, HTTP/2 multiplexes the calls)   *)
(*   Begin(g) Arrive(g) Fail(g) Late(g) Done(g)                            *)
(*               one call: it arrives on the connection of the gun's       *)
(*               client, or fails client-side because there is no          *)
(*               connection (Unavailable); Late: the answer does not come  *)
(*               within the per-call timeout (DeadlineExceeded) -- the     *)
(*               connection stays; Done reports the one sample.            *)
(*   Down / Up   the target goes away (all its connections die) and comes  *)
(*               back; clients reconnect (Connect) after their back-off.   *)
(*                                                                         *)
(* Properties: clients <= k with shared-client, = bound guns otherwise;    *)
(* live connections <= clients; all calls of a gun travel on connections   *)
(* of ONE client; a gun without shared-client never shares a connection;   *)
(* a failed warm-up starts nothing; a failed call never stops the gun.     *)
(*                                                                         *)
(* Transport security and reflection metadata.  cfg.tls: the gun's `tls`   *)
(* option (TLS without certificate verification), cfg.ttls: what the       *)
(* servers speak.  cfg.needmd: the reflection endpoint only answers        *)
(* streams that carry the credentials, cfg.rmd: `reflect_metadata` names   *)
(* them.  The warm-up succeeds iff the reflection endpoint is reachable,   *)
(* both sides speak the same transport, and the credentials (if needed)    *)
(* are sent (Reachable); a run that is configured right STARTS             *)
(* (StartsWhenConfigured).  reflect_metadata travels with reflection       *)
(* streams only, never with a load call (trace level).                     *)
(*                                                                         *)
(* Negative controls: DialPerShot, PoolIgnored, IgnoreWarmFail,            *)
(* DieOnFailure, PlainAlways (the `tls` option is ignored), ReflMdDropped  *)
(* (reflect_metadata is not sent).                                         *)
(***************************************************************************)
EXTENDS Integers, FiniteSets, Sequences, TLC

CONSTANTS Guns, MaxShots, MaxFlips,
          DialPerShot,     \* the gun dials a new client for every call
          PoolIgnored,     \* shared-client is configured but every gun dials its own client
          IgnoreWarmFail,  \* the run goes on although reflection failed
          DieOnFailure,    \* a gun whose call failed stops shooting
          PlainAlways,     \* the gun dials plaintext whatever `tls` says
          ReflMdDropped    \* the reflection client does not send reflect_metadata

VARIABLES cfg,      \* [shared, k, refl : reflection endpoint reachable, tls, ttls, needmd, rmd]
          phase,    \* init | warm | failed
          tgt,      \* up | down
          clients,  \* clients dialled so far (1..n)
          rr,       \* round-robin counter of the pool
          cof,      \* gun -> its client (0 = not bound)
          live,     \* client -> its connection at the target (0 = none)
          nconn,    \* connections the target accepted so far
          owner,    \* connection -> the client it belongs to
          sh,       \* gun -> idle | call | recv | fail
          gconn,    \* gun -> connections its calls arrived on
          dead,     \* guns that stopped shooting (DieOnFailure)
          shots, flips

vars == <<cfg, phase, tgt, clients, rr, cof, live, nconn, owner, sh, gconn, dead, shots, flips>>

MaxClients == 8
Clients == 1..MaxClients

InitWith(c) ==
    /\ cfg = c /\ phase = "init" /\ tgt = "up"
    /\ clients = {} /\ rr = 0
    /\ cof = [g \in Guns |-> 0]
    /\ live = [c2 \in Clients |-> 0]
    /\ nconn = 0 /\ owner = <<>>
    /\ sh = [g \in Guns |-> "idle"]
    /\ gconn = [g \in Guns |-> {}]
    /\ dead = {} /\ shots = 0 /\ flips = 0

\* what the configuration promises: the reflection endpoint answers the warm-up gun
Configured == cfg.refl /\ cfg.tls = cfg.ttls /\ (cfg.needmd => cfg.rmd)
\* what the (modelled) gun achieves
Reachable == /\ cfg.refl
             /\ (IF PlainAlways THEN FALSE ELSE cfg.tls) = cfg.ttls
             /\ cfg.needmd => (cfg.rmd /\ ~ReflMdDropped)

WarmOK ==
    /\ phase = "init" /\ (Reachable \/ IgnoreWarmFail)
    /\ phase' = "warm"
    /\ clients' = IF cfg.shared /\ ~PoolIgnored THEN 1..cfg.k ELSE {}
    /\ UNCHANGED <<cfg, tgt, rr, cof, live, nconn, owner, sh, gconn, dead, shots, flips>>

WarmFail ==
    /\ phase = "init" /\ ~Reachable /\ ~IgnoreWarmFail
    /\ phase' = "failed"
    /\ UNCHANGED <<cfg, tgt, clients, rr, cof, live, nconn, owner, sh, gconn, dead, shots, flips>>

NewClient == Cardinality(clients) + 1

Bind(g) ==
    /\ phase = "warm" /\ cof[g] = 0 /\ NewClient \in Clients
    /\ IF cfg.shared /\ ~PoolIgnored
       THEN /\ cof' = [cof EXCEPT ![g] = ((rr + 1) % cfg.k) + 1]      \* clientpool.Next
            /\ rr' = rr + 1 /\ clients' = clients
       ELSE /\ cof' = [cof EXCEPT ![g] = NewClient]
            /\ clients' = clients \cup {NewClient} /\ rr' = rr
    /\ UNCHANGED <<cfg, phase, tgt, live, nconn, owner, sh, gconn, dead, shots, flips>>

Connect(c) ==
    /\ c \in clients /\ live[c] = 0 /\ tgt = "up"
    /\ nconn' = nconn + 1
    /\ live' = [live EXCEPT ![c] = nconn + 1]
    /\ owner' = Append(owner, c)
    /\ UNCHANGED <<cfg, phase, tgt, clients, rr, cof, sh, gconn, dead, shots, flips>>

Begin(g) ==
    /\ cof[g] # 0 /\ sh[g] = "idle" /\ g \notin dead /\ shots < MaxShots
    /\ sh' = [sh EXCEPT ![g] = "call"]
    /\ shots' = shots + 1
    /\ IF DialPerShot /\ NewClient \in Clients
       THEN cof' = [cof EXCEPT ![g] = NewClient] /\ clients' = clients \cup {NewClient}
       ELSE UNCHANGED <<cof, clients>>
    /\ UNCHANGED <<cfg, phase, tgt, rr, live, nconn, owner, gconn, dead, flips>>

Arrive(g) ==
    /\ sh[g] = "call" /\ live[cof[g]] # 0
    /\ sh' = [sh EXCEPT ![g] = "recv"]
    /\ gconn' = [gconn EXCEPT ![g] = @ \cup {live[cof[g]]}]
    /\ UNCHANGED <<cfg, phase, tgt, clients, rr, cof, live, nconn, owner, dead, shots, flips>>

Fail(g) ==
    /\ sh[g] = "call" /\ live[cof[g]] = 0
    /\ sh' = [sh EXCEPT ![g] = "fail"]
    /\ UNCHANGED <<cfg, phase, tgt, clients, rr, cof, live, nconn, owner, gconn, dead, shots, flips>>

\* the answer does not arrive within the per-call timeout; the connection is not affected
Late(g) ==
    /\ sh[g] = "recv"
    /\ sh' = [sh EXCEPT ![g] = "fail"]
    /\ UNCHANGED <<cfg, phase, tgt, clients, rr, cof, live, nconn, owner, gconn, dead, shots, flips>>

Done(g) ==
    /\ sh[g] \in {"recv", "fail"}
    /\ dead' = IF DieOnFailure /\ sh[g] = "fail" THEN dead \cup {g} ELSE dead
    /\ sh' = [sh EXCEPT ![g] = "idle"]
    /\ UNCHANGED <<cfg, phase, tgt, clients, rr, cof, live, nconn, owner, gconn, shots, flips>>

Down ==
    /\ tgt = "up" /\ flips < MaxFlips
    /\ tgt' = "down" /\ flips' = flips + 1
    /\ live' = [c \in Clients |-> 0]
    /\ sh' = [g \in Guns |-> IF sh[g] = "recv" THEN "fail" ELSE sh[g]]    \* calls in flight are lost
    /\ UNCHANGED <<cfg, phase, clients, rr, cof, nconn, owner, gconn, dead, shots>>

Up ==
    /\ tgt = "down"
    /\ tgt' = "up"
    /\ UNCHANGED <<cfg, phase, clients, rr, cof, live, nconn, owner, sh, gconn, dead, shots, flips>>

Next ==
    \/ WarmOK \/ WarmFail \/ Down \/ Up
    \/ \E g \in Guns : Bind(g) \/ Begin(g) \/ Arrive(g) \/ Fail(g) \/ Late(g) \/ Done(g)
    \/ \E c \in Clients : Connect(c)

(****************************** properties *********************************)
Bound == {g \in Guns : cof[g] # 0}
\* as many clients as the configuration says
ClientBound == Cardinality(clients) <= IF cfg.shared THEN cfg.k ELSE Cardinality(Bound)
\* the target never holds more connections than there are clients
ConnBound == Cardinality({c \in Clients : live[c] # 0}) <= Cardinality(clients)
\* all calls of a gun travel on connections of ONE client
GunSticks == \A g \in Guns : Cardinality({owner[n] : n \in gconn[g]}) <= 1
\* without shared-client no two guns ever use one connection
OwnConn == ~cfg.shared => \A g, h \in Guns : g # h => gconn[g] \cap gconn[h] = {}
\* reflection failed: nothing is started
NothingAfterWarmFail == ~Configured => (\A g \in Guns : cof[g] = 0) /\ shots = 0
\* a run whose configuration is right starts
StartsWhenConfigured == (phase = "init" /\ Configured) => ENABLED WarmOK
\* a failed call never stops a gun
KeepsShooting == dead = {}
=============================================================================
