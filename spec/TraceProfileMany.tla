-------------------------- MODULE TraceProfileMany --------------------------
(***************************************************************************)
(* C01 under concurrency, many drains (M1).  A profile hands out the same  *)
(* multiset of operations whoever asks: G goroutines released together     *)
(* drain a step profile with thousands of levels (every level hand-over is *)
(* contended) several hundred times.  TraceProfile.tla checks a few such   *)
(* drains token by token; here every drain contributes only its operation  *)
(* count, the distinct finish instants reported, and Left() at the end.    *)
(* One trace line = one profile + all its drains.  ProfileMath decides:    *)
(* the count must be a sum of admissible per-level counts ("as many        *)
(* operations as the integral over the duration, rounded down", per const  *)
(* level), and every caller must be told exactly start + total duration.   *)
(***************************************************************************)
EXTENDS ProfileMath, Json, IOUtils, TLC

VARIABLE l
Trace == ndJsonDeserialize(IOEnv.VERIF_TRACE)
Init == l = 0
Next == l < Len(Trace) /\ l' = l + 1
R == Trace[IF l = 0 THEN 1 ELSE l]
P == [kind |-> R.kind, from_m |-> R.from_m, to_m |-> R.to_m, step |-> R.step, times |-> R.times, dur |-> R.dur]

MaxPart == 4096
\* largest c in lo..hi with Integral_0^dur >= c  (the integral is monotone in c)
RECURSIVE BisC(_, _, _, _)
BisC(cf, dur, lo, hi) == IF lo >= hi THEN lo
                         ELSE LET mid == (lo + hi + 1) \div 2
                              IN  IF CumGErawC(cf, mid, dur) THEN BisC(cf, dur, mid, hi) ELSE BisC(cf, dur, lo, mid - 1)
\* admissible counts of one simple part: those around the floor that CountOK accepts
PartCounts(q) == IF q.kind = "once" THEN {q.times}
                 ELSE LET f == BisC(Coef(q), q.dur, 0, MaxPart)
                      IN  {c \in {f - 1, f, f + 1} : c >= 0 /\ CountOK(q, c)}
Min(S) == CHOOSE x \in S : \A y \in S : x <= y
Max(S) == CHOOSE x \in S : \A y \in S : x >= y

\* the simple parts, addressed by index (no sequence is built: TLC would rebuild it at every access)
NParts == IF P.kind = "step" /\ P.from_m # P.to_m THEN (P.to_m - P.from_m) \div (1000 * P.step) + 1 ELSE 1
PartJ(j) == IF P.kind = "step" THEN ConstP(P.from_m + (j - 1) * 1000 * P.step, P.dur) ELSE P
RECURSIVE SumF(_, _, _)
SumF(f, j, n) == IF j > n THEN 0 ELSE f[j] + SumF(f, j + 1, n)

\* the oracle is not vacuous: every level admits a count
OracleOK == l = 0 \/ \A j \in 1..NParts : PartCounts(PartJ(j)) # {}
\* every drain handed out an admissible number of operations, none before the start
CountsOK == l = 0 \/ LET cj == [j \in 1..NParts |-> PartCounts(PartJ(j))]
                         lo == SumF([j \in 1..NParts |-> Min(cj[j])], 1, NParts)
                         hi == SumF([j \in 1..NParts |-> Max(cj[j])], 1, NParts)
                     IN  /\ lo <= R.left0 /\ R.left0 <= hi
                         /\ \A i \in 1..Len(R.drains) : lo <= R.drains[i].n /\ R.drains[i].n <= hi /\ ~R.drains[i].neg
\* every caller of every drain was told exactly start + total duration as the finish time
FinishOK == l = 0 \/ LET td == IF P.kind = "step" THEN Mul(FromInt(NParts), P.dur) ELSE PartDur(P)
                     IN  \A i \in 1..Len(R.drains) : R.drains[i].fins = <<td>>
\* and nothing is left
LeftOK   == l = 0 \/ \A i \in 1..Len(R.drains) : R.drains[i].left = 0
=============================================================================
