---------------------------- MODULE PoolCounters ----------------------------
(***************************************************************************)
(* C03's conservation laws for ANY number of instances, tokens and ammo    *)
(* items (DESIGN section 9 item 5): a counter abstraction of Pool.tla's    *)
(* instance loop with one shared finite RPS profile, checked with Apalache *)
(* as an INDUCTIVE invariant (no bound on N, T, A: they are unconstrained  *)
(* naturals):                                                              *)
(*    Init => IndInv,   IndInv /\ Next => IndInv',   IndInv => Accounting  *)
(*                                                                         *)
(* Instead of one program counter per instance the state counts how many   *)
(* instances are at each point of instance.Run:                            *)
(*   cChk  at `for !waiter.IsFinished(ctx)`     cAcq  before Acquire       *)
(*   cWait holding ammo, before waiter.Wait     cTok  holding ammo + token *)
(*   cShoot in gun.Shoot                        cRelF / cRelU  before the  *)
(*   deferred Release after a shot or discard / after a missed token       *)
(*   cEnd  loop left (e0: Left() = 0 seen, eA: out of ammo)                *)
(* Sequence-free and typed for Apalache; TLC checks the same module on     *)
(* small constants (PoolCounters_tlc.cfg) so that the abstraction itself   *)
(* is exercised by both tools.                                             *)
(***************************************************************************)
EXTENDS Integers

CONSTANTS
  \* @type: Int;
  N,
  \* @type: Int;
  T,
  \* @type: Int;
  A

VARIABLES
  \* @type: Int;
  tokLeft,
  \* @type: Int;
  ammoLeft,
  \* @type: Int;
  cChk,
  \* @type: Int;
  cAcq,
  \* @type: Int;
  cWait,
  \* @type: Int;
  cTok,
  \* @type: Int;
  cShoot,
  \* @type: Int;
  cRelF,
  \* @type: Int;
  cRelU,
  \* @type: Int;
  e0,
  \* @type: Int;
  eA,
  \* @type: Int;
  fired,
  \* @type: Int;
  discarded,
  \* @type: Int;
  released,
  \* @type: Int;
  acquired,
  \* @type: Int;
  unf

\* @type: <<Int, Int, Int, Int, Int, Int, Int, Int, Int, Int, Int, Int, Int, Int, Int, Int>>;
vars == <<tokLeft, ammoLeft, cChk, cAcq, cWait, cTok, cShoot, cRelF, cRelU, e0, eA,
          fired, discarded, released, acquired, unf>>

CInit == N \in Nat /\ T \in Nat /\ A \in Nat

Init == /\ tokLeft = T /\ ammoLeft = A
        /\ cChk = N /\ cAcq = 0 /\ cWait = 0 /\ cTok = 0 /\ cShoot = 0 /\ cRelF = 0 /\ cRelU = 0
        /\ e0 = 0 /\ eA = 0
        /\ fired = 0 /\ discarded = 0 /\ released = 0 /\ acquired = 0 /\ unf = 0

\* IsFinished: Left() = 0 -> the loop ends
CheckEnd == /\ cChk > 0 /\ tokLeft = 0
            /\ cChk' = cChk - 1 /\ e0' = e0 + 1
            /\ UNCHANGED <<tokLeft, ammoLeft, cAcq, cWait, cTok, cShoot, cRelF, cRelU, eA,
                           fired, discarded, released, acquired, unf>>
CheckGo == /\ cChk > 0 /\ tokLeft > 0
           /\ cChk' = cChk - 1 /\ cAcq' = cAcq + 1
           /\ UNCHANGED <<tokLeft, ammoLeft, cWait, cTok, cShoot, cRelF, cRelU, e0, eA,
                          fired, discarded, released, acquired, unf>>
AcquireOk == /\ cAcq > 0 /\ ammoLeft > 0
             /\ ammoLeft' = ammoLeft - 1 /\ acquired' = acquired + 1
             /\ cAcq' = cAcq - 1 /\ cWait' = cWait + 1
             /\ UNCHANGED <<tokLeft, cChk, cTok, cShoot, cRelF, cRelU, e0, eA, fired, discarded, released, unf>>
AcquireNone == /\ cAcq > 0 /\ ammoLeft = 0
               /\ cAcq' = cAcq - 1 /\ eA' = eA + 1
               /\ UNCHANGED <<tokLeft, ammoLeft, cChk, cWait, cTok, cShoot, cRelF, cRelU, e0,
                              fired, discarded, released, acquired, unf>>
DrawOk == /\ cWait > 0 /\ tokLeft > 0
          /\ tokLeft' = tokLeft - 1 /\ cWait' = cWait - 1 /\ cTok' = cTok + 1
          /\ UNCHANGED <<ammoLeft, cChk, cAcq, cShoot, cRelF, cRelU, e0, eA, fired, discarded, released, acquired, unf>>
DrawMiss == /\ cWait > 0 /\ tokLeft = 0
            /\ cWait' = cWait - 1 /\ cRelU' = cRelU + 1 /\ unf' = unf + 1
            /\ UNCHANGED <<tokLeft, ammoLeft, cChk, cAcq, cTok, cShoot, cRelF, e0, eA, fired, discarded, released, acquired>>
Shoot == /\ cTok > 0
         /\ cTok' = cTok - 1 /\ cShoot' = cShoot + 1
         /\ UNCHANGED <<tokLeft, ammoLeft, cChk, cAcq, cWait, cRelF, cRelU, e0, eA, fired, discarded, released, acquired, unf>>
DiscardShot == /\ cTok > 0
               /\ cTok' = cTok - 1 /\ cRelF' = cRelF + 1 /\ discarded' = discarded + 1
               /\ UNCHANGED <<tokLeft, ammoLeft, cChk, cAcq, cWait, cShoot, cRelU, e0, eA, fired, released, acquired, unf>>
ShootEnd == /\ cShoot > 0
            /\ cShoot' = cShoot - 1 /\ cRelF' = cRelF + 1 /\ fired' = fired + 1
            /\ UNCHANGED <<tokLeft, ammoLeft, cChk, cAcq, cWait, cTok, cRelU, e0, eA, discarded, released, acquired, unf>>
ReleaseF == /\ cRelF > 0
            /\ cRelF' = cRelF - 1 /\ cChk' = cChk + 1 /\ released' = released + 1
            /\ UNCHANGED <<tokLeft, ammoLeft, cAcq, cWait, cTok, cShoot, cRelU, e0, eA, fired, discarded, acquired, unf>>
ReleaseU == /\ cRelU > 0
            /\ cRelU' = cRelU - 1 /\ cChk' = cChk + 1 /\ released' = released + 1
            /\ UNCHANGED <<tokLeft, ammoLeft, cAcq, cWait, cTok, cShoot, cRelF, e0, eA, fired, discarded, acquired, unf>>

Next == \/ CheckEnd \/ CheckGo \/ AcquireOk \/ AcquireNone \/ DrawOk \/ DrawMiss
        \/ Shoot \/ DiscardShot \/ ShootEnd \/ ReleaseF \/ ReleaseU

Spec == Init /\ [][Next]_vars

----------------------------------------------------------------------------
NonNeg == /\ tokLeft >= 0 /\ ammoLeft >= 0 /\ cChk >= 0 /\ cAcq >= 0 /\ cWait >= 0 /\ cTok >= 0 /\ cShoot >= 0
          /\ cRelF >= 0 /\ cRelU >= 0 /\ e0 >= 0 /\ eA >= 0 /\ fired >= 0 /\ discarded >= 0 /\ released >= 0
          /\ acquired >= 0 /\ unf >= 0
          /\ N >= 0 /\ T >= 0 /\ A >= 0

\* the inductive invariant
IndInv ==
  /\ NonNeg
  \* every instance is at exactly one point of the loop
  /\ cChk + cAcq + cWait + cTok + cShoot + cRelF + cRelU + e0 + eA = N
  \* every token is in exactly one place: still in the schedule, held, in a shot, or spent
  /\ tokLeft + cTok + cShoot + fired + discarded = T
  \* every item: still with the provider, or acquired; an acquired one is held or released
  /\ ammoLeft + acquired = A
  /\ acquired = released + cWait + cTok + cShoot + cRelF + cRelU
  /\ acquired = fired + discarded + cTok + cShoot + cWait + unf
  \* why loops ended / tokens were missed: stable facts
  /\ (e0 > 0 => tokLeft = 0) /\ (eA > 0 => ammoLeft = 0) /\ (unf > 0 => tokLeft = 0) /\ (cRelU <= unf)
  \* ammo is taken only while tokens may remain; at most N - 1 instances can be caught holding ammo
  /\ (T = 0 => cAcq + cWait + unf = 0)
  /\ (tokLeft = 0 /\ T > 0 => unf + cAcq + cWait <= N - 1)

IndInit == /\ tokLeft \in Int /\ ammoLeft \in Int /\ cChk \in Int /\ cAcq \in Int /\ cWait \in Int /\ cTok \in Int
           /\ cShoot \in Int /\ cRelF \in Int /\ cRelU \in Int /\ e0 \in Int /\ eA \in Int /\ fired \in Int
           /\ discarded \in Int /\ released \in Int /\ acquired \in Int /\ unf \in Int
           /\ IndInv

\* what C03 states, at a normal end
Done == e0 + eA = N
MinTA == IF T <= A THEN T ELSE A
Accounting == Done /\ N >= 1 => /\ fired + discarded = MinTA
                                /\ released = acquired
                                /\ acquired - fired - discarded <= N - 1
                                /\ acquired - fired - discarded >= 0

\* negative control (non-vacuity of the third obligation): token conservation alone is inductive too, but it
\* does NOT imply the law - Apalache must produce a counterexample for  IndInitWeak => Accounting
IndInvWeak == NonNeg /\ tokLeft + cTok + cShoot + fired + discarded = T
IndInitWeak == /\ tokLeft \in Int /\ ammoLeft \in Int /\ cChk \in Int /\ cAcq \in Int /\ cWait \in Int /\ cTok \in Int
               /\ cShoot \in Int /\ cRelF \in Int /\ cRelU \in Int /\ e0 \in Int /\ eA \in Int /\ fired \in Int
               /\ discarded \in Int /\ released \in Int /\ acquired \in Int /\ unf \in Int
               /\ IndInvWeak
=============================================================================
