---------------------------- MODULE ConfigDecode ----------------------------
(***************************************************************************)
(* C17 - configuration decoding is strict and predictable.                 *)
(*                                                                         *)
(* SCHEMA.  Three representative two-pool configurations (variants V1..V3  *)
(* together: guns http / http2 / connect / grpc / http/scenario /          *)
(* grpc/scenario; ammo uri / raw / http/json / grpc/json / both scenario   *)
(* providers; results phout / jsonlines / discard; rps and startup as one  *)
(* object and as a list, every schedule kind, nested composite; log;       *)
(* monitoring).  Every leaf is HAND-TRANSCRIBED:                           *)
(*   p   path (keys as written in the docs, lower case; "#i" = list index), *)
(*   k   kind: str int uint float bool dur size level strlist strmap,      *)
(*   d   documented default, canonical text (durations in ms, sizes in     *)
(*       bytes; "0" where the docs give an effective default that the      *)
(*       component applies downstream of the config: max-idle-conns-per-   *)
(*       host, fallback-delay, client-number, grpc timeouts),              *)
(*   f   the value the `full` base configuration gives it (canonical),     *)
(*   r   the same value as written in the configuration file,              *)
(*   fl  "opt" may be left out (default applies) | "req" leaving it out is *)
(*       an error | "fix" always present (never removed by a mutation).    *)
(* Source: docs/eng/{config,http-generator,grpc-generator,load-profile,     *)
(* startup,providers}.md, docs/eng/best_practices/*.md; keys that the docs *)
(* do not mention but that are long-standing file-format keys (phout       *)
(* flush-time, id, sample-queue-size, buffer-size; jsonlines sink, flush-  *)
(* interval, ...; ammo limit, passes, ...) are transcribed from the struct *)
(* definitions and pin those names as well.                                *)
(*                                                                         *)
(* MUTATIONS (TLC enumerates all of them, for both base configurations     *)
(* `full` = every key given a non-default value, `min` = required only):   *)
(*   none | unknown(point) | wrongtype(leaf) | range(leaf, bad value) |    *)
(*   ph(leaf, env|property, set|unset) | emb(str leaf) | phnokey(str leaf, *)
(*   ${property:file} without #key) | misspell(leaf, near miss of a       *)
(*   documented key) | phmulti / phmultisep (several placeholders in one  *)
(*   value, resolvable and not, in every position) |                       *)
(*   phadv (placeholder against adversarial property                       *)
(*   files / environments) | absent(leaf) |                                *)
(*   range = every VALUE CLASS of every documented constraint, inside and  *)
(*   outside, with the boundary values.                                    *)
(*   dropcomp(required component of a pool).                               *)
(*                                                                         *)
(* MODEL.  Decode is implementation shaped: placeholder substitution       *)
(* (VariableInjectHook), typed field decoding (mapstructure, no weak       *)
(* typing), unused-key check (ErrorUnused, also inside plugin configs via  *)
(* pluginconfig.parseConf), validation tags, defaults from the registered  *)
(* default-config funcs, discard_overflow defaulted by the CLI reader.     *)
(* Switches (CONSTANTS) give the negative controls.  The PROPERTY is       *)
(* stated separately over (case, result).                                  *)
(***************************************************************************)
EXTENDS Integers, Sequences, FiniteSets, TLC

CONSTANTS
    ErrorUnused,     \* TRUE: unknown keys are errors
    ValidateTags,    \* TRUE: validation tags are applied (also inside plugin configs)
    StrictTypes,     \* TRUE: no weakly typed input
    UnsetIsError,    \* TRUE: a placeholder naming an unset variable / missing property is an error
    AnyUnresolved,   \* TRUE: ... whichever of SEVERAL placeholders of one value it is (FALSE: only the last one's failure counts - wrong)
    OneOfWhole,      \* TRUE: a oneof option is compared as a whole with each allowed word (FALSE: a value made of allowed words passes - wrong)
    DiscardDefault,  \* "true": what the CLI reader puts in when discard_overflow is absent
    StdinDefault,    \* TRUE: ... also when the configuration arrives on standard input (FALSE: only for files - wrong)
    ReflPoints       \* struct nodes found by reflection over the real config structs: seq of [v, p]

IdxNames == {"#1", "#2", "#3", "#4", "#5"}

Leaf(p, k, d, f, r, fl) == [p |-> p, k |-> k, d |-> d, f |-> f, r |-> r, fl |-> fl]
\* shorthands: value written in the file = canonical value
O(p, k, d, f) == Leaf(p, k, d, f, f, "opt")
Pre(pre, ls) == [i \in 1..Len(ls) |-> [ls[i] EXCEPT !.p = pre \o @]]
Ty(pre, name) == [p |-> pre \o <<"type">>, v |-> name]
\* VALUE CLASSES of a documented constraint: BadV = must be rejected, OkV = boundary value that must be accepted (and
\* decode to the canonical text v).  Expected ok | error is the documented constraint's verdict on the class.
BadV(pre, p, k, r, why)   == [p |-> pre \o p, k |-> k, r |-> r, why |-> why, ok |-> FALSE, v |-> ""]
OkV(pre, p, k, r, v, why) == [p |-> pre \o p, k |-> k, r |-> r, why |-> why, ok |-> TRUE, v |-> v]
Same(pre, p, k, r, why)   == OkV(pre, p, k, r, r, why)

\* endpoint ("host:port" or ":port"; port 1..65535; host = IP, [IPv6] or DNS name), required
EndpointC(pre, p) == LET e == "endpoint,required" IN <<
    Same(pre, p, "str", ":8080", e), Same(pre, p, "str", ":1", e), Same(pre, p, "str", ":65535", e),
    Same(pre, p, "str", "127.0.0.1:1", e), Same(pre, p, "str", "127.0.0.1:65535", e),
    Same(pre, p, "str", "[::1]:8080", e), Same(pre, p, "str", "example.com:80", e),
    BadV(pre, p, "str", "", e), BadV(pre, p, "str", "127.0.0.1", e), BadV(pre, p, "str", "127.0.0.1:", e),
    BadV(pre, p, "str", ":", e), BadV(pre, p, "str", ":0", e), BadV(pre, p, "str", ":65536", e), BadV(pre, p, "str", ":70000", e),
    BadV(pre, p, "str", ":-1", e), BadV(pre, p, "str", ":http", e), BadV(pre, p, "str", ":80 80", e),
    BadV(pre, p, "str", "127.0.0.1:0", e), BadV(pre, p, "str", "127.0.0.1:65536", e), BadV(pre, p, "str", "127.0.0.1:70000", e),
    BadV(pre, p, "str", "127.0.0.1:-1", e), BadV(pre, p, "str", "127.0.0.1:http", e), BadV(pre, p, "str", "127.0.0.1:80:90", e),
    BadV(pre, p, "str", "::1:8080", e), BadV(pre, p, "str", "exa mple.com:80", e), BadV(pre, p, "str", "bad!host:80", e),
    BadV(pre, p, "str", "not-an-endpoint", e), BadV(pre, p, "str", "host:notaport", e) >>
\* min-time=1ms: 0, one nanosecond below, exactly the minimum, above
MinTimeC(pre, p) == LET e == "min-time=1ms" IN <<
    BadV(pre, p, "dur", "0s", e), BadV(pre, p, "dur", "999999ns", e), BadV(pre, p, "dur", "100us", e), BadV(pre, p, "dur", "-1s", e),
    OkV(pre, p, "dur", "1ms", "1", e), OkV(pre, p, "dur", "2ms", "2", e) >>
Min0F(pre, p) == << BadV(pre, p, "float", "-1", "min=0"), BadV(pre, p, "float", "-0.001", "min=0"),
                    Same(pre, p, "float", "0", "min=0"), Same(pre, p, "float", "0.001", "min=0"), Same(pre, p, "float", "1", "min=0") >>
Min0I(pre, p) == << BadV(pre, p, "int", "-1", "min=0"), Same(pre, p, "int", "0", "min=0"), Same(pre, p, "int", "1", "min=0") >>
Min1I(pre, p) == << BadV(pre, p, "int", "-1", "min=1"), BadV(pre, p, "int", "0", "min=1"),
                    Same(pre, p, "int", "1", "min=1"), Same(pre, p, "int", "2", "min=1") >>
\* oneof: the value is EXACTLY one of the documented words.  Outside: near misses, case variants, substrings of a word, a padded
\* word, and values MADE OF allowed words (what somebody writes who thinks filters can be combined) in every order / separator.
OneOfWords == "oneof: several allowed words"
FilterC(pre) == LET p == <<"answlog", "filter">> e == "all | warning | error" w == OneOfWords IN <<
    Same(pre, p, "str", "all", e), Same(pre, p, "str", "warning", e), Same(pre, p, "str", "error", e),
    BadV(pre, p, "str", "errors", e), BadV(pre, p, "str", "Error", e), BadV(pre, p, "str", "ALL", e), BadV(pre, p, "str", "err", e),
    BadV(pre, p, "str", "All", e), BadV(pre, p, "str", "WARNING", e), BadV(pre, p, "str", "eRRor", e),
    BadV(pre, p, "str", "al", e), BadV(pre, p, "str", "warn", e), BadV(pre, p, "str", "arn", e), BadV(pre, p, "str", "rror", e),
    BadV(pre, p, "str", " all", e), BadV(pre, p, "str", "all ", e), BadV(pre, p, "str", " warning ", e), BadV(pre, p, "str", " ", e),
    BadV(pre, p, "str", "all warning", w), BadV(pre, p, "str", "warning error", w), BadV(pre, p, "str", "all warning error", w),
    BadV(pre, p, "str", "all error", w), BadV(pre, p, "str", "error all", w), BadV(pre, p, "str", "warning all", w),
    BadV(pre, p, "str", "all  warning", w), BadV(pre, p, "str", "all,warning", w), BadV(pre, p, "str", "all|warning", w),
    BadV(pre, p, "str", "allwarning", w), BadV(pre, p, "str", "all all", w) >>

---------------------------------------------------------------------------
(* component templates *)

\* docs/eng/http-generator.md ("Full http (http2) generator config")
HTTPGun(pre, ssld, sslf) == Pre(pre, <<
    Leaf(<<"target">>, "str", "", "127.0.0.1:8080", "127.0.0.1:8080", "req"),
    O(<<"ssl">>, "bool", ssld, sslf),
    O(<<"connect-ssl">>, "bool", "false", "true"),
    Leaf(<<"tls-handshake-timeout">>, "dur", "1000", "2000", "2s", "opt"),
    O(<<"disable-keep-alives">>, "bool", "false", "true"),
    O(<<"disable-compression">>, "bool", "true", "false"),
    O(<<"max-idle-conns">>, "int", "0", "7"),
    O(<<"max-idle-conns-per-host">>, "int", "0", "5"),            \* docs: Default 2 (net/http applies it for 0)
    Leaf(<<"idle-conn-timeout">>, "dur", "90000", "45000", "45s", "opt"),
    Leaf(<<"response-header-timeout">>, "dur", "0", "1500", "1500ms", "opt"),
    Leaf(<<"expect-continue-timeout">>, "dur", "1000", "3000", "3s", "opt"),
    O(<<"shared-client", "enabled">>, "bool", "false", "true"),
    O(<<"shared-client", "client-number">>, "int", "0", "3"),     \* docs: default 1 (applied by the gun for 0)
    Leaf(<<"dial", "timeout">>, "dur", "3000", "1000", "1s", "opt"),
    O(<<"dial", "dns-cache">>, "bool", "true", "false"),
    O(<<"dial", "dual-stack">>, "bool", "true", "false"),
    Leaf(<<"dial", "fallback-delay">>, "dur", "0", "200", "200ms", "opt"),  \* docs: Default 300ms (net.Dialer applies it for 0)
    Leaf(<<"dial", "keep-alive">>, "dur", "120000", "60000", "60s", "opt"),
    O(<<"answlog", "enabled">>, "bool", "false", "true"),
    O(<<"answlog", "path">>, "str", "answ.log", "./answ-verif.log"),
    O(<<"answlog", "filter">>, "str", "error", "all"),
    O(<<"auto-tag", "enabled">>, "bool", "false", "true"),
    O(<<"auto-tag", "uri-elements">>, "int", "2", "3"),
    O(<<"auto-tag", "no-tag-only">>, "bool", "true", "false"),
    O(<<"httptrace", "dump">>, "bool", "false", "true"),
    O(<<"httptrace", "trace">>, "bool", "false", "true") >>)
HTTPGunBad(pre) == EndpointC(pre, <<"target">>) \o Min1I(pre, <<"auto-tag", "uri-elements">>) \o FilterC(pre)
GRPCGunBad(pre) == FilterC(pre)

\* docs/eng/grpc-generator.md; `shared` = the plain grpc gun (the scenario gun has no shared-client)
GRPCGun(pre, shared) == Pre(pre, <<
    Leaf(<<"target">>, "str", "", "127.0.0.1:8443", "127.0.0.1:8443", "fix"),
    Leaf(<<"timeout">>, "dur", "0", "5000", "5s", "opt"),         \* docs: Default 15s (applied by the gun for 0)
    O(<<"tls">>, "bool", "false", "true"),
    O(<<"reflect_port">>, "int", "0", "8000"),
    O(<<"reflect_metadata">>, "strmap", "", "auth=Token"),
    O(<<"dial_options", "authority">>, "str", "", "some.host"),
    Leaf(<<"dial_options", "timeout">>, "dur", "0", "1000", "1s", "opt"),   \* docs: Default 1s (applied by the gun for 0)
    O(<<"answlog", "enabled">>, "bool", "false", "true"),
    O(<<"answlog", "path">>, "str", "answ.log", "./answ-verif.log"),
    O(<<"answlog", "filter">>, "str", "error", "warning") >>
    \o (IF shared THEN << O(<<"shared-client", "enabled">>, "bool", "false", "true"),
                          O(<<"shared-client", "client-number">>, "int", "0", "2") >> ELSE <<>>))

\* docs/eng/providers.md (file, headers, chosencases, middlewares, preload) + struct (limit, passes, ...)
HTTPAmmo(pre, file, mw) == Pre(pre, <<
    Leaf(<<"file">>, "str", "", file, file, "fix"),
    O(<<"headers">>, "strlist", "", "[Host: yourhost.tld]|[User-Agent: some user agent]"),
    O(<<"chosencases">>, "strlist", "", "tag1|tag2"),
    O(<<"preload">>, "bool", "false", "true"),
    O(<<"limit">>, "uint", "0", "10"),
    O(<<"passes">>, "uint", "0", "2"),
    O(<<"continueonerror">>, "bool", "false", "true"),
    O(<<"maxammosize">>, "int", "0", "4096") >>
    \o (IF mw THEN << O(<<"middlewares", "#1", "location">>, "str", "", "UTC"),
                      O(<<"middlewares", "#1", "headername">>, "str", "", "X-Date") >> ELSE <<>>))

GRPCAmmo(pre, file) == Pre(pre, <<
    Leaf(<<"file">>, "str", "", file, file, "fix"),
    O(<<"limit">>, "int", "0", "10"),
    O(<<"passes">>, "int", "0", "2"),
    O(<<"continueonerror">>, "bool", "false", "true"),
    O(<<"maxammosize">>, "int", "0", "4096"),
    O(<<"chosencases">>, "strlist", "", "tag1|tag2") >>)
GRPCAmmoBad(pre) == Min0I(pre, <<"limit">>) \o Min0I(pre, <<"passes">>)

ScenarioAmmo(pre, file) == Pre(pre, <<
    Leaf(<<"file">>, "str", "", file, file, "fix"),
    O(<<"limit">>, "uint", "0", "10"),
    O(<<"passes">>, "uint", "0", "2"),
    O(<<"continueonerror">>, "bool", "false", "true"),
    O(<<"maxammosize">>, "int", "0", "4096") >>)

\* docs/eng/config.md (destination) + struct
Phout(pre) == Pre(pre, <<
    O(<<"destination">>, "str", "", "./phout.log"),
    O(<<"id">>, "bool", "false", "true"),
    Leaf(<<"flush-time">>, "dur", "1000", "2000", "2s", "opt"),
    O(<<"sample-queue-size">>, "int", "262144", "1024"),
    Leaf(<<"buffer-size">>, "size", "8388608", "65536", "64KB", "opt") >>)

JSONLines(pre) == Pre(pre, <<
    Leaf(<<"sink", "path">>, "str", "", "./out.jsonl", "./out.jsonl", "req"),
    Leaf(<<"flush-interval">>, "dur", "1000", "500", "500ms", "opt"),
    O(<<"sample-queue-size">>, "int", "*", "2048"),
    O(<<"marshal-float-with-6-digits">>, "bool", "false", "true"),
    O(<<"sort-map-keys">>, "bool", "false", "true") >>)
JSONLinesBad(pre) == Min1I(pre, <<"sample-queue-size">>) \o << BadV(pre, <<"sink", "path">>, "str", "", "required") >>
PhoutBad(pre) == << OkV(pre, <<"buffer-size">>, "size", "1", "1", "byte size"), OkV(pre, <<"buffer-size">>, "size", "1KB", "1024", "byte size"),
                    BadV(pre, <<"buffer-size">>, "size", "12parsecs", "byte size") >>

\* docs/eng/load-profile.md, docs/eng/startup.md
Dur(p, f, r)   == Leaf(p, "dur", "", f, r, "req")
Line(pre)      == Pre(pre, << O(<<"from">>, "float", "0", "1"), O(<<"to">>, "float", "0", "5"), Dur(<<"duration">>, "60000", "60s") >>)
Const(pre)     == Pre(pre, << O(<<"ops">>, "float", "0", "2.5"), Dur(<<"duration">>, "300000", "300s") >>)
Step(pre)      == Pre(pre, << O(<<"from">>, "float", "0", "10"), O(<<"to">>, "float", "0", "100"),
                              Leaf(<<"step">>, "int", "", "5", "5", "req"), Dur(<<"duration">>, "30000", "30s") >>)
Once(pre, n)   == Pre(pre, << Leaf(<<"times">>, "int", "", n, n, "req") >>)
Unlimited(pre) == Pre(pre, << Dur(<<"duration">>, "30000", "30s") >>)
InstStep(pre)  == Pre(pre, << O(<<"from">>, "int", "0", "10"), O(<<"to">>, "int", "0", "100"),
                              Leaf(<<"step">>, "int", "", "10", "10", "req"), Dur(<<"stepduration">>, "10000", "10s") >>)
LineBad(pre)   == Min0F(pre, <<"from">>) \o Min0F(pre, <<"to">>) \o MinTimeC(pre, <<"duration">>)
ConstBad(pre)  == Min0F(pre, <<"ops">>) \o MinTimeC(pre, <<"duration">>)
StepBad(pre)   == Min0F(pre, <<"from">>) \o Min0F(pre, <<"to">>) \o Min1I(pre, <<"step">>) \o MinTimeC(pre, <<"duration">>)
OnceBad(pre)   == Min1I(pre, <<"times">>)
UnlBad(pre)    == MinTimeC(pre, <<"duration">>)
InstStepBad(pre) == Min0I(pre, <<"from">>) \o Min0I(pre, <<"to">>) \o Min1I(pre, <<"step">>) \o MinTimeC(pre, <<"stepduration">>)

\* docs/eng/config.md: pool level, log, monitoring
PoolTop(pre, id, rpi) == Pre(pre, <<
    O(<<"id">>, "str", "", id),
    O(<<"rps-per-instance">>, "bool", "false", rpi),
    O(<<"discard_overflow">>, "bool", "true", "false") >>)
Top == << O(<<"log", "level">>, "level", "info", "error"),
          O(<<"log", "file">>, "str", "stdout", "stderr"),
          O(<<"monitoring", "expvar", "enabled">>, "bool", "false", "true"),
          O(<<"monitoring", "expvar", "port">>, "int", "1234", "4321"),
          O(<<"monitoring", "cpuprofile", "enabled">>, "bool", "false", "true"),
          O(<<"monitoring", "cpuprofile", "file">>, "str", "cpuprofile.log", "cpu.out"),
          O(<<"monitoring", "memprofile", "enabled">>, "bool", "false", "true"),
          O(<<"monitoring", "memprofile", "file">>, "str", "memprofile.log", "mem.out") >>
TopBad == << BadV(<<>>, <<"monitoring", "expvar", "port">>, "int", "0", "required"),
             Same(<<>>, <<"monitoring", "expvar", "port">>, "int", "1", "required"),
             Same(<<>>, <<"monitoring", "expvar", "port">>, "int", "65535", "required"),
             BadV(<<>>, <<"log", "level">>, "level", "loud", "level name"),
             Same(<<>>, <<"log", "level">>, "level", "debug", "level name"),
             Same(<<>>, <<"log", "level">>, "level", "warn", "level name") >>

P1 == <<"pools", "#1">>
P2 == <<"pools", "#2">>
G(p) == p \o <<"gun">>
A(p) == p \o <<"ammo">>
R(p) == p \o <<"result">>
S(p) == p \o <<"rps">>
U(p) == p \o <<"startup">>
N(p, i) == p \o <<i>>

---------------------------------------------------------------------------
(* the three variants *)
V1 == [name |-> "V1",
   leaves |-> Top \o PoolTop(P1, "HTTP pool", "false") \o HTTPGun(G(P1), "false", "true") \o HTTPAmmo(A(P1), "./ammo.uri", TRUE)
              \o Phout(R(P1)) \o Line(S(P1)) \o Once(U(P1), "10")
              \o PoolTop(P2, "GRPC pool", "false") \o GRPCGun(G(P2), TRUE) \o GRPCAmmo(A(P2), "./ammo.grpc") \o JSONLines(R(P2))
              \o Const(N(S(P2), "#1")) \o Step(N(S(P2), "#2")) \o Once(N(S(P2), "#3"), "133") \o Unlimited(N(S(P2), "#4"))
              \o Once(N(U(P2), "#1"), "10") \o Const(N(U(P2), "#2")) \o Once(N(U(P2), "#3"), "10"),
   types |-> << Ty(G(P1), "http"), Ty(A(P1), "uri"), Ty(A(P1) \o <<"middlewares", "#1">>, "header/date"), Ty(R(P1), "phout"),
                Ty(S(P1), "line"), Ty(U(P1), "once"),
                Ty(G(P2), "grpc"), Ty(A(P2), "grpc/json"), Ty(R(P2), "jsonlines"), Ty(R(P2) \o <<"sink">>, "file"),
                Ty(N(S(P2), "#1"), "const"), Ty(N(S(P2), "#2"), "step"), Ty(N(S(P2), "#3"), "once"), Ty(N(S(P2), "#4"), "unlimited"),
                Ty(N(U(P2), "#1"), "once"), Ty(N(U(P2), "#2"), "const"), Ty(N(U(P2), "#3"), "once") >>,
   bads |-> TopBad \o HTTPGunBad(G(P1)) \o PhoutBad(R(P1)) \o LineBad(S(P1)) \o OnceBad(U(P1)) \o GRPCGunBad(G(P2)) \o GRPCAmmoBad(A(P2)) \o JSONLinesBad(R(P2))
            \o ConstBad(N(S(P2), "#1")) \o StepBad(N(S(P2), "#2")) \o OnceBad(N(S(P2), "#3")) \o UnlBad(N(S(P2), "#4"))
            \o ConstBad(N(U(P2), "#2")),
   mwmin |-> {A(P1) \o <<"middlewares", "#1">>}]

V2 == [name |-> "V2",
   leaves |-> Top \o PoolTop(P1, "H2 pool", "false") \o HTTPGun(G(P1), "true", "true") \o HTTPAmmo(A(P1), "./ammo.raw", FALSE)
              \o Const(S(P1)) \o InstStep(U(P1))
              \o PoolTop(P2, "connect pool", "true") \o HTTPGun(G(P2), "false", "true") \o HTTPAmmo(A(P2), "./ammo.jsonl", FALSE) \o Phout(R(P2))
              \o Line(N(S(P2), "#1")) \o Once(S(P2) \o <<"#2", "nested", "#1">>, "3") \o Const(S(P2) \o <<"#2", "nested", "#2">>)
              \o Const(U(P2)),
   types |-> << Ty(G(P1), "http2"), Ty(A(P1), "raw"), Ty(R(P1), "discard"), Ty(S(P1), "const"), Ty(U(P1), "instance_step"),
                Ty(G(P2), "connect"), Ty(A(P2), "http/json"), Ty(R(P2), "phout"),
                Ty(N(S(P2), "#1"), "line"), Ty(N(S(P2), "#2"), "composite"),
                Ty(S(P2) \o <<"#2", "nested", "#1">>, "once"), Ty(S(P2) \o <<"#2", "nested", "#2">>, "const"),
                Ty(U(P2), "const") >>,
   bads |-> HTTPGunBad(G(P1)) \o HTTPGunBad(G(P2)) \o ConstBad(S(P1)) \o InstStepBad(U(P1)) \o LineBad(N(S(P2), "#1"))
            \o OnceBad(S(P2) \o <<"#2", "nested", "#1">>) \o ConstBad(S(P2) \o <<"#2", "nested", "#2">>),
   mwmin |-> {}]

V3 == [name |-> "V3",
   leaves |-> Top \o PoolTop(P1, "scenario", "true") \o HTTPGun(G(P1), "false", "true") \o ScenarioAmmo(A(P1), "./http_payload.hcl")
              \o Const(N(S(P1), "#1")) \o InstStep(U(P1))
              \o PoolTop(P2, "grpc scenario", "false") \o GRPCGun(G(P2), FALSE) \o ScenarioAmmo(A(P2), "./grpc_payload.hcl") \o JSONLines(R(P2))
              \o Unlimited(S(P2)) \o Once(U(P2) \o <<"nested", "#1">>, "10") \o Once(U(P2) \o <<"nested", "#2">>, "10"),
   types |-> << Ty(G(P1), "http/scenario"), Ty(A(P1), "http/scenario"), Ty(R(P1), "discard"), Ty(N(S(P1), "#1"), "const"),
                Ty(U(P1), "instance_step"),
                Ty(G(P2), "grpc/scenario"), Ty(A(P2), "grpc/scenario"), Ty(R(P2), "jsonlines"), Ty(R(P2) \o <<"sink">>, "file"),
                Ty(S(P2), "unlimited"), Ty(U(P2), "composite"),
                Ty(U(P2) \o <<"nested", "#1">>, "once"), Ty(U(P2) \o <<"nested", "#2">>, "once") >>,
   bads |-> HTTPGunBad(G(P1)) \o ConstBad(N(S(P1), "#1")) \o InstStepBad(U(P1)) \o GRPCGunBad(G(P2)) \o UnlBad(S(P2)) \o OnceBad(U(P2) \o <<"nested", "#1">>),
   mwmin |-> {}]

Variants == <<V1, V2, V3>>
VarByName(n) == CHOOSE i \in 1..Len(Variants) : Variants[i].name = n

\* VALUE CLASSES THAT FOLLOW FROM THE KIND of a leaf (not hand-listed per leaf): every integer option rejects a fractional
\* number and a number outside the integer range - it must not be cut off or wrapped silently - and accepts an integral
\* number written as a float (3.0: what a JSON configuration file delivers for 3); every UNSIGNED option rejects a negative
\* number.  The rendered JSON type is the class's k ("float" / "int"), the option's own kind is the leaf's.
RECURSIVE KindBadsFrom(_, _)
KindBadsFrom(V, j) ==
    IF j > Len(V.leaves) THEN <<>>
    ELSE LET lf == V.leaves[j]
             own == IF lf.fl = "fix" \/ lf.k \notin {"int", "uint"} THEN <<>>
                    ELSE << BadV(<<>>, lf.p, "float", "2.5", "integer: fractional"),
                            BadV(<<>>, lf.p, "float", "1e30", "integer: out of range"),
                            OkV(<<>>, lf.p, "float", "3", "3", "integer: integral float") >>
                         \o (IF lf.k = "uint" THEN << BadV(<<>>, lf.p, "int", "-1", "unsigned: negative"),
                                                      BadV(<<>>, lf.p, "float", "-0.5", "unsigned: negative fraction") >>
                                               ELSE <<>>)
         IN own \o KindBadsFrom(V, j + 1)
\* all value classes of a variant: the documented constraints (hand-transcribed) and the kind classes (evaluated once)
BadsSeq == [i \in 1..Len(Variants) |-> Variants[i].bads \o KindBadsFrom(Variants[i], 1)]
Bads(V) == BadsSeq[VarByName(V.name)]
Bases == {"full", "min"}
PoolComponents == {"gun", "ammo", "result", "rps", "startup"}

---------------------------------------------------------------------------
(* rendering: which JSON type a value is written with *)
RT(k) == CASE k \in {"int", "uint"} -> "int" [] k = "float" -> "float" [] k = "bool" -> "bool"
           [] k = "strlist" -> "list" [] k = "strmap" -> "map" [] OTHER -> "str"
\* a value of the wrong type for the field
WrongT(k) == CASE k = "str" -> "int" [] k = "level" -> "bool" [] OTHER -> "str"
WrongV(k) == CASE k = "str" -> "123" [] k = "level" -> "true" [] OTHER -> "verif-not-a-value"
PhKinds == {"str", "int", "uint", "float", "bool", "dur"}

IsPrefix(q, p) == Len(q) <= Len(p) /\ SubSeq(p, 1, Len(q)) = q
Given(V, base, j) == base = "full" \/ V.leaves[j].fl # "opt"
\* in the min base a plugin list element exists only if something in it is given (middlewares: dropped)
TypeGiven(V, base, t) == base = "full" \/ ~\E q \in V.mwmin : IsPrefix(q, t.p)

AllPaths(V) == {V.leaves[i].p : i \in 1..Len(V.leaves)} \cup {V.types[i].p : i \in 1..Len(V.types)}
\* every map level of the configuration: a new key can be inserted there
SpecPoints(V) == {SubSeq(p, 1, n) : <<p, n>> \in {pn \in AllPaths(V) \X (0..8) : pn[2] < Len(pn[1]) /\ pn[1][pn[2] + 1] \notin IdxNames}}
                 \ {V.leaves[i].p : i \in {j \in 1..Len(V.leaves) : V.leaves[j].k = "strmap"}}
ReflOf(V) == {ReflPoints[i].p : i \in {j \in 1..Len(ReflPoints) : ReflPoints[j].v = V.name}}
Points(V) == SpecPoints(V) \cup ReflOf(V)

---------------------------------------------------------------------------
(* the cases *)
\* near misses of documented keys (a dash for an underscore and the like): must be rejected like any unknown key.
\* Hand-written, because strings are opaque to TLC: k = the documented last path element, m = the misspelling.
Misspellings == << [k |-> "discard_overflow", m |-> "discard-overflow"], [k |-> "rps-per-instance", m |-> "rps_per_instance"],
                   [k |-> "stepduration", m |-> "step-duration"], [k |-> "flush-time", m |-> "flush_time"],
                   [k |-> "uri-elements", m |-> "uri_elements"], [k |-> "dns-cache", m |-> "dns_cache"],
                   [k |-> "client-number", m |-> "client_number"], [k |-> "reflect_port", m |-> "reflect-port"],
                   [k |-> "dial_options", m |-> "dial-options"], [k |-> "chosencases", m |-> "chosen-cases"],
                   [k |-> "max-idle-conns", m |-> "max_idle_conns"], [k |-> "no-tag-only", m |-> "notagonly"] >>
\* the position in the path at which the documented key k occurs (0 if it does not)
KeyPos(p, k) == IF \E n \in 1..Len(p) : p[n] = k THEN CHOOSE n \in 1..Len(p) : p[n] = k ELSE 0
Respell(p, n, m) == [i \in 1..Len(p) |-> IF i = n THEN m ELSE p[i]]

\* ADVERSARIAL PLACEHOLDER ENVIRONMENTS.  A property file is a sequence of lines KEY=VALUE (docs/eng/config.md: "The contents
\* of the file must be MY_FIELD=data"); ${property:file#KEY} is the value of the first line whose key is EXACTLY KEY, an
\* error if there is none.  ${env:NAME} is the value of the variable named exactly NAME (may be empty), an error if unset.
\* Files and requested keys are chosen so that keys are prefixes / extensions / case variants of each other, in both orders.
KV(k, v) == [t |-> "kv", k |-> k, v |-> v]
RawLine(t) == [t |-> "raw", k |-> t, v |-> ""]       \* a line without '='
PropFiles == <<
    [eol |-> "lf",   lines |-> << KV("token_ttl", "1h"), KV("token", "abc"), KV("tok_x", "zzz") >>],
    [eol |-> "lf",   lines |-> << KV("token", "abc"), KV("token_ttl", "1h") >>],
    [eol |-> "lf",   lines |-> << RawLine("# a comment"), RawLine(""), KV("dup", "first"), KV("dup", "second"), KV("empty", ""),
                                  KV("eq", "a=b#c"), KV("tokens", "plural") >>],
    [eol |-> "crlf", lines |-> << KV("token_ttl", "1h"), RawLine("token without equals sign"), KV("token", "abc") >>],
    [eol |-> "lf",   lines |-> << KV("spaced ", " v"), KV("tokenizer", "t"), KV("TOKEN", "upper") >>] >>
PropReqs == << "token", "tok", "token_ttl", "token_", "token_ttl_more", "TOKEN", "Token", "dup", "empty", "eq", "spaced", "t", "missing", "" >>
EnvSets == << [n |-> "VERIF_PH_LONG", v |-> "long"], [n |-> "VERIF_PH", v |-> "val"], [n |-> "VERIF_EMPTY", v |-> ""] >>
EnvReqs == << "VERIF_PH", "VERIF_P", "VERIF_PH_LONG", "VERIF_PH_LONGER", "verif_ph", "VERIF_EMPTY", "VERIF_UNSET", "VERIF" >>
NPropReq == Len(PropReqs)
AdvCount(src) == IF src = "property" THEN Len(PropFiles) * NPropReq ELSE Len(EnvReqs)
AdvFile(x) == PropFiles[((x - 1) \div NPropReq) + 1]
AdvReq(src, x) == IF src = "property" THEN PropReqs[((x - 1) % NPropReq) + 1] ELSE EnvReqs[x]
\* the lookup: [found, v]
PropLookup(f, key) == LET hits == {i \in 1..Len(f.lines) : f.lines[i].t = "kv" /\ f.lines[i].k = key}
                      IN IF hits = {} THEN [found |-> FALSE, v |-> ""]
                         ELSE [found |-> TRUE, v |-> f.lines[CHOOSE i \in hits : \A h \in hits : i <= h].v]
EnvLookup(name) == LET hits == {i \in 1..Len(EnvSets) : EnvSets[i].n = name}
                   IN IF hits = {} THEN [found |-> FALSE, v |-> ""] ELSE [found |-> TRUE, v |-> EnvSets[CHOOSE i \in hits : TRUE].v]
AdvLookup(src, x) == IF src = "property" THEN PropLookup(AdvFile(x), AdvReq(src, x)) ELSE EnvLookup(AdvReq(src, x))
\* what the driver needs to build the environment of a phadv case
NoAdv == [src |-> "", eol |-> "lf", lines |-> <<>>, envs |-> <<>>, req |-> ""]
AdvOf(c) == IF c.kind # "phadv" THEN NoAdv
            ELSE [src |-> c.src, eol |-> IF c.src = "property" THEN AdvFile(c.x).eol ELSE "lf",
                  lines |-> IF c.src = "property" THEN AdvFile(c.x).lines ELSE <<>>,
                  envs |-> IF c.src = "env" THEN EnvSets ELSE <<>>, req |-> AdvReq(c.src, c.x)]

\* SEVERAL PLACEHOLDERS IN ONE VALUE (docs/eng/config.md shows placeholders inside longer strings; nothing limits a value to one).
\* A value is a sequence of placeholders: "val" = its variable / property holds the leaf's value, "empty" = set to the empty
\* string, "unset" = the variable is not set / the property is missing.  EVERY placeholder is judged: the value is an error iff
\* ANY of them cannot be resolved - first, middle or last; if all resolve the option gets the concatenation (= the leaf's value).
\* src: all from the environment | all from the property file | mixed (alternating env, property).
\* phmultisep: the same with literal text around and between the placeholders ("pre-" .. "-" .. "-post"), on plain string options.
MultiPatterns == << <<"val", "empty">>, <<"empty", "val">>, <<"empty", "val", "empty">>,
                    <<"unset", "val">>, <<"val", "unset">>, <<"unset", "empty", "val">>, <<"empty", "unset", "val">>,
                    <<"empty", "val", "unset">>, <<"unset", "unset">> >>
MultiSrcs == {"env", "property", "mixed"}
MultiKinds == {"phmulti", "phmultisep"}
MultiParts(c) == MultiPatterns[c.x]
MultiAnyUnset(pt) == \E i \in 1..Len(pt) : pt[i] = "unset"
MultiLastUnset(pt) == pt[Len(pt)] = "unset"
\* what a plain string option holds after substitution when literal text stands around the placeholders (val = "mid")
MultiSepValue(x) == CASE x = 1 -> "pre-mid--post" [] x = 2 -> "pre--mid-post" [] x = 3 -> "pre--mid--post" [] OTHER -> ""
\* what the driver needs: the parts with the source of each, the literal text
NoMulti == [parts |-> <<>>, pre |-> "", sep |-> "", post |-> ""]
MultiOf(c) == IF c.kind \notin MultiKinds THEN NoMulti
              ELSE [parts |-> [i \in 1..Len(MultiParts(c)) |->
                                  [what |-> MultiParts(c)[i],
                                   src |-> IF c.src = "mixed" THEN (IF i % 2 = 1 THEN "env" ELSE "property") ELSE c.src]],
                    pre |-> IF c.kind = "phmultisep" THEN "pre-" ELSE "",
                    sep |-> IF c.kind = "phmultisep" THEN "-" ELSE "",
                    post |-> IF c.kind = "phmultisep" THEN "-post" ELSE ""]

\* the values an unknown key is given: t = how the driver renders it, v = its text
UnknownValueKinds == {"int", "str", "bool", "null", "emptystr", "emptymap", "emptylist", "nestedmap"}
UnknownValue(vk) == CASE vk = "int" -> "1" [] vk = "str" -> "some text" [] vk = "bool" -> "true" [] OTHER -> ""

NoCase == [v |-> "", base |-> "", kind |-> "none", p |-> <<>>, i |-> 0, src |-> "", set |-> TRUE, x |-> 0]
MkCase(V, b, kind, p, i, src, set) == [v |-> V.name, base |-> b, kind |-> kind, p |-> p, i |-> i, src |-> src, set |-> set, x |-> 0]
\* the string leaf the adversarial placeholders are put into
AdvLeaf(V) == CHOOSE j \in 1..Len(V.leaves) : V.leaves[j].p = <<"pools", "#1", "id">>

CasesOf(V) ==
    LET n == Len(V.leaves) IN
    {MkCase(V, b, "none", <<>>, 0, "", TRUE) : b \in Bases}
    \* strictness is about the KEY: whatever value the unknown key carries (src = the kind of value)
    \cup {MkCase(V, "full", "unknown", q, 0, vk, TRUE) : <<q, vk>> \in Points(V) \X UnknownValueKinds}
    \cup {MkCase(V, "min", "unknown", q, 0, vk, TRUE) : <<q, vk>> \in {q \in Points(V) : Len(q) <= 3} \X {"int", "null"}}
    \* a KNOWN key written without a value (`key:` / `key: null` / `key: ~`) is a key that is not set
    \cup {MkCase(V, "full", "nullval", V.leaves[j].p, j, "", TRUE) : j \in {i \in 1..n : V.leaves[i].fl # "fix"}}
    \cup {MkCase(V, "full", "nullcomp", <<"pools", pi, comp>>, 0, "", TRUE) : <<pi, comp>> \in {"#1", "#2"} \X PoolComponents}
    \cup {MkCase(V, "full", "wrongtype", V.leaves[j].p, j, "", TRUE) : j \in 1..n}
    \cup {MkCase(V, "full", "range", Bads(V)[j].p, j, "", TRUE) : j \in 1..Len(Bads(V))}
    \* the same value classes delivered through a placeholder: ${env:X} is judged like the value written in its place
    \* (x = 1: a class that follows from the leaf's kind, x = 0: a documented constraint's class - the quick tier samples these)
    \cup {[MkCase(V, "full", "phrange", Bads(V)[j].p, j, "env", TRUE) EXCEPT !.x = IF j > Len(V.bads) THEN 1 ELSE 0] : j \in 1..Len(Bads(V))}
    \cup {[MkCase(V, "full", "phadv", V.leaves[AdvLeaf(V)].p, AdvLeaf(V), src, TRUE) EXCEPT !.x = x] :
              <<src, x>> \in {sx \in {"property", "env"} \X (1..100) : sx[2] <= AdvCount(sx[1])}}
    \cup {MkCase(V, b, "ph", V.leaves[j].p, j, src, set) :
              <<b, j, src, set>> \in {x \in Bases \X (1..n) \X {"env", "property"} \X BOOLEAN :
                                          /\ V.leaves[x[2]].k \in PhKinds
                                          /\ (x[1] = "full" \/ ~\E q \in V.mwmin : IsPrefix(q, V.leaves[x[2]].p))}}
    \cup {MkCase(V, "full", "emb", V.leaves[j].p, j, "env", TRUE) : j \in {i \in 1..n : /\ V.leaves[i].k = "str" /\ V.leaves[i].fl = "opt"
                                                                                            /\ ~\E b \in 1..Len(Bads(V)) : Bads(V)[b].p = V.leaves[i].p}}
    \* several placeholders in one value, in every position: patterns with an unresolvable one for every placeholder-capable
    \* leaf (the outcome is an error whatever the kind), the all-resolved patterns for every string leaf
    \cup {[MkCase(V, "full", "phmulti", V.leaves[j].p, j, src, ~MultiAnyUnset(MultiPatterns[x])) EXCEPT !.x = x] :
              <<j, src, x>> \in {t \in (1..n) \X MultiSrcs \X (1..Len(MultiPatterns)) :
                                    /\ V.leaves[t[1]].k \in PhKinds
                                    /\ (V.leaves[t[1]].k = "str" \/ MultiAnyUnset(MultiPatterns[t[3]]))}}
    \cup {[MkCase(V, "full", "phmultisep", V.leaves[j].p, j, src, ~MultiAnyUnset(MultiPatterns[x])) EXCEPT !.x = x] :
              <<j, src, x>> \in {t \in (1..n) \X MultiSrcs \X (1..Len(MultiPatterns)) :
                                    /\ V.leaves[t[1]].k = "str" /\ V.leaves[t[1]].fl = "opt"
                                    /\ ~\E b \in 1..Len(Bads(V)) : Bads(V)[b].p = V.leaves[t[1]].p}}
    \cup {MkCase(V, "full", "misspell", V.leaves[j].p, j, Misspellings[x].m, TRUE) :
              <<j, x>> \in {jx \in (1..n) \X (1..Len(Misspellings)) : KeyPos(V.leaves[jx[1]].p, Misspellings[jx[2]].k) > 0}}
    \cup {MkCase(V, "full", "emblist", V.leaves[j].p, j, "env", TRUE) : j \in {i \in 1..n : V.leaves[i].k = "strlist"}}
    \cup {MkCase(V, "full", "phnokey", V.leaves[j].p, j, "property", TRUE) : j \in {i \in 1..n : V.leaves[i].k = "str"}}
    \cup {MkCase(V, "full", "absent", V.leaves[j].p, j, "", TRUE) : j \in {i \in 1..n : V.leaves[i].fl # "fix"}}
    \cup {MkCase(V, b, "dropcomp", <<"pools", pi, comp>>, 0, "", TRUE) : <<b, pi, comp>> \in Bases \X {"#1", "#2"} \X PoolComponents}

AllCases == UNION {CasesOf(Variants[i]) : i \in 1..Len(Variants)}

\* what the driver has to do to the base configuration (set entries, delete subtrees, environment)
PhName == "VERIF_PH"
Delta(c) ==
    LET V == Variants[VarByName(c.v)]
        lf == V.leaves[c.i]
    IN CASE c.kind = "unknown"   -> [set |-> <<[p |-> c.p \o <<"zzz_unknown_key">>, t |-> c.src, v |-> UnknownValue(c.src)]>>, del |-> <<>>]
         [] c.kind \in {"nullval", "nullcomp"} -> [set |-> <<[p |-> c.p, t |-> "null", v |-> ""]>>, del |-> <<c.p>>]
         [] c.kind = "wrongtype" -> [set |-> <<[p |-> c.p, t |-> WrongT(lf.k), v |-> WrongV(lf.k)]>>, del |-> <<>>]
         [] c.kind = "range"     -> [set |-> <<[p |-> c.p, t |-> RT(Bads(V)[c.i].k), v |-> Bads(V)[c.i].r]>>, del |-> <<>>]
         [] c.kind = "ph"        -> [set |-> <<[p |-> c.p, t |-> "str", v |-> IF c.src = "env" THEN "${env:VERIF_PH}" ELSE "${property:@PROPS@#VERIF_PH}"]>>,
                                     del |-> <<>>]
         [] c.kind = "phrange"   -> [set |-> <<[p |-> c.p, t |-> "str", v |-> "${env:VERIF_PH}"]>>, del |-> <<>>]
         [] c.kind = "phadv"     -> [set |-> <<[p |-> c.p, t |-> "str", v |-> "@ADVPH@"]>>, del |-> <<>>]   \* driver: ${src:[file#]req}
         [] c.kind \in MultiKinds -> [set |-> <<[p |-> c.p, t |-> "str", v |-> "@MULTIPH@"]>>, del |-> <<>>]  \* driver: rendered from MultiOf(c)
         [] c.kind = "misspell"  -> LET x == CHOOSE x \in 1..Len(Misspellings) : Misspellings[x].m = c.src
                                        n == KeyPos(c.p, Misspellings[x].k)
                                    IN [set |-> <<[p |-> Respell(c.p, n, c.src), t |-> RT(lf.k), v |-> lf.r]>>, del |-> <<c.p>>]
         [] c.kind = "emblist"   -> [set |-> <<[p |-> c.p, t |-> "list", v |-> "[User-Agent: ${env:VERIF_PH}]|[X-Other: y]"]>>, del |-> <<>>]  \* docs/eng/config.md
         [] c.kind = "phnokey"   -> [set |-> <<[p |-> c.p, t |-> "str", v |-> "${property:@PROPS@}"]>>, del |-> <<>>]   \* no '#key'
         [] c.kind = "emb"       -> [set |-> <<[p |-> c.p, t |-> "str", v |-> "pre-${env:VERIF_PH}-post"]>>, del |-> <<>>]
         [] c.kind \in {"absent", "dropcomp"} -> [set |-> <<>>, del |-> <<c.p>>]
         [] OTHER                -> [set |-> <<>>, del |-> <<>>]
PhValue(c) == IF c.kind = "ph" \/ c.kind = "phmulti" THEN Variants[VarByName(c.v)].leaves[c.i].r
              ELSE IF c.kind = "phmultisep" THEN "mid"
              ELSE IF c.kind = "phrange" THEN Bads(Variants[VarByName(c.v)])[c.i].r
              ELSE IF c.kind \in {"emb", "emblist"} THEN "mid" ELSE ""

BaseEntries(V, base) ==
    LET ls == SelectSeq([j \in 1..Len(V.leaves) |-> [p |-> V.leaves[j].p, t |-> RT(V.leaves[j].k), v |-> V.leaves[j].r, g |-> Given(V, base, j)]],
                        LAMBDA e : e.g /\ TypeGiven(V, base, e))
        ts == SelectSeq([j \in 1..Len(V.types) |-> [p |-> V.types[j].p, t |-> "str", v |-> V.types[j].v, g |-> TRUE]],
                        LAMBDA e : TypeGiven(V, base, e))
    IN ts \o ls

---------------------------------------------------------------------------
(* the decoder model: Result(c, via) = [out |-> "ok" | "error", vals |-> canonical value of every leaf] *)
\* THE INPUT CHANNELS OF THE CLI READER (cli.readConfig) and the file syntaxes viper accepts are a dimension of the cli path:
\* "cli" = a file named on the command line, .yaml; the others: .yml, no extension (= yaml), .json, .toml, standard input
\* (`pandora -`, yaml), no argument at all with ./load.yaml, ./load.json or ./config/load.yaml found in the search directories
\* (a DIFFERENT configuration lies in the search directories that must not be used: ./config/load.yaml when ./load.* is the
\* case, ./load.yaml when a file is named or standard input is read).  Outcome and every decoded value are the same through
\* every channel - that is what Outcome / ValueOf say by not looking at the channel.
CliVias == {"cli", "cli-yml", "cli-noext", "cli-json", "cli-toml", "cli-stdin", "cli-cwd", "cli-cwdjson", "cli-cwdconfig"}
Vias == {"decode"} \cup CliVias
IsCli(via) == via \in CliVias
\* the cases whose cli run is repeated through the other channels (the driver samples them; kind none: always all of them)
ChannelCase(c) == c.kind \in {"none", "absent", "nullval", "dropcomp", "nullcomp"}
\* TOML has no null
Expressible(c, via) == via = "cli-toml" => c.kind \notin {"nullval", "nullcomp"}
ViasFor(c) == IF ChannelCase(c) THEN {vv \in Vias : Expressible(c, vv)} ELSE {"decode", "cli"}

DocDefault(lf, via) == IF lf.p[Len(lf.p)] = "discard_overflow"
                       \* the default is put in by the CLI reader - whatever channel the configuration arrives through
                       THEN (IF IsCli(via) THEN (IF via = "cli-stdin" /\ ~StdinDefault THEN "false" ELSE DiscardDefault) ELSE "*")
                       ELSE lf.d

\* stage 1 - placeholders (VariableInjectHook runs first in the hook chain)
Substitute(c) == IF \/ (c.kind = "ph" /\ ~c.set /\ UnsetIsError) \/ c.kind = "phnokey"
                    \/ (c.kind = "phadv" /\ ~AdvLookup(c.src, c.x).found /\ UnsetIsError)
                    \* the resolver runs for every placeholder of the value; the first failure is the value's failure
                    \/ (c.kind \in MultiKinds /\ UnsetIsError
                           /\ (IF AnyUnresolved THEN MultiAnyUnset(MultiParts(c)) ELSE MultiLastUnset(MultiParts(c))))
                 THEN "error" ELSE "ok"
\* stage 2 - typed decoding of every given value
TypedDecode(c) == IF c.kind = "wrongtype" /\ StrictTypes THEN "error" ELSE "ok"
\* stage 3 - keys nobody consumed
UnusedCheck(c) == IF c.kind \in {"unknown", "misspell"} /\ ErrorUnused THEN "error" ELSE "ok"
\* stage 4 - validation tags (required, min, min-time, endpoint, ...)
RequiredMissing(c) ==
    LET V == Variants[VarByName(c.v)] IN
    \/ c.kind = "dropcomp"
    \/ c.kind \in {"absent", "nullval"} /\ V.leaves[c.i].fl = "req"
    \/ c.kind = "nullcomp"
OutsideClass(b) == ~b.ok /\ (OneOfWhole \/ b.why # OneOfWords)
Validation(c) == IF ValidateTags /\ ((c.kind \in {"range", "phrange"} /\ OutsideClass(Bads(Variants[VarByName(c.v)])[c.i])) \/ RequiredMissing(c)) THEN "error" ELSE "ok"

\* WHEN an error is reported.  The sections behind factory-typed fields whose registered constructor builds a component
\* (every schedule under `rps`; the grpc and grpc/scenario guns) are decoded when the factory is CALLED - by the engine at
\* pool start (shared rps schedule, gun warm-up) or per instance - not when the configuration is loaded.  An error inside
\* such a section is an error all the same (the run fails before the pool shoots), only later: "start" instead of "load".
GunTypeOf(V, pool) == LET hits == {i \in 1..Len(V.types) : V.types[i].p = <<"pools", pool, "gun", "type">>}
                      IN IF hits = {} THEN "" ELSE V.types[CHOOSE i \in hits : TRUE].v
LazyRoots(V) == {<<"pools", pool, "rps">> : pool \in {"#1", "#2"}}
                \cup {<<"pools", pool, "gun">> : pool \in {pl \in {"#1", "#2"} : GunTypeOf(V, pl) \in {"grpc", "grpc/scenario"}}}
TouchOf(c) == IF c.kind = "unknown" THEN c.p \o <<"zzz_unknown_key">> ELSE c.p
InLazy(c) == \E q \in LazyRoots(Variants[VarByName(c.v)]) : IsPrefix(q, TouchOf(c)) /\ Len(TouchOf(c)) > Len(q)
ErrStage(c) == IF InLazy(c) THEN "start" ELSE "load"

Stages == <<"subst", "types", "unused", "validate">>
StageOut(c, s) == CASE s = "subst" -> Substitute(c) [] s = "types" -> TypedDecode(c)
                    [] s = "unused" -> UnusedCheck(c) [] s = "validate" -> Validation(c)
Outcome(c) == IF \E i \in 1..Len(Stages) : StageOut(c, Stages[i]) = "error" THEN "error" ELSE "ok"

ValueOf(c, via, V, j) ==
    LET lf == V.leaves[j] IN
    IF c.kind \in {"absent", "nullval"} /\ IsPrefix(c.p, lf.p) THEN DocDefault(lf, via)
    ELSE IF c.kind = "ph" /\ c.i = j THEN lf.f
    ELSE IF c.kind = "phmulti" /\ c.i = j THEN lf.f
    ELSE IF c.kind = "phmultisep" /\ c.i = j THEN MultiSepValue(c.x)
    ELSE IF c.kind = "phadv" /\ c.i = j THEN AdvLookup(c.src, c.x).v
    ELSE IF c.kind \in {"range", "phrange"} /\ c.p = lf.p THEN Bads(V)[c.i].v
    ELSE IF c.kind = "emb" /\ c.i = j THEN "pre-mid-post"
    ELSE IF c.kind = "emblist" /\ c.i = j THEN "[User-Agent: mid]|[X-Other: y]"
    ELSE IF c.base = "min" /\ \E q \in V.mwmin : IsPrefix(q, lf.p) THEN "*"      \* the list element does not exist at all
    ELSE IF Given(V, c.base, j) THEN lf.f
    ELSE DocDefault(lf, via)

Values(c, via) == LET V == Variants[VarByName(c.v)] IN [j \in 1..Len(V.leaves) |-> ValueOf(c, via, V, j)]
Matches(got, want) == want = "*" \/ got = want

---------------------------------------------------------------------------
(* state machine: one case is pushed through the stages *)
VARIABLES cs, via, stage, err
vars == <<cs, via, stage, err>>

Init == cs \in AllCases /\ via \in ViasFor(cs) /\ stage = 0 /\ err = FALSE
Advance == /\ stage < Len(Stages)
           /\ stage' = stage + 1
           /\ err' = (err \/ StageOut(cs, Stages[stage + 1]) = "error")
           /\ UNCHANGED <<cs, via>>
Next == Advance
Spec == Init /\ [][Next]_vars
Done == stage = Len(Stages)

---------------------------------------------------------------------------
(* THE PROPERTY over (case, result), independent of the stage functions *)
TheV == Variants[VarByName(cs.v)]
\* an unknown key at any nesting level is an error
Strict == Done /\ cs.kind \in {"unknown", "misspell"} => err
\* a wrongly typed value is an error
Typed == Done /\ cs.kind = "wrongtype" => err
\* a value violating a documented constraint is an error; so is leaving out something required
Constrained == Done /\ (\/ (cs.kind \in {"range", "phrange"} /\ ~Bads(TheV)[cs.i].ok) \/ cs.kind = "dropcomp"
                         \/ cs.kind = "nullcomp" \/ (cs.kind \in {"absent", "nullval"} /\ TheV.leaves[cs.i].fl = "req")) => err
\* a placeholder naming an unset variable / missing property is an error; a set one is not
Placeholders == /\ (Done /\ cs.kind \in {"ph", "emb", "emblist"} => (err <=> ~cs.set))
                \* several placeholders in one value: an error iff ANY of them cannot be resolved, wherever it stands
                /\ (Done /\ cs.kind \in MultiKinds => (err <=> \E i \in 1..Len(MultiPatterns[cs.x]) : MultiPatterns[cs.x][i] = "unset"))
                /\ (Done /\ cs.kind = "phnokey" => err)      \* a malformed property placeholder is an error (not a crash)
                \* exact key / exact name, whatever else the file / the environment holds
                /\ (Done /\ cs.kind = "phadv" /\ cs.src = "property" =>
                        (err <=> ~\E i \in 1..Len(AdvFile(cs.x).lines) :
                                     AdvFile(cs.x).lines[i].t = "kv" /\ AdvFile(cs.x).lines[i].k = AdvReq("property", cs.x)))
                /\ (Done /\ cs.kind = "phadv" /\ cs.src = "env" =>
                        (err <=> ~\E i \in 1..Len(EnvSets) : EnvSets[i].n = AdvReq("env", cs.x)))
\* nothing else fails
NoSpuriousError == Done /\ (\/ cs.kind = "none" \/ (cs.kind \in {"absent", "nullval"} /\ TheV.leaves[cs.i].fl = "opt")
                             \/ (cs.kind \in {"range", "phrange"} /\ Bads(TheV)[cs.i].ok)) => ~err        \* boundary values inside the constraint
\* options that are not given keep the documented default (discard_overflow: on, through the CLI reader); given ones are kept
DefaultsKept == Done /\ ~err =>
    \A j \in 1..Len(TheV.leaves) :
        LET lf == TheV.leaves[j]
            given == /\ (Given(TheV, cs.base, j) \/ (cs.kind \in {"ph", "emb", "emblist"} \cup MultiKinds /\ cs.i = j))
                     /\ ~(cs.kind \in {"absent", "nullval"} /\ IsPrefix(cs.p, lf.p))
                     /\ (cs.base = "full" \/ ~\E q \in TheV.mwmin : IsPrefix(q, lf.p))
            v == ValueOf(cs, via, TheV, j)
        IN IF cs.kind = "phadv" /\ cs.i = j THEN TRUE                               \* see Placeholders
           ELSE IF cs.kind \in {"range", "phrange"} /\ cs.p = lf.p THEN v = Bads(TheV)[cs.i].v      \* accepted boundary value is kept
           ELSE IF given THEN v = (CASE cs.kind = "emb" /\ cs.i = j -> "pre-mid-post"
                                [] cs.kind = "emblist" /\ cs.i = j -> "[User-Agent: mid]|[X-Other: y]"
                                [] cs.kind = "phmultisep" /\ cs.i = j -> MultiSepValue(cs.x)
                                [] OTHER -> lf.f)
           ELSE IF cs.base = "min" /\ \E q \in TheV.mwmin : IsPrefix(q, lf.p) THEN TRUE
           ELSE IF lf.p[Len(lf.p)] = "discard_overflow" THEN (IsCli(via) => v = "true")    \* every input channel
           ELSE v = lf.d
=============================================================================
