---------------------------- MODULE TraceEngine ----------------------------
(***************************************************************************)
(* Trace specification for Engine.tla: runs of the REAL engine with 2-3    *)
(* pools of scripted mocks (`vdrive poolrun` on the EngineMC plans),       *)
(* recorded through engine.VerifSink and the mocks, must be behaviours of  *)
(* Engine.tla.  Only the engine-level lines are bound:                     *)
(*   Cancel, EngineReturn, RunReturn, WaitReturn, End       (driver/hook)  *)
(*   PoolReturn{p}, WaitDone{p}                              (hooks)       *)
(*   Bind ok = an instance started; ProvRunEnd / AggRunEnd / Close = a     *)
(*   background task of pool p stopped                       (mocks)       *)
(* everything else (the await loop's own lines) belongs to PoolRun.tla and *)
(* is skipped here.  Same conventions as TracePoolRun.tla: one run per     *)
(* initial state, accepted when End is consumed, cancels logged before     *)
(* they take effect, unlogged steps silent.                                *)
(***************************************************************************)
EXTENDS EngineMC, IOUtils

CONSTANTS Diag, PromptMs
VARIABLES l, run, retLogged, wdLogged, runLogged, engLogged
aux == <<retLogged, wdLogged, runLogged, engLogged>>

Trace == ndJsonDeserialize(IOEnv.VERIF_TRACE)
Ev == Trace[l]
PlanById(id) == CHOOSE pl \in Plans : pl.id = id

TInit ==
  \E s \in {i \in 1..Len(Trace) : Trace[i].ev = "Plan"} :
    /\ l = s + 1 /\ run = Trace[s].run
    /\ InitFor(PlanById(Trace[s].plan))
    /\ retLogged = [p \in 1..Trace[s].n |-> FALSE]
    /\ wdLogged = [p \in 1..Trace[s].n |-> 0]
    /\ runLogged = FALSE /\ engLogged = FALSE

Have(e) == l <= Len(Trace) /\ Ev.run = run /\ Ev.ev = e
Consume == l' = l + 1 /\ run' = run /\ (Diag => PrintT(<<"VERIF-HW", run, l>>))
PRet(e) == IF e.cls = "err" THEN Ret("err", e.c) ELSE Ret(e.cls, "")

TCancel == Have("Cancel") /\ UserCancel /\ Consume /\ UNCHANGED aux
\* written by Run's deferred function: after the loop decided the result (silent EngRecv / EngCancel), before cancel()
TEngineReturn == /\ Have("EngineReturn") /\ engRet.k # "none" /\ ~engLogged /\ engLogged' = TRUE
                 /\ Consume /\ UNCHANGED <<vars, retLogged, wdLogged, runLogged>>
\* Hook lines are keyed by the pool's id.  In a plan whose pools SHARE an id (dupid) they carry p = 0: the line
\* belongs to one of the pools, and it must be a step of at least one of them (TLC tries each).  Mock lines carry
\* the pool of the mock object itself and stay exact.
PoolOf(e) == IF e.p = 0 /\ plan.dupid # "none" THEN Pools ELSE {e.p}

TRunReturn ==
  /\ Have("RunReturn") /\ ~runLogged
  /\ IF Ev.cls = "err" THEN \E q \in PoolOf(Ev) : engRet = ERet("err", q, Ev.c) ELSE engRet = ERet(Ev.cls, 0, "")
  /\ (Ev.flag => Ev.ms <= PromptMs)
  /\ runLogged' = TRUE /\ Consume /\ UNCHANGED <<vars, retLogged, wdLogged, engLogged>>
TWaitReturn == Have("WaitReturn") /\ runLogged /\ WaitReturn /\ Consume /\ UNCHANGED aux
TEnd ==
  /\ Have("End") /\ Terminated /\ runLogged
  /\ Ev.n = 0 /\ ~Ev.flag          \* no mock Run / Shoot active, no goroutine of the run left (e.g. a pool goroutine stuck in its send)
  /\ \A p \in Pools : retLogged[p] /\ wdLogged[p] = wd[p]
  /\ PrintT(<<"VERIF-ACC", run>>)
  /\ Consume /\ UNCHANGED <<vars, aux>>

\* a mock has entered the warm-up / schedule-factory call that does not return before Run has returned (plan field
\* block); the driver lets it return after RunReturn
TBlocked == Have("Blocked") /\ PP(Ev.p).block = Ev.cls /\ pst[Ev.p] = "init" /\ Consume /\ UNCHANGED <<vars, aux>>
TRelease == Have("Release") /\ runLogged /\ engRet.k # "none" /\ Consume /\ UNCHANGED <<vars, aux>>

TPoolReturn ==
  /\ Have("PoolReturn")
  /\ \E q \in PoolOf(Ev) :
       /\ ~retLogged[q]
       /\ retLogged' = [retLogged EXCEPT ![q] = TRUE]
       /\ \/ pst[q] \in {"ret", "report", "done"} /\ pret[q] = PRet(Ev) /\ UNCHANGED vars   \* failsync: PoolStart was silent
          \/ PoolRet(q, PRet(Ev))
  /\ Consume /\ UNCHANGED <<wdLogged, runLogged, engLogged>>
TWaitDone ==
  /\ Have("WaitDone")
  /\ \E q \in PoolOf(Ev) : wdLogged[q] < wd[q] /\ wdLogged' = [wdLogged EXCEPT ![q] = @ + 1]
  /\ Consume /\ UNCHANGED <<vars, retLogged, runLogged, engLogged>>

\* the await goroutine's send and Run's receive are one step; either side may log first (the await goroutine may
\* even log WaitDone before Run logs its return)
TErrForwarded ==
  /\ Have("ErrForwarded")
  /\ \E q \in PoolOf(Ev) :
       \/ pst[q] = "run" /\ PoolRet(q, Ret("err", Ev.cls))
       \/ pst[q] # "run" /\ pret[q] = Ret("err", Ev.cls) /\ UNCHANGED vars
  /\ Consume /\ UNCHANGED aux

TInstStart == Have("Bind") /\ Ev.cls = "ok" /\ InstStart(Ev.p) /\ Consume /\ UNCHANGED aux
TBgStop == /\ l <= Len(Trace) /\ Ev.run = run /\ Ev.ev \in {"ProvRunEnd", "AggRunEnd", "Close"}
           /\ BgStop(Ev.p) /\ Consume /\ UNCHANGED aux

Skipped == {"NewGunOk", "NewGunFail", "NewSchedOk", "NewSchedFail", "WarmUp", "Shoot", "AwaitProvider", "AwaitAggregator",
            "AwaitStart", "AwaitInstance", "AllInstancesFinished", "ErrSuppressed"}
TSkip == /\ l <= Len(Trace) /\ Ev.run = run /\ (Ev.ev \in Skipped \/ (Ev.ev = "Bind" /\ Ev.cls # "ok"))
         /\ Consume /\ UNCHANGED <<vars, aux>>

TSilent ==
  /\ \/ EngRecv \/ EngCancel
     \/ (engLogged /\ EngDefer) \/ UserCancelDo
     \/ \E p \in Pools : PoolStart(p) \/ StartEnd(p) \/ AwaitExit(p) \/ PoolDefer(p) \/ PoolReportSend(p) \/ PoolReportSuppress(p)
  /\ UNCHANGED <<l, run, aux>>

TNext == TCancel \/ TEngineReturn \/ TRunReturn \/ TWaitReturn \/ TEnd \/ TBlocked \/ TRelease \/ TPoolReturn \/ TWaitDone
         \/ TErrForwarded \/ TInstStart \/ TBgStop \/ TSkip \/ TSilent
=============================================================================
