---------------------------- MODULE Availability ----------------------------
(***************************************************************************)
(* C19 - availability histories.  The instance loop of Responses.tla with  *)
(* a target whose availability changes during the run (up -> reset / hole  *)
(* / refused -> up ...) and with a STAGED start-up: instances are created  *)
(* (newInstance: schedule, gun, Bind) at any moment of that history, also  *)
(* while the target is away.  Warm-up happens while the target is up.      *)
(* The rule is the one of Responses.tla: nothing the target does stops the *)
(* run; an instance created while the target is away still starts and its  *)
(* requests are failed samples; all ammo is fired.                         *)
(* BindBlocks = TRUE is the negative control: a gun whose Bind needs an    *)
(* established connection (blocking dial) fails newInstance -> the pool.   *)
(***************************************************************************)
EXTENDS Responses

CONSTANTS BindBlocks, MaxToggles
VARIABLES avail,     \* "up" or the letter of AvailLetters that describes how the target is away
          started,   \* instances created so far
          toggles
avars == <<vars, avail, started, toggles>>

AvInit == Init /\ avail = "up" /\ started = {} /\ toggles = 0

Toggle == /\ toggles < MaxToggles /\ poolErr = "none"
          /\ toggles' = toggles + 1
          /\ avail' \in ({"up"} \cup AvailLetters) \ {avail}
          /\ UNCHANGED <<vars, started>>

\* engine.newInstance: schedule, gun factory, gun.Bind
Start(i) == /\ i \notin started /\ poolErr = "none"
            /\ IF BindBlocks /\ avail # "up" /\ run.gun \in GrpcGuns
               THEN /\ poolErr' = "bind" /\ pc' = [j \in 1..NInst |-> "done"]
                    /\ UNCHANGED <<run, taken, cur, nsamples, due, started>>
               ELSE /\ started' = started \cup {i}
                    /\ UNCHANGED vars
            /\ UNCHANGED <<avail, toggles>>

AvAcquire(i) == /\ i \in started /\ pc[i] = "idle" /\ poolErr = "none" /\ taken < NAmmo
                /\ taken' = taken + 1
                /\ cur' = [cur EXCEPT ![i] = IF avail = "up" THEN OkLetter(run.gun) ELSE Plain(avail)]
                /\ pc' = [pc EXCEPT ![i] = "shoot"]
                /\ UNCHANGED <<run, nsamples, due, poolErr, avail, started, toggles>>

AvNext == \/ Toggle
          \/ \E i \in 1..NInst : \/ Start(i)
                                 \/ AvAcquire(i)
                                 \/ Shot(i) /\ UNCHANGED <<avail, started, toggles>>
                                 \/ i \in started /\ Finish(i) /\ UNCHANGED <<avail, started, toggles>>
AvSpec == AvInit /\ [][AvNext]_avars

\* an instance is never refused because of the target's state, the pool never fails
AvNoPoolFailure == poolErr = "none"
\* when every instance has been created and is done, all ammo was fired and every ammo has its samples
AvAccounted == (started = 1..NInst /\ \A i \in 1..NInst : pc[i] = "done") => (taken = NAmmo /\ nsamples = due)
\* a request that meets the target while it is away yields exactly one (failed) sample per step reached
AvOutcomeTotal == \A g \in Guns : \A p \in PostsOf(g) : \A l \in AvailLetters : Len(Outcome(g, Plain(l), p)) = 1
=============================================================================
