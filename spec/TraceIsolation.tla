---------------------------- MODULE TraceIsolation ----------------------------
(***************************************************************************)
(* C11 trace specification.  `vdrive isolation` ran every supported pool   *)
(* kind with N = 8 instances on the real engine (one child process per     *)
(* run, once plain and once built with -race) and logged                   *)
(*   Run{kind,shared,inst,race}                                            *)
(*   NewGun{gun,gid} Bind{gun,inst,gid,ok}      gun factory decorator      *)
(*   ShootBegin{gun,gid,ammo,tok} ShootEnd{gun,gid}                        *)
(*   Recv{toks}      the target: the token found in the payload and in the *)
(*                   templated header / metadata entries of ONE call       *)
(*   Sample{gid,tag,base,code,err}  aggregator decorator: what a gun hands  *)
(*                   over to the REAL phout aggregator, read at hand-over   *)
(*   Phout{tag,code,err,bad}  every line phout wrote, read after the run    *)
(*   PoolDone, RunEnd                                                      *)
(*   PoolError, Fault{what}   -- NO ACTION: a run that failed, a race      *)
(*                   report, a runtime fatal reject the trace              *)
(* Every line must be a step of Isolation (goroutine ids stand for the     *)
(* creator / instance goroutine); its invariants are evaluated after every *)
(* line.  A call whose tokens disagree, or carry a value already sent for  *)
(* another call, has no action.                                            *)
(* Ammo objects (Isolation: AAcquire / ADiscard / ARelease; the provider   *)
(* is wrapped: Acquire{gid,obj,name} is logged after the object was handed *)
(* out, Release{gid,obj} before it is given back): `held` is the set of    *)
(* [obj, gid, name] between Acquire and Release.  An object that is held   *)
(* cannot be acquired again; a Release needs the holder's own Acquire (a   *)
(* second Release has no action); a gun can only shoot the object its      *)
(* goroutine holds, under the name it was acquired with; with uniquely     *)
(* tagged lines and passes: 1 a name is acquired at most once; at PoolDone *)
(* nothing is held.  Discarded{gid}: the engine's sample for a shot it     *)
(* skipped -- by a goroutine that is not in Shoot.                          *)
(* Samples (Isolation: SReport / AggWrite at the level of content; sample  *)
(* identities and the pool are not observable): within one Shoot the gun   *)
(* hands over exactly one sample per step, in step order (a second Report  *)
(* for a step has no action); `handed` is the bag of contents the          *)
(* aggregator owns; every phout line must be one of them, each written     *)
(* once (a sample changed after the hand-over, reported twice, or two      *)
(* lines run together have no action); at RunEnd the bag is empty.         *)
(***************************************************************************)
EXTENDS Isolation, Json, IOUtils

VARIABLES l,
          plan,     \* base tags of the samples of one shot ([] = the ammo's own tag)
          exp,      \* gun -> expected base tags of the shot in progress
          pos,      \* gun -> samples handed over in the shot in progress
          nshots,   \* gun -> Shoot calls in this run
          prof,     \* [perinst, klo, khi]: rps-per-instance run and the tokens of the configured profile
          held,     \* set of [obj, gid, name]: ammo objects between Acquire and Release
          seen,     \* names acquired so far in this run (uniq runs)
          uniq,     \* every line of the file has its own tag and is delivered once
          handed,   \* bag: content [tag, code, err] -> handed over and not yet written by the aggregator
          open,     \* set of [from, tok]: calls whose token a postprocessor captures, not yet quoted by a later call
          cg,       \* connection (the target's view) -> the gun whose calls it carries
          own       \* no shared-client: every gun has its own client, a connection belongs to ONE gun
tx == <<plan, exp, pos, handed, nshots, prof, held, seen, uniq, open, cg, own>>

Trace == ndJsonDeserialize(IOEnv.VERIF_TRACE)
Ev == Trace[l]
Mark == TLCSet(1, IF TLCGet(1) > l + 1 THEN TLCGet(1) ELSE l + 1)

EmptyBag == [x \in {} |-> 0]
TraceInit == /\ l = 1 /\ TLCSet(1, 1) /\ Init
             /\ plan = <<>> /\ exp = [g \in Guns |-> <<>>] /\ pos = [g \in Guns |-> 0] /\ handed = EmptyBag
             /\ nshots = [g \in Guns |-> 0] /\ prof = [perinst |-> FALSE, klo |-> 0, khi |-> 0]
             /\ held = {} /\ seen = {} /\ uniq = FALSE /\ open = {} /\ cg = [x \in {} |-> 0] /\ own = FALSE

Quiet == \A g \in Guns : nShoot[g] = 0
Stutter == UNCHANGED vars

TRun == /\ Ev.ev = "Run" /\ Quiet
        /\ pend' = {} /\ made' = {} /\ owners' = [g \in Guns |-> {}] /\ busy' = [i \in Insts |-> FALSE]
        /\ nShoot' = [g \in Guns |-> 0] /\ shooter' = [g \in Guns |-> {}] /\ cur' = [g \in Guns |-> "-"]
        /\ used' = {} /\ defs' = "T" /\ view' = [g \in Guns |-> "none"] /\ inCrit' = {} /\ sent' = {} /\ shots' = 0
        /\ UNCHANGED <<svars, schvars, avars, vvars>>
        /\ \A x \in DOMAIN handed : handed[x] = 0
        /\ plan' = Ev.steps /\ exp' = [g \in Guns |-> <<>>] /\ pos' = [g \in Guns |-> 0] /\ handed' = EmptyBag
        /\ nshots' = [g \in Guns |-> 0] /\ prof' = [perinst |-> Ev.perinst, klo |-> Ev.klo, khi |-> Ev.khi]
        /\ held = {} /\ held' = {} /\ seen' = {} /\ uniq' = Ev.uniq /\ open' = {} /\ cg' = [x \in {} |-> 0] /\ own' = ~Ev.shared
TNewGun == Ev.ev = "NewGun" /\ Ev.gun \in Guns /\ NewGun(Ev.gid, Ev.gun) /\ UNCHANGED tx
TBind == Ev.ev = "Bind" /\ Ev.ok /\ Ev.gun \in Guns /\ Ev.inst \in Insts /\ Bind(Ev.gid, Ev.inst, Ev.gun) /\ UNCHANGED tx
TShootBegin == /\ Ev.ev = "ShootBegin" /\ Ev.gun \in Guns
               /\ Ev.tok \notin used
               /\ \E i \in owners[Ev.gun] : ShootBegin(i, Ev.gun, Ev.gid, Ev.tok)
               \* (the HTTP guns' ammo hides its tag from the decorator: "*" = one sample with any tag)
               /\ exp' = [exp EXCEPT ![Ev.gun] = IF plan # <<>> THEN plan ELSE IF Ev.ammo = "" THEN <<"*">> ELSE <<Ev.ammo>>]
               /\ pos' = [pos EXCEPT ![Ev.gun] = 0]
               /\ nshots' = [nshots EXCEPT ![Ev.gun] = @ + 1]
               \* the gun shoots the object ITS goroutine holds, under the name it was acquired with
               /\ Ev.obj = 0 \/ [obj |-> Ev.obj, gid |-> Ev.gid, name |-> Ev.ammo] \in held
               /\ UNCHANGED <<plan, handed, prof, held, seen, uniq, open, cg, own>>
Agree(ts) == Len(ts) > 0 /\ \A j \in 1..Len(ts) : ts[j] = ts[1] /\ ts[1] \notin {"", "-"}
\* the call carries the token of the ammo in Shoot on some gun ...
\* What instances may share and what not: with shared-client the CONNECTIONS of the pooled clients are shared by design;
\* without it every gun has a client of its own, so a connection never carries calls of two guns (conn 0: not observed).
ConnOk(g) == (own /\ Ev.conn # 0 /\ Ev.conn \in DOMAIN cg) => (cg[Ev.conn] = g)
RecvCarried(t) ==
    \E g \in Guns :
        /\ cur[g] = t
        /\ ConnOk(g)
        /\ Send(g, t, t, defs, view, FALSE, "")
        /\ cg' = (IF Ev.conn # 0 /\ Ev.conn \notin DOMAIN cg THEN cg @@ (Ev.conn :> g) ELSE cg)
\* ... or (scenario) a value drawn for this call and for no other: Draw(g,t) followed by Send(g,t,t)
RecvDrawn(t) == /\ \E g \in Guns : nShoot[g] > 0 /\ cur[g] = "" /\ g \notin inCrit
                /\ t \notin used
                /\ used' = used \cup {t}
                /\ UNCHANGED <<pend, made, owners, busy, nShoot, shooter, cur, defs, view, inCrit, sent, shots, svars, schvars, avars, vvars, cg>>
\* variables of a shot (Isolation!VarIsolation at the level of what the target sees): a call that quotes a value captured
\* from an earlier step (prev) quotes the token of a call of that step which nobody has quoted yet -- with one storage per
\* shot that is the call of ITS OWN shot; a value of another instance's shot would be quoted twice, or is still to come
Chain == /\ Ev.prev # "" => [from |-> Ev.from, tok |-> Ev.prev] \in open
         /\ open' = (open \ {[from |-> Ev.from, tok |-> Ev.prev]}) \cup (IF Ev.cap # "" THEN {[from |-> Ev.cap, tok |-> Ev.toks[1]]} ELSE {})
TRecv == /\ Ev.ev = "Recv" /\ Agree(Ev.toks) /\ (RecvCarried(Ev.toks[1]) \/ RecvDrawn(Ev.toks[1]))
         /\ Chain
         /\ UNCHANGED <<plan, exp, pos, handed, nshots, prof, held, seen, uniq, own>>
Content(e) == [tag |-> e.tag, code |-> e.code, err |-> e.err]
BagAdd(b, x) == IF x \in DOMAIN b THEN [b EXCEPT ![x] = @ + 1] ELSE b @@ (x :> 1)
\* the gun in Shoot on this goroutine hands over THE sample of its next step (SReport)
TSample == /\ Ev.ev = "Sample"
           /\ \E g \in Guns : /\ nShoot[g] > 0 /\ Ev.gid \in shooter[g]
                                /\ pos[g] < Len(exp[g]) /\ exp[g][pos[g] + 1] \in {Ev.base, "*"}
                                /\ pos' = [pos EXCEPT ![g] = @ + 1]
           /\ handed' = BagAdd(handed, Content(Ev))
           /\ UNCHANGED <<vars, plan, exp, nshots, prof, held, seen, uniq, open, cg, own>>
\* the aggregator wrote one of the samples it was handed, as it was handed (AggWrite)
TPhout == /\ Ev.ev = "Phout" /\ ~Ev.bad /\ Quiet
          /\ Content(Ev) \in DOMAIN handed /\ handed[Content(Ev)] > 0
          /\ handed' = [handed EXCEPT ![Content(Ev)] = @ - 1]
          /\ UNCHANGED <<vars, plan, exp, pos, nshots, prof, held, seen, uniq, open, cg, own>>
\* provider.Acquire handed the object out to this goroutine (AAcquire)
TAcquire == /\ Ev.ev = "Acquire"
            /\ Ev.obj = 0 \/ \A h \in held : h.obj # Ev.obj /\ h.gid # Ev.gid      \* nobody holds it; the goroutine holds nothing
            /\ (uniq /\ Ev.name # "") => Ev.name \notin seen                          \* a line is delivered once
            /\ held' = IF Ev.obj = 0 THEN held ELSE held \cup {[obj |-> Ev.obj, gid |-> Ev.gid, name |-> Ev.name]}
            /\ seen' = IF uniq THEN seen \cup {Ev.name} ELSE seen
            /\ UNCHANGED <<vars, plan, exp, pos, handed, nshots, prof, uniq, open, cg, own>>
\* the ONE Release of what this goroutine acquired (ARelease / ADiscard); not while its gun is still shooting it
TRelease == /\ Ev.ev = "Release"
            /\ Ev.obj = 0 \/ \E h \in held : h.obj = Ev.obj /\ h.gid = Ev.gid
            /\ \A g \in Guns : Ev.gid \in shooter[g] => nShoot[g] = 0
            /\ held' = {h \in held : h.obj # Ev.obj \/ Ev.obj = 0}
            /\ UNCHANGED <<vars, plan, exp, pos, handed, nshots, prof, seen, uniq, open, cg, own>>
\* discard_overflow: the engine skipped the shot and reported its own sample (which phout writes like any other)
TDiscarded == /\ Ev.ev = "Discarded"
              \* (whether the skipped ammo is given back before or after this report is not prescribed)
              /\ \A g \in Guns : Ev.gid \in shooter[g] => nShoot[g] = 0
              /\ handed' = BagAdd(handed, Content(Ev))
              /\ UNCHANGED <<vars, plan, exp, pos, nshots, prof, held, seen, uniq, open, cg, own>>
TShootEnd == /\ Ev.ev = "ShootEnd" /\ Ev.gun \in Guns /\ Ev.gid \in shooter[Ev.gun]
             /\ pos[Ev.gun] >= 1                       \* a shot hands over at least the sample of its first step
             /\ \E i \in owners[Ev.gun] : ShootEnd(i, Ev.gun)
             /\ UNCHANGED tx
TEnd == /\ Ev.ev \in {"PoolDone", "RunEnd"} /\ Quiet /\ Stutter /\ UNCHANGED tx
        /\ held = {}                                     \* every Acquire had its Release
        /\ Ev.ev = "RunEnd" => \A x \in DOMAIN handed : handed[x] = 0
        \* rps-per-instance: every instance owns its schedule, so every bound gun shot the FULL profile
        \* (Isolation!FullProfile; klo..khi computed from the configured rps list by StartupMath)
        /\ (Ev.ev = "PoolDone" /\ prof.perinst) =>
               \A g \in Guns : owners[g] # {} => (nshots[g] >= prof.klo /\ nshots[g] <= prof.khi)

\* the target's connection log (which call arrived on which connection is part of Recv)
TConn == Ev.ev \in {"ConnBegin", "ConnEnd", "ReflCall"} /\ Stutter /\ UNCHANGED tx
TraceNext == /\ l <= Len(Trace)
             /\ (TConn \/ TRun \/ TNewGun \/ TBind \/ TShootBegin \/ TRecv \/ TSample \/ TPhout \/ TShootEnd \/ TEnd \/ TAcquire \/ TRelease \/ TDiscarded)
             /\ l' = l + 1
             /\ Mark

Accepted == PrintT(<<"VERIF-HWM", TLCGet(1)>>) /\ TLCGet(1) = Len(Trace) + 1
=============================================================================
