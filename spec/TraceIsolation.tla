---------------------------- MODULE TraceIsolation ----------------------------
(***************************************************************************)
(* C11 trace specification.  `vdrive isolation` ran every supported pool   *)
(* kind with N = 8 instances on the real engine (one child process per     *)
(* run, once plain and once built with -race) and logged                   *)
(*   Run{kind,shared,inst,race}                                            *)
(*   NewGun{gun,gid} Bind{gun,inst,gid,ok}      gun factory decorator      *)
(*   ShootBegin{gun,gid,ammo,tok} ShootEnd{gun,gid}                        *)
(*   Recv{toks}      the target: the token found in the payload and in the *)
(*                   templated header / metadata entries of ONE call       *)
(*   Sample{gid}     aggregator decorator                                  *)
(*   PoolDone, RunEnd                                                      *)
(*   PoolError, Fault{what}   -- NO ACTION: a run that failed, a race      *)
(*                   report, a runtime fatal reject the trace              *)
(* Every line must be a step of Isolation (goroutine ids stand for the     *)
(* creator / instance goroutine); its invariants are evaluated after every *)
(* line.  A call whose tokens disagree, or carry a value already sent for  *)
(* another call, has no action.                                            *)
(***************************************************************************)
EXTENDS Isolation, Json, IOUtils

VARIABLE l

Trace == ndJsonDeserialize(IOEnv.VERIF_TRACE)
Ev == Trace[l]
Mark == TLCSet(1, IF TLCGet(1) > l + 1 THEN TLCGet(1) ELSE l + 1)

TraceInit == l = 1 /\ TLCSet(1, 1) /\ Init

Quiet == \A g \in Guns : nShoot[g] = 0
Stutter == UNCHANGED vars

TRun == /\ Ev.ev = "Run" /\ Quiet
        /\ pend' = {} /\ made' = {} /\ owners' = [g \in Guns |-> {}] /\ busy' = [i \in Insts |-> FALSE]
        /\ nShoot' = [g \in Guns |-> 0] /\ shooter' = [g \in Guns |-> {}] /\ cur' = [g \in Guns |-> "-"]
        /\ used' = {} /\ defs' = "T" /\ view' = [g \in Guns |-> "none"] /\ inCrit' = {} /\ sent' = {} /\ shots' = 0
TNewGun == Ev.ev = "NewGun" /\ Ev.gun \in Guns /\ NewGun(Ev.gid, Ev.gun)
TBind == Ev.ev = "Bind" /\ Ev.ok /\ Ev.gun \in Guns /\ Ev.inst \in Insts /\ Bind(Ev.gid, Ev.inst, Ev.gun)
TShootBegin == /\ Ev.ev = "ShootBegin" /\ Ev.gun \in Guns
               /\ Ev.tok \notin used
               /\ \E i \in owners[Ev.gun] : ShootBegin(i, Ev.gun, Ev.gid, Ev.tok)
Agree(ts) == Len(ts) > 0 /\ \A j \in 1..Len(ts) : ts[j] = ts[1] /\ ts[1] \notin {"", "-"}
\* the call carries the token of the ammo in Shoot on some gun ...
RecvCarried(t) == \E g \in Guns : cur[g] = t /\ Send(g, t, t, defs, view, FALSE)
\* ... or (scenario) a value drawn for this call and for no other: Draw(g,t) followed by Send(g,t,t)
RecvDrawn(t) == /\ \E g \in Guns : nShoot[g] > 0 /\ cur[g] = "" /\ g \notin inCrit
                /\ t \notin used
                /\ used' = used \cup {t}
                /\ UNCHANGED <<pend, made, owners, busy, nShoot, shooter, cur, defs, view, inCrit, sent, shots>>
TRecv == Ev.ev = "Recv" /\ Agree(Ev.toks) /\ (RecvCarried(Ev.toks[1]) \/ RecvDrawn(Ev.toks[1]))
TSample == Ev.ev = "Sample" /\ (\E g \in Guns : nShoot[g] > 0 /\ Ev.gid \in shooter[g]) /\ Stutter
TShootEnd == /\ Ev.ev = "ShootEnd" /\ Ev.gun \in Guns /\ Ev.gid \in shooter[Ev.gun]
             /\ \E i \in owners[Ev.gun] : ShootEnd(i, Ev.gun)
TEnd == Ev.ev \in {"PoolDone", "RunEnd"} /\ Quiet /\ Stutter

TraceNext == /\ l <= Len(Trace)
             /\ (TRun \/ TNewGun \/ TBind \/ TShootBegin \/ TRecv \/ TSample \/ TShootEnd \/ TEnd)
             /\ l' = l + 1
             /\ Mark

Accepted == PrintT(<<"VERIF-HWM", TLCGet(1)>>) /\ TLCGet(1) = Len(Trace) + 1
=============================================================================
