----------------------------- MODULE PoolRunMC -----------------------------
(* Model-checking instance of PoolRun: the fault-plan catalogue (one source of truth: the   *)
(* conformance driver receives exactly this set, printed by TLC - see PoolRunPlans.tla).    *)
EXTENDS PoolRun, Json

Base == [n |-> 2, t |-> 2, shared |-> TRUE, ammo |-> 3, provider |-> "ok", aggregator |-> "ok", warm |-> "none",
         gunFail |-> -1, bindFail |-> -1, schedFail |-> -1, panicInst |-> -1, panicShot |-> -1,
         closable |-> TRUE, ek |-> "plain", long |-> FALSE, slow |-> FALSE, block |-> "none"]

\* run shapes: how the run would end without a fault
Shapes == <<
  [shape |-> "sched-end"],                                          \* shared schedule of 2 tokens runs dry, ammo left over
  [shape |-> "out-of-ammo", shared |-> FALSE, t |-> 1, ammo |-> 1]  \* per-instance schedules, one ammo for two instances
>>
Small == [shape |-> "small", n |-> 1, t |-> 1, ammo |-> 2]

\* single faults (overrides of the pool plan); "none" first
Faults == <<
  [fault |-> "none"],
  [fault |-> "prov-before-first-ammo", provider |-> "fail", ammo |-> 0],
  [fault |-> "prov-mid-run", provider |-> "fail", ammo |-> 1],
  [fault |-> "prov-at-the-very-end", provider |-> "end"],
  [fault |-> "agg-at-once", aggregator |-> "now"],
  [fault |-> "agg-drop-on-cancel", aggregator |-> "drop"],
  [fault |-> "warmup-ok", warm |-> "ok"],
  [fault |-> "warmup-fails", warm |-> "fail"],
  [fault |-> "newgun-warmup", gunFail |-> 0],
  [fault |-> "newgun-first", gunFail |-> 1],
  [fault |-> "newgun-later", gunFail |-> 2],
  [fault |-> "bind-first", bindFail |-> 0],
  [fault |-> "bind-later", bindFail |-> 1],
  [fault |-> "sched-first", shared |-> FALSE, schedFail |-> 0],
  [fault |-> "sched-later", shared |-> FALSE, schedFail |-> 1],
  [fault |-> "sched-shared", shared |-> TRUE, schedFail |-> 0],
  [fault |-> "panic-first", panicInst |-> 0, panicShot |-> 1],
  [fault |-> "panic-later", panicInst |-> 1, panicShot |-> 1],
  [fault |-> "not-closable", closable |-> FALSE]
>>

NF == Len(Faults)
NS == Len(Shapes)
PoolPlan(f, s) == Faults[f] @@ Shapes[s] @@ Base @@ [fault |-> "none", shape |-> ""]

\* one pool: every fault x every shape x cancel or not
Plans1 == { [id |-> ((f - 1) * NS + (s - 1)) * 2 + c + 1, pools |-> <<PoolPlan(f, s)>>, cancel |-> (c = 1)] :
            f \in 1..NF, s \in 1..NS, c \in 0..1 }

\* two pools (small shapes): the fault in the first or in the second pool, the other one clean
SmallPlan(f) == Faults[f] @@ Small @@ Base @@ [fault |-> "none", shape |-> ""]
Plans2 == { [id |-> 1000 + ((f - 1) * 2 + (w - 1)) * 2 + c + 1,
             pools |-> IF w = 1 THEN <<SmallPlan(f), SmallPlan(1)>> ELSE <<SmallPlan(1), SmallPlan(f)>>,
             cancel |-> (c = 1)] : f \in 1..NF, w \in 1..2, c \in 0..1 }
\* both pools fail
Plans2b == { [id |-> 2000 + f, pools |-> <<SmallPlan(f), SmallPlan(6)>>, cancel |-> FALSE] : f \in 2..NF }

Plans1NC == {pl \in Plans1 : ~pl.cancel}
Plans1C == {pl \in Plans1 : pl.cancel}
\* quick tier: every fault without user cancel on the schedule-end shape, the clean run on the other shape
QuickFaults == {"none", "prov-at-the-very-end", "agg-at-once", "agg-drop-on-cancel", "newgun-later", "bind-first",
                "sched-shared", "panic-later"}
QuickPlans1 == {pl \in Plans1NC : pl.pools[1].shape = "sched-end" /\ pl.pools[1].fault \in QuickFaults}
\* thorough tier: every plan without cancel + user cancel at any step for these faults
CancelFaults == {"none", "prov-at-the-very-end", "agg-drop-on-cancel", "sched-shared"}
ThoroughPlans1 == Plans1NC \cup {pl \in Plans1C : pl.pools[1].fault \in CancelFaults /\ pl.pools[1].shape = "out-of-ammo"}
\* liveness is checked on a representative subset (TLC's liveness checking is sequential)
LiveFaults == {"none", "prov-at-the-very-end", "agg-drop-on-cancel", "sched-shared", "newgun-later", "bind-first",
               "warmup-fails", "panic-later", "prov-before-first-ammo"}
LivePlans == {pl \in Plans1 : ~pl.cancel /\ pl.pools[1].fault \in LiveFaults}
\* quick tier
LivePlansQ == {pl \in Plans1 : ~pl.cancel /\ pl.pools[1].shape = "sched-end"
                               /\ pl.pools[1].fault \in {"agg-drop-on-cancel", "sched-shared"}}
\* one small pool with a user cancel at any step (liveness with cancel; promptness of a cancelled Run)
PlansSC == { [id |-> 3000 + f, pools |-> <<SmallPlan(f)>>, cancel |-> TRUE] : f \in {1, 3, 5, 6, 10} }
LivePlansC == {pl \in Plans1 : pl.pools[1].fault \in {"none", "agg-drop-on-cancel", "prov-mid-run"} /\ pl.pools[1].shape = "sched-end"}
Plans2NC == {pl \in Plans2 : ~pl.cancel}
\* two pools, exhaustive (each two-pool plan has some 10^5..10^6 states): the late aggregator error in the first pool,
\* the shared-schedule failure in the second, and both at once
Plans2Q == {pl \in Plans2NC : pl.pools[1].fault = "agg-drop-on-cancel" \/ pl.pools[2].fault = "sched-shared"}
           \cup {pl \in Plans2b : pl.pools[1].fault = "sched-shared"}
(* ---- error values ------------------------------------------------------------------------ *)
\* Which VALUE the failing component returns (see "error values" in PoolRun.tla).  Every catalogue plan
\* above uses "plain"; the plans below repeat every error-carrying fault with the other kinds.
ErrKindsAll == {"plain", "wrapped", "deadline", "canceled", "runctx"}
KindSeq == <<"wrapped", "deadline", "canceled", "runctx">>
ErrFaults == {f \in 1..NF : Faults[f].fault \notin {"none", "warmup-ok", "not-closable"}}
LateFaults == {f \in 1..NF : Faults[f].fault \in {"prov-at-the-very-end", "agg-drop-on-cancel"}}
\* "runctx" = the component returns the RUN context's own error late: only a component that ends on cancel can.
\* A user cancel is combined only with kinds whose classification does not depend on WHEN the run ctx is done
\* (the await hook is logged before IsCtxError is evaluated; a cancel in between would be a recorder artefact).
KindOk(f, k, c) == /\ (KindSeq[k] = "runctx" => f \in LateFaults)
                   /\ (c = 1 => KindSeq[k] \in {"wrapped", "deadline"} /\ f \in LateFaults)
PlansE == { [id |-> 4000 + ((f - 1) * 4 + (k - 1)) * 2 + c + 1,
             pools |-> <<[ek |-> KindSeq[k]] @@ PoolPlan(f, 1)>>, cancel |-> (c = 1)] :
            f \in ErrFaults, k \in 1..4, c \in 0..1 } 
PlansEK == {pl \in PlansE : LET f == CHOOSE g \in 1..NF : Faults[g].fault = pl.pools[1].fault
                                 k == CHOOSE j \in 1..4 : KindSeq[j] = pl.pools[1].ek
                             IN KindOk(f, k, IF pl.cancel THEN 1 ELSE 0)}
\* exhaustive in the quick tier ("wrapped" has the state graph of "plain"): the late faults with every kind,
\* a fault of every other component position with an own-context value
QuickE == {pl \in PlansEK : ~pl.cancel /\ pl.pools[1].ek = "deadline" /\ pl.pools[1].fault \in {"prov-at-the-very-end", "agg-drop-on-cancel"}}
ThoroughE == {pl \in PlansEK : pl.pools[1].ek # "wrapped" /\ ~pl.cancel}
LateDeadlinePlans == {pl \in PlansEK : ~pl.cancel /\ pl.pools[1].ek = "deadline" /\ pl.pools[1].fault \in {"prov-at-the-very-end", "agg-drop-on-cancel"}}
(* ---- a pool that does not finish by itself ------------------------------------------------- *)
\* LongPool: one instance, schedule and ammo that do not run out within the run (driver: unlimited schedule of an
\* hour, 2^30 ammo): it stops only when its context is done.  SlowPool: an ordinary finite pool whose shots take
\* milliseconds (field slow is timing only, the driver reads it), so that the other pool finishes first.
LongPool == [shape |-> "long", long |-> TRUE, n |-> 1] @@ Base @@ [fault |-> "none"]
SlowPool == [shape |-> "slow", slow |-> TRUE, n |-> 1, t |-> 2, shared |-> TRUE] @@ Base @@ [fault |-> "none"]
LongFaults == <<3, 5, 10, 16, 17, 9>>   \* prov-mid-run, agg-at-once, newgun-first, sched-shared, panic-first, newgun-warmup
\* one pool fails while the other is in the middle of a run that would go on for an hour; the caller never cancels:
\* Run returns the error and its deferred cancel must stop the healthy pool, Wait returns
PlansL == { [id |-> 5000 + (k - 1) * 2 + w, pools |-> IF w = 1 THEN <<SmallPlan(LongFaults[k]), LongPool>>
                                                              ELSE <<LongPool, SmallPlan(LongFaults[k])>>, cancel |-> FALSE] :
            k \in 1..Len(LongFaults), w \in 1..2 }
\* the caller cancels in the middle of two long pools / of a long and a short one: both stop
PlansLC == { [id |-> 5021, pools |-> <<LongPool, LongPool>>, cancel |-> TRUE],
             [id |-> 5022, pools |-> <<LongPool, SmallPlan(1)>>, cancel |-> TRUE] }
\* control: one pool finishes normally while the other still shoots: the other must NOT be stopped (it draws its
\* whole schedule and Run returns nil)
PlansLN == { [id |-> 5031, pools |-> <<SmallPlan(1), SlowPool>>, cancel |-> FALSE],
             [id |-> 5032, pools |-> <<SlowPool, SmallPlan(1)>>, cancel |-> FALSE] }
PlansLong == PlansL \cup PlansLC \cup PlansLN
\* exhaustive at the design level only where the failing pool fails synchronously (nothing of it is started): the
\* product of a full two-pool plan with a pool that never ends by itself has > 10^7 states
LongQuick == {pl \in PlansLong : pl.id = 5011}                    \* newgun-warmup / long
LongThorough == {pl \in PlansLong : pl.id \in {5007, 5008, 5011, 5012}}   \* + sched-shared, either order
LongNeg == LongQuick
(* ---- a component call that does not return before Engine.Run has returned (added after seeded C05-7) ---------- *)
\* One context-unaware, slow call per pool (plan field block, see PoolRun.tla): the driver's mock blocks in it until
\* Run has returned.  Such a run ends only through the caller's cancel (the driver cancels when the mock has entered
\* the call), and the cancelled Run must return without waiting for it.
BlockDefs == <<
  [block |-> "newgun-warmup", fault |-> "block-newgun-warmup"],
  [block |-> "warmup", fault |-> "block-warmup", warm |-> "ok"],
  [block |-> "sched-shared", fault |-> "block-sched-shared"],
  [block |-> "newgun-first", fault |-> "block-newgun-first"],
  [block |-> "bind-first", fault |-> "block-bind-first"],
  [block |-> "shoot", fault |-> "block-shoot"]
>>
BlockPlan(k) == BlockDefs[k] @@ [shape |-> "blocked"] @@ Small @@ Base
PlansB1 == { [id |-> 8000 + k, pools |-> <<BlockPlan(k)>>, cancel |-> TRUE] : k \in 1..Len(BlockDefs) }
\* two pools: the other one would run for an hour (it must be stopped as well) / is an ordinary short one
PlansB2 == { [id |-> 8010 + k, pools |-> <<BlockPlan(k), LongPool>>, cancel |-> TRUE] : k \in 1..3 }
           \cup { [id |-> 8020 + k, pools |-> <<SmallPlan(1), BlockPlan(k)>>, cancel |-> TRUE] : k \in 1..Len(BlockDefs) }
PlansB == PlansB1 \cup PlansB2
BlockSync == {pl \in PlansB1 : pl.id \in {8001, 8002, 8003}}
BlockQuick == {pl \in PlansB1 : pl.id = 8002}
BlockLive == {pl \in PlansB1 : pl.id \in {8001, 8003, 8004}}
BlockThorough == PlansB1 \cup {pl \in PlansB2 : pl.id \in {8011, 8013, 8021, 8022, 8023, 8024, 8026}}
PromptPlans == PlansSC \cup PlansB1 \cup {pl \in PlansB2 : pl.id \in {8021, 8022, 8023}}
PromptPlansQ == {pl \in PlansSC : pl.id = 3001}
AllPlans == PlansSC \cup PlansEK \cup Plans1 \cup Plans2 \cup Plans2b \cup PlansLong \cup PlansB
OnePlan == {pl \in Plans1 : pl.id = 1}
\* negative controls need only the plans that trigger the defect
SchedSharedPlans == {pl \in Plans1 : pl.pools[1].fault = "sched-shared"}
LatePlans == {pl \in Plans1 : pl.pools[1].fault \in {"agg-drop-on-cancel", "prov-at-the-very-end"} /\ ~pl.cancel}
PanicPlans == {pl \in Plans1 : pl.pools[1].fault \in {"panic-first", "panic-later"} /\ ~pl.cancel}
NonePlans == {pl \in Plans1 : pl.pools[1].fault = "none"}
(* ---- three instances with a startup schedule (growth; thorough tier, MaxN = 3) ------------------------ *)
\* startup schedule of 3 tokens, shared RPS schedule of 3 tokens, 4 ammo: the first instance synchronously, two more
\* asynchronously (gun factory calls 2 and 3 race), all three compete for the schedule
Three == [shape |-> "three-instances", n |-> 3, t |-> 3, ammo |-> 4]
ThreeFaults == {"none", "agg-drop-on-cancel", "newgun-later", "panic-later"}
Plans3 == { [id |-> 7000 + f, pools |-> <<Faults[f] @@ Three @@ Base @@ [fault |-> "none", shape |-> ""]>>, cancel |-> FALSE] :
            f \in {g \in 1..NF : Faults[g].fault \in ThreeFaults} }
Plans3Neg == {pl \in Plans3 : pl.pools[1].fault = "agg-drop-on-cancel"}
QuickPlans == QuickPlans1 \cup QuickE
ThoroughPlans == ThoroughPlans1 \cup ThoroughE
=============================================================================
