-------------------------- MODULE TraceAmmoFormats --------------------------
(***************************************************************************)
(* C07 / C14 trace specification.  One NDJSON line per case that the       *)
(* driver (`vdrive ammofmt`) rendered to bytes, fed to the REAL provider   *)
(* (registered plugin constructor, afero mem fs, Run, Acquire, Release)    *)
(* and observed: the abstract file (fmt, items, lay), the provider options *)
(* (conf) and the observation obs = [deliv, ended, outcome], deliv being   *)
(* the projection of every *http.Request handed out.  Each line must be    *)
(* what AmmoFormats says the provider delivers: the reader state machine   *)
(* is stepped over the file (RunReader) and every delivery compared.       *)
(* Chunked walk so that TLC's workers check lines in parallel.             *)
(***************************************************************************)
EXTENDS AmmoFormats, Json, IOUtils

VARIABLE l

Trace == ndJsonDeserialize(IOEnv.VERIF_TRACE)
Chunk == 16

Init == l = 0
Next == \/ l = 0 /\ l' \in {j \in 1..Len(Trace) : j % Chunk = 1}
        \/ l > 0 /\ l % Chunk # 0 /\ l < Len(Trace) /\ l' = l + 1

R == Trace[IF l = 0 THEN 1 ELSE l]

\* observed delivery -> the record shape of Eff (header list -> set of pairs)
Obs(d) == [method |-> d.method, uri |-> d.uri, host |-> d.host, headers |-> Range(d.headers),
           body |-> d.body, tag |-> d.tag]
ObsSeq == [i \in DOMAIN R.obs.deliv |-> Obs(R.obs.deliv[i])]

X == ExpectedSel(R.fmt, R.items, R.conf.limit, R.conf.passes, Range(R.conf.chosen), R.conf.take)

\* number of leading deliveries that agree (reported by the check to locate a divergence)
RECURSIVE Agree(_, _, _)
Agree(a, b, i) == IF i > Len(a) \/ i > Len(b) \/ a[i] # b[i] THEN i - 1 ELSE Agree(a, b, i + 1)

\* the driver could build and run the provider (a file without any ammo may also be refused by the constructor:
\* the same outcome class as Run ending with ErrNoAmmo)
Built     == l = 0 \/ R.obs.built \/ NumEntries(R.items) = 0
\* exactly the expected requests, in order: method, uri, host, effective headers, body bytes, tag
Delivered == l = 0 \/ ~R.obs.built \/ ObsSeq = X.deliv
\* the consumer saw the end of ammo (ok=false) exactly when the configuration bounds the provider
Ended     == l = 0 \/ ~R.obs.built \/ R.obs.ended = X.ended
\* Run ended the way the configuration says: nil | error | cancel  (never "hang")
Outcome   == l = 0 \/ ~R.obs.built \/ R.obs.outcome = X.outcome
=============================================================================
