---------------------------- MODULE EnginePlans ----------------------------
(* EngineMC + the ASSUME that prints the engine plan catalogue for `vdrive poolrun` (one JSON object per plan). *)
EXTENDS EngineMC
ASSUME \A pl \in AllPlans : PrintT(<<"VERIF", ToJson(pl)>>)
=============================================================================
