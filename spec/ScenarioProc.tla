---------------------------- MODULE ScenarioProc ----------------------------
(***************************************************************************)
(* C15 - the PROCESSORS of a scenario step as functions over a small       *)
(* response alphabet: what a step captures from a response and whether it  *)
(* fails.                                                                  *)
(*                                                                         *)
(*   postprocessor/var_header.go    Header|lower|upper|substr(a[,b])|replace(s,r)  (chains)      *)
(*   postprocessor/var_jsonpath.go  $.key.key[i] on the decoded body                            *)
(*   postprocessor/var_xpath.go     //div[@id='..'] on the parsed body                          *)
(*   postprocessor/assert_response.go  headers / body / status_code / size predicates           *)
(*   guns/http_scenario/gun.go      shootStep: processors in configured order, the first error  *)
(*                                  fails the step; the variables become                        *)
(*                                  request.<name>.postprocessor.<var>                          *)
(*   templater/func.go              randInt / randString / uuid (only shape and range)          *)
(*                                                                         *)
(* Strings are sequences of one-character strings, so that TLC itself      *)
(* computes lower / upper / substr / replace / containment and the text a  *)
(* captured value is rendered to by the next step's template.              *)
(* A CASE = (response letter, chain of processors of step a); step b       *)
(* renders every variable into a header of its own.  Expected(case) is the *)
(* observable: the samples of a and b and what b's headers carry.          *)
(***************************************************************************)
EXTENDS Integers, Sequences, FiniteSets, TLC

CONSTANTS
    SizeReadsBody,      \* TRUE: the size predicate of assert/response looks at the body that was received.
                        \* FALSE (negative control): ... only when body patterns are configured as well, else at 0 bytes
    StrictSizeOps       \* TRUE: lt / gt are strict (a body of exactly val bytes is neither < val nor > val)

-----------------------------------------------------------------------------
(* characters *)
UpperCs == <<"A", "B", "C", "D", "E", "F", "X", "Y", "T">>
LowerCs == <<"a", "b", "c", "d", "e", "f", "x", "y", "t">>
PosIn(seq, c) == IF \E i \in 1..Len(seq) : seq[i] = c THEN CHOOSE i \in 1..Len(seq) : seq[i] = c ELSE 0
ToLowerC(c) == IF PosIn(UpperCs, c) > 0 THEN LowerCs[PosIn(UpperCs, c)] ELSE c
ToUpperC(c) == IF PosIn(LowerCs, c) > 0 THEN UpperCs[PosIn(LowerCs, c)] ELSE c
LowerS(s) == [i \in 1..Len(s) |-> ToLowerC(s[i])]
UpperS(s) == [i \in 1..Len(s) |-> ToUpperC(s[i])]

Contains(s, pat) == \E o \in 0..(Len(s) - Len(pat)) : SubSeq(s, o + 1, o + Len(pat)) = pat

\* strings.ReplaceAll(in, old, new) for a non-empty old
RECURSIVE ReplaceAll(_, _, _)
ReplaceAll(in, old, new) ==
    IF Len(in) < Len(old) THEN in
    ELSE IF SubSeq(in, 1, Len(old)) = old THEN new \o ReplaceAll(SubSeq(in, Len(old) + 1, Len(in)), old, new)
    ELSE <<in[1]>> \o ReplaceAll(Tail(in), old, new)

\* substr(a[,b]) - the part pinned by the documentation and the repository's tests (see Responses.tla): a negative
\* start counts from the end, an end <= 0 (and the one-argument form) counts from the end, an end beyond the value is
\* the end of the value, start > end are swapped.  Only used where the resolved start lies inside the value.
ResolveFrom(n, a) == IF a < 0 THEN n + a ELSE a
ResolveTo(n, b, hasb) == IF ~hasb \/ b <= 0 THEN n + (IF hasb THEN b ELSE 0) ELSE b
SubstrPinned(n, a, b, hasb) == ResolveFrom(n, a) \in 0..n /\ ResolveTo(n, b, hasb) >= 0
SubstrS(s, a, b, hasb) ==
    LET n  == Len(s)
        f  == ResolveFrom(n, a)
        t0 == ResolveTo(n, b, hasb)
        t  == IF t0 > n THEN n ELSE t0
        lo == IF f > t THEN t ELSE f
        hi == IF f > t THEN f ELSE t
    IN SubSeq(s, lo + 1, hi)

\* modifiers of var/header
Mod(m, a, b, hasb, s, r) == [m |-> m, a |-> a, b |-> b, hasb |-> hasb, s |-> s, r |-> r]
MLower == Mod("lower", 0, 0, FALSE, <<>>, <<>>)
MUpper == Mod("upper", 0, 0, FALSE, <<>>, <<>>)
MSub1(a) == Mod("substr", a, 0, FALSE, <<>>, <<>>)
MSub2(a, b) == Mod("substr", a, b, TRUE, <<>>, <<>>)
MRepl(s, r) == Mod("replace", 0, 0, FALSE, s, r)
ApplyMod(md, s) == CASE md.m = "lower" -> LowerS(s)
                     [] md.m = "upper" -> UpperS(s)
                     [] md.m = "substr" -> SubstrS(s, md.a, md.b, md.hasb)
                     [] md.m = "replace" -> ReplaceAll(s, md.s, md.r)
RECURSIVE ApplyMods(_, _)
ApplyMods(mods, s) == IF mods = <<>> THEN s ELSE ApplyMods(Tail(mods), ApplyMod(Head(mods), s))
\* every substr of the chain is applied inside its pinned range
RECURSIVE ModsPinned(_, _)
ModsPinned(mods, s) == IF mods = <<>> THEN TRUE
                       ELSE /\ (Head(mods).m = "substr" => SubstrPinned(Len(s), Head(mods).a, Head(mods).b, Head(mods).hasb))
                            /\ (Head(mods).m = "replace" => Head(mods).s # <<>>)
                            /\ ModsPinned(Tail(mods), ApplyMod(Head(mods), s))

-----------------------------------------------------------------------------
(* numbers as text *)
Digits == <<"0", "1", "2", "3", "4", "5", "6", "7", "8", "9">>
RECURSIVE NatChars(_)
NatChars(n) == IF n < 10 THEN <<Digits[n + 1]>> ELSE NatChars(n \div 10) \o <<Digits[(n % 10) + 1]>>
IntChars(n) == IF n < 0 THEN <<"-">> \o NatChars(0 - n) ELSE NatChars(n)
IsDigit(c) == PosIn(Digits, c) > 0
RECURSIVE NatOf(_)
NatOf(cs) == IF cs = <<>> THEN 0 ELSE NatOf(SubSeq(cs, 1, Len(cs) - 1)) * 10 + (PosIn(Digits, cs[Len(cs)]) - 1)
\* (TLC's integers are 32 bit: texts of up to 10 digits that start with 0 or 1 when they have 10)
IsNatText(cs) == /\ Len(cs) \in 1..10 /\ \A i \in 1..Len(cs) : IsDigit(cs[i])
                 /\ Len(cs) = 10 => cs[1] \in {"0", "1"}
IsIntText(cs) == IF Len(cs) > 1 /\ cs[1] = "-" THEN IsNatText(Tail(cs)) ELSE IsNatText(cs)
IntOf(cs) == IF cs[1] = "-" THEN 0 - NatOf(Tail(cs)) ELSE NatOf(cs)

-----------------------------------------------------------------------------
(* JSON documents (abstract) and jsonpath *)
JNode(k, s, n, items, keys) == [k |-> k, s |-> s, n |-> n, items |-> items, keys |-> keys]
JStr(s)   == JNode("str", s, 0, <<>>, <<>>)
JInt(n)   == JNode("int", <<>>, n, <<>>, <<>>)
JFlt(s)   == JNode("flt", s, 0, <<>>, <<>>)        \* a number that is not integral, given by its text
JBool(b)  == JNode("bool", IF b THEN <<"t", "r", "u", "e">> ELSE <<"f", "a", "l", "s", "e">>, 0, <<>>, <<>>)
JNull     == JNode("null", <<>>, 0, <<>>, <<>>)
JList(xs) == JNode("list", <<>>, 0, xs, <<>>)
JMap(ks, vs) == JNode("map", <<>>, 0, vs, ks)        \* keys in sorted order

PKey(k) == [key |-> k, idx |-> -1]
PIdx(i) == [key |-> <<>>, idx |-> i]
\* <<found, node>>: a key that is not there, an index beyond the list, a key of something that is no object: not found
RECURSIVE JGet(_, _)
JGet(node, path) ==
    IF path = <<>> THEN <<TRUE, node>>
    ELSE LET st == Head(path) IN
         IF st.idx < 0
         THEN IF node.k = "map" /\ PosIn(node.keys, st.key) > 0
              THEN JGet(node.items[PosIn(node.keys, st.key)], Tail(path)) ELSE <<FALSE, JNull>>
         ELSE IF node.k = "list" /\ st.idx < Len(node.items)
              THEN JGet(node.items[st.idx + 1], Tail(path)) ELSE <<FALSE, JNull>>

NoValueCs == <<"<", "n", "o", " ", "v", "a", "l", "u", "e", ">">>
\* the text a later step's {{.request.a.postprocessor.v}} renders a captured value to (text/template prints with %v;
\* integral numbers are stored as integers by the gun, whatever their size)
RECURSIVE JText(_)
RECURSIVE JoinText(_, _)
JoinText(xs, i) == IF i > Len(xs) THEN <<>> ELSE (IF i > 1 THEN <<" ">> ELSE <<>>) \o JText(xs[i]) \o JoinText(xs, i + 1)
RECURSIVE JoinKV(_, _, _)
JoinKV(ks, xs, i) == IF i > Len(xs) THEN <<>>
                     ELSE (IF i > 1 THEN <<" ">> ELSE <<>>) \o ks[i] \o <<":">> \o JText(xs[i]) \o JoinKV(ks, xs, i + 1)
JText(node) == CASE node.k \in {"str", "flt", "bool"} -> node.s
                 [] node.k = "int"  -> IntChars(node.n)
                 [] node.k = "null" -> NoValueCs
                 [] node.k = "list" -> <<"[">> \o JoinText(node.items, 1) \o <<"]">>
                 [] node.k = "map"  -> <<"m", "a", "p", "[">> \o JoinKV(node.keys, node.items, 1) \o <<"]">>

-----------------------------------------------------------------------------
(* HTML documents (abstract): the div elements of the body in document order; xpath queries *)
Div(id, cls, txt) == [id |-> id, cls |-> cls, txt |-> txt]
XQ(by, v) == [by |-> by, v |-> v]        \* by: "id" //div[@id='v'] | "class" //div[@class='v'] | "p" an element that does not occur | "count" count(//div)
XMatches(divs, q) == CASE q.by = "id"    -> SelectSeq(divs, LAMBDA d : d.id = q.v)
                       [] q.by = "class" -> SelectSeq(divs, LAMBDA d : d.cls = q.v)
                       [] OTHER          -> <<>>
\* one match: its text; otherwise the list of texts as %v prints a []string
XText(ms) == IF Len(ms) = 1 THEN ms[1].txt
             ELSE <<"[">> \o JoinText([i \in 1..Len(ms) |-> JStr(ms[i].txt)], 1) \o <<"]">>

-----------------------------------------------------------------------------
(* the response alphabet *)
\* body letters: kind, the abstract document, the atomic tokens that occur in the text (body patterns are drawn from
\* tokens only, so "occurs in the body" is decided by membership)
cTok == <<"t", "o", "k">>
cJ7  == <<"j", "7">>
cNum == <<"n", "u", "m">>
cFlt == <<"f", "l", "t">>
cOk  == <<"o", "k">>
cNil == <<"n", "i", "l">>
cObj == <<"o", "b", "j">>
cIn  == <<"i", "n">>
cK3  == <<"k", "3">>
cList == <<"l", "i", "s", "t">>
cM1  == <<"m", "1">>
cM2  == <<"m", "2">>
cBig == <<"b", "i", "g">>
cNeg == <<"n", "e", "g">>
cZz  == <<"z", "z", "9">>          \* occurs nowhere
cX5  == <<"x", "5">>
cY1  == <<"y", "1">>
cY2  == <<"y", "2">>
cC   == <<"c", "c">>
c15  == <<"1", ".", "5">>

ObjDoc == JMap(<<cBig, cFlt, cList, cNeg, cNil, cNum, cObj, cOk, cTok>>,
               <<JInt(2000000000), JFlt(c15), JList(<<JStr(cM1), JStr(cM2), JInt(1234567)>>), JInt(-3), JNull, JInt(1234567),
                 JMap(<<cIn>>, <<JStr(cK3)>>), JBool(TRUE), JStr(cJ7)>>)
ArrDoc == JList(<<JStr(cM1), JMap(<<cTok>>, <<JStr(cJ7)>>)>>)
HtmlDivs == <<Div(cTok, <<>>, cX5), Div(<<>>, cC, cY1), Div(<<>>, cC, cY2)>>

Bodies == {"obj", "arr", "notjson", "html", "empty"}
BodyIsJson(b) == b \in {"obj", "arr"}
BodyDoc(b)    == IF b = "obj" THEN ObjDoc ELSE ArrDoc
BodyDivs(b)   == IF b = "html" THEN HtmlDivs ELSE <<>>          \* html.Parse is total: any other text has no div
BodyTokens(b) == CASE b = "obj"     -> {cTok, cJ7, cNum, cFlt, cOk, cNil, cObj, cIn, cK3, cList, cM1, cM2, cBig, cNeg}
                   [] b = "arr"     -> {cTok, cJ7, cM1}
                   [] b = "notjson" -> {cTok, cJ7}
                   [] b = "html"    -> {cTok, cX5, cY1, cY2, cC}
                   [] b = "empty"   -> {}

\* header letters: the value of X-Tok
HLong  == <<"A", "b", "C", "-", "d", "E", "f", "1", "2">>
HShort == <<"x", "Y">>
Hdrs == {"long", "short", "absent"}
HdrVal(h) == CASE h = "long" -> HLong [] h = "short" -> HShort [] h = "absent" -> <<>>

Resp(status, hdr, body) == [status |-> status, hdr |-> hdr, body |-> body]
Responses == {Resp(s, h, b) : s \in {200, 404}, h \in Hdrs, b \in Bodies}

-----------------------------------------------------------------------------
(* processors *)
Vars == {"v1", "v2", "v3"}
NoAssert == [hpat |-> <<>>, hon |-> FALSE, body |-> <<>>, status |-> 0, son |-> FALSE, delta |-> 0, op |-> ""]
Proc(kind, var, hname, mods, path, q, as) ==
    [kind |-> kind, var |-> var, hname |-> hname, mods |-> mods, path |-> path, q |-> q, as |-> as]
PHeader(var, hname, mods) == Proc("header", var, hname, mods, <<>>, XQ("", <<>>), NoAssert)
PJson(var, path)          == Proc("jsonpath", var, "", <<>>, path, XQ("", <<>>), NoAssert)
PXpath(var, q)            == Proc("xpath", var, "", <<>>, <<>>, q, NoAssert)
\* assert/response: hon/hpat - X-Tok must contain hpat; body - tokens that must occur; status (0: not checked);
\* son/delta/op - size predicate with val = (length of the received body) + delta
PAssert(hon, hpat, body, status, son, delta, op) ==
    Proc("assert", "", "", <<>>, <<>>, XQ("", <<>>),
         [hpat |-> hpat, hon |-> hon, body |-> body, status |-> status, son |-> son, delta |-> delta, op |-> op])

Unset == [set |-> FALSE, cs |-> <<>>]
SetTo(cs) == [set |-> TRUE, cs |-> cs]

\* size predicate: the body has `len` bytes, val = len + delta
SizeHolds(op, delta) == CASE op \in {"eq", "="} -> delta = 0
                          [] op \in {"lt", "<"} -> IF StrictSizeOps THEN delta > 0 ELSE delta >= 0
                          [] op \in {"gt", ">"} -> IF StrictSizeOps THEN delta < 0 ELSE delta <= 0
\* the negative control: without body patterns the predicate sees 0 bytes, i.e. val - 0 = len + delta
SizeHoldsBlind(op, delta, len) == SizeHolds(op, len + delta)

AssertHolds(as, r, len) ==
    /\ \A i \in 1..Len(as.body) : as.body[i] \in BodyTokens(r.body)
    /\ as.hon => Contains(HdrVal(r.hdr), as.hpat)
    /\ as.status # 0 => as.status = r.status
    /\ as.son => IF SizeReadsBody \/ as.body # <<>> THEN SizeHolds(as.op, as.delta)
                 ELSE SizeHoldsBlind(as.op, as.delta, len)

\* one processor on response r: <<ok, variable set?, value>>
RunProc(p, r, len) ==
    CASE p.kind = "header" ->
            \* a header that is absent (or empty) leaves the variable unset; otherwise the modifiers in order
            IF HdrVal(r.hdr) = <<>> THEN <<TRUE, FALSE, <<>>>> ELSE <<TRUE, TRUE, ApplyMods(p.mods, HdrVal(r.hdr))>>
      [] p.kind = "jsonpath" ->
            \* the body must be JSON and the path must exist, else the step fails
            IF ~BodyIsJson(r.body) THEN <<FALSE, FALSE, <<>>>>
            ELSE LET g == JGet(BodyDoc(r.body), p.path) IN
                 IF g[1] THEN <<TRUE, TRUE, JText(g[2])>> ELSE <<FALSE, FALSE, <<>>>>
      [] p.kind = "xpath" ->
            \* an expression that does not select nodes fails the step; no match is an empty list, not a failure
            IF p.q.by = "count" THEN <<FALSE, FALSE, <<>>>> ELSE <<TRUE, TRUE, XText(XMatches(BodyDivs(r.body), p.q))>>
      [] p.kind = "assert" -> <<AssertHolds(p.as, r, len), FALSE, <<>>>>

\* the chain in configured order: the first failure fails the step
RECURSIVE RunChain(_, _, _, _)
RunChain(chain, r, len, vars) ==
    IF chain = <<>> THEN [fail |-> FALSE, vars |-> vars]
    ELSE LET o == RunProc(Head(chain), r, len) IN
         IF ~o[1] THEN [fail |-> TRUE, vars |-> [v \in Vars |-> Unset]]
         ELSE RunChain(Tail(chain), r, len, IF o[2] THEN [vars EXCEPT ![Head(chain).var] = SetTo(o[3])] ELSE vars)

\* the observable of a case: step a's sample keeps the received status; when a failed there is no b; otherwise b is sent
\* and its header X-<var> carries, for every variable, the captured text - or "<no value>" for a variable that is not set
Expected(c, len) ==
    LET o == RunChain(c.chain, c.resp, len, [v \in Vars |-> Unset]) IN
    [fail |-> o.fail, status |-> c.resp.status,
     vals |-> [v \in Vars |-> IF o.fail THEN <<>> ELSE IF o.vars[v].set THEN o.vars[v].cs ELSE NoValueCs]]

-----------------------------------------------------------------------------
(* variable functions: only shape and range are promised *)
Fn(f, nargs, a, b, letters) == [f |-> f, nargs |-> nargs, a |-> a, b |-> b, letters |-> letters]
DefaultLetters == {"a","b","c","d","e","f","g","h","i","j","k","l","m","n","o","p","q","r","s","t","u","v","w","x","y","z",
                   "A","B","C","D","E","F","G","H","I","J","K","L","M","N","O","P","Q","R","S","T","U","V","W","X","Y","Z",
                   "0","1","2","3","4","5","6","7","8","9","_","-"}
HexCs == {"0","1","2","3","4","5","6","7","8","9","a","b","c","d","e","f"}
FnShapeOK(fn, cs) ==
    CASE fn.f = "randInt" ->
            /\ IsIntText(cs)
            /\ LET x == IntOf(cs)
                   lo == IF fn.nargs = 2 THEN (IF fn.a <= fn.b THEN fn.a ELSE fn.b) ELSE 0
                   hi == CASE fn.nargs = 0 -> 9 [] fn.nargs = 1 -> fn.a [] OTHER -> (IF fn.a <= fn.b THEN fn.b ELSE fn.a)
               IN x >= lo /\ x <= hi
      [] fn.f = "randString" ->
            /\ Len(cs) = (IF fn.nargs = 0 THEN 1 ELSE fn.a)
            /\ \A i \in 1..Len(cs) : cs[i] \in (IF fn.nargs = 2 THEN {fn.letters[j] : j \in 1..Len(fn.letters)} ELSE DefaultLetters)
      [] fn.f = "uuid" ->
            /\ Len(cs) = 36
            /\ \A i \in 1..Len(cs) : IF i \in {9, 14, 19, 24} THEN cs[i] = "-" ELSE cs[i] \in HexCs
            /\ cs[15] = "4"
=============================================================================
