--------------------------- MODULE TraceResponses ---------------------------
(***************************************************************************)
(* C19 trace specification.  One NDJSON line per real engine run (2        *)
(* instances, 30 ammo) of a gun kind against a scripted misbehaving        *)
(* target: the letters the ammo asked for (in ring order), Engine.Run's    *)
(* result, the engine's request counter, every sample with the letter that *)
(* caused it.  Each run must be a terminal state of Responses.tla's pool:  *)
(* no pool failure (except the documented fatal http2-vs-non-h2 case),     *)
(* every ammo fired, and for every letter exactly the samples Outcome      *)
(* demands.                                                                *)
(***************************************************************************)
EXTENDS Responses, Json, IOUtils

VARIABLE l

Trace == ndJsonDeserialize(IOEnv.VERIF_TRACE)
Chunk == 4

TInit == /\ l = 0 /\ run = <<>> /\ taken = 0 /\ pc = <<>> /\ cur = <<>> /\ nsamples = 0 /\ due = 0 /\ poolErr = "none"
TNext == /\ UNCHANGED vars
         /\ \/ l = 0 /\ l' \in {j \in 1..Len(Trace) : j % Chunk = 1}
            \/ l > 0 /\ l % Chunk # 0 /\ l < Len(Trace) /\ l' = l + 1

R == Trace[IF l = 0 THEN 1 ELSE l]
Live == l > 0 /\ ~R.fatal

\* the real gun and provider could be built
Built == l = 0 \/ R.build_err = ""
\* the pool never fails because of a response: Engine.Run returned nil
RunOK == Live => R.run_err = ""
\* every ammo was fired: the instances went on after each response
AllFired == Live => R.fired = R.shots /\ R.answered = R.shots

Letters == {R.ammo[j] : j \in 1..Len(R.ammo)}
Shots(x) == Cardinality({j \in 1..Len(R.ammo) : R.ammo[j] = x})
StepName(k, n) == IF n = 1 /\ R.gun \in {"http", "http2", "connect", "grpc"} THEN "" ELSE <<"a", "b">>[k]

Matches(s, e) == /\ (IF e.proto = GE400 THEN s.proto >= 400 ELSE s.proto = e.proto)
                 /\ s.err = e.err
                 /\ s.empty = e.failed

\* per letter: exactly the samples Outcome demands, one set per shot
SamplesOK == Live => \A x \in Letters :
    LET exp == Outcome(R.gun, x, R.posts)
        mine == {j \in 1..Len(R.samples) : R.samples[j].letter = x}
    IN /\ Cardinality(mine) = Shots(x) * Len(exp)
       /\ \A k \in 1..Len(exp) :
            Cardinality({j \in mine : R.samples[j].step = StepName(k, Len(exp)) /\ Matches(R.samples[j], exp[k])}) = Shots(x)
\* and nothing else
NoStray == Live => \A j \in 1..Len(R.samples) : R.samples[j].letter \in Letters
\* the run is one the alphabet knows
Known == Live => \A x \in Letters : x \in LettersOf(R.gun)
=============================================================================
